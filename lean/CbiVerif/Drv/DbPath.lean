import Lean.Data.Json
import CbiVerif.Model.DbPath
import CbiVerif.Spec.DbResolve
/-! driver ops for C13: `dbpath` (one path primitive), `dbload` (a whole database: model + spec) -/
open Lean
namespace CbiVerif.Drv.DbPath
open CbiVerif.DbPath

def js (s : Str) : Json := Json.str (String.ofList s)
def jl (l : List Str) : Json := Json.arr (l.map js).toArray
def getS (j : Json) (k : String) : Str := ((j.getObjValAs? String k).toOption.getD "").toList
def strs (j : Json) : List Str :=
  (j.getArr?.toOption.getD #[]).toList.map fun x => (x.getStr?.toOption.getD "").toList

def errName : Err → String
  | .schema => "schema" | .keyError => "keyError"
  | .noClosingQuotation => "noClosingQuotation" | .noEscapedCharacter => "noEscapedCharacter"

/-- one primitive of the path algebra -/
def handlePath (j : Json) : Json :=
  let a := getS j "a"
  let b := getS j "b"
  let cwd := getS j "cwd"
  match (j.getObjValAs? String "fn").toOption.getD "" with
  | "isabs" => Json.mkObj [("r", Json.bool (isabs a))]
  | "join" => Json.mkObj [("r", js (join a b))]
  | "normpath" => Json.mkObj [("r", js (normpath a))]
  | "abspath" => Json.mkObj [("r", js (abspath cwd a))]
  | "split" => Json.mkObj [("r", jl (split a))]
  | "name" => Json.mkObj [("r", js (pyName a))]
  | "suffix" => Json.mkObj [("r", js (suffixOfName (pyName a)))]
  | "is_source" => Json.mkObj [("r", Json.bool (isSource a))]
  | "shsplit" => match shSplit a with
    | .ok l => Json.mkObj [("r", jl l)]
    | .error e => Json.mkObj [("error", errName e)]
  | "all" =>   -- everything about one string in one reply (exhaustive sweeps)
    Json.mkObj [("isabs", Json.bool (isabs a)), ("normpath", js (normpath a)), ("abspath", js (abspath cwd a)),
                ("join", js (join cwd a)), ("name", js (pyName a)), ("suffix", js (suffixOfName (pyName a))),
                ("is_source", Json.bool (isSource a)),
                ("resolve", jl (CbiVerif.DbResolve.resolve (CbiVerif.DbResolve.locOf cwd) a)),
                ("ext", js (CbiVerif.DbResolve.extension (pyName a)))]
  | f => Json.mkObj [("unknown_fn", f)]

partial def toJV : Json → JV
  | .null => .null
  | .bool b => .bool b
  | .num _ => .num
  | .str s => .str s.toList
  | .arr a => .arr (a.toList.map toJV)
  | .obj kvs => .obj (kvs.toList.map fun (k, v) => (k.toList, toJV v))

/-- pass payload = pass name -/
abbrev Pass := String

def parseTable (j : Json) : List (List Str × List (Pass × List Str)) :=
  ((j.getObjValAs? (Array Json) "parses").toOption.getD #[]).toList.map fun e =>
    match e with
    | Json.arr a =>
      (strs (a[0]!), ((a[1]!).getArr?.toOption.getD #[]).toList.map fun p =>
        match p with
        | Json.arr q => ((q[0]!).getStr?.toOption.getD "", strs (q[1]!))
        | _ => ("", []))
    | _ => ([], [])

/-- table of answers of the existence oracle; absent table = everything exists -/
def exTable (j : Json) (k : String) : Option (List (Json × Bool)) :=
  match j.getObjVal? k with
  | .ok (Json.arr a) => some (a.toList.map fun e => match e with
      | Json.arr q => (q[0]!, (q[1]!).getBool?.toOption.getD false)
      | _ => (Json.null, false))
  | _ => none

def lookupEx (t : Option (List (Json × Bool))) (key : Json) : Bool :=
  match t with
  | none => true
  | some l => ((l.find? fun kv => kv.1 == key).map (·.2)).getD false

def handleLoad (j : Json) : Json :=
  let cwd := getS j "cwd"
  let root := getS j "root"
  let doc := toJV ((j.getObjVal? "doc").toOption.getD Json.null)
  let table := parseTable j
  let parse : List Str → List (Pass × List Str) := fun argv => ((table.find? fun kv => kv.1 == argv).map (·.2)).getD []
  let exT := exTable j "exists"
  let exLT := exTable j "exists_loc"
  let ex : Str → Bool := fun p => lookupEx exT (js p)
  let exL : CbiVerif.DbResolve.Loc → Bool := fun l => lookupEx exLT (jl l)
  let model : Json :=
    match loadDatabase cwd root ex parse doc with
    | .error e => Json.mkObj [("error", errName e)]
    | .ok r => Json.mkObj [
        ("entries", Json.arr (r.entries.map fun o => Json.mkObj [("file", js o.file), ("include_paths", jl o.includePaths), ("pass", Json.str o.pass)]).toArray),
        ("missing", Json.arr (r.logs.map fun l => match l with | .missing p => js p).toArray),
        ("empty_warning", Json.bool r.emptyWarning)]
  -- the commands as the model reads them (for the candidate paths and as the spec's input)
  let cmds : List Cmd := match doc with
    | .arr items => (cmdsOfJson items).toOption.getD []
    | _ => []
  let supported := cmds.filter fun c => match c.argv with
    | .ok a => !a.isEmpty && isSource c.file
    | .error _ => false
  let candidates := supported.map (entryPath cwd root)
  let specIn : List CbiVerif.DbResolve.Entry := cmds.map fun c =>
    { file := c.file, directory := c.directory, argv := (c.argv.toOption.getD []) }
  let rootL := CbiVerif.DbResolve.rootLoc cwd root
  let wf := schemaOK doc && isabs cwd && cmds.all (fun c => c.argv.toOption.isSome)
              && (match doc with | .arr items => (cmdsOfJson items).toOption.isSome | _ => false)
  let (exp, miss) := CbiVerif.DbResolve.expect rootL exL parse specIn
  let spec : Json := Json.mkObj [
    ("wf", Json.bool wf),
    ("entries", Json.arr (exp.map fun o => Json.mkObj [("file", jl o.file), ("include", Json.arr (o.includeDirs.map jl).toArray), ("pass", Json.str o.pass)]).toArray),
    ("missing", Json.arr (miss.map jl).toArray),
    ("candidates", Json.arr ((specIn.filter fun e => !e.argv.isEmpty).map fun e => jl (CbiVerif.DbResolve.fileLoc rootL e)).toArray)]
  Json.mkObj [("model", model), ("candidates", jl candidates), ("spec", spec)]

def handlers : List (String × (Json → Json)) := [("dbpath", handlePath), ("dbload", handleLoad)]

end CbiVerif.Drv.DbPath
