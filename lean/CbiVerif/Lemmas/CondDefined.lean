import CbiVerif.Props.C02Text
import CbiVerif.Lemmas.MacroDefinedList
import CbiVerif.Lemmas.ExpandPP
import CbiVerif.Model.CondFragment
/-! # from the token-list reference `MX.ED` to the parse tree

`Lemmas/MacroDefinedList.lean` gives the expansion of a whole token list (object-like table, `defined` anywhere) as `MX.ED`.
Here: when the token list has the kinds and texts of the SOURCE tokens of a parse tree `a` (`renderSrc a`: `defined X`,
`defined ( X )`, identifiers, constants, operators, parentheses) and every identifier leaf is inside the fragment
(`CondFrag.leafOK`), then `ED` of it has the kinds and texts of `render env (substA s a)` — the token list the evaluator
theorem `C02.main_partial` is about — with `env` = "is a name of the table" and the macro names replaced by the trees their
expansions spell.  By induction on the tree, with an arbitrary continuation `rest` of the token list.

(Imports `Props/C02Text.lean` for `render_eq_renderSrc`.) -/
namespace CbiVerif.CondFrag
open CbiVerif.PP CbiVerif.Climb CbiVerif.CExpr CbiVerif.EvalBridge CbiVerif.MX

abbrev K (l : List Tok) : List (TKind × String) := l.map key

theorem K_cons {ts : List Tok} {k : TKind × String} {ks : List (TKind × String)} (h : K ts = k :: ks) :
    ∃ t ts', ts = t :: ts' ∧ key t = k ∧ K ts' = ks := List.map_eq_cons_iff.mp h
theorem K_append {ts : List Tok} {A B : List (TKind × String)} (h : K ts = A ++ B) :
    ∃ t1 t2, ts = t1 ++ t2 ∧ K t1 = A ∧ K t2 = B := List.map_eq_append_iff.mp h
theorem K_nil {ts : List Tok} (h : K ts = []) : ts = [] := List.map_eq_nil_iff.mp h

theorem E_single_other (tbl : Table) (d : Nat) (t : Tok) (h : t.kind ≠ .ident) : E tbl (d + 1) [] [t] = [t] := by
  have hk : (t.kind != TKind.ident) = true := by simpa using h
  rw [E]; simp [hk, E_single_nil]

/-- a token that is no identifier is copied -/
theorem single_nonident (tbl : Table) (d : Nat) (t t' : Tok) (hk : key t = key t') (hni : t'.kind ≠ .ident) (rest : List Tok) :
    K (ED tbl (d + 1) (t :: rest)) = K [t'] ++ K (ED tbl (d + 1) rest) ∧ defOK (t :: rest) = defOK rest ∧
    noMacro tbl (t :: rest) = noMacro tbl rest := by
  have hkk : t.kind = t'.kind := congrArg Prod.fst hk
  have hni' : t.kind ≠ .ident := by rw [hkk]; exact hni
  have hd : isDef t = false := by simp [isDef, hni']
  refine ⟨?_, defOK_other t rest hd, by rw [noMacro_other tbl t rest hd]; simp [hni']⟩
  rw [ED_other tbl _ t rest hd, E_single_other tbl d t hni']
  simp only [K, List.map_cons, List.map_nil, List.cons_append, List.nil_append, hk]

theorem tok_eta (t : Tok) (n : String) (hk : key t = (.ident, n)) (he : t.expandable = true) : t = ⟨.ident, n, t.pw, true⟩ := by
  obtain ⟨k, x, p, e⟩ := t
  simp only [key, Prod.mk.injEq] at hk
  simp only at he
  simp [hk.1, hk.2, he]

/-- an identifier leaf inside the fragment: copied when it is no macro name, otherwise replaced by tokens with the kinds and
    texts of the tree the substitution gives -/
theorem ident_leaf (tbl : Table) (s : Sub) (n : String)
    (hobj : (TblOK tbl ∧ tbl.length + 2 < CbiVerif.Gen.maxLevel) ∨ tbl.get n = none)
    (hn : leafOK tbl s n = true) (t : Tok) (hk : key t = (.ident, n)) (he : t.expandable = true) (rest : List Tok) :
    K (ED tbl (tbl.length + 1) (t :: rest)) = K (render (envOf tbl) (substA s (.ident n))) ++ K (ED tbl (tbl.length + 1) rest) ∧
    defOK (t :: rest) = defOK rest ∧ (tbl.get n = none → noMacro tbl (t :: rest) = noMacro tbl rest) := by
  have hteq := tok_eta t n hk he
  have htk : t.kind = .ident := congrArg Prod.fst hk
  have htt : t.text = n := congrArg Prod.snd hk
  simp only [leafOK, Bool.and_eq_true, bne_iff_ne, ne_eq] at hn
  obtain ⟨hnd, hn⟩ := hn
  have hd : isDef t = false := by simp [isDef, htt, hnd]
  refine ⟨?_, defOK_other t rest hd, fun hnone => by rw [noMacro_other tbl t rest hd]; simp [htt, hnone]⟩
  rw [ED_other tbl _ t rest hd]
  have hk' : (t.kind != TKind.ident) = false := by simp [htk]
  have hq0 : (!t.expandable || ([] : NoExp).contains (some t.text)) = false := by simp [he]
  cases hm : tbl.get n with
  | none =>
    cases hs : s.get n with
    | some b => simp [hm, hs] at hn
    | none =>
      have hE : E tbl (tbl.length + 1) [] [t] = [t] := by
        rw [E]; simp [hk', he, htt, hm, E_single_nil]
      rw [hE]
      simp only [substA, hs, Option.getD_none, render, toClimb, Climb.Ast.render, K, List.map_cons, List.map_nil,
        List.cons_append, List.nil_append, List.map_append]
      rw [hk]; rfl
  | some m =>
    cases hs : s.get n with
    | none => simp [hm, hs] at hn
    | some b =>
      simp only [hm, hs, Bool.and_eq_true] at hn
      obtain ⟨hnb, hx⟩ := hn
      obtain ⟨hT, hsz⟩ : TblOK tbl ∧ tbl.length + 2 < CbiVerif.Gen.maxLevel := by
        rcases hobj with h | h
        · exact h
        · rw [hm] at h; exact absurd h (by simp)
      -- the model expander on the one-token list, by hypothesis …
      have hx' : ∃ r, cbiExpand tbl [t] = .ok r ∧ K r = K (renderSrc b) := by
        simp only [expandsTo, List.all_cons, List.all_nil, Bool.and_true, Bool.and_eq_true] at hx
        rw [hteq]
        cases t.pw with
        | false =>
          cases hc : cbiExpand tbl [⟨.ident, n, false, true⟩] with
          | ok r => have := hx.1; simp only [hc, beq_iff_eq] at this; exact ⟨r, rfl, this⟩
          | error e => have := hx.1; simp [hc] at this
          | fuel => have := hx.1; simp [hc] at this
        | true =>
          cases hc : cbiExpand tbl [⟨.ident, n, true, true⟩] with
          | ok r => have := hx.2; simp only [hc, beq_iff_eq] at this; exact ⟨r, rfl, this⟩
          | error e => have := hx.2; simp [hc] at this
          | fuel => have := hx.2; simp [hc] at this
      obtain ⟨r, hr, hKr⟩ := hx'
      -- … and by the object-like theorem
      have hnoDef : NoDef [t] := by
        intro x hxm; simp only [List.mem_singleton] at hxm; subst hxm; rw [htt]; exact hnd
      have hobj : cbiExpand tbl [t] = .ok (E tbl (tbl.length + 1) [] [t]) := by
        unfold cbiExpand
        exact expandWith_obj realCfg tbl hT [t] hnoDef hsz (fuelFor tbl [t]) (by unfold fuelFor; omega)
      have hE : E tbl (tbl.length + 1) [] [t] = r := by
        rw [hobj] at hr; injection hr
      rw [hE]
      simp only [substA, hs, Option.getD_some, K, List.map_append]
      rw [CbiVerif.C02.render_eq_renderSrc (envOf tbl) b hnb]
      exact congrArg (· ++ _) hKr

theorem isDefined_eq (tbl : Table) (n : String) : isDefined tbl n = (if envOf tbl n then "1" else "0") := by
  cases h : (tbl.get n).isSome <;> simp [isDefined, envOf, h]

theorem ident_ne_lparen (n : String) (h : CbiVerif.LexRT.identOK n.toList = true) : n ≠ "(" := by
  intro hn; subst hn; exact absurd h (by decide)

/-- **the expansion of the source tokens of a parse tree** -/
theorem ED_tree (tbl : Table) (s : Sub) (a : CExpr.Ast)
    (hobj : (TblOK tbl ∧ tbl.length + 2 < CbiVerif.Gen.maxLevel) ∨ ∀ n ∈ identLeaves a, tbl.get n = none)
    (hl : CbiVerif.LexSource.lexable a = true) (hleaf : ∀ n ∈ identLeaves a, leafOK tbl s n = true) :
    ∀ (ts rest : List Tok), K ts = K (renderSrc a) → (∀ t ∈ ts, t.expandable = true) →
      K (ED tbl (tbl.length + 1) (ts ++ rest)) = K (render (envOf tbl) (substA s a)) ++ K (ED tbl (tbl.length + 1) rest) ∧
      defOK (ts ++ rest) = defOK rest ∧
      ((∀ n ∈ identLeaves a, tbl.get n = none) → noMacro tbl (ts ++ rest) = noMacro tbl rest) := by
  induction a with
  | lit l =>
    intro ts rest hK _
    obtain ⟨t, ts', rfl, hk, hK'⟩ := K_cons hK
    have := K_nil hK'; subst this
    obtain ⟨h1, g1, m1⟩ := single_nonident tbl _ t (EvalBridge.numTok l.spell) hk (by simp [EvalBridge.numTok]) rest
    exact ⟨h1, g1, fun _ => m1⟩
  | chr c =>
    intro ts rest hK _
    obtain ⟨t, ts', rfl, hk, hK'⟩ := K_cons hK
    have := K_nil hK'; subst this
    obtain ⟨h1, g1, m1⟩ := single_nonident tbl _ t (chrTok (String.ofList c.chars)) hk (by simp [chrTok]) rest
    exact ⟨h1, g1, fun _ => m1⟩
  | ident n =>
    intro ts rest hK he
    obtain ⟨t, ts', rfl, hk, hK'⟩ := K_cons hK
    have := K_nil hK'; subst this
    obtain ⟨h1, g1, m1⟩ := ident_leaf tbl s n (hobj.imp_right (fun h => h n (by simp [identLeaves])))
      (hleaf n (by simp [identLeaves])) t hk (he t (by simp)) rest
    exact ⟨h1, g1, fun h => m1 (h n (by simp [identLeaves]))⟩
  | defd n p =>
    intro ts rest hK _
    have hid : CbiVerif.LexRT.identOK n.toList = true := by simpa [CbiVerif.LexSource.lexable] using hl
    cases p with
    | true =>
      simp only [renderSrc, if_true, K, List.map_cons, List.map_nil] at hK
      obtain ⟨t1, r1, rfl, hk1, hK1⟩ := K_cons hK
      obtain ⟨t2, r2, rfl, hk2, hK2⟩ := K_cons hK1
      obtain ⟨t3, r3, rfl, hk3, hK3⟩ := K_cons hK2
      obtain ⟨t4, r4, rfl, hk4, hK4⟩ := K_cons hK3
      have := K_nil hK4; subst this
      simp only [key, identTok, lpTok, rpTok, Prod.mk.injEq] at hk1 hk2 hk3 hk4
      have hd : isDef t1 = true := by simp [isDef, hk1.1, hk1.2]
      simp only [List.cons_append, List.nil_append]
      rw [ED_paren tbl _ t1 t2 t3 t4 rest hd hk2.2, defOK_paren t1 t2 t3 t4 rest hd hk2.2,
        noMacro_paren tbl t1 t2 t3 t4 rest hd hk2.2]
      refine ⟨?_, by simp [hk3.1, hk4.2], fun _ => rfl⟩
      simp only [substA, render, toClimb, Climb.Ast.render, K, List.map_cons, List.map_nil, List.cons_append, List.nil_append,
        defTok, MX.numTok, key, definedTok, EvalBridge.numTok, hk3.2, isDefined_eq]
    | false =>
      simp only [renderSrc, Bool.false_eq_true, if_false, K, List.map_cons, List.map_nil] at hK
      obtain ⟨t1, r1, rfl, hk1, hK1⟩ := K_cons hK
      obtain ⟨t2, r2, rfl, hk2, hK2⟩ := K_cons hK1
      have := K_nil hK2; subst this
      simp only [key, identTok, Prod.mk.injEq] at hk1 hk2
      have hd : isDef t1 = true := by simp [isDef, hk1.1, hk1.2]
      have hx : t2.text ≠ "(" := by rw [hk2.2]; exact ident_ne_lparen n hid
      simp only [List.cons_append, List.nil_append]
      rw [ED_plain tbl _ t1 t2 rest hd hx, defOK_plain t1 t2 rest hd hx, noMacro_plain tbl t1 t2 rest hd hx]
      refine ⟨?_, by simp [hk2.1], fun _ => rfl⟩
      simp only [substA, render, toClimb, Climb.Ast.render, K, List.map_cons, List.map_nil, List.cons_append, List.nil_append,
        defTok, MX.numTok, key, definedTok, EvalBridge.numTok, hk2.2, isDefined_eq]
  | paren a ih =>
    intro ts rest hK he
    have hl' : CbiVerif.LexSource.lexable a = true := by simpa [CbiVerif.LexSource.lexable] using hl
    have hleaf' : ∀ n ∈ identLeaves a, leafOK tbl s n = true := fun n hn => hleaf n (by simpa [identLeaves] using hn)
    have hobj' : (TblOK tbl ∧ tbl.length + 2 < CbiVerif.Gen.maxLevel) ∨ ∀ n ∈ identLeaves a, tbl.get n = none :=
      hobj.imp_right (fun h n hn => h n (by simpa [identLeaves] using hn))
    simp only [renderSrc, K, List.map_cons, List.map_append, List.map_nil] at hK
    obtain ⟨t1, r1, rfl, hk1, hK1⟩ := K_cons hK
    obtain ⟨ta, r2, rfl, hKa, hK2⟩ := K_append hK1
    obtain ⟨t2, r3, rfl, hk2, hK3⟩ := K_cons hK2
    have := K_nil hK3; subst this
    have e : (t1 :: (ta ++ [t2])) ++ rest = t1 :: (ta ++ (t2 :: rest)) := by simp
    rw [e]
    obtain ⟨h1, g1, m1⟩ := single_nonident tbl tbl.length t1 lpTok hk1 (by simp [lpTok]) (ta ++ (t2 :: rest))
    obtain ⟨h2, g2, m2⟩ := ih hobj' hl' hleaf' ta (t2 :: rest) hKa (fun t ht => he t (by simp [ht]))
    obtain ⟨h3, g3, m3⟩ := single_nonident tbl tbl.length t2 rpTok hk2 (by simp [rpTok]) rest
    refine ⟨?_, by rw [g1, g2, g3], fun h => by rw [m1, m2 (fun n hn => h n (by simpa [identLeaves] using hn)), m3]⟩
    rw [h1, h2, h3]
    simp only [substA, render, toClimb, Climb.Ast.render, K, List.map_cons, List.map_append, List.map_nil, List.cons_append,
      List.nil_append, List.append_assoc]
  | un op a ih =>
    intro ts rest hK he
    have hl' : CbiVerif.LexSource.lexable a = true := by simpa [CbiVerif.LexSource.lexable] using hl
    have hleaf' : ∀ n ∈ identLeaves a, leafOK tbl s n = true := fun n hn => hleaf n (by simpa [identLeaves] using hn)
    have hobj' : (TblOK tbl ∧ tbl.length + 2 < CbiVerif.Gen.maxLevel) ∨ ∀ n ∈ identLeaves a, tbl.get n = none :=
      hobj.imp_right (fun h n hn => h n (by simpa [identLeaves] using hn))
    simp only [renderSrc, K, List.map_cons] at hK
    obtain ⟨t1, ta, rfl, hk1, hKa⟩ := K_cons hK
    simp only [List.cons_append]
    obtain ⟨h1, g1, m1⟩ := single_nonident tbl tbl.length t1 (opTok op.sym) hk1 (by simp [opTok]) (ta ++ rest)
    obtain ⟨h2, g2, m2⟩ := ih hobj' hl' hleaf' ta rest hKa (fun t ht => he t (by simp [ht]))
    refine ⟨?_, by rw [g1, g2], fun h => by rw [m1, m2 (fun n hn => h n (by simpa [identLeaves] using hn))]⟩
    rw [h1, h2]
    simp only [substA, render, toClimb, Climb.Ast.render, K, List.map_cons, List.map_append, List.map_nil, List.cons_append,
      List.nil_append, List.append_assoc]
  | bin op l r ihl ihr =>
    intro ts rest hK he
    have hl' : CbiVerif.LexSource.lexable l = true ∧ CbiVerif.LexSource.lexable r = true := by
      simpa [CbiVerif.LexSource.lexable] using hl
    have hleafl : ∀ n ∈ identLeaves l, leafOK tbl s n = true := fun n hn => hleaf n (by simp [identLeaves, hn])
    have hleafr : ∀ n ∈ identLeaves r, leafOK tbl s n = true := fun n hn => hleaf n (by simp [identLeaves, hn])
    have hobjl : (TblOK tbl ∧ tbl.length + 2 < CbiVerif.Gen.maxLevel) ∨ ∀ n ∈ identLeaves l, tbl.get n = none :=
      hobj.imp_right (fun h n hn => h n (by simp [identLeaves, hn]))
    have hobjr : (TblOK tbl ∧ tbl.length + 2 < CbiVerif.Gen.maxLevel) ∨ ∀ n ∈ identLeaves r, tbl.get n = none :=
      hobj.imp_right (fun h n hn => h n (by simp [identLeaves, hn]))
    simp only [renderSrc, K, List.map_cons, List.map_append] at hK
    obtain ⟨tl, r1, rfl, hKl, hK1⟩ := K_append hK
    obtain ⟨t1, tr, rfl, hk1, hKr⟩ := K_cons hK1
    have e : (tl ++ t1 :: tr) ++ rest = tl ++ (t1 :: (tr ++ rest)) := by simp
    rw [e]
    obtain ⟨h1, g1, m1⟩ := ihl hobjl hl'.1 hleafl tl (t1 :: (tr ++ rest)) hKl (fun t ht => he t (by simp [ht]))
    obtain ⟨h2, g2, m2⟩ := single_nonident tbl tbl.length t1 (opTok op.sym) hk1 (by simp [opTok]) (tr ++ rest)
    obtain ⟨h3, g3, m3⟩ := ihr hobjr hl'.2 hleafr tr rest hKr (fun t ht => he t (by simp [ht]))
    refine ⟨?_, by rw [g1, g2, g3], fun h => by
      rw [m1 (fun n hn => h n (by simp [identLeaves, hn])), m2, m3 (fun n hn => h n (by simp [identLeaves, hn]))]⟩
    rw [h1, h2, h3]
    simp only [substA, render, toClimb, Climb.Ast.render, K, List.map_cons, List.map_append, List.map_nil, List.cons_append,
      List.nil_append, List.append_assoc]
  | tern c t e ihc iht ihe =>
    intro ts rest hK he
    have hl' : (CbiVerif.LexSource.lexable c = true ∧ CbiVerif.LexSource.lexable t = true) ∧ CbiVerif.LexSource.lexable e = true := by
      simpa [CbiVerif.LexSource.lexable] using hl
    have hleafc : ∀ n ∈ identLeaves c, leafOK tbl s n = true := fun n hn => hleaf n (by simp [identLeaves, hn])
    have hleaft : ∀ n ∈ identLeaves t, leafOK tbl s n = true := fun n hn => hleaf n (by simp [identLeaves, hn])
    have hleafe : ∀ n ∈ identLeaves e, leafOK tbl s n = true := fun n hn => hleaf n (by simp [identLeaves, hn])
    have hobjc : (TblOK tbl ∧ tbl.length + 2 < CbiVerif.Gen.maxLevel) ∨ ∀ n ∈ identLeaves c, tbl.get n = none :=
      hobj.imp_right (fun h n hn => h n (by simp [identLeaves, hn]))
    have hobjt : (TblOK tbl ∧ tbl.length + 2 < CbiVerif.Gen.maxLevel) ∨ ∀ n ∈ identLeaves t, tbl.get n = none :=
      hobj.imp_right (fun h n hn => h n (by simp [identLeaves, hn]))
    have hobje : (TblOK tbl ∧ tbl.length + 2 < CbiVerif.Gen.maxLevel) ∨ ∀ n ∈ identLeaves e, tbl.get n = none :=
      hobj.imp_right (fun h n hn => h n (by simp [identLeaves, hn]))
    simp only [renderSrc, K, List.map_cons, List.map_append] at hK
    obtain ⟨tc, r1, rfl, hKc, hK1⟩ := K_append hK
    obtain ⟨q1, r2, rfl, hk1, hK2⟩ := K_cons hK1
    obtain ⟨tt, r3, rfl, hKt, hK3⟩ := K_append hK2
    obtain ⟨q2, te, rfl, hk2, hKe⟩ := K_cons hK3
    have e0 : (tc ++ q1 :: (tt ++ q2 :: te)) ++ rest = tc ++ (q1 :: (tt ++ (q2 :: (te ++ rest)))) := by simp
    rw [e0]
    obtain ⟨h1, g1, m1⟩ := ihc hobjc hl'.1.1 hleafc tc (q1 :: (tt ++ (q2 :: (te ++ rest)))) hKc (fun x hx => he x (by simp [hx]))
    obtain ⟨h2, g2, m2⟩ := single_nonident tbl tbl.length q1 (opTok "?") hk1 (by simp [opTok]) (tt ++ (q2 :: (te ++ rest)))
    obtain ⟨h3, g3, m3⟩ := iht hobjt hl'.1.2 hleaft tt (q2 :: (te ++ rest)) hKt (fun x hx => he x (by simp [hx]))
    obtain ⟨h4, g4, m4⟩ := single_nonident tbl tbl.length q2 (opTok ":") hk2 (by simp [opTok]) (te ++ rest)
    obtain ⟨h5, g5, m5⟩ := ihe hobje hl'.2 hleafe te rest hKe (fun x hx => he x (by simp [hx]))
    refine ⟨?_, by rw [g1, g2, g3, g4, g5], fun h => by
      rw [m1 (fun n hn => h n (by simp [identLeaves, hn])), m2, m3 (fun n hn => h n (by simp [identLeaves, hn])), m4,
        m5 (fun n hn => h n (by simp [identLeaves, hn]))]⟩
    rw [h1, h2, h3, h4, h5]
    simp only [substA, render, toClimb, Climb.Ast.render, K, List.map_cons, List.map_append, List.map_nil, List.cons_append,
      List.nil_append, List.append_assoc]

/-- an identifier leaf is a token of the source -/
theorem identLeaf_mem_renderSrc (a : CExpr.Ast) (n : String) (h : n ∈ identLeaves a) : identTok n ∈ renderSrc a := by
  induction a with
  | lit l => simp [identLeaves] at h
  | chr c => simp [identLeaves] at h
  | ident m => simp only [identLeaves, List.mem_singleton] at h; subst h; simp [renderSrc]
  | defd m p => simp [identLeaves] at h
  | paren a ih => simp only [identLeaves] at h; simp [renderSrc, ih h]
  | un op a ih => simp only [identLeaves] at h; simp [renderSrc, ih h]
  | bin op l r ihl ihr =>
    simp only [identLeaves, List.mem_append] at h
    rcases h with h | h
    · simp [renderSrc, ihl h]
    · simp [renderSrc, ihr h]
  | tern c t e ihc iht ihe =>
    simp only [identLeaves, List.mem_append] at h
    rcases h with h | h | h
    · simp [renderSrc, ihc h]
    · simp [renderSrc, iht h]
    · simp [renderSrc, ihe h]

/-- the empty substitution changes nothing -/
theorem substA_nil (a : CExpr.Ast) : substA [] a = a := by
  induction a with
  | lit l => rfl
  | chr c => rfl
  | ident n => simp [substA, Sub.get]
  | defd n p => rfl
  | paren a ih => simp [substA, ih]
  | un op a ih => simp [substA, ih]
  | bin op l r ihl ihr => simp [substA, ihl, ihr]
  | tern c t e ihc iht ihe => simp [substA, ihc, iht, ihe]

end CbiVerif.CondFrag
