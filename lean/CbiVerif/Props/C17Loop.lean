import CbiVerif.Lemmas.FLoopRegen
/-!
# C17 — the model of the `fortran_file_source` loop is the machine tabulated from the running loop

`Generated/FLoopTable.lean` is rewritten on every run by executing the checkout's `fortran_file_source`
(`tools/gen/cleaner.py`, `floop_tables`): from every loop configuration reachable from the start of a file
(cleaner state stack and `verify_continue` × pending logical line: empty / blank / code, with and without
`trailing_space`; reached by a real prefix text, closure computed by execution) every physical-line kind is read
(one line of every class of the regenerated step table of `fortran_cleaner.process`, directive lines, `#` behind
`&` or text, a logical line of two physical lines, a blank line), and the observed iteration is recorded: the
logical lines yielded while the kind is processed (their `lines` = which physical lines are counted, their text
and category), the cleaner configuration afterwards, what is flushed when the file ends there and whether that
raises, and what is yielded when a line `A` / blank `A` follows (which reveals the pending logical line exactly).
The theorems below are re-checked against that file on every run: a behavioural change of the loop (the directive
cut, the BLANK test, the `CONTINUING_FROM_SOL` test, what survives from one physical line to the next, the end
of the file) makes one of them fail to build; a refactoring that keeps the behaviour does not.
-/
namespace CbiVerif.C17
open CbiVerif.Fortran CbiVerif.Fortran.Regen

/-- **C17.floop_step_machine.**  The recursive loop model the C17 theorems are about (`fPass` = `fLoop` from the initial
    configuration, executed by the driver as part of `fortranSource`) is, for EVERY list of C-pass logical lines, the
    iteration of the one-step function `fStep` followed by the code after the loop (`fEndOut`: flush the pending
    logical line, `fEndOk`: raise unless the cleaner is at top level) — the functions the table theorems are about. -/
theorem floop_step_machine (cls : List CL) :
    fPass cls = if fEndOk (fRun {} cls).1 then .ok ((fRun {} cls).2 ++ fEndOut (fRun {} cls).1) else .error .notTop :=
  fPass_eq_run cls

/-- **C17.floop_source_machine.**  At text level: `fortranSource` — the function `C17.lines_eq_ref` and the `structural_*`
    theorems are about, and the one the driver executes for the correspondence — is the C pass followed by that machine.
    (`lines_eq_ref` assumes nothing about the loop: its only hypothesis is that the reference accepts the text.) -/
theorem floop_source_machine (text : String) (cls : List CL) (h : dPass (splitLines text) = .ok cls) :
    fortranSource text =
      if fEndOk (fRun {} cls).1 then .ok ((fRun {} cls).2 ++ fEndOut (fRun {} cls).1) else .error .notTop := by
  unfold fortranSource
  rw [h]
  exact fPass_eq_run cls

/-- the hypothesis is satisfiable: a continued statement, a comment line inside it, a directive that cuts it -/
example : (dPass (splitLines "x &\n ! c\n#A\n")).toOption =
    some [⟨[1], "x &".toList⟩, ⟨[2], " ! c".toList⟩, ⟨[3], "#A".toList⟩] := by decide

/-- the same from any configuration, one iteration at a time -/
theorem floop_step_machine_cons (k : LCfg) (cl : CL) (rest : List CL) :
    fLoop k.s k.cur k.lines (cl :: rest) =
      (fLoop (fStep k cl).1.s (fStep k cl).1.cur (fStep k cl).1.lines rest).map ((fStep k cl).2 ++ ·) :=
  fLoop_cons k cl rest

/-- **C17.floop_table_agrees.**  For every listed loop configuration (reached by executing the real loop on the recorded
    prefix) and every physical-line kind: the C pass's verdict "directive" on the logical lines it hands to the loop is
    the model's `isDirText`, and one iteration of the model (`fRun` = `fStep` on those logical lines, then `fEndOut` /
    `fEndOk`, then the two revealing follow-up lines) yields exactly the logical lines (`lines`, text, category), the
    cleaner configuration, the end-of-file flush and the end-of-file exception that the real `fortran_file_source`
    produced when it was executed. -/
theorem floop_table_agrees : ∀ c ∈ Gen.FLoopTable.configs, ∀ r ∈ c.2,
    (∀ y ∈ r.2.1, isDirText (chars y.2.1) = y.2.2) ∧
    r.2.2 = loopObs (cfgAfter c.1.2.1) (c.1.1.length + r.1.length) r.2.1 := by
  intro c hc r hr
  have h := List.all_eq_true.mp (List.all_eq_true.mp loopRows_ok c hc) r hr
  simp only [loopRowOK, Bool.and_eq_true, beq_iff_eq, List.all_eq_true] at h
  exact h

/-- **C17.floop_table_closed.**  The table starts at the start of a file (no prefix, initial configuration); the
    configuration recorded for every prefix — cleaner configuration, category / emptiness / `trailing_space` of the
    pending logical line, decoded from the real loop's output — is the model's configuration after that prefix; every
    configuration lists exactly the kinds announced for its cleaner configuration; and the configuration after every
    probe is again (in that abstraction) a listed one: no run of the loop leaves the table. -/
theorem floop_table_closed :
    Gen.FLoopTable.configs.head?.map (·.1) = some ([], [], (([0], []), 0, true, false)) ∧
    (∀ c ∈ Gen.FLoopTable.configs, absCfg (cfgAfter c.1.2.1) = c.1.2.2 ∧ some (c.2.map (·.1)) = kindsOf c.1.2.2.1) ∧
    (∀ c ∈ Gen.FLoopTable.configs, ∀ r ∈ c.2,
      r.2.2.1 = true ∨ absCfg (fRun (cfgAfter c.1.2.1) (r.2.1.map clOf)).1 ∈ keys) := by
  have hs := loopShape_ok
  have hc := loopClosed_ok
  simp only [loopShapeOK, Bool.and_eq_true, beq_iff_eq, List.all_eq_true] at hs
  simp only [loopClosedOK, List.all_eq_true, Bool.or_eq_true, List.contains_iff_mem] at hc
  exact ⟨hs.1, fun c h => ⟨(hs.2 c h).1.2, (hs.2 c h).2⟩, hc⟩

/-- **C17.floop_kinds_cover.**  The kinds probed from a cleaner configuration are complete with respect to the regenerated
    step table of `fortran_cleaner.process` (`C17.step_table_agrees`): for every line of that table that reaches the loop
    as it is (no backslash, not blank) some probed one-line kind has the same result as far as the loop can see it
    (configuration afterwards, buffer empty / its category / leading blank / `trailing_space`); and the kinds the C pass
    treats specially are probed: `#`, TAB `#`, `#A`, NUL `#`, `&#`, `&` TAB `#`, `&#&`, `A\` + `A`, the empty line. -/
theorem floop_kinds_cover : ∀ kc ∈ Gen.FLoopTable.kinds,
    ∃ row ∈ Gen.FCleanTable.lines, row.1 = kc.1 ∧
      (∀ p ∈ row.2, plainLine p.1 = true →
        ∃ l q, [l] ∈ kc.2 ∧ q ∈ row.2 ∧ q.1 = l ∧ loopShape q.2 = loopShape p.2) ∧
      (∀ s ∈ [[[35]], [[9, 35]], [[35, 65]], [[0, 35]], [[38, 35]], [[38, 9, 35]], [[38, 35, 38]], [[65, 92], [65]], [[]]], s ∈ kc.2) := by
  intro kc hkc
  have h := List.all_eq_true.mp kindsCover_ok kc hkc
  cases hf : Gen.FCleanTable.lines.find? (·.1 == kc.1) with
  | none => simp [hf] at h
  | some row =>
    simp only [hf, Bool.and_eq_true, List.all_eq_true] at h
    refine ⟨row, List.mem_of_find?_eq_some hf, by simpa using List.find?_some hf, ?_, ?_⟩
    · intro p hp hpl
      have h1 := h.1 p hp
      simp only [hpl, Bool.not_true, Bool.false_or, List.any_eq_true] at h1
      obtain ⟨kind, hk, hm⟩ := h1
      match kind, hk, hm with
      | [l], hk, hm =>
        cases hq : row.2.find? (·.1 == l) with
        | none => simp [hq] at hm
        | some q =>
          simp only [hq, Option.map_some, beq_iff_eq, Option.some.injEq] at hm
          exact ⟨l, q, hk, List.mem_of_find?_eq_some hq, by simpa using List.find?_some hq, hm⟩
    · intro s hs
      have := h.2 s hs
      simpa only [List.contains_iff_mem] using this

/-! non-vacuity: 21 reachable loop configurations, 445 probes; e.g. from "x &" (pending `x `) the comment line ` ! c`
    is not counted, keeps the statement open and leaves the pending line alone; the directive line `#A` cuts it -/
example : Gen.FLoopTable.configs.length = 21 ∧ (Gen.FLoopTable.configs.map (·.2.length)).sum = 445 := by decide
example :
    (loopObs (cfgAfter [([1], [120, 32, 38], false)]) 2 [([2], [32, 33, 32, 99], false)]
      == (false, [], ([2, 0], []), [([1], [120, 32], false)], true,
          [([1, 3], [120, 32, 65], false)], [([1, 3], [120, 32, 65], false)])) = true ∧
    (loopObs (cfgAfter [([1], [120, 32, 38], false)]) 2 [([2], [35, 65], true)]).2.1
      = [([1], [120, 32], false), ([2], [35, 65], true)] := by decide

end CbiVerif.C17
