import CbiVerif.PP.Lexer
/-! Model of `codebasin.preprocessor._character_value`: the value `ExpressionEvaluator.term()` gives to a
    `CharacterConstant` token (spelled without its quotes).  Shared by the proved evaluator (`Model/Eval.lean`)
    and the design-phase port (`PP/Eval.lean`).  Core Lean only. -/
namespace CbiVerif.PP

/-- `_SIMPLE_ESCAPES` -/
def simpleEscapeCode : Char → Option Nat
  | '\'' => some 39 | '"' => some 34 | '?' => some 63 | '\\' => some 92
  | 'a' => some 7 | 'b' => some 8 | 'f' => some 12 | 'n' => some 10
  | 'r' => some 13 | 't' => some 9 | 'v' => some 11
  | _ => none

/-- value of one digit of `[0-9a-fA-F]` -/
def escDigit (c : Char) : Nat :=
  if isDigit c then c.toNat - 48
  else if decide ('a' ≤ c) && decide (c ≤ 'f') then c.toNat - 87
  else c.toNat - 55

/-- `int(s, base)` for a string of digits of the base -/
def escNumber (base : Nat) (cs : List Char) : Nat := cs.foldl (fun n c => n * base + escDigit c) 0

/-- `TypeError` (`ord()` of a string whose length is not 1) | `ValueError` (unknown escape, escape above 255) -/
inductive ChrErr | type_ | value
deriving DecidableEq, Repr, Inhabited

/-- the code of the escape sequence `\` `c` `r`: `_SIMPLE_ESCAPES`, else `_NUMERIC_ESCAPE.fullmatch` and
    `int(…, 8)` / `int(…, 16)` -/
def escapeCode (c : Char) (r : List Char) : Option Nat :=
  if r.isEmpty && (simpleEscapeCode c).isSome then simpleEscapeCode c
  else if isOctDigit c && decide (r.length ≤ 2) && r.all isOctDigit then some (escNumber 8 (c :: r))
  else if c == 'x' && !r.isEmpty && r.all isHexDigit then some (escNumber 16 r)
  else none

/-- `_character_value(token)`: an escape sequence has the range of a signed char -/
def characterValue (cs : List Char) : Except ChrErr Int :=
  match cs with
  | '\\' :: c :: r =>
    match escapeCode c r with
    | some n => if n > 255 then .error .value else .ok (if n ≥ 128 then (n : Int) - 256 else (n : Int))
    | none => .error .value
  | [c] => .ok (c.toNat : Int)
  | _ => .error .type_

end CbiVerif.PP
