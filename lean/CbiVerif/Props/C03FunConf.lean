import CbiVerif.Props.C03FunLike
import CbiVerif.Lemmas.MacroFunSpecC
/-! # C03 — function-like macro expansion conforms to the specification (Prosser's hide-set algorithm)

Model `M` = `CbiVerif.MX.cbiExpand` (the step machine the driver executes), spec `S` = `CbiVerif.Spec.Prosser.prosserToks` on the
translated table (`specTableF`) and text (`toSpec []`).  `Props/C03FunLike.lean` proves `M` = the recursive reference `Ref` on the
fragment `FunTbl` / `fitsb`; here `Ref` = `S` is proved (`Lemmas/MacroFunSpecA-C.lean`), which closes the chain model = spec:

* `funlike_conforms_partial` — tables without `#` / `##` / variadic parameters (`FunTbl`, `ConfTbl`), texts inside `fitsb` and the
  additional decidable condition `confb` (every call has exactly as many arguments as parameters — the specification rejects
  anything else; the arguments of every call met during the run hold no macro name and at most `L` tokens): spellings of
  `cbiExpand` = spellings of the specification.  Nested calls in replacement lists, self-reference, object-like names anywhere
  outside call arguments, function-like names that are not calls, any table size are inside.  The specification's fuel is a
  computed bound (`cost + L + 1 < defaultFuel`);
* `funlike_simple_conforms_partial` — the syntactic sub-fragment (`SimpleTbl`, `simpleText`, `exactArity`): no hypothesis about the
  run is left, and both fuels are closed forms;
* `ref_vs_prosser_witness` — why `fitsb` alone is not enough: a text inside `fitsb` on which the machine (= `Ref` = gcc) and
  Prosser's algorithm differ (a function-like name left over by the expansion of an argument keeps that expansion's hide set;
  C11 6.10.3.4 p.4 leaves this nesting unspecified), so `C03FunLike.FunLikeFull` is not provable as it stands;
* finding D44 (a string literal `","` taken for the argument separator) is repaired: `C03.D44_fixed` in `Props/C03.lean`; literals
  spelled `,` `(` `)` are inside the proved fragment. -/
namespace CbiVerif.C03
open CbiVerif.PP CbiVerif.MX

/-- **function-like fragment, against the specification itself**: for every table whose function-like macros have no `#` / `##` /
    variadic parameter (`FunTbl`), keyed by name and made of comparable tokens (`ConfTbl`), every nesting budget `d` below the
    limit and every text of comparable tokens inside `fitsb` (calls completed in the token list that holds the name) and `confb`
    (exact arity; call arguments without macro names, at most `L` tokens), as long as both fuels cover the computed iteration
    bound, the model of CBI's expander and Prosser's hide-set algorithm produce the same spellings. -/
theorem funlike_conforms_partial (tbl : Table) (ts : List Tok) (d L : Nat) (hT : FunTbl tbl) (hC : ConfTbl tbl)
    (hts : ∀ t ∈ ts, CTok tbl t) (hfit : fitsb tbl d [] ts = true) (hconf : confb tbl L d [] ts = true)
    (hd : d + 1 < CbiVerif.Gen.maxLevel) (hfuel : cost tbl d [] ts + 2 ≤ fuelFor tbl ts)
    (hsfuel : cost tbl d [] ts + L + 1 < CbiVerif.Spec.Prosser.defaultFuel) :
    ∃ r out, cbiExpand tbl ts = .ok r ∧
      CbiVerif.Spec.Prosser.prosserToks (specTableF tbl) (ts.map (toSpec [])) = .ok out ∧
      r.map spellTok = out.map (·.text) := by
  obtain ⟨out, ho, he⟩ := Ref_eq_prosser tbl hC L d ts hts hfit hconf hsfuel
  exact ⟨_, out, funlike_partial tbl ts d hT hfit hd hfuel, ho, he.symm⟩

/-- the hypotheses of `funlike_conforms_partial` on concrete definitions and texts (lexer and `#define` parser included), and
    the common result -/
def inConfFragment (defs : List String) (text : String) (d L : Nat) (expect : List String) : Bool :=
  match buildTable [] defs with
  | .ok tbl =>
    let ts := tokenize text
    funTblb tbl && confTblb tbl && ts.all (ctokb tbl) && fitsb tbl d [] ts && confb tbl L d [] ts &&
      decide (d + 1 < CbiVerif.Gen.maxLevel) && decide (cost tbl d [] ts + 2 ≤ fuelFor tbl ts) &&
      decide (cost tbl d [] ts + L + 1 < CbiVerif.Spec.Prosser.defaultFuel) &&
      (match cbiExpand tbl ts with | .ok r => r.map spellTok == expect | _ => false) &&
      (match CbiVerif.Spec.Prosser.prosserToks (specTableF tbl) (ts.map (toSpec [])) with
       | .ok o => o.map (·.text) == expect | .error _ => false)
  | .error _ => false

/-- non-vacuity: calls of other function-like macros in a replacement list (their arguments are the substituted parameters),
    self-reference (painted), an object-like name rescanned after substitution, a function-like name that is not a call,
    nested parentheses and an empty argument -/
example : inConfFragment ["F(x,y) x+G(y)*N", "G(a) (a a)", "N 3 N", "R(x) R(x)-1", "Z() 7"] "F(p, (q,r)) + R(2) G Z() F(,s);" 5 5
    ["p", "+", "(", "(", "q", ",", "r", ")", "(", "q", ",", "r", ")", ")", "*", "3", "N", "+", "R", "(", "2", ")", "-", "1", "G",
     "7", "+", "(", "s", "s", ")", "*", "3", "N", ";"] = true := by decide +kernel

/-- **simple function-like fragment, against the specification itself**: tables (`SimpleTbl`, `ConfTbl`) whose function-like
    macros have no `#` / `##` / variadic parameter and whose replacement lists hold no function-like macro name; texts (`simpleText`,
    `exactArity`) in which every function-like macro name is followed, in the text, by a complete call with exactly as many
    arguments as parameters, the arguments holding no macro name (or by a token other than `(`).  With `|tbl| + 2 < max_level`
    and the specification's fuel above the closed-form bound, the model of CBI's expander and Prosser's hide-set algorithm
    produce the same spellings — no hypothesis about the run is left. -/
theorem funlike_simple_conforms_partial (tbl : Table) (ts : List Tok) (hT : SimpleTbl tbl) (hC : ConfTbl tbl)
    (hct : ∀ t ∈ ts, CTok tbl t) (hts : simpleText tbl ts = true) (har : exactArity tbl ts = true)
    (hsz : tbl.length + 2 < CbiVerif.Gen.maxLevel)
    (hfuel : ts.length * Cb (bodyMax tbl) (tbl.length + 1) + ts.length + 1 < CbiVerif.Spec.Prosser.defaultFuel) :
    ∃ r out, cbiExpand tbl ts = .ok r ∧
      CbiVerif.Spec.Prosser.prosserToks (specTableF tbl) (ts.map (toSpec [])) = .ok out ∧
      r.map spellTok = out.map (·.text) := by
  obtain ⟨hfit, hcost⟩ := simple_fits tbl hT ts hts
  exact funlike_conforms_partial tbl ts (tbl.length + 1) ts.length hT.funTbl hC hct hfit (simple_confb tbl hT ts hts har) hsz
    (by unfold fuelFor; omega) (by omega)

/-- the hypotheses are satisfiable (definitions and text through the real `#define` parser and lexer; a command-line definition
    included), and the common result is the C standard's -/
example :
    (match buildTable ["K=2"] ["ADD(x,y) x+y*K", "NEG(x) (-x)"] with
     | .ok tbl =>
       let ts := tokenize "ADD(1,(a,b)) + NEG(q) * K + ADD(p q,) NEG;"
       simpleTblb tbl && confTblb tbl && ts.all (ctokb tbl) && simpleText tbl ts && exactArity tbl ts &&
         decide (tbl.length + 2 < CbiVerif.Gen.maxLevel) &&
         decide (ts.length * Cb (bodyMax tbl) (tbl.length + 1) + ts.length + 1 < CbiVerif.Spec.Prosser.defaultFuel) &&
         (match CbiVerif.Spec.Prosser.prosserToks (specTableF tbl) (ts.map (toSpec [])) with
          | .ok o => o.map (·.text) | .error _ => []) ==
           ["1", "+", "(", "a", ",", "b", ")", "*", "2", "+", "(", "-", "q", ")", "*", "2", "+", "p", "q", "+", "*", "2", "NEG", ";"]
     | .error _ => false) = true := by decide +kernel

/-- exact arity is needed: with one argument too many the specification reports a constraint violation (6.10.3 p.4) while the
    text is still inside `simpleText` (which asks for *enough* arguments) -/
example :
    (match buildTable [] ["ID(x) x"] with
     | .ok tbl =>
       let ts := tokenize "ID(1,2)"
       simpleTblb tbl && simpleText tbl ts && !exactArity tbl ts &&
         (match CbiVerif.Spec.Prosser.prosserToks (specTableF tbl) (ts.map (toSpec [])) with
          | .error .arity => true | _ => false)
     | .error _ => false) = true := by decide +kernel

/-- **`fitsb` alone does not give conformance to Prosser's algorithm**: `F(H(0))` with `H(x) G I ()`, `G() H(1)`, `I` empty, `F(x) x`
    is inside the fragment of `funlike_partial`; the machine (like gcc) answers `G ()`: the `G` left over by the expansion of the
    argument is called when `F`'s replacement list is rescanned, `H` is enabled again there and its inner `G` is painted.
    Prosser's algorithm keeps `H` in the hide set of that `G` and answers `H(1)`.  (C11 6.10.3.4 p.4: unspecified; the harness
    accepts a result that equals gcc's.)  The call argument `H(0)` holds a macro name, which `confb` excludes. -/
theorem ref_vs_prosser_witness :
    (match buildTable [] ["I", "H(x) G I ()", "G() H(1)", "F(x) x"] with
     | .ok tbl =>
       let ts := tokenize "F(H(0))"
       funTblb tbl && confTblb tbl && ts.all (ctokb tbl) && fitsb tbl 6 [] ts && !confb tbl 10 6 [] ts &&
         (match cbiExpand tbl ts with | .ok r => r.map spellTok == ["G", "(", ")"] | _ => false) &&
         (match CbiVerif.Spec.Prosser.prosserToks (specTableF tbl) (ts.map (toSpec [])) with
          | .ok o => o.map (·.text) == ["H", "(", "1", ")"] | .error _ => false)
     | .error _ => false) = true := by decide +kernel

/-- literals spelled `,` `(` `)` are inside the proved fragment (finding D44 being repaired, only punctuators delimit the
    arguments of a call; `C03.D44_fixed` is the statement on the former witness) -/
example : inConfFragment ["F(x,y) x+y", "G(a) [a]"] "F(\",\",2) F(\"(\",')') G \"(\" G((\")\"))" 4 5
    ["\",\"", "+", "2", "\"(\"", "+", "')'", "G", "\"(\"", "[", "(", "\")\"", ")", "]"] = true := by decide +kernel

end CbiVerif.C03
