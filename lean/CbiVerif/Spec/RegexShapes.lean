import CbiVerif.Model.CompilersRe
/-!
# Shapes of patterns and option values the all-values lemmas of `Props/C12RegexComplete.lean` are stated with

Written from the documentation of the flags, not from the code: `--gpu-code=sm_70,sm_80` is a comma-joined list
of architecture names, `-fsycl-targets=spir64,spir64_gen` a comma-joined list of target names.  Core Lean only.
-/
namespace CbiVerif.Regex

/-- the characters with a special meaning in a Python regular expression (outside a character set) -/
def isMeta (c : Char) : Bool := "()|[\\.$*+?^{}]".toList.contains c

/-- `c.join(fields)` -/
def joinWith (c : Char) : List (List Char) → List Char
  | [] => []
  | [f] => f
  | f :: g :: r => f ++ c :: joinWith c (g :: r)

/-- an architecture name: `compute_<digits>` (flag set) or `sm_<digits>` -/
def archName (e : Bool × List Char) : List Char := (if e.1 then "compute_".toList else "sm_".toList) ++ e.2

/-! ## canonical text of a flat expression (no groups, no alternation, no character sets): the printer of
    `parse_roundtrip_partial`; `none` outside that fragment -/

/-- atoms of the flat fragment: a character, `.`, one of the six class escapes -/
def escOf : CItem → Option Char
  | .digit => some 'd' | .word => some 'w' | .space => some 's'
  | .ndigit => some 'D' | .nword => some 'W' | .nspace => some 'S'
  | _ => none

def ppAtom : Re → Option (List Char)
  | .chr c => some (if isMeta c then ['\\', c] else [c])
  | .any => some ['.']
  | .cls false [it] => (escOf it).map fun e => ['\\', e]
  | _ => none

def ppItem : Re → Option (List Char)
  | .star a => (ppAtom a).map (· ++ ['*'])
  | .plus a => (ppAtom a).map (· ++ ['+'])
  | .opt a => (ppAtom a).map (· ++ ['?'])
  | .eol => some ['$']
  | r => ppAtom r

def ppFlat : List Re → Option (List Char)
  | [] => some []
  | r :: rs => match ppItem r, ppFlat rs with
    | some a, some b => some (a ++ b)
    | _, _ => none


/-- the flat fragment as a decidable predicate on expressions given as item lists -/
def isFlat (items : List Re) : Bool := (ppFlat items).isSome

end CbiVerif.Regex
