#!/bin/bash
# seed_take.sh <round> <PID> <m...> : verify+install /tmp/mut_out<round>/<PID>/<m> and remove the author's worktree
r=$1; p=$2; shift 2
for m in "$@"; do /venv/bin/python /verif/tools/seed_install.py $p $m /tmp/mut_out$r 2>&1 | tail -1 | cut -c1-120; done
git -C /repo worktree remove --force /tmp/mut${r}_$p/repo 2>/dev/null; rm -rf /tmp/mut${r}_$p
