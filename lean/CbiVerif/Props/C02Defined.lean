import CbiVerif.Props.C02TextCond
import CbiVerif.Lemmas.CondDefined
import CbiVerif.Lemmas.MacroDefine
/-!
# C02 / C01 — the value of a controlling expression with `defined` operators and object-like macros

`text_cond_partial` (`Props/C02TextCond.lean`) composes text → lexer → macro expander → evaluator for expressions WITHOUT a
`defined` operator and WITHOUT any macro name, for object-like tables.  This file closes these restrictions:

1. `expand_with_defined_partial` / `expand_with_defined_any_table` — the expander model `MX.cbiExpand` on a WHOLE token list in
   which `defined X` / `defined ( X )` occur in any position, any number of times: the result is `MX.ED` — each `defined` form
   replaced by the ONE number token `1` / `0` read from the table (`X` consumed, never expanded, even when `X` names a macro),
   every other token expanded by the recursive object-like reference `MX.E` (= the Prosser spec,
   `C03.object_like_conforms_partial`).  For every table of object-like macros; and for EVERY table when no other identifier
   names a macro.  The one-step lemmas `C03.defined_operator_*` are lifted to the stream machine over whole token lists by
   induction (`Lemmas/MacroDefinedList.lean`: `simD`).
2. `cond_defined_partial` — for every parse tree with `defined` leaves (operand any identifier, macro names included),
   constants and identifiers that are no macro names, EVERY macro table, every admissible layout of the text:
   `PP.condValue` = the ISO C truth value in the environment "defined X iff X is a name of the table".  Corollary
   `text_main_outside_D8_partial`: the full text-level statement `text_main` of `Props/C02Text.lean` with the one exclusion D8.
3. `cond_objmacro_partial` — identifier leaves that ARE object-like macros whose full expansion (by the expander model)
   spells a `defined`-free parse tree, object-like tables: `PP.condValue` = the ISO C truth value of the tree with those trees
   substituted (`CondFrag.substA`; the substituted tree must be grammatical, i.e. the expansions are atomic or parenthesised
   wherever the context requires it).

`PP.condValue` is what the end-to-end models of C01/C04/C08/C10/C17/C18 execute for `#if` / `#elif`.
Lemmas: `Lemmas/MacroDefinedList.lean`, `Lemmas/CondDefined.lean`; descriptors: `Model/CondFragment.lean` (driver op `condfrag`).
-/
namespace CbiVerif.C02
open CbiVerif.PP CbiVerif.Climb CbiVerif.CExpr CbiVerif.Eval CbiVerif.EvalBridge CbiVerif.LexLayout CbiVerif.MX CbiVerif.CondFrag

/-! ## 1. the expander on whole token lists with `defined` -/

/-- **`defined` in any position of any token list (object-like tables).**  `ts` any token list in which every `defined` is
    followed by an identifier or by `(`, an identifier, `)` (`defOK`); `tbl` any table of object-like macros below the nesting
    limit (recursive definitions included): the expander model returns `ED` — `defined` decided from the table, never
    expanded; everything else expanded as by `C03.object_like_partial`.
    (`_partial`: object-like tables; the full text-level statement is `text_main` / `cond_objmacro` below.) -/
theorem expand_with_defined_partial (tbl : Table) (hT : TblOK tbl) (hsz : tbl.length + 2 < CbiVerif.Gen.maxLevel)
    (ts : List Tok) (hok : defOK ts = true) : cbiExpand tbl ts = .ok (ED tbl (tbl.length + 1) ts) :=
  cbiExpand_objD tbl hT ts hok hsz

/-- … and for EVERY table (function-like macros, `defined` in replacement lists, more macros than the nesting limit) when no
    expandable identifier outside the operands of `defined` names a macro (`noMacro`): the expander then consults the table
    only through `defined`. -/
theorem expand_with_defined_any_table (tbl : Table) (ts : List Tok) (hok : defOK ts = true) (hnm : noMacro tbl ts = true) :
    cbiExpand tbl ts = .ok (ED tbl (tbl.length + 1) ts) :=
  cbiExpand_noMacro tbl ts hok hnm

/-- what `ED` is, equation by equation: `defined X`, `defined ( X )` (whatever `X` is defined as), any other token -/
theorem expand_with_defined_reference (tbl : Table) (d : Nat) (t : Tok) (rest : List Tok) :
    (isDef t = true → ∀ x, x.text ≠ "(" → ED tbl d (t :: x :: rest) = defTok tbl x :: ED tbl d rest) ∧
    (isDef t = true → ∀ lp x rp, lp.text = "(" → ED tbl d (t :: lp :: x :: rp :: rest) = defTok tbl x :: ED tbl d rest) ∧
    (isDef t = false → ED tbl d (t :: rest) = E tbl d [] [t] ++ ED tbl d rest) ∧
    (∀ x, (defTok tbl x).kind = .num ∧ (defTok tbl x).text = (if (tbl.get x.text).isSome then "1" else "0")) :=
  ⟨fun h x hx => ED_plain tbl d t x rest h hx, fun h lp x rp hlp => ED_paren tbl d t lp x rp rest h hlp,
   fun h => ED_other tbl d t rest h, fun _ => ⟨rfl, rfl⟩⟩

/-! ## 2. text → lexer → expander → evaluator -/

/-- the full statement: every macro table (function-like macros, `defined` in replacement lists, any size), constants of
    the class D8 included.  Open: function-like tables and D8 (`main_refuted`). -/
def cond_objmacro : Prop :=
  ∀ (tbl : Table) (s : Sub) (a : CExpr.Ast) (v : CExpr.Val) (w : Layout),
    (substA s a).grammatical = true → (substA s a).constsOK = true → LexSource.lexable a = true →
    (∀ n ∈ identLeaves a, leafOK tbl s n = true) → cEval (envOf tbl) (substA s a) = some v →
    admissible w (renderSrc a) = true →
    condValue tbl (tokenize (layout w (renderSrc a))) = .ok v.truth

/-- **Text → lexer → expander → evaluator with `defined` and object-like macros (proved part of `cond_objmacro`).**
    `a` a parse tree whose leaves are constants, `defined X` / `defined(X)` (any identifier `X`) and identifiers; `tbl` a
    table of object-like macros below the nesting limit; `s` gives, for every identifier leaf that names a macro, a
    `defined`-free parse tree whose source tokens the expander model produces from that name (`leafOK`: kinds and texts
    of `cbiExpand tbl [name]`), identifier leaves that are no macro names are not substituted.  If the substituted tree
    satisfies the hypotheses of `main_partial` (grammatical, legal constants, outside D8, C value `v` in the environment
    "defined X iff X is a name of the table"), then for EVERY admissible layout of the source text the value the end-to-end
    models give to the text is the ISO C truth value.
    Missing for `cond_objmacro`: function-like macros, tables with `defined` in a replacement list, the class D8. -/
theorem cond_objmacro_partial (tbl : Table) (hT : TblOK tbl) (hsz : tbl.length + 2 < CbiVerif.Gen.maxLevel)
    (s : Sub) (a : CExpr.Ast) (v : CExpr.Val) (w : Layout)
    (hg : (substA s a).grammatical = true) (hc : (substA s a).constsOK = true)
    (hk8 : usesBigUnsuffixed (substA s a) = false) (hv : cEval (envOf tbl) (substA s a) = some v)
    (hl : LexSource.lexable a = true) (hleaf : ∀ n ∈ identLeaves a, leafOK tbl s n = true)
    (hw : admissible w (renderSrc a) = true) :
    condValue tbl (tokenize (layout w (renderSrc a))) = .ok v.truth := by
  have hlex := lexer_reads_source_layout a hl w hw
  have hkey := lexer_reads_layout_tokens (renderSrc a) (LexSource.renderSrc_ok a hl) w hw
  rw [hlex] at hkey ⊢
  have hexp : ∀ t ∈ flagged w (renderSrc a), t.expandable = true :=
    fun t ht => (flag_mem (!w.lead.isEmpty) w.gaps (renderSrc a) t ht).1
  obtain ⟨hK, hok, _⟩ := ED_tree tbl s a (.inl ⟨hT, hsz⟩) hl hleaf (flagged w (renderSrc a)) [] hkey hexp
  simp only [List.append_nil, ED_nil, List.map_nil] at hK hok
  have hok' : defOK (flagged w (renderSrc a)) = true := by rw [hok]; simp [defOK]
  have hx := cbiExpand_objD tbl hT _ hok' hsz
  rw [condValue_of_expand tbl _ _ hx]
  obtain ⟨_, _, h3⟩ := evaluator_ignores_flags _ _ hK
  rw [h3]
  have hm := main_partial (envOf tbl) (substA s a) v hg hc hk8 hv
  have h4 := (evaluator_ignores_flags_erase (render (envOf tbl) (substA s a))).1
  simp only [evaluatePP, h4, hm]

/-- the full statement for expressions whose identifier leaves are no macro names: every table, D8 included -/
def cond_defined : Prop :=
  ∀ (tbl : Table) (a : CExpr.Ast) (v : CExpr.Val) (w : Layout),
    a.grammatical = true → a.constsOK = true → LexSource.lexable a = true →
    (∀ n ∈ identLeaves a, n ≠ "defined" ∧ tbl.get n = none) → cEval (envOf tbl) a = some v →
    admissible w (renderSrc a) = true →
    condValue tbl (tokenize (layout w (renderSrc a))) = .ok v.truth

/-- **`defined` is decided from the table in ANY position of ANY expression (proved part of `cond_defined`).**  `a` any
    parse tree with leaves `defined X` / `defined(X)` (`X` any identifier, possibly a macro of the table), constants and
    identifiers that are no macro names; `tbl` ANY macro table (object-like or function-like macros, any size — the table is
    consulted through `defined` only); every admissible layout: the value of the TEXT is the ISO C truth value of `a` in the
    environment "defined X iff X is a name of `tbl`".
    Missing for `cond_defined`: the class D8 only. -/
theorem cond_defined_partial (tbl : Table) (a : CExpr.Ast) (v : CExpr.Val) (w : Layout)
    (hg : a.grammatical = true) (hc : a.constsOK = true) (hk8 : usesBigUnsuffixed a = false)
    (hv : cEval (envOf tbl) a = some v) (hl : LexSource.lexable a = true)
    (hfree : ∀ n ∈ identLeaves a, n ≠ "defined" ∧ tbl.get n = none)
    (hw : admissible w (renderSrc a) = true) :
    condValue tbl (tokenize (layout w (renderSrc a))) = .ok v.truth := by
  have hs : substA [] a = a := substA_nil a
  have hleaf : ∀ n ∈ identLeaves a, leafOK tbl [] n = true := by
    intro n hn
    obtain ⟨h1, h2⟩ := hfree n hn
    simp [leafOK, h1, h2, Sub.get]
  have hnone : ∀ n ∈ identLeaves a, tbl.get n = none := fun n hn => (hfree n hn).2
  have hlex := lexer_reads_source_layout a hl w hw
  have hkey := lexer_reads_layout_tokens (renderSrc a) (LexSource.renderSrc_ok a hl) w hw
  rw [hlex] at hkey ⊢
  have hexp : ∀ t ∈ flagged w (renderSrc a), t.expandable = true :=
    fun t ht => (flag_mem (!w.lead.isEmpty) w.gaps (renderSrc a) t ht).1
  obtain ⟨hK, hok, hnm⟩ := ED_tree tbl [] a (.inr hnone) hl hleaf (flagged w (renderSrc a)) [] hkey hexp
  have hnm' := hnm hnone
  simp only [List.append_nil, ED_nil, List.map_nil, hs] at hK hok hnm'
  have hok' : defOK (flagged w (renderSrc a)) = true := by rw [hok]; simp [defOK]
  have hnm'' : noMacro tbl (flagged w (renderSrc a)) = true := by rw [hnm']; simp [noMacro]
  have hx := cbiExpand_noMacro tbl _ hok' hnm''
  rw [condValue_of_expand tbl _ _ hx]
  obtain ⟨_, _, h3⟩ := evaluator_ignores_flags _ _ hK
  rw [h3]
  have hm := main_partial (envOf tbl) a v hg hc hk8 hv
  have h4 := (evaluator_ignores_flags_erase (render (envOf tbl) a)).1
  simp only [evaluatePP, h4, hm]

/-- **`text_main` outside D8, for every macro table.**  The full text-level statement of `Props/C02Text.lean` (every table
    that defines none of the identifiers of the expression, `defined` operators included) with the one exclusion D8. -/
theorem text_main_outside_D8_partial (tbl : Table) (a : CExpr.Ast) (v : CExpr.Val) (w : Layout)
    (hg : a.grammatical = true) (hc : a.constsOK = true) (hk8 : usesBigUnsuffixed a = false)
    (hl : LexSource.lexable a = true) (hnd : ∀ n ∈ identLeaves a, n ≠ "defined")
    (hfree : ∀ t ∈ renderSrc a, t.kind = .ident → t.text ≠ "defined" → tbl.get t.text = none)
    (hv : cEval (fun n => (tbl.get n).isSome) a = some v) (hw : admissible w (renderSrc a) = true) :
    condValue tbl (tokenize (layout w (renderSrc a))) = .ok v.truth :=
  cond_defined_partial tbl a v w hg hc hk8 hv hl
    (fun n hn => ⟨hnd n hn, hfree (identTok n) (identLeaf_mem_renderSrc a n hn) rfl (hnd n hn)⟩) hw

/-- why `text_main` needs the side condition on identifier leaves: the tree `.ident "defined"` satisfies every other
    hypothesis (C value 0), its text is the lone word `defined`, which is no C expression and which the expander rejects -/
theorem text_main_needs_no_defined_leaf :
    (CExpr.Ast.ident "defined").grammatical = true ∧ (CExpr.Ast.ident "defined").constsOK = true ∧
    LexSource.lexable (.ident "defined") = true ∧ cEval (envOf []) (.ident "defined") = some ⟨false, 0#64⟩ ∧
    layout (tight (renderSrc (.ident "defined"))) (renderSrc (.ident "defined")) = "defined" ∧
    condValue [] (tokenize "defined") = .error .type_ := by decide +kernel

/-! ## 3. non-vacuity -/

/-- `A` ↦ `3`, `N` ↦ `( - 5 )`, `C` ↦ `A` (a chain), `AA` ↔ `BB` (mutual recursion) -/
def tblD : Table :=
  [("A", ⟨"A", none, false, false, [], [⟨.num, "3", false, true⟩]⟩),
   ("N", ⟨"N", none, false, false, [], [⟨.punct, "(", false, true⟩, ⟨.op, "-", false, true⟩, ⟨.num, "5", false, true⟩, ⟨.punct, ")", false, true⟩]⟩),
   ("C", ⟨"C", none, false, false, [], [⟨.ident, "A", false, true⟩]⟩),
   ("AA", ⟨"AA", none, false, false, [], [⟨.ident, "BB", false, true⟩]⟩),
   ("BB", ⟨"BB", none, false, false, [], [⟨.ident, "AA", false, true⟩, ⟨.num, "1", true, true⟩]⟩)]

/-- `defined A && ! defined ( UNDEF ) && ( defined BB ? 2u : 0 ) > - 1 || X` — `defined` in four positions, operands that
    are macro names (also of a recursive macro), an identifier that is no macro -/
def sampleD : CExpr.Ast :=
  .bin .lor
    (.bin .land
      (.bin .land (.defd "A" false) (.un .lnot (.defd "UNDEF" true)))
      (.bin .gt (.paren (.tern (.defd "BB" false) (numU 2) (num 0))) (.un .neg (num 1))))
    (.ident "X")

theorem tblD_ok : TblOK tblD := tblOK_of_check _ (by decide +kernel)

/-- hypotheses of `cond_defined_partial` for `sampleD` / `tblD`; the C value is 0 (`2u > -1` is false) although three
    `defined` operators are true — the table decides -/
example : sampleD.grammatical = true ∧ sampleD.constsOK = true ∧ usesBigUnsuffixed sampleD = false ∧
    LexSource.lexable sampleD = true ∧ (identLeaves sampleD).all (fun n => n != "defined" && (tblD.get n).isNone) = true ∧
    cEval (envOf tblD) sampleD = some (Val.ofBool false) ∧ tblD.length + 2 < CbiVerif.Gen.maxLevel := by decide +kernel

/-- a table `cond_defined_partial` covers and `TblOK` does not: a function-like macro `F(x)` ↦ `x`, an object-like macro whose
    replacement list is `defined F`, on top of `tblD` -/
def tblF : Table :=
  tblD ++ [("F", ⟨"F", some ["x"], false, false, [true], [⟨.ident, "x", false, true⟩]⟩),
           ("DD", ⟨"DD", none, false, false, [], [⟨.ident, "defined", false, true⟩, ⟨.ident, "F", true, true⟩]⟩)]

/-- `defined F && defined ( DD ) && ! defined X` under `tblF` -/
def sampleF : CExpr.Ast := .bin .land (.bin .land (.defd "F" false) (.defd "DD" true)) (.un .lnot (.defd "X" false))

example : tblOKb tblF = false ∧ (identLeaves sampleF).all (fun n => n != "defined" && (tblF.get n).isNone) = true ∧
    sampleF.grammatical = true ∧ cEval (envOf tblF) sampleF = some (Val.ofBool true) ∧
    noMacro tblF (tokenize "defined F&&defined(DD)&&!defined X") = true ∧
    condValue tblF (tokenize (layout (tight (renderSrc sampleF)) (renderSrc sampleF))) = .ok true := by decide +kernel

example : layout (tight (renderSrc sampleD)) (renderSrc sampleD) = "defined A&&!defined(UNDEF)&&(defined BB?2u:0)>-1||X" ∧
    admissible (tight (renderSrc sampleD)) (renderSrc sampleD) = true ∧
    condValue tblD (tokenize (layout (tight (renderSrc sampleD)) (renderSrc sampleD))) = .ok false ∧
    defOK (tokenize "defined A&&!defined(UNDEF)&&(defined BB?2u:0)>-1||X") = true ∧
    (match cbiExpand tblD (tokenize "defined A&&!defined(UNDEF)&&(defined BB?2u:0)>-1||X") with
     | .ok r => r.map (·.text) | _ => []) =
      ["1", "&&", "!", "0", "&&", "(", "1", "?", "2u", ":", "0", ")", ">", "-", "1", "||", "X"] := by decide +kernel

/-- `C + N == - 2 && defined C && ! defined ( X ) && AA == 0` with `C` ↦ `3` (through `A`), `N` ↦ `( - 5 )`, `AA` ↦ `AA 1`?
    no: `AA` expands to `AA 1` (two tokens), which is not the spelling of an atomic or parenthesised tree — it is left out;
    the sample uses `C`, `N` and the operand `C` of `defined`, which is NOT replaced -/
def sampleM : CExpr.Ast :=
  .bin .land
    (.bin .land
      (.bin .eq (.bin .add (.ident "C") (.ident "N")) (.un .neg (num 2)))
      (.defd "C" false))
    (.un .lnot (.defd "X" true))

def subM : Sub := [("C", num 3), ("N", .paren (.un .neg (num 5)))]

/-- hypotheses of `cond_objmacro_partial`: the model expander turns `C` into `3` (two levels) and `N` into `( - 5 )` -/
example : (substA subM sampleM).grammatical = true ∧ (substA subM sampleM).constsOK = true ∧
    usesBigUnsuffixed (substA subM sampleM) = false ∧ LexSource.lexable sampleM = true ∧
    (identLeaves sampleM).all (leafOK tblD subM) = true ∧ identLeaves sampleM = ["C", "N"] ∧
    cEval (envOf tblD) (substA subM sampleM) = some (Val.ofBool true) := by decide +kernel

example : layout (tight (renderSrc sampleM)) (renderSrc sampleM) = "C+N==-2&&defined C&&!defined(X)" ∧
    admissible (tight (renderSrc sampleM)) (renderSrc sampleM) = true ∧
    condValue tblD (tokenize (layout (tight (renderSrc sampleM)) (renderSrc sampleM))) = .ok true ∧
    condValue tblD (tokenize " C +\tN == - 2 && defined  C && ! defined ( X ) ") = .ok true := by decide +kernel

/-- `expand_with_defined_partial`: `defined` directly after `defined`'s own result, as operand `defined`, at the very end -/
example : defOK (tokenize "defined defined + defined(A) defined AA") = true ∧
    cbiExpand tblD (tokenize "defined defined + defined(A) defined AA") =
      .ok [⟨.num, "0", true, true⟩, ⟨.op, "+", true, true⟩, ⟨.num, "1", false, true⟩, ⟨.num, "1", true, true⟩] ∧
    defOK (tokenize "1 + defined") = false ∧ defOK (tokenize "defined ( A") = false ∧ defOK (tokenize "defined 1") = false := by
  decide +kernel

end CbiVerif.C02
