/-! C14: order-independence of the (repaired) metrics for arbitrary, law-free float operations. -/
namespace CbiVerif.Det

abbrev Setmap := List (List String × Nat)      -- entries in dict insertion order

variable {F : Type} (fdiv : Nat → Nat → F) (fadd : F → F → F) (fzero : F) (nan : F)

def unionCount (sm : Setmap) (p q : String) : Nat :=
  (sm.map fun e => if e.1.contains p || e.1.contains q then e.2 else 0).sum
def xorCount (sm : Setmap) (p q : String) : Nat :=
  (sm.map fun e => if xor (e.1.contains p) (e.1.contains q) then e.2 else 0).sum

/-- repaired `report.distance`: integer accumulation, one division -/
def distance (sm : Setmap) (p q : String) : F :=
  if unionCount sm p q = 0 then nan else fdiv (xorCount sm p q) (unionCount sm p q)

/-- all unordered pairs in list order (itertools.combinations(platforms, 2)) -/
def pairs : List String → List (String × String)
  | [] => []
  | p :: ps => ps.map (fun q => (p, q)) ++ pairs ps

/-- repaired `report.divergence`: platforms are *sorted* (passed in as `plats`), float sum in that order -/
def divergence (sm : Setmap) (plats : List String) (fdivF : F → Nat → F) : F :=
  match pairs plats with
  | [] => nan
  | ps => fdivF (ps.foldl (fun acc pq => fadd acc (distance fdiv nan sm pq.1 pq.2)) fzero) ps.length

theorem unionCount_perm {sm sm' : Setmap} (h : sm.Perm sm') (p q : String) : unionCount sm p q = unionCount sm' p q := by
  unfold unionCount; exact (h.map _).sum_nat
theorem xorCount_perm {sm sm' : Setmap} (h : sm.Perm sm') (p q : String) : xorCount sm p q = xorCount sm' p q := by
  unfold xorCount; exact (h.map _).sum_nat

/-- for every division operation whatsoever, the distance does not depend on the insertion order of the table -/
theorem distance_perm {sm sm' : Setmap} (h : sm.Perm sm') (p q : String) :
    distance fdiv nan sm p q = distance fdiv nan sm' p q := by
  unfold distance; rw [unionCount_perm h, xorCount_perm h]

/-- for every `fadd`, `fdiv` (no associativity, no commutativity assumed) the divergence computed over the
    sorted platform list does not depend on the insertion order of the table -/
theorem divergence_perm {sm sm' : Setmap} (h : sm.Perm sm') (plats : List String) (fdivF : F → Nat → F) :
    divergence fdiv fadd fzero nan sm plats fdivF = divergence fdiv fadd fzero nan sm' plats fdivF := by
  unfold divergence
  have : ∀ pq : String × String, distance fdiv nan sm pq.1 pq.2 = distance fdiv nan sm' pq.1 pq.2 :=
    fun pq => distance_perm fdiv nan h pq.1 pq.2
  simp only [this]

/-- the pinned code accumulates per entry: order matters for a non-associative `fadd` -/
def distancePinned (fdivQ : Nat → Nat → F) (sm : Setmap) (p q : String) : F :=
  sm.foldl (fun acc e => if xor (e.1.contains p) (e.1.contains q) then fadd acc (fdivQ e.2 (unionCount sm p q)) else acc) fzero

/-- witness: with "addition" := keep the left operand unless it is the start value, two insertion orders differ -/
example :
    let fadd : Nat → Nat → Nat := fun a b => if a = 0 then b else a
    let fdivQ : Nat → Nat → Nat := fun c _ => c
    distancePinned fadd 0 fdivQ [(["A"], 1), (["B"], 2)] "A" "B" ≠ distancePinned fadd 0 fdivQ [(["B"], 2), (["A"], 1)] "A" "B" := by
  decide

/-! summary rows: sort key (size, sorted names) is total on distinct keys → row order independent of insertion order -/
end CbiVerif.Det
