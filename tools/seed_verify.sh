#!/bin/bash
# seed_verify.sh <dir with patch.diff + demo.py> : confirm in a scratch worktree that the change keeps the
# 145 tests green, that the demo fails with it and passes without it.  Prints a JSON summary.
d=$(realpath "$1"); wt=/tmp/seedv_$$
git -C /repo worktree add -q --detach $wt HEAD || exit 2
cd $wt
base=$(timeout 600 /venv/bin/python "$d/demo.py" >/dev/null 2>&1; echo $?)
git apply "$d/patch.diff" || { echo '{"applies": false}'; cd /; git -C /repo worktree remove --force $wt; exit 1; }
tests=$(/venv/bin/python -m pytest -q -p no:cacheprovider 2>&1 | tail -1)
mut=$(timeout 600 /venv/bin/python "$d/demo.py" >/dev/null 2>&1; echo $?)
cd /; git -C /repo worktree remove --force $wt
echo "{\"applies\": true, \"tests_with_change\": \"$tests\", \"demo_exit_unchanged\": $base, \"demo_exit_with_change\": $mut}"
