import CbiVerif.Model.DbPath
import CbiVerif.Spec.DbResolve
/-! Helper lemmas for C13: `split`/`joinSlash`, the normpath stack invariant, and the
homomorphism from spelled paths (strings) to locations (component lists). -/
namespace CbiVerif.DbPath
open CbiVerif.DbResolve (Loc Seg segOf segments walk step resolve isAbsolute chunks locOf extension isSourceSpelling dirLoc rootLoc)

/-! ## split / joinSlash -/

def consHead (c : Char) : List Str → List Str
  | [] => [[c]]
  | h :: t => (c :: h) :: t

theorem split_nil : split [] = [[]] := by simp [split]
theorem split_slash (cs : Str) : split ('/' :: cs) = [] :: split cs := by simp [split]
theorem split_ne (c : Char) (cs : Str) (h : c ≠ '/') : split (c :: cs) = consHead c (split cs) := by
  rw [split]; simp only [h, if_false]; cases split cs <;> rfl

theorem split_ne_nil (p : Str) : split p ≠ [] := by
  cases p with
  | nil => simp [split]
  | cons c cs =>
    by_cases h : c = '/'
    · subst h; simp [split_slash]
    · rw [split_ne c cs h]; cases split cs <;> simp [consHead]

theorem consHead_append (c : Char) (l m : List Str) (h : l ≠ []) : consHead c (l ++ m) = consHead c l ++ m := by
  cases l with
  | nil => exact absurd rfl h
  | cons x xs => rfl

theorem split_append_slash (a b : Str) : split (a ++ '/' :: b) = split a ++ split b := by
  induction a with
  | nil => simp [split_slash, split_nil]
  | cons c a ih =>
    by_cases h : c = '/'
    · subst h; simp [split_slash, ih]
    · simp only [List.cons_append]
      rw [split_ne c _ h, split_ne c a h, ih, consHead_append c _ _ (split_ne_nil a)]

theorem split_noslash (x : Str) (h : '/' ∉ x) : split x = [x] := by
  induction x with
  | nil => exact split_nil
  | cons c x ih =>
    have hc : c ≠ '/' := fun e => h (by simp [e])
    have hx : '/' ∉ x := fun e => h (List.mem_cons_of_mem _ e)
    rw [split_ne c x hc, ih hx]; rfl

theorem mem_consHead {c : Char} {l : List Str} {y : Str} (h : y ∈ consHead c l) :
    y = [c] ∨ (∃ h', h' ∈ l ∧ y = c :: h') ∨ y ∈ l := by
  cases l with
  | nil => simp [consHead] at h; exact Or.inl h
  | cons x xs =>
    simp only [consHead, List.mem_cons] at h
    rcases h with h | h
    · exact Or.inr (Or.inl ⟨x, by simp, h⟩)
    · exact Or.inr (Or.inr (by simp [h]))

theorem split_mem_noslash (p : Str) : ∀ c ∈ split p, '/' ∉ c := by
  induction p with
  | nil => intro c hc; simp [split_nil] at hc; subst hc; simp
  | cons a p ih =>
    intro c hc
    by_cases h : a = '/'
    · subst h; rw [split_slash] at hc
      rcases List.mem_cons.mp hc with rfl | hc
      · simp
      · exact ih c hc
    · rw [split_ne a p h] at hc
      rcases mem_consHead hc with rfl | ⟨h', hm, rfl⟩ | hm
      · intro hm; simp at hm; exact h hm.symm
      · intro hm
        rcases List.mem_cons.mp hm with e | e
        · exact h e.symm
        · exact ih h' ‹_› e
      · exact ih c hm

theorem split_joinSlash (l : List Str) (hl : l ≠ []) (h : ∀ c ∈ l, '/' ∉ c) : split (joinSlash l) = l := by
  induction l with
  | nil => exact absurd rfl hl
  | cons x r ih =>
    cases r with
    | nil => simp only [joinSlash]; exact split_noslash x (h x (by simp))
    | cons y r =>
      simp only [joinSlash]
      rw [split_append_slash, split_noslash x (h x (by simp)), ih (by simp) (fun c hc => h c (List.mem_cons_of_mem _ hc))]
      rfl

theorem joinSlash_head (x : Str) (r : List Str) (hx : x ≠ []) : (joinSlash (x :: r)).head? = x.head? := by
  cases r with
  | nil => rfl
  | cons y r => cases x with
    | nil => exact absurd rfl hx
    | cons a x => rfl

/-! ## the spec's splitter is the model's splitter -/

theorem chunks_eq (acc p : Str) :
    chunks acc p = match split p with
      | [] => [acc.reverse]
      | h :: t => (acc.reverse ++ h) :: t := by
  induction p generalizing acc with
  | nil => simp [chunks, split_nil]
  | cons c cs ih =>
    by_cases h : c = '/'
    · subst h
      have := ih []
      have hne := split_ne_nil cs
      rw [chunks]; simp only [if_true, split_slash, List.append_nil]
      rw [this]; cases hs : split cs with
      | nil => exact absurd hs hne
      | cons x xs => simp
    · rw [chunks]; simp only [h, if_false]
      rw [ih (c :: acc), split_ne c cs h]
      cases split cs with
      | nil => simp [consHead]
      | cons x xs => simp [consHead]

theorem chunks_nil (p : Str) : chunks [] p = split p := by
  rw [chunks_eq]; cases hs : split p with
  | nil => exact absurd hs (split_ne_nil p)
  | cons x xs => simp

theorem segments_eq (p : Str) : segments p = (split p).map segOf := by
  simp [segments, chunks_nil]

theorem isAbsolute_eq (p : Str) : isAbsolute p = isabs p := by
  cases p with
  | nil => simp [isAbsolute, isabs]
  | cons c cs =>
    by_cases h : c = '/'
    · subst h; simp [isAbsolute, isabs]
    · simp [isAbsolute, isabs, h]

/-! ## walking -/

/-- walk over spelled components -/
def walkComps (start : Loc) (l : List Str) : Loc := walk start (l.map segOf)

theorem walk_append (loc : Loc) (a b : List Seg) : walk loc (a ++ b) = walk (walk loc a) b := by
  simp [walk, List.foldl_append]

theorem walk_cons (loc : Loc) (s : Seg) (r : List Seg) : walk loc (s :: r) = walk (step loc s) r := rfl
theorem walk_nil (loc : Loc) : walk loc [] = loc := rfl

theorem walkComps_append (loc : Loc) (a b : List Str) : walkComps loc (a ++ b) = walkComps (walkComps loc a) b := by
  simp [walkComps, walk_append]

theorem walkComps_snoc (loc : Loc) (a : List Str) (c : Str) : walkComps loc (a ++ [c]) = step (walkComps loc a) (segOf c) := by
  simp [walkComps, walk]

theorem segOf_nil : segOf [] = .cur := by simp [segOf]
theorem segOf_dot : segOf dot = .cur := by simp [segOf, dot]
theorem segOf_dotdot : segOf dotdot = .up := by simp [segOf, dotdot]

theorem walk_replicate_cur (loc : Loc) (n : Nat) (r : List Seg) : walk loc (List.replicate n .cur ++ r) = walk loc r := by
  induction n with
  | zero => rfl
  | succ n ih => simp only [List.replicate_succ, List.cons_append, walk_cons, step]; exact ih

/-! ## the normpath stack -/

def Proper (c : Str) : Prop := c ≠ [] ∧ c ≠ dot ∧ c ≠ dotdot ∧ '/' ∉ c

theorem segOf_proper {c : Str} (h : Proper c) : segOf c = .name c := by
  obtain ⟨h1, h2, h3, _⟩ := h
  simp only [dot, dotdot] at h2 h3
  simp [segOf, h1, h2, h3]

/-- shape of `new_comps` (reversed): names on top of a block of `..` that is empty for an absolute path -/
def StkNF (rooted : Bool) (stk : List Str) : Prop :=
  ∃ names dd, stk = names ++ dd ∧ (∀ s ∈ names, Proper s) ∧ (∀ s ∈ dd, s = dotdot) ∧ (rooted = true → dd = [])

theorem StkNF_nil (rooted : Bool) : StkNF rooted [] := ⟨[], [], rfl, by simp, by simp, fun _ => rfl⟩

theorem dotdot_not_proper : ¬ Proper dotdot := fun h => h.2.2.1 rfl

theorem normStep_NF {rooted : Bool} {stk : List Str} {c : Str} (h : StkNF rooted stk) (hc : '/' ∉ c) :
    StkNF rooted (normStep rooted stk c) := by
  obtain ⟨names, dd, rfl, hn, hd, hr⟩ := h
  unfold normStep
  by_cases h1 : c = [] ∨ c = dot
  · rw [if_pos h1]; exact ⟨names, dd, rfl, hn, hd, hr⟩
  · rw [if_neg h1]
    by_cases h2 : c ≠ dotdot
    · rw [if_pos h2]
      refine ⟨c :: names, dd, rfl, ?_, hd, hr⟩
      intro s hs
      rcases List.mem_cons.mp hs with rfl | hs
      · exact ⟨fun e => h1 (Or.inl e), fun e => h1 (Or.inr e), h2, hc⟩
      · exact hn s hs
    · rw [if_neg h2]
      cases names with
      | nil =>
        cases dd with
        | nil =>
          cases rooted
          · exact ⟨[], [dotdot], rfl, by simp, by simp, by simp⟩
          · exact StkNF_nil true
        | cons t r =>
          have ht : t = dotdot := hd t (by simp)
          simp only [List.nil_append, ht, if_true]
          refine ⟨[], dotdot :: dotdot :: r, rfl, by simp, ?_, ?_⟩
          · intro s hs
            rcases List.mem_cons.mp hs with rfl | hs
            · rfl
            · exact hd s (by rw [ht]; exact hs)
          · intro hroot; exact absurd (hr hroot) (by simp)
      | cons t names' =>
        have ht : t ≠ dotdot := (hn t (by simp)).2.2.1
        simp only [List.cons_append, ht, if_false]
        exact ⟨names', dd, rfl, fun s hs => hn s (List.mem_cons_of_mem _ hs), hd, hr⟩

theorem walk_normStep {rooted : Bool} {stk : List Str} {c : Str} (start : Loc)
    (h : StkNF rooted stk) (hs : rooted = true → start = []) :
    walkComps start (normStep rooted stk c).reverse = step (walkComps start stk.reverse) (segOf c) := by
  obtain ⟨names, dd, rfl, hn, hd, hr⟩ := h
  unfold normStep
  by_cases h1 : c = [] ∨ c = dot
  · rw [if_pos h1]
    rcases h1 with rfl | rfl
    · rw [segOf_nil]; rfl
    · rw [segOf_dot]; rfl
  · rw [if_neg h1]
    by_cases h2 : c ≠ dotdot
    · rw [if_pos h2, List.reverse_cons, walkComps_snoc]
    · rw [if_neg h2]
      have hcd : c = dotdot := Classical.byContradiction h2
      subst hcd
      rw [segOf_dotdot]
      cases names with
      | nil =>
        cases dd with
        | nil =>
          cases rooted
          · simp [walkComps, walk, segOf_dotdot]
          · simp [hs rfl, walkComps, walk, step]
        | cons t r =>
          have ht : t = dotdot := hd t (by simp)
          simp only [List.nil_append, ht, if_true]
          rw [List.reverse_cons, walkComps_snoc, segOf_dotdot]
      | cons t names' =>
        have htp : Proper t := hn t (by simp)
        have ht : t ≠ dotdot := htp.2.2.1
        simp only [List.cons_append, ht, if_false]
        rw [List.reverse_cons, walkComps_snoc, segOf_proper htp]
        simp [step]

theorem fold_NF {rooted : Bool} (cs : List Str) (stk : List Str) (h : StkNF rooted stk) (hc : ∀ c ∈ cs, '/' ∉ c) :
    StkNF rooted (cs.foldl (normStep rooted) stk) := by
  induction cs generalizing stk with
  | nil => exact h
  | cons c cs ih =>
    exact ih _ (normStep_NF h (hc c (by simp))) (fun x hx => hc x (List.mem_cons_of_mem _ hx))

theorem walk_fold {rooted : Bool} (start : Loc) (hs : rooted = true → start = []) (cs : List Str) (stk : List Str)
    (h : StkNF rooted stk) (hc : ∀ c ∈ cs, '/' ∉ c) :
    walkComps start (cs.foldl (normStep rooted) stk).reverse = walk (walkComps start stk.reverse) (cs.map segOf) := by
  induction cs generalizing stk with
  | nil => rfl
  | cons c cs ih =>
    simp only [List.foldl_cons, List.map_cons, walk_cons]
    rw [ih _ (normStep_NF h (hc c (by simp))) (fun x hx => hc x (List.mem_cons_of_mem _ hx)), walk_normStep start h hs]

/-- `new_comps` reversed is in normal form -/
theorem normComps_NF (p : Str) : StkNF (initialSlashes p != 0) (normComps p).reverse := by
  unfold normComps; rw [List.reverse_reverse]
  exact fold_NF _ _ (StkNF_nil _) (split_mem_noslash p)

/-- the normalised components lead where the spelled components lead -/
theorem walk_normComps (p : Str) (start : Loc) (hs : (initialSlashes p != 0) = true → start = []) :
    walkComps start (normComps p) = walk start (segments p) := by
  unfold normComps
  rw [walk_fold start hs _ _ (StkNF_nil _) (split_mem_noslash p), segments_eq]
  rfl

/-! ## pushing normal forms back through the loop (idempotence) -/

theorem push_names (rooted : Bool) (l stk : List Str) (h : ∀ s ∈ l, Proper s) :
    l.foldl (normStep rooted) stk = l.reverse ++ stk := by
  induction l generalizing stk with
  | nil => rfl
  | cons c l ih =>
    have hp := h c (by simp)
    have h1 : ¬ (c = [] ∨ c = dot) := fun e => e.elim hp.1 hp.2.1
    have : normStep rooted stk c = c :: stk := by
      unfold normStep; rw [if_neg h1, if_pos hp.2.2.1]
    simp only [List.foldl_cons, this]
    rw [ih _ (fun s hs => h s (List.mem_cons_of_mem _ hs))]; simp

theorem push_dd (l stk : List Str) (h : ∀ s ∈ l, s = dotdot) (hs : ∀ s ∈ stk, s = dotdot) :
    l.foldl (normStep false) stk = l.reverse ++ stk := by
  induction l generalizing stk with
  | nil => rfl
  | cons c l ih =>
    have hc : c = dotdot := h c (by simp)
    subst hc
    have : normStep false stk dotdot = dotdot :: stk := by
      unfold normStep
      have h1 : ¬ (dotdot = [] ∨ dotdot = dot) := by simp [dotdot, dot]
      rw [if_neg h1, if_neg (by simp)]
      cases stk with
      | nil => rfl
      | cons t r => simp [hs t (by simp)]
    simp only [List.foldl_cons, this]
    rw [ih _ (fun s hs' => h s (List.mem_cons_of_mem _ hs'))]
    · simp
    · intro s hs'
      rcases List.mem_cons.mp hs' with rfl | hs'
      · rfl
      · exact hs s hs'

theorem fold_of_NF (rooted : Bool) (stk : List Str) (h : StkNF rooted stk) :
    stk.reverse.foldl (normStep rooted) [] = stk := by
  obtain ⟨names, dd, rfl, hn, hd, hr⟩ := h
  rw [List.reverse_append, List.foldl_append]
  have h1 : dd.reverse.foldl (normStep rooted) [] = dd := by
    cases rooted
    · rw [push_dd _ _ (fun s hs => hd s (List.mem_reverse.mp hs)) (by simp)]; simp
    · rw [hr rfl]; rfl
  rw [h1, push_names rooted _ _ (fun s hs => hn s (List.mem_reverse.mp hs))]; simp

theorem NF_mem {rooted : Bool} {stk : List Str} (h : StkNF rooted stk) : ∀ c ∈ stk, c ≠ [] ∧ '/' ∉ c := by
  obtain ⟨names, dd, rfl, hn, hd, _⟩ := h
  intro c hc
  rcases List.mem_append.mp hc with hc | hc
  · exact ⟨(hn c hc).1, (hn c hc).2.2.2⟩
  · rw [hd c hc]; simp [dotdot]

/-! ## initial slashes -/

theorem initialSlashes_le (p : Str) : initialSlashes p ≤ 2 := by
  unfold initialSlashes; split <;> (try split) <;> omega

theorem initialSlashes_isabs (p : Str) : (initialSlashes p != 0) = isabs p := by
  unfold initialSlashes; split <;> (try split) <;> simp_all

theorem isabs_slash (x : Str) : isabs ('/' :: x) = true := rfl

theorem isabs_cons_ne {c : Char} (x : Str) (h : c ≠ '/') : isabs (c :: x) = false := by
  simp [isabs, h]

/-- a body that does not begin with a slash keeps the number of leading slashes -/
theorem initialSlashes_replicate (n : Nat) (hn : n ≤ 2) (x : Str) (hx : x.head? ≠ some '/') :
    initialSlashes (List.replicate n '/' ++ x) = n := by
  have h0 : isabs x = false := by
    cases x with
    | nil => rfl
    | cons c x => exact isabs_cons_ne x (fun e => hx (by simp [e]))
  match n, hn with
  | 0, _ => simp [initialSlashes, h0]
  | 1, _ =>
    cases x with
    | nil => simp [initialSlashes, isabs]
    | cons c x => simp [initialSlashes, isabs_slash, h0]
  | 2, _ =>
    cases x with
    | nil => simp [initialSlashes, isabs]
    | cons c x => simp [initialSlashes, isabs_slash, h0]

theorem split_replicate (n : Nat) (x : Str) : split (List.replicate n '/' ++ x) = List.replicate n [] ++ split x := by
  induction n with
  | zero => rfl
  | succ n ih => simp only [List.replicate_succ, List.cons_append, split_slash, ih]

theorem fold_replicate_nil (rooted : Bool) (n : Nat) (stk : List Str) :
    (List.replicate n ([] : Str)).foldl (normStep rooted) stk = stk := by
  induction n with
  | zero => rfl
  | succ n ih => simp only [List.replicate_succ, List.foldl_cons]; rw [show normStep rooted stk [] = stk by simp [normStep]]; exact ih

/-- head of the joined normal form is not a slash -/
theorem joinSlash_head_ne {l : List Str} (h : ∀ c ∈ l, c ≠ [] ∧ '/' ∉ c) : (joinSlash l).head? ≠ some '/' := by
  cases l with
  | nil => simp [joinSlash]
  | cons x r =>
    have hx := h x (by simp)
    rw [joinSlash_head x r hx.1]
    cases x with
    | nil => exact absurd rfl hx.1
    | cons a x =>
      intro e
      have : a = '/' := by simpa using e
      exact hx.2 (by simp [this])

theorem joinSlash_eq_nil {l : List Str} (h : ∀ c ∈ l, c ≠ []) (e : joinSlash l = []) : l = [] := by
  cases l with
  | nil => rfl
  | cons x r =>
    have hx := h x (by simp)
    cases r with
    | nil => exact absurd (by simpa [joinSlash] using e) hx
    | cons y r => simp [joinSlash] at e

/-! ## normpath: same location, same absoluteness, idempotent -/

theorem isabs_of_head {x : Str} (h : x.head? ≠ some '/') : isabs x = false := by
  cases x with
  | nil => rfl
  | cons c x => exact isabs_cons_ne x (fun e => h (by simp [e]))

theorem normComps_mem (p : Str) : ∀ c ∈ normComps p, c ≠ [] ∧ '/' ∉ c :=
  fun c hc => NF_mem (normComps_NF p) c (List.mem_reverse.mpr hc)

theorem isabs_out (n : Nat) {l : List Str} (h : ∀ c ∈ l, c ≠ [] ∧ '/' ∉ c) :
    isabs (List.replicate n '/' ++ joinSlash l) = (n != 0) := by
  cases n with
  | zero => simpa using isabs_of_head (joinSlash_head_ne h)
  | succ n => simp [List.replicate_succ, isabs_slash]

theorem resolve_dot (base : Loc) : resolve base dot = base := by
  simp [resolve, isAbsolute, segments, chunks, segOf, walk, step, dot]

theorem resolve_nil (base : Loc) : resolve base [] = base := by
  simp [resolve, isAbsolute, segments, chunks, segOf, walk, step]

theorem resolve_eq (base : Loc) (p : Str) :
    resolve base p = walk (if isabs p then [] else base) (segments p) := by
  simp [resolve, isAbsolute_eq]

theorem resolve_abs {p : Str} (h : isabs p = true) (b1 b2 : Loc) : resolve b1 p = resolve b2 p := by
  simp [resolve_eq, h]

theorem out_eq_nil {n : Nat} {l : List Str} (h : ∀ c ∈ l, c ≠ [] ∧ '/' ∉ c)
    (e : List.replicate n '/' ++ joinSlash l = []) : n = 0 ∧ l = [] := by
  have h1 := List.append_eq_nil_iff.mp e
  refine ⟨?_, joinSlash_eq_nil (fun c hc => (h c hc).1) h1.2⟩
  cases n with
  | zero => rfl
  | succ n => simp [List.replicate_succ] at h1

theorem segments_out (n : Nat) {l : List Str} (h : ∀ c ∈ l, c ≠ [] ∧ '/' ∉ c) (start : Loc) :
    walk start (segments (List.replicate n '/' ++ joinSlash l)) = walkComps start l := by
  rw [segments_eq, split_replicate, List.map_append]
  have : (List.replicate n ([] : Str)).map segOf = List.replicate n Seg.cur := by
    simp [List.map_replicate, segOf_nil]
  rw [this, walk_replicate_cur]
  cases l with
  | nil => simp [joinSlash, split_nil, segOf_nil, walkComps, walk, step]
  | cons x r => rw [split_joinSlash _ (by simp) (fun c hc => (h c hc).2)]; rfl

theorem resolve_normpath (base : Loc) (p : Str) : resolve base (normpath p) = resolve base p := by
  unfold normpath
  by_cases hp : p = []
  · subst hp; simp [resolve_dot, resolve_nil]
  · rw [if_neg hp]
    have hmem := normComps_mem p
    have hw : ∀ start : Loc, ((initialSlashes p != 0) = true → start = []) →
        walkComps start (normComps p) = walk start (segments p) := fun start hs => walk_normComps p start hs
    simp only []
    by_cases hout : List.replicate (initialSlashes p) '/' ++ joinSlash (normComps p) = []
    · rw [if_pos hout]
      obtain ⟨hn, hc⟩ := out_eq_nil hmem hout
      have hrel : isabs p = false := by rw [← initialSlashes_isabs, hn]; rfl
      rw [resolve_dot, resolve_eq, hrel]
      have := hw base (by rw [hn]; simp)
      rw [hc] at this
      simpa [walkComps, walk] using this
    · rw [if_neg hout, resolve_eq, isabs_out _ hmem, segments_out _ hmem, resolve_eq, ← initialSlashes_isabs]
      apply hw
      intro h; simp [h]

theorem isabs_normpath (p : Str) : isabs (normpath p) = isabs p := by
  unfold normpath
  by_cases hp : p = []
  · subst hp; simp [isabs, dot]
  · rw [if_neg hp]
    have hmem := normComps_mem p
    simp only []
    by_cases hout : List.replicate (initialSlashes p) '/' ++ joinSlash (normComps p) = []
    · rw [if_pos hout]
      obtain ⟨hn, _⟩ := out_eq_nil hmem hout
      rw [← initialSlashes_isabs p, hn]; simp [isabs, dot]
    · rw [if_neg hout, isabs_out _ hmem, initialSlashes_isabs]

theorem normpath_dot : normpath dot = dot := by decide
theorem normpath_nil : normpath [] = dot := by decide
theorem normComps_def (q : Str) :
    normComps q = ((split q).foldl (normStep (initialSlashes q != 0)) []).reverse := rfl

theorem normComps_out (p : Str) :
    normComps (List.replicate (initialSlashes p) '/' ++ joinSlash (normComps p)) = normComps p := by
  have hmem := normComps_mem p
  have hNF := normComps_NF p
  have hi : initialSlashes (List.replicate (initialSlashes p) '/' ++ joinSlash (normComps p)) = initialSlashes p :=
    initialSlashes_replicate _ (initialSlashes_le p) _ (joinSlash_head_ne hmem)
  rw [normComps_def (List.replicate (initialSlashes p) '/' ++ joinSlash (normComps p))]
  rw [hi, split_replicate, List.foldl_append, fold_replicate_nil]
  cases hc : normComps p with
  | nil => simp [joinSlash, split_nil, normStep]
  | cons x r =>
    rw [← hc, split_joinSlash _ (by rw [hc]; simp) (fun c hc' => (hmem c hc').2)]
    have := fold_of_NF _ _ hNF
    rw [List.reverse_reverse] at this
    rw [this, List.reverse_reverse]

theorem normpath_idem (p : Str) : normpath (normpath p) = normpath p := by
  by_cases hp : p = []
  · subst hp; rw [normpath_nil, normpath_dot]
  · have hmem := normComps_mem p
    by_cases hout : List.replicate (initialSlashes p) '/' ++ joinSlash (normComps p) = []
    · have : normpath p = dot := by unfold normpath; rw [if_neg hp]; simp only []; rw [if_pos hout]
      rw [this, normpath_dot]
    · have e : normpath p = List.replicate (initialSlashes p) '/' ++ joinSlash (normComps p) := by
        unfold normpath; rw [if_neg hp]; simp only []; rw [if_neg hout]
      rw [e]
      have hi : initialSlashes (List.replicate (initialSlashes p) '/' ++ joinSlash (normComps p)) = initialSlashes p :=
        initialSlashes_replicate _ (initialSlashes_le p) _ (joinSlash_head_ne hmem)
      conv => lhs; unfold normpath
      rw [if_neg hout]; simp only []
      rw [hi, normComps_out, if_neg hout]

/-! ## join -/

theorem isabs_append {a : Str} (b : Str) (h : a ≠ []) : isabs (a ++ b) = isabs a := by
  cases a with
  | nil => exact absurd rfl h
  | cons c a => by_cases hc : c = '/' <;> simp [isabs, hc]

theorem endsSlash_append (a : Str) {b : Str} (h : b ≠ []) : endsSlash (a ++ b) = endsSlash b := by
  simp [endsSlash, List.getLast?_append]
  cases hb : b.getLast? with
  | none => exact absurd (List.getLast?_eq_none_iff.mp hb) h
  | some x => simp

theorem join_abs {b : Str} (a : Str) (h : isabs b = true) : join a b = b := by simp [join, h]

theorem join_rel {b : Str} (a : Str) (h : isabs b = false) :
    join a b = if a.isEmpty || endsSlash a then a ++ b else a ++ '/' :: b := by simp [join, h]

theorem isabs_join_rel {a b : Str} (ha : a ≠ []) (hb : isabs b = false) : isabs (join a b) = isabs a := by
  rw [join_rel a hb]; split <;> exact isabs_append _ ha

theorem endsSlash_iff {a : Str} (h : endsSlash a = true) : ∃ a', a = a' ++ ['/'] := by
  simp only [endsSlash, beq_iff_eq] at h
  exact List.getLast?_eq_some_iff.mp h

theorem resolve_join (base : Loc) (a b : Str) : resolve base (join a b) = resolve (resolve base a) b := by
  by_cases hb : isabs b = true
  · rw [join_abs a hb]; exact resolve_abs hb _ _
  · have hb' : isabs b = false := by simpa using hb
    rw [join_rel a hb']
    by_cases ha : a = []
    · subst ha; simp [resolve_nil]
    · have hae : a.isEmpty = false := by simpa using ha
      rw [hae, Bool.false_or]
      by_cases he : endsSlash a = true
      · rw [if_pos he]
        obtain ⟨a', rfl⟩ := endsSlash_iff he
        have e1 : a' ++ ['/'] ++ b = a' ++ '/' :: b := by simp
        rw [e1, resolve_eq, resolve_eq _ b, hb', resolve_eq base]
        have hab : isabs (a' ++ '/' :: b) = isabs (a' ++ ['/']) := by
          cases a' with
          | nil => rfl
          | cons c a' => by_cases hc : c = '/' <;> simp [isabs, hc]
        rw [hab, segments_eq, split_append_slash, List.map_append, walk_append, segments_eq (a' ++ ['/']),
          split_append_slash, split_nil, List.map_append, walk_append]
        simp [walk, step, segOf_nil, segments_eq]
      · rw [if_neg he, resolve_eq, resolve_eq _ b, hb', resolve_eq base]
        have hab : isabs (a ++ '/' :: b) = isabs a := isabs_append _ ha
        rw [hab, segments_eq, split_append_slash, List.map_append, walk_append, ← segments_eq, ← segments_eq]
        simp

theorem join_assoc (a b c : Str) : join (join a b) c = join a (join b c) := by
  by_cases hc : isabs c = true
  · rw [join_abs _ hc, join_abs _ hc, join_abs _ hc]
  · have hc' : isabs c = false := by simpa using hc
    by_cases hb : isabs b = true
    · have hbne : b ≠ [] := by intro e; subst e; simp [isabs] at hb
      have : isabs (join b c) = true := by rw [isabs_join_rel hbne hc', hb]
      rw [join_abs a hb, join_abs a this]
    · have hb' : isabs b = false := by simpa using hb
      by_cases hbe : b = []
      · subst hbe
        have e1 : join [] c = c := by simp [join_rel _ hc']
        rw [e1, join_rel a hb', join_rel a hc', List.append_nil]
        by_cases h : (a.isEmpty || endsSlash a) = true
        · rw [if_pos h, if_pos h, join_rel a hc', if_pos h]
        · rw [if_neg h, if_neg h, join_rel _ hc']
          have : endsSlash (a ++ ['/']) = true := by simp [endsSlash]
          simp [this]
      · have hjr : isabs (join b c) = false := by rw [isabs_join_rel hbe hc', hb']
        have hbemp : b.isEmpty = false := by simpa using hbe
        rw [join_rel _ hc', join_rel a hjr, join_rel b hc', join_rel a hb', hbemp, Bool.false_or]
        have hne1 : (if (a.isEmpty || endsSlash a) = true then a ++ b else a ++ '/' :: b) ≠ [] := by
          split <;> simp [hbe]
        have hemp : (if (a.isEmpty || endsSlash a) = true then a ++ b else a ++ '/' :: b).isEmpty = false := by
          simpa using hne1
        have hends : endsSlash (if (a.isEmpty || endsSlash a) = true then a ++ b else a ++ '/' :: b) = endsSlash b := by
          split
          · exact endsSlash_append a hbe
          · have : a ++ '/' :: b = (a ++ ['/']) ++ b := by simp
            rw [this]; exact endsSlash_append _ hbe
        rw [hemp, hends, Bool.false_or]
        by_cases h1 : (a.isEmpty || endsSlash a) = true <;> by_cases h2 : endsSlash b = true <;> simp [h1, h2]

/-! ## abspath -/

theorem resolve_abspath {cwd : Str} (hcwd : isabs cwd = true) (base : Loc) (p : Str) :
    resolve base (abspath cwd p) = resolve (locOf cwd) p := by
  unfold abspath
  rw [resolve_normpath]
  by_cases hp : isabs p = true
  · rw [if_pos hp]; exact resolve_abs hp _ _
  · rw [if_neg hp, resolve_join]; congr 1; exact resolve_abs hcwd _ _

theorem isabs_abspath {cwd : Str} (hcwd : isabs cwd = true) (p : Str) : isabs (abspath cwd p) = true := by
  unfold abspath
  rw [isabs_normpath]
  by_cases hp : isabs p = true
  · rw [if_pos hp]; exact hp
  · rw [if_neg hp]
    have hne : cwd ≠ [] := by intro e; subst e; simp [isabs] at hcwd
    rw [isabs_join_rel hne (by simpa using hp)]; exact hcwd

theorem abspath_normal (cwd p : Str) : normpath (abspath cwd p) = abspath cwd p := by
  unfold abspath; exact normpath_idem _

theorem locOf_abspath {cwd : Str} (hcwd : isabs cwd = true) (p : Str) :
    locOf (abspath cwd p) = resolve (locOf cwd) p := resolve_abspath hcwd [] p

/-! ## extension of a name: the spec's `extension` is the model's `suffixOfName` -/

theorem rfindDot_nodot (l : Str) (k : Nat) (acc : Option Nat) (h : '.' ∉ l) : rfindDot l k acc = acc := by
  induction l generalizing k acc with
  | nil => rfl
  | cons c l ih =>
    have hc : c ≠ '.' := fun e => h (by simp [e])
    rw [rfindDot, if_neg hc]; exact ih _ _ (fun e => h (List.mem_cons_of_mem _ e))

theorem rfindDot_append (a b : Str) (k : Nat) (acc : Option Nat) :
    rfindDot (a ++ b) k acc = rfindDot b (k + a.length) (rfindDot a k acc) := by
  induction a generalizing k acc with
  | nil => simp [rfindDot]
  | cons c a ih =>
    simp only [List.cons_append, rfindDot, List.length_cons]
    rw [ih]; congr 1; omega

theorem last_dot (l : Str) : '.' ∉ l ∨ ∃ pre post, l = pre ++ '.' :: post ∧ '.' ∉ post := by
  induction l with
  | nil => left; simp
  | cons c l ih =>
    rcases ih with h | ⟨pre, post, rfl, hp⟩
    · by_cases hc : c = '.'
      · right; exact ⟨[], l, by simp [hc], h⟩
      · left; intro hm
        rcases List.mem_cons.mp hm with e | e
        · exact hc e.symm
        · exact h e
    · right; exact ⟨c :: pre, post, rfl, hp⟩

theorem suffixOfName_nodot {l : Str} (h : '.' ∉ l) : suffixOfName l = [] := by
  unfold suffixOfName; rw [rfindDot_nodot l 0 none h]

theorem suffixOfName_dot (pre post : Str) (h : '.' ∉ post) :
    suffixOfName (pre ++ '.' :: post) = if 0 < pre.length ∧ 0 < post.length then '.' :: post else [] := by
  unfold suffixOfName
  have : rfindDot (pre ++ '.' :: post) 0 none = some pre.length := by
    rw [rfindDot_append, rfindDot]; simp only [if_true, Nat.zero_add]
    exact rfindDot_nodot _ _ _ h
  rw [this]; simp only [List.length_append, List.length_cons]
  have hd : List.drop pre.length (pre ++ '.' :: post) = '.' :: post := by simp
  rw [hd]
  by_cases h1 : 0 < pre.length <;> by_cases h2 : 0 < post.length
  · rw [if_pos ⟨h1, by omega⟩, if_pos ⟨h1, h2⟩]
  · rw [if_neg (fun e => h2 (by omega)), if_neg (fun e => h2 e.2)]
  · rw [if_neg (fun e => h1 e.1), if_neg (fun e => h1 e.1)]
  · rw [if_neg (fun e => h1 e.1), if_neg (fun e => h1 e.1)]

theorem takeWhile_all {p : Char → Bool} (l : Str) (h : ∀ x ∈ l, p x = true) : l.takeWhile p = l := by
  induction l with
  | nil => rfl
  | cons c l ih =>
    rw [List.takeWhile_cons, h c (by simp)]; simp only [if_true]
    rw [ih (fun x hx => h x (List.mem_cons_of_mem _ hx))]

theorem takeWhile_stop {p : Char → Bool} (a : Str) (b : Char) (r : Str) (h : ∀ x ∈ a, p x = true) (hb : p b = false) :
    (a ++ b :: r).takeWhile p = a := by
  induction a with
  | nil => simp [hb]
  | cons c a ih =>
    simp only [List.cons_append]
    rw [List.takeWhile_cons, h c (by simp)]; simp only [if_true]
    rw [ih (fun x hx => h x (List.mem_cons_of_mem _ hx))]

theorem extension_nodot {l : Str} (h : '.' ∉ l) : extension l = [] := by
  unfold extension
  have : l.reverse.takeWhile (· ≠ '.') = l.reverse :=
    takeWhile_all _ (fun x hx => by
      have : x ≠ '.' := fun e => h (by rw [← e]; exact List.mem_reverse.mp hx)
      simpa using this)
  simp only [this, if_true]

theorem extension_dot (pre post : Str) (h : '.' ∉ post) :
    extension (pre ++ '.' :: post) = if 0 < pre.length ∧ 0 < post.length then '.' :: post else [] := by
  unfold extension
  have hr : (pre ++ '.' :: post).reverse = post.reverse ++ '.' :: pre.reverse := by simp
  have ht : (post.reverse ++ '.' :: pre.reverse).takeWhile (· ≠ '.') = post.reverse :=
    takeWhile_stop _ _ _ (fun x hx => by
      have : x ≠ '.' := fun e => h (by rw [← e]; exact List.mem_reverse.mp hx)
      simpa using this) (by simp)
  simp only [hr, ht, List.length_append, List.length_reverse, List.length_cons, List.reverse_reverse]
  have h0 : ¬ (post.length = post.length + (pre.length + 1)) := by omega
  rw [if_neg h0]
  by_cases h2 : post = []
  · subst h2; simp
  · have hp : 0 < post.length := List.length_pos_iff.mpr h2
    have h2' : ¬ (post.reverse = []) := by simpa using h2
    rw [if_neg h2']
    by_cases h1 : 0 < pre.length
    · rw [if_neg (by omega), if_pos ⟨h1, hp⟩]
    · rw [if_pos (by omega), if_neg (fun e => h1 e.1)]

theorem extension_eq (l : Str) : extension l = suffixOfName l := by
  rcases last_dot l with h | ⟨pre, post, rfl, h⟩
  · rw [extension_nodot h, suffixOfName_nodot h]
  · rw [extension_dot pre post h, suffixOfName_dot pre post h]

/-! ## `is_source_file` on the spelling -/

theorem segOf_eq_cur_iff (c : Str) : segOf c = .cur ↔ (c = [] ∨ c = dot) := by
  unfold segOf dot
  by_cases h : c = [] ∨ c = ['.']
  · simp [h]
  · rw [if_neg h]
    by_cases h2 : c = ['.', '.'] <;> simp [h2, h]

theorem filter_segs (l : List Str) :
    (l.map segOf).filter (· ≠ .cur) = (l.filter fun c => !(decide (c = [] ∨ c = dot))).map segOf := by
  rw [List.filter_map]
  congr 1
  apply List.filter_congr
  intro c _
  by_cases h : c = [] ∨ c = dot
  · have : segOf c = .cur := (segOf_eq_cur_iff c).mpr h
    simp [this, h]
  · have : segOf c ≠ .cur := fun e => h ((segOf_eq_cur_iff c).mp e)
    simp [this, h]

theorem suffix_dotdot : suffixOfName dotdot = [] := by decide
theorem suffix_nil : suffixOfName [] = [] := by decide
theorem not_source_empty : CbiVerif.Gen.sourceExts.contains (String.ofList []) = false := by decide

theorem isSource_eq (file : Str) : isSource file = isSourceSpelling file := by
  unfold isSource isSourceSpelling pyName
  rw [segments_eq, filter_segs, List.getLast?_map]
  cases hl : ((split file).filter fun c => !(decide (c = [] ∨ c = dot))).getLast? with
  | none =>
    simp only [Option.getD_none, Option.map_none, suffix_nil]
    exact not_source_empty
  | some c =>
    have hmem : c ∈ (split file).filter fun c => !(decide (c = [] ∨ c = dot)) := List.mem_of_getLast? hl
    have hk : ¬ (c = [] ∨ c = dot) := by simpa using (List.mem_filter.mp hmem).2
    have hns : '/' ∉ c := split_mem_noslash file c (List.mem_filter.mp hmem).1
    simp only [Option.getD_some, Option.map_some]
    by_cases hd : c = dotdot
    · subst hd; rw [segOf_dotdot, suffix_dotdot]; exact not_source_empty
    · have : segOf c = .name c := segOf_proper ⟨fun e => hk (Or.inl e), fun e => hk (Or.inr e), hd, hns⟩
      rw [this]
      show _ = CbiVerif.Gen.sourceExts.contains (String.ofList (extension c))
      rw [extension_eq]

/-! ## load_database -/

theorem filedir_loc {cwd : Str} (hcwd : isabs cwd = true) (root : Str) (d : Option Str) :
    resolve (locOf cwd) (filedir cwd root d) = dirLoc (rootLoc cwd root) d := by
  cases d with
  | none => rfl
  | some d =>
    unfold filedir dirLoc rootLoc
    simp only []
    by_cases hd : isabs d = true
    · rw [if_pos hd]; exact resolve_abs hd _ _
    · rw [if_neg hd, resolve_abspath hcwd, resolve_join]

theorem entryPath_eq (cwd root : Str) (c : Cmd) :
    entryPath cwd root c = abspath cwd (join (filedir cwd root c.directory) c.file) := by
  unfold entryPath
  by_cases h : isabs c.file = true
  · rw [if_pos h, join_abs _ h]
  · rw [if_neg h]

theorem loadList_append (cwd root : Str) (ex : Str → Bool) {α : Type} (parse : List Str → List (α × List Str)) (xs ys : List Cmd) :
    loadList cwd root ex parse (xs ++ ys) =
      match loadList cwd root ex parse xs with
      | .error e => .error e
      | .ok (o, l) => match loadList cwd root ex parse ys with
        | .error e => .error e
        | .ok (os, ls) => .ok (o ++ os, l ++ ls) := by
  induction xs with
  | nil =>
    simp only [List.nil_append, loadList]
    cases loadList cwd root ex parse ys with
    | error e => rfl
    | ok r => rfl
  | cons c cs ih =>
    simp only [List.cons_append, loadList, ih]
    cases entryOut cwd root ex parse c with
    | error e => rfl
    | ok r =>
      cases loadList cwd root ex parse cs with
      | error e => rfl
      | ok r1 =>
        cases loadList cwd root ex parse ys with
        | error e => rfl
        | ok r2 => simp [List.append_assoc]


/-! ## the name a spelling ends in is the last component of the location -/

theorem walk_all_cur (segs : List Seg) (start : Loc) (h : segs.filter (· ≠ .cur) = []) : walk start segs = start := by
  induction segs generalizing start with
  | nil => rfl
  | cons s r ih =>
    by_cases hs : s = .cur
    · subst hs; rw [walk_cons]; simp only [step]
      exact ih start (by simpa [List.filter_cons] using h)
    · simp [hs] at h

theorem walk_last (segs : List Seg) (start : Loc) (n : Str)
    (h : (segs.filter (· ≠ .cur)).getLast? = some (.name n)) : (walk start segs).getLast? = some n := by
  induction segs generalizing start with
  | nil => simp at h
  | cons s r ih =>
    rw [walk_cons]
    by_cases hs : s = .cur
    · subst hs; simp only [step]
      exact ih start (by simpa [List.filter_cons] using h)
    · have hf : (s :: r).filter (· ≠ .cur) = s :: r.filter (· ≠ .cur) := by simp [hs]
      rw [hf, List.getLast?_cons] at h
      cases hfr : (r.filter (· ≠ .cur)).getLast? with
      | none =>
        rw [hfr] at h
        have hs' : s = .name n := by simpa using h
        subst hs'
        rw [walk_all_cur r _ (List.getLast?_eq_none_iff.mp hfr)]
        simp [step]
      | some x =>
        rw [hfr] at h
        have hx : x = .name n := by simpa using h
        subst hx
        exact ih _ hfr

theorem resolve_last (base : Loc) (file n : Str) (h : CbiVerif.DbResolve.spelledName file = some n) :
    (resolve base file).getLast? = some n := by
  unfold CbiVerif.DbResolve.spelledName at h
  unfold resolve
  apply walk_last
  cases hl : ((segments file).filter (· ≠ .cur)).getLast? with
  | none => rw [hl] at h; simp at h
  | some x =>
    rw [hl] at h
    cases x with
    | cur => simp at h
    | up => simp at h
    | name m => simp at h; rw [h]

end CbiVerif.DbPath
