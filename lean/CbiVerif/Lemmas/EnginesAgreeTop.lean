import CbiVerif.Lemmas.EnginesAgreeVisit
/-! Helper lemmas for `Props/C04Engines.lean`, part 5: one database entry, all entries of all platforms. -/
namespace CbiVerif.Engines
open CbiVerif.PP CbiVerif.Exclude CbiVerif.Cond CbiVerif.MF

theorem defineAll_eq (ds : List String) (p : PP.Platform) :
    defineAll ds p = (Inc.buildDefines ds p.tbl).map fun t => { p with tbl := t } := by
  induction ds generalizing p with
  | nil => rfl
  | cons d ds ih =>
    simp only [defineAll, Inc.buildDefines]
    cases macroFromDefinitionString d with
    | error e => rfl
    | ok mc =>
      simp only []
      rw [ih]
      split <;> rfl

/-- outcome of the two engines at the level of whole entries: one of them failed, or both are fine and attribute alike -/
def Top3 (l : Local) (st : Inc.PState) : Prop :=
  l.err ≠ none ∨ st.err ≠ none ∨ (l.err = none ∧ st.err = none ∧ ∀ f i p, Has l.assoc f i p ↔ Has st.assoc f i p)

theorem entry_top (fs : Inc.FS) (hl : fs.links = []) (hfam : FindInst.CFam fs.files = true) (hT : TreesOK) (n fuel : Nat)
    (pname : String) (e : Entry) (hext : extClass e.file = some .c) (hforced : e.includeFiles = [])
    (l : Local) (st : Inc.PState) (h : Top3 l st) :
    Top3 (runEntryRef (Exclude.sem fs.files) n pname e l)
      (Inc.runEntryWith true (assocFile (Inc.ops fs (Inc.parseAll fs)) fuel) fs (Inc.parseAll fs) pname st e) := by
  rcases h with h | h | ⟨hle, hse, hatt⟩
  · left
    unfold runEntryRef
    cases he : l.err with
    | none => exact absurd he h
    | some e => simpa using h
  · right; left
    unfold Inc.runEntryWith
    cases he : st.err with
    | none => exact absurd he h
    | some e => simpa using h
  · obtain ⟨la, lw, lerr, lp, lt⟩ := l
    simp only at hle
    subst hle
    unfold runEntryRef Inc.runEntryWith
    simp only [hse, Option.isSome_none, Bool.false_eq_true, if_false, hforced, runForcedRef, List.foldl_nil]
    have hmk : (Exclude.sem fs.files).mkPlat pname e = defineAll e.defines { name := pname, incPaths := e.includePaths } := rfl
    rw [hmk, defineAll_eq]
    cases hbd : Inc.buildDefines e.defines ([] : Table) with
    | error er => left; simp [Except.map, Local.fail]
    | ok tbl =>
      simp only [Except.map]
      rw [realpath_id fs hl]
      rcases enterRef_cases' fs { assoc := la, warns := lw, err := none, plat := { name := pname, tbl := tbl, incPaths := e.includePaths }, taken := [] } e.file none
          (fun _ _ => by simp [Exclude.Sem.refClass, Exclude.sem, hext])
        with ⟨l1, hen, hl1⟩ | ⟨nodes, ts, dd, hpg, hb, hen⟩
      · rw [hen]; exact .inl hl1
      · rw [hen]
        simp only []
        have hrel : RelW (fun _ _ _ => False) pname
            { assoc := la, warns := lw, err := none, plat := { name := pname, tbl := tbl, incPaths := e.includePaths }, taken := [] }
            ({ st := st, plat := { name := pname, tbl := tbl, incPaths := e.includePaths } } : Inc.World) :=
          ⟨rfl, hse, rfl, rfl, fun f i p => by simp [hatt]⟩
        rcases file_agree fs hl hfam hT pname fuel e.file n nodes ts dd _ _ _ hpg hb hrel with h | h | ⟨h, _⟩
        · exact .inl h
        · exact .inr (.inl (by simpa [assocFile] using h))
        · exact .inr (.inr ⟨h.lerr, by simpa [assocFile] using h.werr, fun f i p => by
            have := h.att f i p
            simpa [assocFile] using this⟩)

theorem entries_top (fs : Inc.FS) (hl : fs.links = []) (hfam : FindInst.CFam fs.files = true) (hT : TreesOK) (n fuel : Nat)
    (pname : String) : ∀ (es : List Entry), (∀ e ∈ es, extClass e.file = some .c ∧ e.includeFiles = []) →
    ∀ (l : Local) (st : Inc.PState), Top3 l st →
    Top3 (runEntriesRef (Exclude.sem fs.files) n pname es l)
      (es.foldl (Inc.runEntryWith true (assocFile (Inc.ops fs (Inc.parseAll fs)) fuel) fs (Inc.parseAll fs) pname) st)
  | [], _, l, st, h => by simpa [runEntriesRef] using h
  | e :: es, hes, l, st, h => by
    simp only [runEntriesRef, List.foldl_cons]
    exact entries_top fs hl hfam hT n fuel pname es (fun x hx => hes x (by simp [hx])) _ _
      (entry_top fs hl hfam hT n fuel pname e (hes e (by simp)).1 (hes e (by simp)).2 l st h)

theorem config_top (fs : Inc.FS) (hl : fs.links = []) (hfam : FindInst.CFam fs.files = true) (hT : TreesOK) (n fuel : Nat) :
    ∀ (cfg : List (String × List Entry)), (∀ pe ∈ cfg, ∀ e ∈ pe.2, extClass e.file = some .c ∧ e.includeFiles = []) →
    ∀ (l : Local) (st : Inc.PState), Top3 l st →
    Top3 (runConfigRef (Exclude.sem fs.files) n cfg l)
      (cfg.foldl (fun st pe => pe.2.foldl
        (Inc.runEntryWith true (assocFile (Inc.ops fs (Inc.parseAll fs)) fuel) fs (Inc.parseAll fs) pe.1) st) st)
  | [], _, l, st, h => by simpa [runConfigRef] using h
  | (p, es) :: cfg, hc, l, st, h => by
    simp only [runConfigRef, List.foldl_cons]
    exact config_top fs hl hfam hT n fuel cfg (fun x hx => hc x (by simp [hx])) _ _
      (entries_top fs hl hfam hT n fuel p es (hc (p, es) (by simp)) l st h)

theorem engOK_spec (fs : Inc.FS) (cfg : List (String × List Entry)) (h : EngOK fs cfg = true) :
    fs.links = [] ∧ FindInst.CFam fs.files = true ∧
    ∀ pe ∈ cfg, ∀ e ∈ pe.2, extClass e.file = some .c ∧ e.includeFiles = [] := by
  simp only [EngOK, Bool.and_eq_true, List.all_eq_true, List.isEmpty_iff, beq_iff_eq] at h
  exact ⟨h.1.1, h.1.2, h.2⟩

/-- the state `Inc.find` starts the entries in attributes nothing -/
theorem st0_assoc (pfs : Inc.ParsedFS) (fs : Inc.FS) (files : List String) (s : Inc.PState) :
    (files.foldl (fun s f => s.insertFile pfs (fs.realpath f)) s).assoc = s.assoc := by
  induction files generalizing s with
  | nil => rfl
  | cons f files ih => simp only [List.foldl_cons]; rw [ih, (Inc.insertFile_frame s pfs _).2.2]

theorem find_top (fs : Inc.FS) (cb : List String) (cfg : List (String × List Entry)) (n fuel : Nat) (hT : TreesOK)
    (hok : EngOK fs cfg = true) : Top3 (runExclude fs cfg n) (Inc.find fs cb cfg fuel) := by
  obtain ⟨hl, hfam, hc⟩ := engOK_spec fs cfg hok
  unfold runExclude findRef Inc.find Inc.findWith
  simp only []
  apply config_top fs hl hfam hT n fuel cfg hc
  by_cases he : (List.foldl (fun s f => s.insertFile (Inc.parseAll fs) (fs.realpath f)) ({} : Inc.PState)
      (cb ++ List.map (fun x => x.file) (List.flatMap (fun x => x.2) cfg))).err = none
  · refine .inr (.inr ⟨rfl, he, fun f i p => ?_⟩)
    rw [st0_assoc]
  · exact .inr (.inl he)

end CbiVerif.Engines
