import CbiVerif.PP.Find
import CbiVerif.PP.FSource
import CbiVerif.Generated.Tables
/-! C10 — model of `finder.find` / `ParserState` with an explicit *tree cache* and an explicit
*language class* per parsed file, plus `get_setmap` and the `-x` / `[codebase] exclude` concatenation.

The multi-file engine is written once, generically in a semantics record `Sem` (how one node acts on
the platform state, how a file is parsed under a language class, how includes are resolved) and with
fuel, so that it can be reasoned about (`CbiVerif/Lemmas/Exclude.lean`, `CbiVerif/Props/C10.lean`).
The driver (`CbiVerif/Drv/Exclude.lean`) executes the *same* engine instantiated with the concrete
preprocessor model of `CbiVerif/PP` (`sem fs`).

Code modelled (codebasin/finder.py, preprocessor.py:IncludeNode, file_source.py:get_file_source):

* `find`: every file of `set(codebase) ∪ {e["file"]}` is parsed first, in the language given by its
  extension (`preparse`); then every entry of every platform is associated (`runEntry`).
* `IncludeNode.evaluate_for_platform`: `state.insert_file(include_file, langs[includer])` — a header
  that is not yet in `state.trees` is parsed in the language of the file that includes it *first*;
  a header that is already there keeps the tree it has (`Sem.enter`).
* `get_file_source`: only three parsers exist (`c`/`c++` → C, `fortran-free` → Fortran, `asm`), so the
  model keeps the language *class* (`LClass`); `fortran-fixed` and unknown extensions have no class.
-/
namespace CbiVerif.Exclude
open CbiVerif.PP

inductive LClass | c | fortran | asm
deriving DecidableEq, Repr, Inhabited

abbrev Parsed := Array PNode × List PTree

/-- everything `associate` reads or writes except the tree cache -/
structure Local where
  assoc : List ((String × Nat) × List String) := []     -- (file, node index) ↦ platforms, insertion order
  warns : List Warn := []
  err : Option Err := none
  plat : Platform := { name := "" }
  taken : List Bool := []

/-- what the visitor does after a node has acted: skip its children, descend, or process an included file -/
inductive Act | stay | descend | incl (file : String)

structure Sem where
  /-- language class given by the file extension (`FileLanguage` + `get_file_source`) -/
  extClass : String → Option LClass
  /-- `FileParser(f).parse_file(language=…)` for the class -/
  parseAs : LClass → String → Except Err Parsed
  /-- `association[node].add(platform)` + `node.evaluate_for_platform` + the branch_taken bookkeeping -/
  step : String → Nat → PNode → Local → Local × Act
  /-- `Platform.find_include_file(name, dir)` for a forced include -/
  findInc : Platform → String → String → Option String × Platform
  /-- the `Platform` object of one compilation-database entry -/
  mkPlat : String → Entry → Except Err Platform

abbrev Cache := List (String × LClass × Parsed)
def Cache.look (c : Cache) (f : String) : Option (LClass × Parsed) :=
  (List.find? (fun e => e.1 == f) c).map (·.2)

/-- a *language-mixing event*: file `file` was used with class `used` although the class that depends on
(file system, configuration) only — extension class if there is one, else the includer's — is `ref`. -/
structure MixEv where
  file : String
  used : LClass
  ref : Option LClass
deriving Repr, DecidableEq

structure XW where
  cache : Cache := []
  mixed : List MixEv := []
  loc : Local := {}

def Local.fail (l : Local) (e : Err) : Local := { l with err := some e }
def XW.fail (w : XW) (e : Err) : XW := { w with loc := w.loc.fail e }
def fuelErr : Err := .other "fuel"
def langErr : Err := .runtime "Could not determine language"

/-- the class that does not depend on the cache: extension class, else the inherited one -/
def Sem.refClass (S : Sem) (g : String) (inh : Option LClass) : Option LClass :=
  match S.extClass g with
  | some e => some e
  | none => inh

def Sem.mixOf (S : Sem) (g : String) (cl : LClass) (inh : Option LClass) : List MixEv :=
  if some cl = S.refClass g inh then [] else [⟨g, cl, S.refClass g inh⟩]

/-- the class under which a file that is not cached yet is parsed: the given language, else the extension's -/
def Sem.inhOrExt (S : Sem) (g : String) (inh : Option LClass) : Option LClass :=
  match inh with
  | some l => some l
  | none => S.extClass g

/-- `state.insert_file(g, language=inh)` followed by `state.get_tree(g)` / `state.langs[g]`.
A cached file keeps its tree and class; a new file is parsed as `inh` if given, else by extension. -/
def Sem.enter (S : Sem) (w : XW) (g : String) (inh : Option LClass) : XW × Option (LClass × Parsed) :=
  match w.cache.look g with
  | some (cl, t) => ({ w with mixed := w.mixed ++ S.mixOf g cl inh }, some (cl, t))
  | none =>
    match S.inhOrExt g inh with
    | none => (w.fail langErr, none)
    | some cl =>
      match S.parseAs cl g with
      | .error e => ({ w with mixed := w.mixed ++ S.mixOf g cl inh, loc := w.loc.fail e }, none)
      | .ok t => ({ w with mixed := w.mixed ++ S.mixOf g cl inh, cache := w.cache ++ [(g, cl, t)] }, some (cl, t))

mutual
/-- `ParserState.associate(file, platform)` on the tree `(nodes, trees)` of `file` -/
def assocTree (S : Sem) : Nat → String → LClass → Parsed → XW → XW
  | 0, _, _, _, w => w.fail fuelErr
  | n + 1, file, cl, (nodes, trees), w =>
    let w' := visitList S n file cl nodes { w with loc := { w.loc with taken := [] } } trees
    { w' with loc := { w'.loc with taken := w.loc.taken } }
def visit (S : Sem) : Nat → String → LClass → Array PNode → XW → PTree → XW
  | 0, _, _, _, w, _ => w.fail fuelErr
  | n + 1, file, cl, nodes, w, .node idx kids =>
    match w.loc.err with
    | some _ => w
    | none =>
      match S.step file idx (nodes[idx]!) w.loc with
      | (loc, .stay) => { w with loc := loc }
      | (loc, .descend) => visitList S n file cl nodes { w with loc := loc } kids
      | (loc, .incl g) =>
        -- "include files use the same language as the file itself, irrespective of file extension"
        match S.enter { w with loc := loc } g (some cl) with
        | (w1, none) => w1
        | (w1, some (cl2, t)) => assocTree S n g cl2 t w1
def visitList (S : Sem) : Nat → String → LClass → Array PNode → XW → List PTree → XW
  | _, _, _, _, w, [] => w
  | 0, _, _, _, w, _ :: _ => w.fail fuelErr
  | n + 1, file, cl, nodes, w, t :: ts => visitList S n file cl nodes (visit S n file cl nodes w t) ts
end

/-- the `for include in e["include_files"]` loop of `find` -/
def runForced (S : Sem) (n : Nat) (dir : String) : List String → XW → XW
  | [], w => w
  | inc :: rest, w =>
    match w.loc.err with
    | some _ => w
    | none =>
      match S.findInc w.loc.plat inc dir with
      | (none, p2) => runForced S n dir rest { w with loc := { w.loc with plat := p2 } }
      | (some f, p2) =>
        match S.enter { w with loc := { w.loc with plat := p2 } } f none with
        | (w1, none) => w1
        | (w1, some (cl, t)) => runForced S n dir rest (assocTree S n f cl t w1)

/-- one compilation-database entry -/
def runEntry (S : Sem) (n : Nat) (pname : String) (e : Entry) (w : XW) : XW :=
  match w.loc.err with
  | some _ => w
  | none =>
    match S.mkPlat pname e with
    | .error er => w.fail er
    | .ok plat =>
      let w := runForced S n (dirname e.file) e.includeFiles { w with loc := { w.loc with plat := plat, taken := [] } }
      match w.loc.err with
      | some _ => w
      | none =>
        match S.enter w e.file none with
        | (w1, none) => w1
        | (w1, some (cl, t)) => assocTree S n e.file cl t w1

def runEntries (S : Sem) (n : Nat) (pname : String) : List Entry → XW → XW
  | [], w => w
  | e :: es, w => runEntries S n pname es (runEntry S n pname e w)

def runConfig (S : Sem) (n : Nat) : List (String × List Entry) → XW → XW
  | [], w => w
  | (p, es) :: rest, w => runConfig S n rest (runEntries S n p es w)

/-- the "Build a tree for each unique file" loop of `find` (every file by its extension) -/
def preparse (S : Sem) : List String → XW → XW
  | [], w => w
  | f :: fs, w =>
    match w.loc.err with
    | some _ => w
    | none => preparse S fs (S.enter w f none).1

def entryFiles (config : List (String × List Entry)) : List String :=
  config.flatMap fun pe => pe.2.map (·.file)

/-- `finder.find(rootdir, codebase, configuration)`; `codebase` = the files `for fn in codebase` yields -/
def find (S : Sem) (n : Nat) (codebase : List String) (config : List (String × List Entry)) : XW :=
  runConfig S n config (preparse S (codebase ++ entryFiles config) {})

/-! ### Reference: no cache, no code base — a function of (file system, configuration) only.
A file is parsed whenever it is reached, in the class `refClass` (extension class, else the includer's). -/

def Sem.enterRef (S : Sem) (l : Local) (g : String) (inh : Option LClass) : Local × Option (LClass × Parsed) :=
  match S.refClass g inh with
  | none => (l.fail langErr, none)
  | some cl =>
    match S.parseAs cl g with
    | .error e => (l.fail e, none)
    | .ok t => (l, some (cl, t))

mutual
def assocTreeRef (S : Sem) : Nat → String → LClass → Parsed → Local → Local
  | 0, _, _, _, l => l.fail fuelErr
  | n + 1, file, cl, (nodes, trees), l =>
    let l' := visitListRef S n file cl nodes { l with taken := [] } trees
    { l' with taken := l.taken }
def visitRef (S : Sem) : Nat → String → LClass → Array PNode → Local → PTree → Local
  | 0, _, _, _, l, _ => l.fail fuelErr
  | n + 1, file, cl, nodes, l, .node idx kids =>
    match l.err with
    | some _ => l
    | none =>
      match S.step file idx (nodes[idx]!) l with
      | (loc, .stay) => loc
      | (loc, .descend) => visitListRef S n file cl nodes loc kids
      | (loc, .incl g) =>
        match S.enterRef loc g (some cl) with
        | (l1, none) => l1
        | (l1, some (cl2, t)) => assocTreeRef S n g cl2 t l1
def visitListRef (S : Sem) : Nat → String → LClass → Array PNode → Local → List PTree → Local
  | _, _, _, _, l, [] => l
  | 0, _, _, _, l, _ :: _ => l.fail fuelErr
  | n + 1, file, cl, nodes, l, t :: ts => visitListRef S n file cl nodes (visitRef S n file cl nodes l t) ts
end

def runForcedRef (S : Sem) (n : Nat) (dir : String) : List String → Local → Local
  | [], l => l
  | inc :: rest, l =>
    match l.err with
    | some _ => l
    | none =>
      match S.findInc l.plat inc dir with
      | (none, p2) => runForcedRef S n dir rest { l with plat := p2 }
      | (some f, p2) =>
        match S.enterRef { l with plat := p2 } f none with
        | (l1, none) => l1
        | (l1, some (cl, t)) => runForcedRef S n dir rest (assocTreeRef S n f cl t l1)

def runEntryRef (S : Sem) (n : Nat) (pname : String) (e : Entry) (l : Local) : Local :=
  match l.err with
  | some _ => l
  | none =>
    match S.mkPlat pname e with
    | .error er => l.fail er
    | .ok plat =>
      let l := runForcedRef S n (dirname e.file) e.includeFiles { l with plat := plat, taken := [] }
      match l.err with
      | some _ => l
      | none =>
        match S.enterRef l e.file none with
        | (l1, none) => l1
        | (l1, some (cl, t)) => assocTreeRef S n e.file cl t l1

def runEntriesRef (S : Sem) (n : Nat) (pname : String) : List Entry → Local → Local
  | [], l => l
  | e :: es, l => runEntriesRef S n pname es (runEntryRef S n pname e l)

def runConfigRef (S : Sem) (n : Nat) : List (String × List Entry) → Local → Local
  | [], l => l
  | (p, es) :: rest, l => runConfigRef S n rest (runEntriesRef S n p es l)

/-- attribution as a function of (file system via `S`, configuration) only -/
def findRef (S : Sem) (n : Nat) (config : List (String × List Entry)) : Local :=
  runConfigRef S n config {}

/-! ### `get_setmap`: only `for fn in codebase` contributes -/

def platformsOf (assoc : List ((String × Nat) × List String)) (f : String) (i : Nat) : List String :=
  ((assoc.find? (·.1 == (f, i))).map (·.2)).getD []

/-- rows (platform list, num_lines) of the nodes of one parsed file; every node of the tree is a
`CodeNode` instance in the implementation (`DirectiveNode` derives from it) -/
def rowsOf (assoc : List ((String × Nat) × List String)) (f : String) (nodes : Array PNode) : List (List String × Nat) :=
  nodes.toList.zipIdx.map fun (nd, i) => (platformsOf assoc f i, nd.lines.length)

/-- rows of file `f` in a finished analysis -/
def XW.rows (w : XW) (f : String) : List (List String × Nat) :=
  match w.cache.look f with
  | some (_, (nodes, _)) => rowsOf w.loc.assoc f nodes
  | none => []

def rowsCount (rows : List (List String × Nat)) (key : List String) : Nat :=
  ((rows.filter (·.1 == key)).map (·.2)).sum

/-- `setmap[key]` of `get_setmap` over the listed member files -/
def setmapOf (rows : String → List (List String × Nat)) (members : List String) (key : List String) : Nat :=
  (members.map fun f => rowsCount (rows f) key).sum

/-- the distinct keys, in first-occurrence order -/
def setmapKeys (rows : String → List (List String × Nat)) (members : List String) : List (List String) :=
  (members.flatMap fun f => (rows f).map (·.1)).eraseDups

/-! ### `-x` and `[codebase] exclude` (`__main__._main`, `tree._tree`: `args.excludes += toml["codebase"]["exclude"]`) -/

/-- the pattern list handed to `CodeBase(rootdir, exclude_patterns=…)` -/
def effectivePatterns (cli : List String) (toml : Option (List String)) : List String :=
  cli ++ toml.getD []

/-- `CodeBase.__contains__` relative to an arbitrary pattern matcher (`pathspec.GitIgnoreSpec`, C09's subject) -/
def member (isSource inRoot : String → Bool) (matcher : List String → String → Bool) (pats : List String) (f : String) : Bool :=
  isSource f && inRoot f && !matcher pats f

/-! ### the concrete instance: the preprocessor model of `CbiVerif/PP` -/

/-- `os.path.splitext(p)[1]` for POSIX paths -/
def splitext (p : String) : String :=
  let base := ((components p).getLast?).getD ""
  let cs := base.toList
  let lead := cs.takeWhile (· == '.')
  let rest := cs.drop lead.length
  match (rest.reverse.takeWhile (· != '.')) with
  | tail => if tail.length < rest.length then String.ofList ('.' :: tail.reverse) else ""

/-- `FileLanguage(f).get_language()` over the *generated* extension table -/
def extLanguage (f : String) : Option String :=
  (CbiVerif.Gen.languageExts.find? fun le => le.2.contains (splitext f)).map (·.1)

/-- `get_file_source`: which parser a language name selects -/
def classOfLanguage : String → Option LClass
  | "c" => some .c
  | "c++" => some .c
  | "fortran-free" => some .fortran
  | "asm" => some .asm
  | _ => none

def extClass (f : String) : Option LClass := (extLanguage f).bind classOfLanguage

/-- `FileParser.parse_file` grouping over (lines, text, isDirective) rows -/
def nodesOfRows (rows : List (List Nat × String × Bool)) : Except Err (List PNode) := do
  let mut nodes : List PNode := []
  let mut code : List Nat := []
  let mut codeOpen := false
  for (lines, text, isDir) in rows do
    if isDir && isDirectiveLine .cppDirective text.toList then   -- `FileParser.is_directive`
      if codeOpen then
        nodes := nodes ++ [{ kind := .code, lines := code }]
        code := []; codeOpen := false
      let n ← parseDirective text lines
      nodes := nodes ++ [n]
    else
      code := code ++ lines; codeOpen := true
  if codeOpen then nodes := nodes ++ [{ kind := .code, lines := code }]
  return nodes

/-- asm_cleaner.process on one physical line; the cleaner state (`foundSlash`) survives the line end -/
def asmProcess (foundSlash : Bool) (ob : OSL) : List Char → Bool × OSL
  | [] => (foundSlash, ob)
  | c :: cs =>
    if foundSlash then
      if c == '/' then (false, ob.appendSpace)
      else
        -- pop, append '/', put the character back (state is TOPLEVEL now)
        let ob := ob.appendChar '/'
        if c == ';' || c == '#' then (false, ob.appendSpace)
        else if c == '/' then asmProcess true ob cs
        else asmProcess false (ob.appendChar c) cs
    else
      if c == ';' || c == '#' then (false, ob.appendSpace)
      else if c == '/' then asmProcess true ob cs
      else asmProcess false (ob.appendChar c) cs

/-- asm_file_source: one logical line per non-blank physical line -/
def asmRows (text : String) : List (List Nat × String × Bool) := Id.run do
  let mut fsl := false
  let mut n := 0
  let mut out : List (List Nat × String × Bool) := []
  for (content, _) in splitLines text do
    n := n + 1
    let (f2, ob) := asmProcess fsl {} content
    fsl := f2
    if ob.category != .blank then out := out ++ [([n], String.ofList ob.parts, ob.category == .cppDirective)]
  return out

def parseText (cl : LClass) (text : String) : Except Err Parsed := do
  let nodes ← match cl with
    | .c => parseFile text
    | .fortran => do let rows ← fFileSource text; nodesOfRows rows
    | .asm => nodesOfRows (asmRows text)
  let t ← buildTree nodes
  return (nodes.toArray, t)

def parseAsFS (fs : FSMap) (cl : LClass) (f : String) : Except Err Parsed :=
  match fs.get f with
  | none => .error (.other "FileNotFoundError")
  | some text => parseText cl text

def addAssoc (assoc : List ((String × Nat) × List String)) (f : String) (i : Nat) (p : String) :
    List ((String × Nat) × List String) :=
  match assoc.find? (·.1 == (f, i)) with
  | some (_, ps) => if ps.contains p then assoc else assoc.map fun e => if e.1 == (f, i) then (e.1, e.2 ++ [p]) else e
  | none => assoc ++ [((f, i), [p])]

def evalCondL (l : Local) (toks : List Tok) : Bool × Local :=
  match l.err with
  | some _ => (false, l)
  | none =>
    match condValue l.plat.tbl toks with
    | .ok b => (b, l)
    | .error e => (false, l.fail e)

/-- one node of `associate` (same case analysis as `PP.visitW`), without the recursion -/
def stepNode (fs : FSMap) (file : String) (idx : Nat) (n : PNode) (l0 : Local) : Local × Act :=
  let l := { l0 with assoc := addAssoc l0.assoc file idx l0.plat.name }
  match n.kind with
  | .code | .unrecognized => (l, .stay)
  | .pragma =>
    match n.toks with
    | t :: _ =>
      if t.spell == "once" && !l.plat.skip.contains file then ({ l with plat := { l.plat with skip := l.plat.skip ++ [file] } }, .stay)
      else (l, .stay)
    | [] => (l, .stay)
  | .define =>
    match makeMacro n.name n.margs n.toks with
    | .ok m =>
      if (l.plat.tbl.get n.name).isSome then (l, .stay)
      else ({ l with plat := { l.plat with tbl := l.plat.tbl ++ [(n.name, m)] } }, .stay)
    | .error e => (l.fail e, .stay)
  | .undef => ({ l with plat := { l.plat with tbl := l.plat.tbl.filter (·.1 != n.name) } }, .stay)
  | .include =>
    let resolved : Except Err (String × Bool) :=
      match includePath n.toks with
      | some r => .ok r
      | none =>
        match runExpandT l.plat.tbl n.toks with
        | .ok ts => match includePath ts with | some r => .ok r | none => .error (.parse "Invalid path.")
        | .error e => .error e
        | .sig s => .error (.other s)
    match resolved with
    | .error e => (l.fail e, .stay)
    | .ok (path, sys) =>
      let (found, plat) := l.plat.findInclude fs path (dirname file) sys
      let l := { l with plat := plat }
      match found with
      | none =>
        let line := n.lines.headD 0
        ({ l with warns := l.warns ++ [if sys then .sysInclude file line path else .userInclude file line path] }, .stay)
      | some inc => if l.plat.skip.contains inc then (l, .stay) else (l, .incl inc)
  | .endk => ({ l with taken := l.taken.tail }, .stay)
  | .ifk =>
    let (a, l) := evalCondL l n.toks
    let l := { l with taken := a :: l.taken }
    (l, if a then .descend else .stay)
  | .elifk =>
    match l.taken with
    | [] => (l.fail .index, .stay)
    | t :: ts =>
      if t then (l, .stay) else
        let (a, l) := evalCondL l n.toks
        let l := { l with taken := a :: ts }
        (l, if a then .descend else .stay)
  | .elsek =>
    match l.taken with
    | [] => (l.fail .index, .stay)
    | t :: ts => if t then (l, .stay) else ({ l with taken := true :: ts }, .descend)

/-- `file_platform.define(macro.name, macro)` for every `-D`, in order (the first definition of a name wins;
the first malformed definition raises) -/
def defineAll : List String → Platform → Except Err Platform
  | [], plat => .ok plat
  | d :: rest, plat =>
    match macroFromDefinitionString d with
    | .error er => .error er
    | .ok m =>
      defineAll rest (if (plat.tbl.get m.name).isNone then { plat with tbl := plat.tbl ++ [(m.name, m)] } else plat)

/-- `Platform(p, rootdir)`; `add_include_path` for every `-I`; `define` for every `-D` -/
def mkPlatform (pname : String) (e : Entry) : Except Err Platform :=
  defineAll e.defines { name := pname, incPaths := e.includePaths }

/-- `Platform.find_include_file` for an `-include` file, followed by `Platform.process_include`
(`elif file_platform.process_include(include_file)` in `find`): a forced include that is on the platform's
once-list is not processed -/
def findForced (fs : FSMap) (p : Platform) (inc dir : String) : Option String × Platform :=
  match p.findInclude fs inc dir false with
  | (some f, p2) => if p2.skip.contains f then (none, p2) else (some f, p2)
  | (none, p2) => (none, p2)

/-- the semantics the driver runs (ops `c10find`, `c08find`): CBI's preprocessor model over the file system `fs` -/
def sem (fs : FSMap) : Sem where
  extClass := extClass
  parseAs := parseAsFS fs
  step := stepNode fs
  findInc := findForced fs
  mkPlat := mkPlatform

/-- default fuel of the driver: far above any recursion the implementation survives -/
def defaultFuel : Nat := 1000000

end CbiVerif.Exclude
