import CbiVerif.Model.FindFold
import CbiVerif.Model.FindInst
import CbiVerif.Lemmas.FindFold
import CbiVerif.Lemmas.FindInst

/-!
# C08 — translation units and platforms are analysed in isolation and compose

Property theorems only.  Part 1 is about the generic double fold
`FindFold.findG analyse` (the shape of `finder.find`: platforms × commands, a fresh
`Platform` per command, the association only grows) and holds for EVERY single-command
analysis `analyse : Entry → Except Err (Out Key Warn)`.  Part 2 specialises them to
`FindInst.findI`, the instance the native driver executes for the correspondence check
(`analyse := FindInst.analyseEntry fs`, built from the executable preprocessor model).

`Attr r p k` = "platform `p` uses node `k` in result `r`".
-/
namespace CbiVerif.C08
open CbiVerif.FindFold

variable {Entry Key Warn Err : Type}

/-! ## Part 1 — every single-command analysis -/

/-- The state-passing double loop computes exactly the stateless reference
("each compile command analysed alone from a fresh state, results united"),
including which exception is raised when a command fails. -/
theorem find_eq_spec (A : Entry → Except Err (Out Key Warn)) (c : Config Entry) :
    findG A c = specFind A c := by
  unfold findG specFind
  rw [foldlM_stepPlatform, foldJobs_eq_spec]
  cases specJobs A (jobs c) with
  | error e => rfl
  | ok r => simp only [app_empty]

/-- a run with a single platform holding a single command is that command's analysis,
tagged with the platform's name -/
theorem single_command (A : Entry → Except Err (Out Key Warn)) (p : String) (e : Entry) :
    findG A [(p, [e])] =
      match A e with
      | .ok o => .ok { pairs := o.keys.map (fun k => (k, p)), warns := o.warns }
      | .error er => .error er := by
  rw [find_eq_spec]
  simp only [specFind, jobs, List.flatMap_cons, List.flatMap_nil, List.map_cons, List.map_nil,
    List.append_nil, specJobs]
  cases A e with
  | error er => rfl
  | ok o => simp

/-- the full run succeeds iff every single-command run succeeds -/
theorem find_ok_iff (A : Entry → Except Err (Out Key Warn)) (c : Config Entry) :
    (∃ r, findG A c = .ok r) ↔
      ∀ p e, e ∈ entriesOf c p → ∃ r1, findG A [(p, [e])] = .ok r1 := by
  rw [find_eq_spec]
  unfold specFind
  rw [specJobs_ok_iff]
  constructor
  · intro h p e he
    obtain ⟨o, ho⟩ := h (p, e) ((mem_jobs_iff_entriesOf c p e).mpr he)
    rw [single_command]
    simp only at ho
    rw [ho]
    exact ⟨_, rfl⟩
  · intro h j hj
    obtain ⟨p, e⟩ := j
    obtain ⟨r1, hr1⟩ := h p e ((mem_jobs_iff_entriesOf c p e).mp hj)
    rw [single_command] at hr1
    cases hA : A e with
    | error er => rw [hA] at hr1; cases hr1
    | ok o => exact ⟨o, rfl⟩

/-- **union_of_commands.**  In a successful run, platform `p` uses node `k` iff some compile
command of `p`, analysed alone in a run of its own (fresh state), uses `k`. -/
theorem union_of_commands (A : Entry → Except Err (Out Key Warn)) (c : Config Entry)
    (r : Acc Key Warn) (h : findG A c = .ok r) (p : String) (k : Key) :
    Attr r p k ↔ ∃ e, e ∈ entriesOf c p ∧ ∃ r1, findG A [(p, [e])] = .ok r1 ∧ Attr r1 p k := by
  rw [find_eq_spec] at h
  unfold specFind at h
  unfold Attr
  rw [(specJobs_pairs A _ r h).1, List.mem_flatMap]
  constructor
  · rintro ⟨⟨q, e⟩, hj, hk⟩
    rw [mem_pairsOfJob] at hk
    obtain ⟨rfl, o, ho, hko⟩ := hk
    refine ⟨e, (mem_jobs_iff_entriesOf c _ e).mp hj, ?_⟩
    rw [single_command]
    simp only at ho
    rw [ho]
    exact ⟨_, rfl, by simpa using hko⟩
  · rintro ⟨e, he, r1, hr1, hk⟩
    refine ⟨(p, e), (mem_jobs_iff_entriesOf c p e).mpr he, ?_⟩
    rw [mem_pairsOfJob]
    rw [single_command] at hr1
    cases hA : A e with
    | error er => rw [hA] at hr1; cases hr1
    | ok o =>
      rw [hA] at hr1
      cases hr1
      refine ⟨rfl, o, rfl, ?_⟩
      simpa using hk

/-- **platform_independent.**  What platform `p` uses depends only on `p`'s own set of compile
commands: two successful runs in which `p` has the same commands (whatever other platforms,
in whatever order, are analysed along with it) attribute the same nodes to `p`. -/
theorem platform_independent (A : Entry → Except Err (Out Key Warn)) (c1 c2 : Config Entry)
    (r1 r2 : Acc Key Warn) (h1 : findG A c1 = .ok r1) (h2 : findG A c2 = .ok r2) (p : String)
    (hp : ∀ e, e ∈ entriesOf c1 p ↔ e ∈ entriesOf c2 p) (k : Key) :
    Attr r1 p k ↔ Attr r2 p k := by
  rw [union_of_commands A c1 r1 h1, union_of_commands A c2 r2 h2]
  constructor
  · rintro ⟨e, he, rest⟩; exact ⟨e, (hp e).mp he, rest⟩
  · rintro ⟨e, he, rest⟩; exact ⟨e, (hp e).mpr he, rest⟩

/-- in particular the other platforms can be dropped altogether -/
theorem platform_alone (A : Entry → Except Err (Out Key Warn)) (c : Config Entry)
    (r : Acc Key Warn) (h : findG A c = .ok r) (p : String) :
    ∃ r', findG A (c.filter fun pe => pe.1 == p) = .ok r' ∧ ∀ k, Attr r p k ↔ Attr r' p k := by
  have hent : ∀ q e, e ∈ entriesOf (c.filter fun pe => pe.1 == p) q → e ∈ entriesOf c q := by
    intro q e he
    rw [mem_entriesOf] at he ⊢
    obtain ⟨es, hc, hes⟩ := he
    exact ⟨es, (List.mem_filter.mp hc).1, hes⟩
  have hok : ∃ r', findG A (c.filter fun pe => pe.1 == p) = .ok r' := by
    rw [find_ok_iff]
    intro q e he
    exact (find_ok_iff A c).mp ⟨r, h⟩ q e (hent q e he)
  obtain ⟨r', hr'⟩ := hok
  refine ⟨r', hr', fun k => platform_independent A c _ r r' h hr' p ?_ k⟩
  intro e
  constructor
  · intro he
    rw [mem_entriesOf] at he ⊢
    obtain ⟨es, hc, hes⟩ := he
    exact ⟨es, List.mem_filter.mpr ⟨hc, by simp⟩, hes⟩
  · exact hent p e

/-- **perm_invariant.**  Reordering the commands inside the databases and reordering the
platforms keeps success, the multiset of (node, platform) attributions and the multiset of
warnings. -/
theorem perm_invariant (A : Entry → Except Err (Out Key Warn)) {c c' : Config Entry}
    (hc : CfgPerm c c') (r : Acc Key Warn) (h : findG A c = .ok r) :
    ∃ r', findG A c' = .ok r' ∧ r.pairs.Perm r'.pairs ∧ r.warns.Perm r'.warns := by
  rw [find_eq_spec] at h ⊢
  exact specJobs_perm A (jobs_perm hc) r h

/-- … hence the same attribution as a set, for every platform and node -/
theorem perm_invariant_attr (A : Entry → Except Err (Out Key Warn)) {c c' : Config Entry}
    (hc : CfgPerm c c') (r r' : Acc Key Warn) (h : findG A c = .ok r) (h' : findG A c' = .ok r')
    (p : String) (k : Key) : Attr r p k ↔ Attr r' p k := by
  obtain ⟨r'', hr'', hp, _⟩ := perm_invariant A hc r h
  rw [h'] at hr''
  cases hr''
  exact hp.mem_iff

/-- … and a failing run fails under every reordering (which command's exception is
reported may differ) -/
theorem perm_invariant_fail (A : Entry → Except Err (Out Key Warn)) {c c' : Config Entry}
    (hc : CfgPerm c c') : (∃ r, findG A c = .ok r) ↔ (∃ r', findG A c' = .ok r') := by
  constructor
  · rintro ⟨r, h⟩
    obtain ⟨r', h', _⟩ := perm_invariant A hc r h
    exact ⟨r', h'⟩
  · rintro ⟨r, h⟩
    obtain ⟨r', h', _⟩ := perm_invariant A (CfgPerm.symm hc) r h
    exact ⟨r', h'⟩

/-- **projection.**  Selecting platforms with `-p X` succeeds whenever the full run does and
yields the projection of the full result: the attribution pairs of the selected run are
exactly the pairs of the full run whose platform is selected (same order, same
multiplicity). -/
theorem projection (A : Entry → Except Err (Out Key Warn)) (c : Config Entry)
    (r : Acc Key Warn) (h : findG A c = .ok r) (X : List String) :
    ∃ rX, findG A (select X c) = .ok rX ∧
      rX.pairs = r.pairs.filter (fun kp => X.isEmpty || X.contains kp.2) := by
  unfold select
  by_cases hX : X.isEmpty = true
  · refine ⟨r, by simpa [hX] using h, ?_⟩
    simp only [hX, Bool.true_or]
    exact (filter_const_true _).symm
  · have hX' : X.isEmpty = false := by simpa using hX
    simp only [hX', Bool.false_eq_true, if_false, Bool.false_or]
    rw [find_eq_spec] at h ⊢
    unfold specFind at h ⊢
    rw [jobs_filter (fun p => X.contains p)]
    exact specJobs_filter A (fun p => X.contains p) (jobs c) r h

/-- projection, node by node: `p` uses `k` in the selected run iff `p` is selected and uses
`k` in the full run -/
theorem projection_attr (A : Entry → Except Err (Out Key Warn)) (c : Config Entry)
    (r rX : Acc Key Warn) (h : findG A c = .ok r) (X : List String)
    (hX : findG A (select X c) = .ok rX) (p : String) (k : Key) :
    Attr rX p k ↔ ((X = [] ∨ p ∈ X) ∧ Attr r p k) := by
  obtain ⟨rX', h', hp⟩ := projection A c r h X
  rw [hX] at h'
  cases h'
  unfold Attr
  rw [hp, List.mem_filter]
  cases X with
  | nil => simp
  | cons x xs => simp [and_comm]

/-- projection of every platform set onto `X` (X non-empty): the platform set of a node in
the selected run is its platform set in the full run restricted to `X` -/
theorem projection_sets [DecidableEq Key] (A : Entry → Except Err (Out Key Warn))
    (c : Config Entry) (r rX : Acc Key Warn) (h : findG A c = .ok r) (X : List String)
    (hne : X ≠ []) (hX : findG A (select X c) = .ok rX) (names : List String) (k : Key) :
    platSet (names.filter fun p => X.contains p) rX k =
      (platSet names r k).filter fun p => X.contains p := by
  unfold platSet
  rw [List.filter_filter, List.filter_filter]
  apply List.filter_congr
  intro p _
  have := projection_attr A c r rX h X hX p k
  unfold Attr at this
  by_cases hp : p ∈ X
  · have h1 : ((k, p) ∈ rX.pairs ↔ (k, p) ∈ r.pairs) := by rw [this]; simp [hp]
    simp [hp, h1]
  · have h1 : ¬ (k, p) ∈ rX.pairs := by rw [this]; simp [hp, hne]
    simp [hp, h1]

/-- … counts merged: the line count of a platform set `T` in the selected run is the sum of
the full run's counts over the platform sets that project onto `T`.  `classes` is any
duplicate-free list of platform sets containing the platform set of every node
(`setmap.keys()` of the full run). -/
theorem projection_counts [DecidableEq Key] (A : Entry → Except Err (Out Key Warn))
    (c : Config Entry) (r rX : Acc Key Warn) (h : findG A c = .ok r) (X : List String)
    (hne : X ≠ []) (hX : findG A (select X c) = .ok rX) (names : List String)
    (nodes : List Key) (w : Key → Nat) (classes : List (List String)) (hnd : classes.Nodup)
    (hall : ∀ k ∈ nodes, platSet names r k ∈ classes) (T : List String) :
    setmapCount nodes w (platSet (names.filter fun p => X.contains p) rX) T =
      ((classes.filter fun S => decide ((S.filter fun p => X.contains p) = T)).map
        (setmapCount nodes w (platSet names r))).sum := by
  unfold setmapCount
  have hproj : ∀ k, platSet (names.filter fun p => X.contains p) rX k =
      (platSet names r k).filter fun p => X.contains p :=
    fun k => projection_sets A c r rX h X hne hX names k
  simp only [hproj]
  have := count_fibres nodes w (platSet names r) (fun S => S.filter fun p => X.contains p) T
    classes hnd hall
  simpa using this

/-- **Where hoisting goes wrong.**  A run that threads ANY extra state through all commands
and platforms (the shared parse cache of the code; a hoisted macro table, include memo or
once-list in a mutated code) attributes exactly what `findG A` does PROVIDED that state is
transparent: under an invariant it never changes what a command observes (`Transparent`).
This is the obligation the code's shared `ParserState.trees` has to meet; it is tested by
the correspondence check, not proved (the preprocessor model is executable but opaque). -/
theorem transparent_state_refines {σ : Type} (Inv : σ → Prop)
    (step : σ → Entry → Except Err (Out Key Warn × σ)) (A : Entry → Except Err (Out Key Warn))
    (ht : Transparent Inv step A) (s0 : σ) (h0 : Inv s0) (c : Config Entry) :
    (match findS step s0 c with
      | .ok (a, _) => .ok a
      | .error er => .error er) = findG A c := by
  have := findS_refines Inv step A ht c {} s0 h0
  unfold findS findG
  cases hS : List.foldlM (fun acc pe => List.foldlM (stepEntryS step pe.1) acc pe.2) ({}, s0) c with
  | error er => rw [hS] at this; exact this.symm
  | ok as => obtain ⟨a, s'⟩ := as; rw [hS] at this; exact this.1.symm

/-! ### non-vacuity of Part 1 (a toy analysis with state-free semantics) -/

/-- command `n` visits nodes `n` and `n+1`, warns when odd, and fails when `n = 0` -/
def toyA (n : Nat) : Except String (Out Nat String) :=
  if n = 0 then .error "boom" else .ok { keys := [n, n + 1], warns := if n % 2 = 1 then ["odd"] else [] }

def toyCfg : Config Nat := [("cpu", [1, 2]), ("gpu", [2, 5]), ("fpga", [])]
def toyRes : Acc Nat String :=
  { pairs := [(1, "cpu"), (2, "cpu"), (2, "cpu"), (3, "cpu"), (2, "gpu"), (3, "gpu"), (5, "gpu"), (6, "gpu")],
    warns := ["odd", "odd"] }

example : findG toyA toyCfg = .ok toyRes := by rfl
example : findG toyA [("cpu", [1, 0, 2])] = .error "boom" := by rfl
example : findG toyA (select ["gpu"] toyCfg) =
    .ok { pairs := [(2, "gpu"), (3, "gpu"), (5, "gpu"), (6, "gpu")], warns := ["odd"] } := by rfl
example : CfgPerm toyCfg [("gpu", [5, 2]), ("cpu", [2, 1]), ("fpga", [])] :=
  .trans (.swap _ _ _)
    (.cons "gpu" (List.Perm.swap 5 2 []) (.cons "cpu" (List.Perm.swap 2 1 []) (CfgPerm.refl _)))
example : platSet ["cpu", "gpu", "fpga"] toyRes 2 = ["cpu", "gpu"] := by decide
example : ∀ e, e ∈ entriesOf toyCfg "gpu" ↔ e ∈ entriesOf [("gpu", [5, 2, 5])] "gpu" := by
  intro e; simp [entriesOf, toyCfg]; omega
/-- hypotheses of `projection_counts` hold for the toy run: nodes 1…6, one line each -/
example : ([["cpu"], ["cpu", "gpu"], ["gpu"], []] : List (List String)).Nodup ∧
    ∀ k ∈ [1, 2, 3, 4, 5, 6], platSet ["cpu", "gpu", "fpga"] toyRes k ∈
      ([["cpu"], ["cpu", "gpu"], ["gpu"], []] : List (List String)) := by decide

/-- a transparent threaded state: a memo of the commands already analysed -/
example : Transparent (fun _ : List Nat => True) (fun s n => (toyA n).map fun o => (o, n :: s)) toyA := by
  intro s n _
  cases h : toyA n <;> simp [Except.map, h]
/-- a hoisted "macro table" is NOT transparent: a counter surviving from one command to the
next changes what the next command sees -/
example : findS (fun (s : Nat) (n : Nat) => .ok ({ keys := [n + s] }, s + 1)) 0 [("cpu", [1, 1])] =
    (.ok ({ pairs := [(1, "cpu"), (2, "cpu")] }, 2) : Except String (Acc Nat String × Nat)) := by rfl

/-! ## Part 2 — the instance executed by the driver (`FindInst.findI`) -/

open CbiVerif.PP CbiVerif.FindInst

/-- the driver's model result equals the driver's spec result on every input -/
theorem findI_eq_specI (fs : FSMap) (cb : List String) (c : Config PP.Entry) :
    findI fs cb c = specI fs cb c := by
  unfold findI specI
  cases prepare fs (cb ++ filesOf c) with
  | error e => rfl
  | ok _ => exact find_eq_spec _ c

/-- a real run succeeds iff every file parses and every single-command analysis succeeds -/
theorem findI_ok (fs : FSMap) (cb : List String) (c : Config PP.Entry) (r : Acc NodeKey PP.Warn) :
    findI fs cb c = .ok r ↔
      prepare fs (cb ++ filesOf c) = .ok () ∧ findG (analyseEntry fs) c = .ok r := by
  unfold findI
  cases prepare fs (cb ++ filesOf c) with
  | error e => simp
  | ok u => simp

/-- **union_of_commands** for `finder.find`: in a successful analysis of a code base, platform
`p` uses node `k` iff some compile command `e` of `p` uses it when the tool is run on the
same code base with a configuration that contains only `p` with only `e`. -/
theorem find_union_of_commands (fs : FSMap) (cb : List String) (c : Config PP.Entry)
    (r : Acc NodeKey PP.Warn) (h : findI fs cb c = .ok r) (p : String) (k : NodeKey) :
    Attr r p k ↔
      ∃ e, e ∈ entriesOf c p ∧ ∃ r1, findI fs cb [(p, [e])] = .ok r1 ∧ Attr r1 p k := by
  obtain ⟨hprep, hfind⟩ := (findI_ok fs cb c r).mp h
  rw [union_of_commands _ c r hfind p k]
  constructor
  · rintro ⟨e, he, r1, hr1, hk⟩
    exact ⟨e, he, r1, (findI_ok fs cb _ r1).mpr ⟨prepare_single fs cb c p e hprep he, hr1⟩, hk⟩
  · rintro ⟨e, he, r1, hr1, hk⟩
    exact ⟨e, he, r1, ((findI_ok fs cb _ r1).mp hr1).2, hk⟩

/-- **platform_independent** for `finder.find`: two successful analyses of the same code base
in which `p` has the same compile commands attribute the same nodes to `p`. -/
theorem find_platform_independent (fs : FSMap) (cb : List String) (c1 c2 : Config PP.Entry)
    (r1 r2 : Acc NodeKey PP.Warn) (h1 : findI fs cb c1 = .ok r1) (h2 : findI fs cb c2 = .ok r2)
    (p : String) (hp : ∀ e, e ∈ entriesOf c1 p ↔ e ∈ entriesOf c2 p) (k : NodeKey) :
    Attr r1 p k ↔ Attr r2 p k :=
  platform_independent _ c1 c2 r1 r2 ((findI_ok fs cb c1 r1).mp h1).2 ((findI_ok fs cb c2 r2).mp h2).2 p hp k

/-- **perm_invariant** for `finder.find` (order of the commands in each database, order of
the platforms) -/
theorem find_perm_invariant (fs : FSMap) (cb : List String) {c c' : Config PP.Entry}
    (hc : CfgPerm c c') (r : Acc NodeKey PP.Warn) (h : findI fs cb c = .ok r) :
    ∃ r', findI fs cb c' = .ok r' ∧ r.pairs.Perm r'.pairs ∧ r.warns.Perm r'.warns := by
  obtain ⟨hprep, hfind⟩ := (findI_ok fs cb c r).mp h
  obtain ⟨r', hr', hp, hw⟩ := perm_invariant _ hc r hfind
  exact ⟨r', (findI_ok fs cb c' r').mpr ⟨prepare_perm fs cb hc hprep, hr'⟩, hp, hw⟩

/-- **projection** for `finder.find` / `codebasin -p X`: the selected analysis succeeds
whenever the full one does and its attribution is the full attribution restricted to the
selected platforms. -/
theorem find_projection (fs : FSMap) (cb : List String) (c : Config PP.Entry)
    (r : Acc NodeKey PP.Warn) (h : findI fs cb c = .ok r) (X : List String) :
    ∃ rX, findI fs cb (select X c) = .ok rX ∧
      rX.pairs = r.pairs.filter (fun kp => X.isEmpty || X.contains kp.2) := by
  obtain ⟨hprep, hfind⟩ := (findI_ok fs cb c r).mp h
  obtain ⟨rX, hrX, hp⟩ := projection _ c r hfind X
  exact ⟨rX, (findI_ok fs cb _ rX).mpr ⟨prepare_select fs cb c X hprep, hrX⟩, hp⟩

/-! ### non-vacuity of Part 2

The hypotheses `findI … = .ok r` are satisfiable: the following runs are EVALUATED at
compile time (`#guard`; a test, not a proof — the preprocessor model uses `partial`
recursion, so the kernel cannot unfold it).  `h.h` is protected by `#pragma once`, defines
`H`, and shows different lines depending on `A`; it is re-processed for every command. -/

def demoFs : FSMap := [
  ("/r/inc/h.h", "#pragma once\n#ifdef A\nint a;\n#else\nint b;\n#endif\n#define H 1\n"),
  ("/r/a.c", "#include \"inc/h.h\"\n#ifdef H\nint x;\n#endif\n"),
  ("/r/b.c", "#include <h.h>\n#if defined(H) && A > 1\nint y;\n#endif\n")]
def demoCb : List String := ["/r/a.c", "/r/b.c", "/r/inc/h.h"]
def demoA : PP.Entry := { file := "/r/a.c", defines := ["A"], includePaths := [], includeFiles := [] }
def demoB : PP.Entry := { file := "/r/b.c", defines := ["A=2"], includePaths := ["/r/inc"], includeFiles := [] }
def demoG : PP.Entry := { file := "/r/a.c", defines := [], includePaths := [], includeFiles := [] }
def demoCfg : Config PP.Entry := [("cpu", [demoA, demoB]), ("gpu", [demoG])]

def okWith (r : Except PP.Err (Acc NodeKey PP.Warn)) (n : Nat) (has : List (NodeKey × String))
    (hasNot : List (NodeKey × String)) : Bool :=
  match r with
  | .ok a => a.pairs.length == n && has.all (fun kp => a.pairs.contains kp) &&
      hasNot.all (fun kp => !a.pairs.contains kp)
  | .error _ => false

-- full run: 30 attributions; `int a;` (node 2 of h.h) is cpu's, `int b;` (node 4) is gpu's
#guard okWith (findI demoFs demoCb demoCfg) 30
  [(("/r/inc/h.h", 2), "cpu"), (("/r/inc/h.h", 4), "gpu"), (("/r/b.c", 2), "cpu")]
  [(("/r/inc/h.h", 4), "cpu"), (("/r/inc/h.h", 2), "gpu")]
-- single-command runs and the selection `-p gpu`
#guard okWith (findI demoFs demoCb [("cpu", [demoA])]) 10 [(("/r/inc/h.h", 2), "cpu")] []
#guard okWith (findI demoFs demoCb [("cpu", [demoB])]) 10 [(("/r/b.c", 2), "cpu")] []
#guard okWith (findI demoFs demoCb (select ["gpu"] demoCfg)) 10 [(("/r/inc/h.h", 4), "gpu")] [(("/r/inc/h.h", 2), "cpu")]
-- a permuted configuration
#guard okWith (findI demoFs demoCb [("gpu", [demoG]), ("cpu", [demoB, demoA])]) 30 [(("/r/inc/h.h", 2), "cpu")] []

end CbiVerif.C08
