import CbiVerif.Model.FindFold
import CbiVerif.Model.FindInst
import CbiVerif.Lemmas.FindFold
import CbiVerif.Lemmas.FindInst
import CbiVerif.Lemmas.FindCache
import CbiVerif.Lemmas.FindCacheMono
import CbiVerif.Props.C08Engines

/-!
# C08 — translation units and platforms are analysed in isolation and compose

Property theorems only.  Part 1 is about the generic double fold
`FindFold.findG analyse` (the shape of `finder.find`: platforms × commands, a fresh
`Platform` per command, the association only grows) and holds for EVERY single-command
analysis `analyse : Entry → Except Err (Out Key Warn)`.  Part 2 specialises them to
`FindInst.findI`, the instance the native driver executes for the correspondence check
(`analyse := FindInst.analyseEntry fs` = the total engine of `Model/Exclude.lean` under the C-family semantics
`FindInst.semPP fs`; `Props/C08Engines.lean` — imported here so that it is built and audited with this file —
proves that it is that engine, and that it agrees with the records the other ops run).

`Attr r p k` = "platform `p` uses node `k` in result `r`".
-/
namespace CbiVerif.C08
open CbiVerif.FindFold

variable {Entry Key Warn Err : Type}

/-! ## Part 1 — every single-command analysis -/

/-- The state-passing double loop computes exactly the stateless reference
("each compile command analysed alone from a fresh state, results united"),
including which exception is raised when a command fails. -/
theorem find_eq_spec (A : Entry → Except Err (Out Key Warn)) (c : Config Entry) :
    findG A c = specFind A c := by
  unfold findG specFind
  rw [foldlM_stepPlatform, foldJobs_eq_spec]
  cases specJobs A (jobs c) with
  | error e => rfl
  | ok r => simp only [app_empty]

/-- a run with a single platform holding a single command is that command's analysis,
tagged with the platform's name -/
theorem single_command (A : Entry → Except Err (Out Key Warn)) (p : String) (e : Entry) :
    findG A [(p, [e])] =
      match A e with
      | .ok o => .ok { pairs := o.keys.map (fun k => (k, p)), warns := o.warns }
      | .error er => .error er := by
  rw [find_eq_spec]
  simp only [specFind, jobs, List.flatMap_cons, List.flatMap_nil, List.map_cons, List.map_nil,
    List.append_nil, specJobs]
  cases A e with
  | error er => rfl
  | ok o => simp

/-- the full run succeeds iff every single-command run succeeds -/
theorem find_ok_iff (A : Entry → Except Err (Out Key Warn)) (c : Config Entry) :
    (∃ r, findG A c = .ok r) ↔
      ∀ p e, e ∈ entriesOf c p → ∃ r1, findG A [(p, [e])] = .ok r1 := by
  rw [find_eq_spec]
  unfold specFind
  rw [specJobs_ok_iff]
  constructor
  · intro h p e he
    obtain ⟨o, ho⟩ := h (p, e) ((mem_jobs_iff_entriesOf c p e).mpr he)
    rw [single_command]
    simp only at ho
    rw [ho]
    exact ⟨_, rfl⟩
  · intro h j hj
    obtain ⟨p, e⟩ := j
    obtain ⟨r1, hr1⟩ := h p e ((mem_jobs_iff_entriesOf c p e).mp hj)
    rw [single_command] at hr1
    cases hA : A e with
    | error er => rw [hA] at hr1; cases hr1
    | ok o => exact ⟨o, rfl⟩

/-- **union_of_commands.**  In a successful run, platform `p` uses node `k` iff some compile
command of `p`, analysed alone in a run of its own (fresh state), uses `k`. -/
theorem union_of_commands (A : Entry → Except Err (Out Key Warn)) (c : Config Entry)
    (r : Acc Key Warn) (h : findG A c = .ok r) (p : String) (k : Key) :
    Attr r p k ↔ ∃ e, e ∈ entriesOf c p ∧ ∃ r1, findG A [(p, [e])] = .ok r1 ∧ Attr r1 p k := by
  rw [find_eq_spec] at h
  unfold specFind at h
  unfold Attr
  rw [(specJobs_pairs A _ r h).1, List.mem_flatMap]
  constructor
  · rintro ⟨⟨q, e⟩, hj, hk⟩
    rw [mem_pairsOfJob] at hk
    obtain ⟨rfl, o, ho, hko⟩ := hk
    refine ⟨e, (mem_jobs_iff_entriesOf c _ e).mp hj, ?_⟩
    rw [single_command]
    simp only at ho
    rw [ho]
    exact ⟨_, rfl, by simpa using hko⟩
  · rintro ⟨e, he, r1, hr1, hk⟩
    refine ⟨(p, e), (mem_jobs_iff_entriesOf c p e).mpr he, ?_⟩
    rw [mem_pairsOfJob]
    rw [single_command] at hr1
    cases hA : A e with
    | error er => rw [hA] at hr1; cases hr1
    | ok o =>
      rw [hA] at hr1
      cases hr1
      refine ⟨rfl, o, rfl, ?_⟩
      simpa using hk

/-- **platform_independent.**  What platform `p` uses depends only on `p`'s own set of compile
commands: two successful runs in which `p` has the same commands (whatever other platforms,
in whatever order, are analysed along with it) attribute the same nodes to `p`. -/
theorem platform_independent (A : Entry → Except Err (Out Key Warn)) (c1 c2 : Config Entry)
    (r1 r2 : Acc Key Warn) (h1 : findG A c1 = .ok r1) (h2 : findG A c2 = .ok r2) (p : String)
    (hp : ∀ e, e ∈ entriesOf c1 p ↔ e ∈ entriesOf c2 p) (k : Key) :
    Attr r1 p k ↔ Attr r2 p k := by
  rw [union_of_commands A c1 r1 h1, union_of_commands A c2 r2 h2]
  constructor
  · rintro ⟨e, he, rest⟩; exact ⟨e, (hp e).mp he, rest⟩
  · rintro ⟨e, he, rest⟩; exact ⟨e, (hp e).mpr he, rest⟩

/-- in particular the other platforms can be dropped altogether -/
theorem platform_alone (A : Entry → Except Err (Out Key Warn)) (c : Config Entry)
    (r : Acc Key Warn) (h : findG A c = .ok r) (p : String) :
    ∃ r', findG A (c.filter fun pe => pe.1 == p) = .ok r' ∧ ∀ k, Attr r p k ↔ Attr r' p k := by
  have hent : ∀ q e, e ∈ entriesOf (c.filter fun pe => pe.1 == p) q → e ∈ entriesOf c q := by
    intro q e he
    rw [mem_entriesOf] at he ⊢
    obtain ⟨es, hc, hes⟩ := he
    exact ⟨es, (List.mem_filter.mp hc).1, hes⟩
  have hok : ∃ r', findG A (c.filter fun pe => pe.1 == p) = .ok r' := by
    rw [find_ok_iff]
    intro q e he
    exact (find_ok_iff A c).mp ⟨r, h⟩ q e (hent q e he)
  obtain ⟨r', hr'⟩ := hok
  refine ⟨r', hr', fun k => platform_independent A c _ r r' h hr' p ?_ k⟩
  intro e
  constructor
  · intro he
    rw [mem_entriesOf] at he ⊢
    obtain ⟨es, hc, hes⟩ := he
    exact ⟨es, List.mem_filter.mpr ⟨hc, by simp⟩, hes⟩
  · exact hent p e

/-- **perm_invariant.**  Reordering the commands inside the databases and reordering the
platforms keeps success, the multiset of (node, platform) attributions and the multiset of
warnings. -/
theorem perm_invariant (A : Entry → Except Err (Out Key Warn)) {c c' : Config Entry}
    (hc : CfgPerm c c') (r : Acc Key Warn) (h : findG A c = .ok r) :
    ∃ r', findG A c' = .ok r' ∧ r.pairs.Perm r'.pairs ∧ r.warns.Perm r'.warns := by
  rw [find_eq_spec] at h ⊢
  exact specJobs_perm A (jobs_perm hc) r h

/-- … hence the same attribution as a set, for every platform and node -/
theorem perm_invariant_attr (A : Entry → Except Err (Out Key Warn)) {c c' : Config Entry}
    (hc : CfgPerm c c') (r r' : Acc Key Warn) (h : findG A c = .ok r) (h' : findG A c' = .ok r')
    (p : String) (k : Key) : Attr r p k ↔ Attr r' p k := by
  obtain ⟨r'', hr'', hp, _⟩ := perm_invariant A hc r h
  rw [h'] at hr''
  cases hr''
  exact hp.mem_iff

/-- … and a failing run fails under every reordering (which command's exception is
reported may differ) -/
theorem perm_invariant_fail (A : Entry → Except Err (Out Key Warn)) {c c' : Config Entry}
    (hc : CfgPerm c c') : (∃ r, findG A c = .ok r) ↔ (∃ r', findG A c' = .ok r') := by
  constructor
  · rintro ⟨r, h⟩
    obtain ⟨r', h', _⟩ := perm_invariant A hc r h
    exact ⟨r', h'⟩
  · rintro ⟨r, h⟩
    obtain ⟨r', h', _⟩ := perm_invariant A (CfgPerm.symm hc) r h
    exact ⟨r', h'⟩

/-- **projection.**  Selecting platforms with `-p X` succeeds whenever the full run does and
yields the projection of the full result: the attribution pairs of the selected run are
exactly the pairs of the full run whose platform is selected (same order, same
multiplicity). -/
theorem projection (A : Entry → Except Err (Out Key Warn)) (c : Config Entry)
    (r : Acc Key Warn) (h : findG A c = .ok r) (X : List String) :
    ∃ rX, findG A (select X c) = .ok rX ∧
      rX.pairs = r.pairs.filter (fun kp => X.isEmpty || X.contains kp.2) := by
  unfold select
  by_cases hX : X.isEmpty = true
  · refine ⟨r, by simpa [hX] using h, ?_⟩
    simp only [hX, Bool.true_or]
    exact (filter_const_true _).symm
  · have hX' : X.isEmpty = false := by simpa using hX
    simp only [hX', Bool.false_eq_true, if_false, Bool.false_or]
    rw [find_eq_spec] at h ⊢
    unfold specFind at h ⊢
    rw [jobs_filter (fun p => X.contains p)]
    exact specJobs_filter A (fun p => X.contains p) (jobs c) r h

/-- projection, node by node: `p` uses `k` in the selected run iff `p` is selected and uses
`k` in the full run -/
theorem projection_attr (A : Entry → Except Err (Out Key Warn)) (c : Config Entry)
    (r rX : Acc Key Warn) (h : findG A c = .ok r) (X : List String)
    (hX : findG A (select X c) = .ok rX) (p : String) (k : Key) :
    Attr rX p k ↔ ((X = [] ∨ p ∈ X) ∧ Attr r p k) := by
  obtain ⟨rX', h', hp⟩ := projection A c r h X
  rw [hX] at h'
  cases h'
  unfold Attr
  rw [hp, List.mem_filter]
  cases X with
  | nil => simp
  | cons x xs => simp [and_comm]

/-- projection of every platform set onto `X` (X non-empty): the platform set of a node in
the selected run is its platform set in the full run restricted to `X` -/
theorem projection_sets [DecidableEq Key] (A : Entry → Except Err (Out Key Warn))
    (c : Config Entry) (r rX : Acc Key Warn) (h : findG A c = .ok r) (X : List String)
    (hne : X ≠ []) (hX : findG A (select X c) = .ok rX) (names : List String) (k : Key) :
    platSet (names.filter fun p => X.contains p) rX k =
      (platSet names r k).filter fun p => X.contains p := by
  unfold platSet
  rw [List.filter_filter, List.filter_filter]
  apply List.filter_congr
  intro p _
  have := projection_attr A c r rX h X hX p k
  unfold Attr at this
  by_cases hp : p ∈ X
  · have h1 : ((k, p) ∈ rX.pairs ↔ (k, p) ∈ r.pairs) := by rw [this]; simp [hp]
    simp [hp, h1]
  · have h1 : ¬ (k, p) ∈ rX.pairs := by rw [this]; simp [hp, hne]
    simp [hp, h1]

/-- … counts merged: the line count of a platform set `T` in the selected run is the sum of
the full run's counts over the platform sets that project onto `T`.  `classes` is any
duplicate-free list of platform sets containing the platform set of every node
(`setmap.keys()` of the full run). -/
theorem projection_counts [DecidableEq Key] (A : Entry → Except Err (Out Key Warn))
    (c : Config Entry) (r rX : Acc Key Warn) (h : findG A c = .ok r) (X : List String)
    (hne : X ≠ []) (hX : findG A (select X c) = .ok rX) (names : List String)
    (nodes : List Key) (w : Key → Nat) (classes : List (List String)) (hnd : classes.Nodup)
    (hall : ∀ k ∈ nodes, platSet names r k ∈ classes) (T : List String) :
    setmapCount nodes w (platSet (names.filter fun p => X.contains p) rX) T =
      ((classes.filter fun S => decide ((S.filter fun p => X.contains p) = T)).map
        (setmapCount nodes w (platSet names r))).sum := by
  unfold setmapCount
  have hproj : ∀ k, platSet (names.filter fun p => X.contains p) rX k =
      (platSet names r k).filter fun p => X.contains p :=
    fun k => projection_sets A c r rX h X hne hX names k
  simp only [hproj]
  have := count_fibres nodes w (platSet names r) (fun S => S.filter fun p => X.contains p) T
    classes hnd hall
  simpa using this

/-- **Where hoisting goes wrong.**  A run that threads ANY extra state through all commands
and platforms (the shared parse cache of the code; a hoisted macro table, include memo or
once-list in a mutated code) attributes exactly what `findG A` does PROVIDED that state is
transparent: under an invariant it never changes what a command observes (`Transparent`).
This is the obligation the code's shared `ParserState.trees` has to meet; Part 3 discharges it
for the explicit parse cache of the total model (`cache_transparent_partial`,
`find_cached_eq_findG_partial`), up to the recorded finding F-C08-1 = D19. -/
theorem transparent_state_refines {σ : Type} (Inv : σ → Prop)
    (step : σ → Entry → Except Err (Out Key Warn × σ)) (A : Entry → Except Err (Out Key Warn))
    (ht : Transparent Inv step A) (s0 : σ) (h0 : Inv s0) (c : Config Entry) :
    (match findS step s0 c with
      | .ok (a, _) => .ok a
      | .error er => .error er) = findG A c := by
  have := findS_refines Inv step A ht c {} s0 h0
  unfold findS findG
  cases hS : List.foldlM (fun acc pe => List.foldlM (stepEntryS step pe.1) acc pe.2) ({}, s0) c with
  | error er => rw [hS] at this; exact this.symm
  | ok as => obtain ⟨a, s'⟩ := as; rw [hS] at this; exact this.1.symm

/-! ### non-vacuity of Part 1 (a toy analysis with state-free semantics) -/

/-- command `n` visits nodes `n` and `n+1`, warns when odd, and fails when `n = 0` -/
def toyA (n : Nat) : Except String (Out Nat String) :=
  if n = 0 then .error "boom" else .ok { keys := [n, n + 1], warns := if n % 2 = 1 then ["odd"] else [] }

def toyCfg : Config Nat := [("cpu", [1, 2]), ("gpu", [2, 5]), ("fpga", [])]
def toyRes : Acc Nat String :=
  { pairs := [(1, "cpu"), (2, "cpu"), (2, "cpu"), (3, "cpu"), (2, "gpu"), (3, "gpu"), (5, "gpu"), (6, "gpu")],
    warns := ["odd", "odd"] }

example : findG toyA toyCfg = .ok toyRes := by rfl
example : findG toyA [("cpu", [1, 0, 2])] = .error "boom" := by rfl
example : findG toyA (select ["gpu"] toyCfg) =
    .ok { pairs := [(2, "gpu"), (3, "gpu"), (5, "gpu"), (6, "gpu")], warns := ["odd"] } := by rfl
example : CfgPerm toyCfg [("gpu", [5, 2]), ("cpu", [2, 1]), ("fpga", [])] :=
  .trans (.swap _ _ _)
    (.cons "gpu" (List.Perm.swap 5 2 []) (.cons "cpu" (List.Perm.swap 2 1 []) (CfgPerm.refl _)))
example : platSet ["cpu", "gpu", "fpga"] toyRes 2 = ["cpu", "gpu"] := by decide
example : ∀ e, e ∈ entriesOf toyCfg "gpu" ↔ e ∈ entriesOf [("gpu", [5, 2, 5])] "gpu" := by
  intro e; simp [entriesOf, toyCfg]; omega
/-- hypotheses of `projection_counts` hold for the toy run: nodes 1…6, one line each -/
example : ([["cpu"], ["cpu", "gpu"], ["gpu"], []] : List (List String)).Nodup ∧
    ∀ k ∈ [1, 2, 3, 4, 5, 6], platSet ["cpu", "gpu", "fpga"] toyRes k ∈
      ([["cpu"], ["cpu", "gpu"], ["gpu"], []] : List (List String)) := by decide

/-- a transparent threaded state: a memo of the commands already analysed -/
example : Transparent (fun _ : List Nat => True) (fun s n => (toyA n).map fun o => (o, n :: s)) toyA := by
  intro s n _
  cases h : toyA n <;> simp [Except.map, h]
/-- a hoisted "macro table" is NOT transparent: a counter surviving from one command to the
next changes what the next command sees -/
example : findS (fun (s : Nat) (n : Nat) => .ok ({ keys := [n + s] }, s + 1)) 0 [("cpu", [1, 1])] =
    (.ok ({ pairs := [(1, "cpu"), (2, "cpu")] }, 2) : Except String (Acc Nat String × Nat)) := by rfl

/-! ## Part 2 — the instance executed by the driver (`FindInst.findI`) -/

open CbiVerif.PP CbiVerif.FindInst

/-- the driver's model result equals the driver's spec result on every input -/
theorem findI_eq_specI (fs : FSMap) (cb : List String) (c : Config PP.Entry) :
    findI fs cb c = specI fs cb c := by
  unfold findI specI
  cases prepare fs (cb ++ filesOf c) with
  | error e => rfl
  | ok _ => exact find_eq_spec _ c

/-- a real run succeeds iff every file parses and every single-command analysis succeeds -/
theorem findI_ok (fs : FSMap) (cb : List String) (c : Config PP.Entry) (r : Acc NodeKey PP.Warn) :
    findI fs cb c = .ok r ↔
      prepare fs (cb ++ filesOf c) = .ok () ∧ findG (analyseEntry fs) c = .ok r := by
  unfold findI
  cases prepare fs (cb ++ filesOf c) with
  | error e => simp
  | ok u => simp

/-- **union_of_commands** for `finder.find`: in a successful analysis of a code base, platform
`p` uses node `k` iff some compile command `e` of `p` uses it when the tool is run on the
same code base with a configuration that contains only `p` with only `e`. -/
theorem find_union_of_commands (fs : FSMap) (cb : List String) (c : Config PP.Entry)
    (r : Acc NodeKey PP.Warn) (h : findI fs cb c = .ok r) (p : String) (k : NodeKey) :
    Attr r p k ↔
      ∃ e, e ∈ entriesOf c p ∧ ∃ r1, findI fs cb [(p, [e])] = .ok r1 ∧ Attr r1 p k := by
  obtain ⟨hprep, hfind⟩ := (findI_ok fs cb c r).mp h
  rw [union_of_commands _ c r hfind p k]
  constructor
  · rintro ⟨e, he, r1, hr1, hk⟩
    exact ⟨e, he, r1, (findI_ok fs cb _ r1).mpr ⟨prepare_single fs cb c p e hprep he, hr1⟩, hk⟩
  · rintro ⟨e, he, r1, hr1, hk⟩
    exact ⟨e, he, r1, ((findI_ok fs cb _ r1).mp hr1).2, hk⟩

/-- **platform_independent** for `finder.find`: two successful analyses of the same code base
in which `p` has the same compile commands attribute the same nodes to `p`. -/
theorem find_platform_independent (fs : FSMap) (cb : List String) (c1 c2 : Config PP.Entry)
    (r1 r2 : Acc NodeKey PP.Warn) (h1 : findI fs cb c1 = .ok r1) (h2 : findI fs cb c2 = .ok r2)
    (p : String) (hp : ∀ e, e ∈ entriesOf c1 p ↔ e ∈ entriesOf c2 p) (k : NodeKey) :
    Attr r1 p k ↔ Attr r2 p k :=
  platform_independent _ c1 c2 r1 r2 ((findI_ok fs cb c1 r1).mp h1).2 ((findI_ok fs cb c2 r2).mp h2).2 p hp k

/-- **perm_invariant** for `finder.find` (order of the commands in each database, order of
the platforms) -/
theorem find_perm_invariant (fs : FSMap) (cb : List String) {c c' : Config PP.Entry}
    (hc : CfgPerm c c') (r : Acc NodeKey PP.Warn) (h : findI fs cb c = .ok r) :
    ∃ r', findI fs cb c' = .ok r' ∧ r.pairs.Perm r'.pairs ∧ r.warns.Perm r'.warns := by
  obtain ⟨hprep, hfind⟩ := (findI_ok fs cb c r).mp h
  obtain ⟨r', hr', hp, hw⟩ := perm_invariant _ hc r hfind
  exact ⟨r', (findI_ok fs cb c' r').mpr ⟨prepare_perm fs cb hc hprep, hr'⟩, hp, hw⟩

/-- **projection** for `finder.find` / `codebasin -p X`: the selected analysis succeeds
whenever the full one does and its attribution is the full attribution restricted to the
selected platforms. -/
theorem find_projection (fs : FSMap) (cb : List String) (c : Config PP.Entry)
    (r : Acc NodeKey PP.Warn) (h : findI fs cb c = .ok r) (X : List String) :
    ∃ rX, findI fs cb (select X c) = .ok rX ∧
      rX.pairs = r.pairs.filter (fun kp => X.isEmpty || X.contains kp.2) := by
  obtain ⟨hprep, hfind⟩ := (findI_ok fs cb c r).mp h
  obtain ⟨rX, hrX, hp⟩ := projection _ c r hfind X
  exact ⟨rX, (findI_ok fs cb _ rX).mpr ⟨prepare_select fs cb c X hprep, hrX⟩, hp⟩

/-- the state-threading run of the same instance (one parse cache shared by all commands; field `pp` of op `c08find`)
equals the stateless reference as well: by `findI_eq_cached` (`Props/C08Engines.lean`) it IS `findI`, so every theorem of
this part is a theorem about it -/
theorem findPP_eq_spec (fs : FSMap) (cb : List String) (c : Config PP.Entry) :
    findPP CbiVerif.Exclude.defaultFuel fs cb c = specI fs cb c := by
  rw [← findI_eq_cached, ← findI_default_fuel, findI_eq_specI]

/-! ### non-vacuity of Part 2

The hypotheses `findI … = .ok r` are satisfiable: the following runs are kernel-checked
(`decide +kernel`; they were `#guard`s while `findI` ran the design-phase visitor `PP.assocFile`, a
`partial def`, and the path functions were built on `String.splitOn`).  `findI` is now an instance of the
total, fuelled engine of `Model/Exclude.lean` (`FindInst.semPP`; `Props/C08Engines.lean`), the expander is the total
`MX.cbiExpand` (`PP.condValue`), and `normpath` / `dirname` / `splitext` are structural, so the whole run —
lexing, parsing, tree building, include search, macro expansion, expression evaluation — reduces in the kernel,
with the driver's default fuel.  `h.h` is protected by `#pragma once`, defines
`H`, and shows different lines depending on `A`; it is re-processed for every command. -/

-- the demo code base `demoFs` / `demoCb` / `demoCfg` and the checker `okWith` are defined in `Props/C08Engines.lean`

-- full run: 30 attributions; `int a;` (node 2 of h.h) is cpu's, `int b;` (node 4) is gpu's
example : okWith (findI demoFs demoCb demoCfg) 30
    [(("/r/inc/h.h", 2), "cpu"), (("/r/inc/h.h", 4), "gpu"), (("/r/b.c", 2), "cpu")]
    [(("/r/inc/h.h", 4), "cpu"), (("/r/inc/h.h", 2), "gpu")] = true := by decide +kernel
-- single-command runs and the selection `-p gpu`
example : okWith (findI demoFs demoCb [("cpu", [demoA])]) 10 [(("/r/inc/h.h", 2), "cpu")] [] = true := by
  decide +kernel
example : okWith (findI demoFs demoCb [("cpu", [demoB])]) 10 [(("/r/b.c", 2), "cpu")] [] = true := by
  decide +kernel
example : okWith (findI demoFs demoCb (select ["gpu"] demoCfg)) 10 [(("/r/inc/h.h", 4), "gpu")]
    [(("/r/inc/h.h", 2), "cpu")] = true := by decide +kernel
-- a permuted configuration
example : okWith (findI demoFs demoCb [("gpu", [demoG]), ("cpu", [demoB, demoA])]) 30
    [(("/r/inc/h.h", 2), "cpu")] [] = true := by decide +kernel

/-! ## Part 3 — the code's actual shared state: the parse cache (`FindCache.findC`)

`FindCache.findC S n cb cfg` is `finder.find` as the state-threading fold `findS` whose state is the
explicit parse cache `ParserState.trees`/`langs` (file ↦ language class, parsed tree), one step being
the total, fuelled engine of `Model/Exclude.lean` run on ONE database entry (`FindCache.cstep`).
The driver op `c08find` executes exactly this definition (field `cached`) with the semantics
`FindCache.semC fs`; the theorems hold for every semantics record `S` and every fuel `n`.

`FindCache.analyse S n` is the cache-free analysis of one entry (`Exclude.runEntryRef`), so
`findG (analyse S n)` is an instance of Part 1: all composition theorems apply to it.

The cache is transparent except for one thing the code really does (finding F-C08-1 = D19): a file
that is not pre-parsed keeps the language class of the command that reached it first.  The engine
logs each use of a file under a class other than the one determined by the file and its includer
(`Exclude.MixEv`); `FindCache.NoMix S n cb cfg` says the log of the run is empty, and is decidable. -/

section Cache
open CbiVerif.Exclude
open CbiVerif.FindCache (cstep analyse mixedStep findC findRefG finalCache prep NoMix mixLog entryX)

/-- the up-front parse of the code base and of every compiled file did not fail -/
def PreOK (S : Sem) (cb : List String) (cfg : Config PP.Entry) : Prop :=
  (prep S cb cfg).loc.err = none

/-- FULL STATEMENT (false for the code as it is, see `not_cacheTransparent`): the parse cache is a
transparent threaded state in the sense of `transparent_state_refines`.  The invariant: every cached
tree is the parse of its file under the class it was first reached with. -/
def CacheTransparent : Prop :=
  ∀ (S : Sem) (n : Nat), Transparent (Exclude.Inv S) (cstep S n) (analyse S n)

/-- **cache_transparent (proved part).**  From ANY cache satisfying the invariant, ANY database
entry either logs a language-mixing event or shows exactly what the cache-free analysis of that
entry shows (same visited nodes, same warnings, same exception), and in every case leaves a cache
that satisfies the invariant again.  No hypothesis; the exclusion is the decidable flag
`mixedStep`. -/
theorem cache_transparent_partial (S : Sem) (n : Nat) :
    TransparentUnless (Exclude.Inv S) (mixedStep S n) (cstep S n) (analyse S n) :=
  FindCache.cstep_transparent_unless S n

/-- `TransparentUnless` with nothing flagged IS `Transparent`: the proved part differs from the full
statement only in the flagged steps. -/
theorem transparent_unless_nothing {σ : Type} (Inv : σ → Prop)
    (step : σ → Entry → Except Err (Out Key Warn × σ)) (A : Entry → Except Err (Out Key Warn)) :
    Transparent Inv step A ↔ TransparentUnless Inv (fun _ _ => false) step A :=
  transparent_iff_unless Inv step A

/-- generic form: a run that threads a state which is transparent except on flagged steps, and in
which no step is flagged, equals `findG A` (generalises `transparent_state_refines`). -/
theorem transparent_unless_refines {σ : Type} (Inv : σ → Prop) (flag : σ → Entry → Bool)
    (step : σ → Entry → Except Err (Out Key Warn × σ)) (A : Entry → Except Err (Out Key Warn))
    (ht : TransparentUnless Inv flag step A) (s0 : σ) (h0 : Inv s0) (c : Config Entry)
    (hc : cleanJobs flag step ((jobs c).map (·.2)) s0 = true) :
    (match findS step s0 c with
      | .ok (a, _) => .ok a
      | .error er => .error er) = findG A c := by
  have := findS_refines_unless Inv flag step A ht c {} s0 h0 hc
  unfold findS findG
  cases hS : List.foldlM (fun acc pe => List.foldlM (stepEntryS step pe.1) acc pe.2) ({}, s0) c with
  | error er => rw [hS] at this; exact this.symm
  | ok as => obtain ⟨a, s'⟩ := as; rw [hS] at this; exact this.1.symm

/-- FULL STATEMENT (false for the code as it is, see `not_cachedEqFindG`): the cached run is the
generic fold over the cache-free single-command analysis, for every configuration. -/
def CachedEqFindG : Prop :=
  ∀ (S : Sem) (n : Nat) (cb : List String) (cfg : Config PP.Entry), findC S n cb cfg = findRefG S n cb cfg

/-- **find_cached_eq_findG (proved part).**  For every semantics, fuel, code base and configuration
(any number of platforms and commands): if the run logs no language-mixing event, the analysis with
the shared parse cache returns exactly what the up-front parse followed by `findG (analyse S n)`
returns — the same attribution pairs in the same order, the same warnings, the same exception. -/
theorem find_cached_eq_findG_partial (S : Sem) (n : Nat) (cb : List String) (cfg : Config PP.Entry)
    (hmix : NoMix S n cb cfg) : findC S n cb cfg = findRefG S n cb cfg :=
  FindCache.findC_eq_findRefG S n cb cfg hmix

/-- … hence, when the up-front parse succeeds, the cached run IS `findG` of Part 1 -/
theorem find_cached_is_findG_partial (S : Sem) (n : Nat) (cb : List String) (cfg : Config PP.Entry)
    (hpre : PreOK S cb cfg) (hmix : NoMix S n cb cfg) : findC S n cb cfg = findG (analyse S n) cfg := by
  rw [find_cached_eq_findG_partial S n cb cfg hmix, FindCache.findRefG_of_prep hpre]

/-- **the invariant of the cache**, with or without mixing events: whatever the run leaves in the
cache is the parse of the file's text under the class recorded with it -/
theorem cached_tree_is_parse (S : Sem) (n : Nat) (cb : List String) (cfg : Config PP.Entry)
    (hpre : PreOK S cb cfg) (g : String) (cl : LClass) (t : Parsed)
    (h : (g, cl, t) ∈ finalCache S n cb cfg) : S.parseAs cl g = .ok t :=
  FindCache.finalCache_inv S n cb cfg hpre g cl t h

/-- the up-front parse succeeds iff every file of the code base and every compiled file parses under
the class of its extension -/
theorem preOK_iff (S : Sem) (cb : List String) (cfg : Config PP.Entry) :
    PreOK S cb cfg ↔ ∀ f ∈ cb ++ entryFiles cfg, ∃ cl t, S.extClass f = some cl ∧ S.parseAs cl f = .ok t :=
  FindCache.prep_ok_iff S cb cfg

/-! ### the composition theorems, for the run with the shared cache -/

/-- **union_of_commands** for the cached run: platform `p` uses node `k` iff some command of `p`
uses it when the tool is run (with its cache) on that command alone. -/
theorem cached_union_of_commands_partial (S : Sem) (n : Nat) (cb : List String) (cfg : Config PP.Entry)
    (r : Acc FindCache.NodeKey PP.Warn) (h : findC S n cb cfg = .ok r) (hmix : NoMix S n cb cfg)
    (p : String) (hsub : ∀ e, e ∈ entriesOf cfg p → NoMix S n cb [(p, [e])]) (k : FindCache.NodeKey) :
    Attr r p k ↔
      ∃ e, e ∈ entriesOf cfg p ∧ ∃ r1, findC S n cb [(p, [e])] = .ok r1 ∧ Attr r1 p k := by
  have hpre := FindCache.findC_ok_prep h
  rw [find_cached_is_findG_partial S n cb cfg hpre hmix] at h
  rw [union_of_commands _ cfg r h p k]
  constructor
  · rintro ⟨e, he, r1, hr1, hk⟩
    refine ⟨e, he, r1, ?_, hk⟩
    rw [find_cached_is_findG_partial S n cb _ (FindCache.prep_single S cb cfg p e hpre he) (hsub e he)]
    exact hr1
  · rintro ⟨e, he, r1, hr1, hk⟩
    refine ⟨e, he, r1, ?_, hk⟩
    rw [find_cached_is_findG_partial S n cb _ (FindCache.prep_single S cb cfg p e hpre he) (hsub e he)] at hr1
    exact hr1

/-- **perm_invariant** for the cached run -/
theorem cached_perm_invariant_partial (S : Sem) (n : Nat) (cb : List String) {cfg cfg' : Config PP.Entry}
    (hc : CfgPerm cfg cfg') (r : Acc FindCache.NodeKey PP.Warn) (h : findC S n cb cfg = .ok r)
    (hmix : NoMix S n cb cfg) (hmix' : NoMix S n cb cfg') :
    ∃ r', findC S n cb cfg' = .ok r' ∧ r.pairs.Perm r'.pairs ∧ r.warns.Perm r'.warns := by
  have hpre := FindCache.findC_ok_prep h
  rw [find_cached_is_findG_partial S n cb cfg hpre hmix] at h
  obtain ⟨r', hr', hp, hw⟩ := perm_invariant _ hc r h
  exact ⟨r', by rw [find_cached_is_findG_partial S n cb cfg' (FindCache.prep_perm S cb hc hpre) hmix']; exact hr',
    hp, hw⟩

/-- **projection** for the cached run (`-p X`) -/
theorem cached_projection_partial (S : Sem) (n : Nat) (cb : List String) (cfg : Config PP.Entry)
    (r : Acc FindCache.NodeKey PP.Warn) (h : findC S n cb cfg = .ok r) (X : List String)
    (hmix : NoMix S n cb cfg) (hmixX : NoMix S n cb (select X cfg)) :
    ∃ rX, findC S n cb (select X cfg) = .ok rX ∧
      rX.pairs = r.pairs.filter (fun kp => X.isEmpty || X.contains kp.2) := by
  have hpre := FindCache.findC_ok_prep h
  rw [find_cached_is_findG_partial S n cb cfg hpre hmix] at h
  obtain ⟨rX, hrX, hp⟩ := projection _ cfg r h X
  exact ⟨rX, by rw [find_cached_is_findG_partial S n cb _ (FindCache.prep_select S cb cfg X hpre) hmixX]; exact hrX,
    hp⟩

/-! ### non-vacuity, and the witnesses that the unguarded statements are false (F-C08-1 = D19)

A toy semantics.  `c.c`, `d.c` (C) include `h.h` (C by extension); `a.f90`, `e.f90` (Fortran) and
`b.c` (C) include a header: `a.f90` and `b.c` include `x.inc` (no extension class), `e.f90` includes
`h.h`.  Parsed as Fortran a header has two nodes (its `#define` sits inside `/* */`), parsed as C one. -/

def tNode (k : PP.NKind) : PP.PNode := { kind := k, lines := [1] }

def toyL : Sem where
  extClass := fun f =>
    if f == "h.h" || f == "b.c" || f == "c.c" || f == "d.c" then some .c
    else if f == "a.f90" || f == "e.f90" then some .fortran else none
  parseAs := fun cl f =>
    if f == "a.f90" || f == "e.f90" || f == "b.c" || f == "c.c" || f == "d.c" then
      .ok (#[tNode .include, tNode .code], [.node 0 [], .node 1 []])
    else if f == "h.h" || f == "x.inc" then
      match cl with
      | .fortran => .ok (#[tNode .define, tNode .code], [.node 0 [], .node 1 []])
      | _ => .ok (#[tNode .code], [.node 0 []])
    else .error (.other "FileNotFoundError")
  step := fun file idx nd l =>
    ({ l with assoc := l.assoc ++ [((file, idx), [l.plat.name])] },
      if nd.kind == .include then .incl (if file == "a.f90" || file == "b.c" then "x.inc" else "h.h") else .stay)
  findInc := fun p _ _ => (none, p)
  mkPlat := fun pname _ => .ok { name := pname }

def tE (f : String) : PP.Entry := ⟨f, [], [], []⟩

/-- two platforms, three commands; `h.h` is outside the code base, cached by `c.c` and re-used by `d.c` -/
def toyCfgOK : Config PP.Entry := [("cpu", [tE "c.c", tE "d.c"]), ("gpu", [tE "a.f90"])]
def toyCb : List String := ["a.f90", "b.c", "c.c", "d.c", "e.f90"]

/-- the hypotheses of the theorems of this part hold on a non-trivial input (shared header outside
the code base, several commands and platforms, two language classes) … -/
example : PreOK toyL toyCb toyCfgOK ∧ NoMix toyL 8 toyCb toyCfgOK ∧
    NoMix toyL 8 toyCb (select ["cpu"] toyCfgOK) ∧
    NoMix toyL 8 toyCb [("gpu", [tE "a.f90"]), ("cpu", [tE "d.c", tE "c.c"])] ∧
    (∀ e, e ∈ [tE "c.c", tE "d.c"] → NoMix toyL 8 toyCb [("cpu", [e])]) := by
  unfold PreOK NoMix; decide

/-- … and the run is what one expects: 10 attributions, the header's node for both `cpu` commands -/
example : findC toyL 8 toyCb toyCfgOK = .ok
    { pairs := [(("c.c", 0), "cpu"), (("h.h", 0), "cpu"), (("c.c", 1), "cpu"),
                (("d.c", 0), "cpu"), (("h.h", 0), "cpu"), (("d.c", 1), "cpu"),
                (("a.f90", 0), "gpu"), (("x.inc", 0), "gpu"), (("x.inc", 1), "gpu"), (("a.f90", 1), "gpu")],
      warns := [] } := by rfl

/-- the cache of that run holds the five pre-parsed files and the two headers, `x.inc` as Fortran -/
example : (finalCache toyL 8 toyCb toyCfgOK).map (fun e => (e.1, e.2.1)) =
    [("a.f90", .fortran), ("b.c", .c), ("c.c", .c), ("d.c", .c), ("e.f90", .fortran),
     ("h.h", .c), ("x.inc", .fortran)] := by decide

def nkeys (r : Except PP.Err (Out FindCache.NodeKey PP.Warn)) : Nat :=
  match r with | .ok o => o.keys.length | .error _ => 0
-- `npairs` (number of attribution pairs of a run, 0 for a failed one) is defined in `Props/C08Engines.lean`

/-- **F-C08-1 = D19, one command**: from the empty cache, `e.f90` reaches `h.h` (C by extension) and
parses it as Fortran — 4 nodes visited; the cache-free analysis parses it as C — 3 nodes. -/
theorem not_cacheTransparent : ¬ CacheTransparent := by
  intro h
  have h1 := h toyL 8 [] (tE "e.f90") (Exclude.Inv.nil _)
  have h2 : nkeys (match cstep toyL 8 [] (tE "e.f90") with
      | .ok (o, _) => .ok o
      | .error er => .error er) = nkeys (analyse toyL 8 (tE "e.f90")) := by
    cases hst : cstep toyL 8 [] (tE "e.f90") with
    | error er => rw [hst] at h1; simp only at h1; rw [h1]
    | ok os => obtain ⟨o, s'⟩ := os; rw [hst] at h1; simp only at h1; rw [h1.1]
  exact absurd h2 (by decide)

/-- **F-C08-1 = D19, two commands**: `a.f90` then `b.c`, both including `x.inc` (no extension
class, outside the code base).  The cached run shows `b.c` the Fortran tree of `x.inc` (8 attribution
pairs); `findG` over the cache-free analysis shows it the C tree (7 pairs). -/
theorem not_cachedEqFindG : ¬ CachedEqFindG := by
  intro h
  have h1 := congrArg npairs (h toyL 8 toyCb [("p", [tE "a.f90", tE "b.c"])])
  exact absurd h1 (by decide)

/-- … and the composition property itself fails for the cached run there: swapping the two commands
changes what platform `p` uses (node 1 of `x.inc`), although both runs succeed.  With the guard the
two orders agree (`cached_perm_invariant_partial`); here both orders log a mixing event. -/
theorem cached_order_dependent :
    ∃ (S : Sem) (n : Nat) (cb : List String) (cfg cfg' : Config PP.Entry)
      (r r' : Acc FindCache.NodeKey PP.Warn) (p : String) (k : FindCache.NodeKey),
      CfgPerm cfg cfg' ∧ findC S n cb cfg = .ok r ∧ findC S n cb cfg' = .ok r' ∧
      Attr r p k ∧ ¬ Attr r' p k ∧ ¬ NoMix S n cb cfg ∧ ¬ NoMix S n cb cfg' :=
  ⟨toyL, 8, toyCb, [("p", [tE "a.f90", tE "b.c"])], [("p", [tE "b.c", tE "a.f90"])],
    { pairs := [(("a.f90", 0), "p"), (("x.inc", 0), "p"), (("x.inc", 1), "p"), (("a.f90", 1), "p"),
                (("b.c", 0), "p"), (("x.inc", 0), "p"), (("x.inc", 1), "p"), (("b.c", 1), "p")], warns := [] },
    { pairs := [(("b.c", 0), "p"), (("x.inc", 0), "p"), (("b.c", 1), "p"),
                (("a.f90", 0), "p"), (("x.inc", 0), "p"), (("a.f90", 1), "p")], warns := [] },
    "p", ("x.inc", 1),
    .cons "p" (List.Perm.swap _ _ []) .nil, rfl, rfl, by unfold Attr; decide, by unfold Attr; decide,
    by unfold NoMix; decide, by unfold NoMix; decide⟩

/-- **F-C08-1 = D19, full run clean but a single-command run is not**: the hypothesis `hsub` of
`cached_union_of_commands_partial` cannot be dropped.  In `[c.c, e.f90]` the header `h.h` is cached
as C (its extension class) by `c.c` and `e.f90` re-uses that tree — no mixing event, the run equals
`findG`; but the tool run on `e.f90` ALONE parses `h.h` as Fortran and uses a node (`h.h`, 1) the
full run never shows. -/
theorem single_run_needs_noMix :
    ∃ (S : Sem) (n : Nat) (cb : List String) (cfg : Config PP.Entry) (p : String) (e : PP.Entry)
      (r r1 : Acc FindCache.NodeKey PP.Warn) (k : FindCache.NodeKey),
      e ∈ entriesOf cfg p ∧ NoMix S n cb cfg ∧ ¬ NoMix S n cb [(p, [e])] ∧
      findC S n cb cfg = .ok r ∧ findC S n cb [(p, [e])] = .ok r1 ∧ Attr r1 p k ∧ ¬ Attr r p k :=
  ⟨toyL, 8, toyCb, [("p", [tE "c.c", tE "e.f90"])], "p", tE "e.f90",
    { pairs := [(("c.c", 0), "p"), (("h.h", 0), "p"), (("c.c", 1), "p"),
                (("e.f90", 0), "p"), (("h.h", 0), "p"), (("e.f90", 1), "p")], warns := [] },
    { pairs := [(("e.f90", 0), "p"), (("h.h", 0), "p"), (("h.h", 1), "p"), (("e.f90", 1), "p")], warns := [] },
    ("h.h", 1),
    by simp [entriesOf], by unfold NoMix; decide, by unfold NoMix; decide, rfl, rfl,
    by unfold Attr; decide, by unfold Attr; decide⟩

/-! ### a static sufficient condition: one language class

`FindCache.OneClass S cl0`: every file name has extension class `cl0`, or has none and does not parse
under any class.  Then no run ever logs a mixing event, every cached tree is recorded under `cl0`
(`FindCache.InvMono`), and the parse cache is LITERALLY transparent — `transparent_state_refines`
applies as it stands.  (For the driver's semantics `semC fs` the condition is not satisfiable, because
the extension table is global — `x.f90` is Fortran whether or not it exists; there the applicable
hypothesis is the run-time `NoMix`.  It IS satisfied by the C-family instance `FindInst.semPP fs` that
`findI` is built on: `findI_eq_cached` in `Props/C08Engines.lean`.) -/

/-- **cache_transparent, one language class**: `Transparent`, no flag -/
theorem cache_transparent_oneclass (S : Sem) (cl0 : LClass) (hS : FindCache.OneClass S cl0) (n : Nat) :
    Transparent (FindCache.InvMono S cl0) (cstep S n) (analyse S n) :=
  FindCache.cstep_transparent_mono S cl0 hS n

/-- … hence, by `transparent_state_refines`, the cached run equals `findG` for EVERY configuration -/
theorem find_cached_eq_findG_oneclass (S : Sem) (cl0 : LClass) (hS : FindCache.OneClass S cl0) (n : Nat)
    (cb : List String) (cfg : Config PP.Entry) : findC S n cb cfg = findRefG S n cb cfg := by
  unfold findC findRefG
  cases herr : (prep S cb cfg).loc.err with
  | some er => rfl
  | none =>
    simp only []
    have h := transparent_state_refines (FindCache.InvMono S cl0) (cstep S n) (analyse S n)
      (cache_transparent_oneclass S cl0 hS n) _ (FindCache.prep_invMono S cl0 hS cb cfg herr) cfg
    cases hS : findS (cstep S n) (prep S cb cfg).cache cfg with
    | error er => rw [hS] at h; exact h
    | ok as => obtain ⟨a, s'⟩ := as; rw [hS] at h; exact h

/-- … and never logs a mixing event -/
theorem noMix_oneclass (S : Sem) (cl0 : LClass) (hS : FindCache.OneClass S cl0) (n : Nat)
    (c : Cache) (e : PP.Entry) (hI : FindCache.InvMono S cl0 c) : mixedStep S n c e = false :=
  (FindCache.mono_step S cl0 hS n c e hI).1

/-- a one-class toy: `c.c`, `d.c` include `h.h`; nothing else exists -/
def toyC : Sem where
  extClass := fun f => if f == "c.c" || f == "d.c" || f == "h.h" then some .c else none
  parseAs := fun _ f =>
    if f == "c.c" || f == "d.c" || f == "h.h" then
      (if f == "h.h" then .ok (#[tNode .code], [.node 0 []])
       else .ok (#[tNode .include, tNode .code], [.node 0 [], .node 1 []]))
    else .error (.other "FileNotFoundError")
  step := fun file idx nd l =>
    ({ l with assoc := l.assoc ++ [((file, idx), [l.plat.name])] },
      if nd.kind == .include then .incl "h.h" else .stay)
  findInc := fun p _ _ => (none, p)
  mkPlat := fun pname _ => .ok { name := pname }

/-- the hypothesis of the one-class theorems is satisfiable -/
example : FindCache.OneClass toyC .c := by
  intro g
  by_cases h : (g == "c.c" || g == "d.c" || g == "h.h") = true
  · left; simp only [toyC, h, if_true]
  · right
    have h' : (g == "c.c" || g == "d.c" || g == "h.h") = false := by simpa using h
    exact ⟨by simp only [toyC, h', Bool.false_eq_true, if_false],
      fun cl => ⟨.other "FileNotFoundError", by simp only [toyC, h', Bool.false_eq_true, if_false]⟩⟩

example : findC toyC 8 ["c.c", "d.c"] [("cpu", [tE "c.c", tE "d.c"]), ("gpu", [tE "d.c"])] = .ok
    { pairs := [(("c.c", 0), "cpu"), (("h.h", 0), "cpu"), (("c.c", 1), "cpu"),
                (("d.c", 0), "cpu"), (("h.h", 0), "cpu"), (("d.c", 1), "cpu"),
                (("d.c", 0), "gpu"), (("h.h", 0), "gpu"), (("d.c", 1), "gpu")], warns := [] } := by rfl

end Cache

end CbiVerif.C08
