import CbiVerif.Model.Compilers
/-!
# C12 — reference semantics, written from the property text

* aliases: following `alias_of` links is a *relation* on the compiler table (`Path`); the four possible
  outcomes of "resolve the name" are stated on that relation;
* composition: the configuration of a pass is a closed formula —
  command-line lists ++ the pass's declared lists ++ the declared lists of its modes, in declaration order —
  and there is exactly one configuration for `default` plus one per selected, declared pass;
* the user file extends the built-in table (`extends`);
* attribution: a (node, platform) pair is in the result iff some entry (= some pass of some command)
  of that platform uses the node.
Core Lean only.
-/
namespace CbiVerif.Compilers.Spec
open CbiVerif.Compilers

/-- `n` is a known alias whose (truthy) target is `a` -/
def Link (cs : CompilerMap) (n a : String) : Prop := ∃ c, lookup cs n = some c ∧ aliasTarget c = some a

/-- `Path cs n p m`: following alias links from `n` visits the names `p` one after the other and stands at `m` -/
inductive Path (cs : CompilerMap) : String → List String → String → Prop
  | nil (n : String) : Path cs n [] n
  | cons {n a m : String} {p : List String} : Link cs n a → Path cs a p m → Path cs n (a :: p) m

/-- what each answer of the resolver has to mean -/
def Outcome (cs : CompilerMap) (name : String) : Resolved → Prop
  | .notRecognized => lookup cs name = none
  | .found d => ∃ p m, Path cs name p m ∧ p.length < cs.length ∧ lookup cs m = some d ∧ aliasTarget d = none
  | .unknownTarget a => ∃ p m, Path cs name p m ∧ p.length < cs.length ∧ Link cs m a ∧ lookup cs a = none
  | .loop => ∃ p m a, Path cs name p m ∧ p.length < cs.length ∧ Link cs m a ∧ a ∈ name :: p

/-- the declared modes among `ms`, in the order given (undeclared names contribute nothing) -/
def declaredModes (c : Compiler) (ms : List String) : List ModeDef := ms.filterMap (lookup c.modes)

/-- base lists, then the pass's own lists, then those of its modes -/
def configOf (p : String) (base : PPConfig) (own : Option ModeDef) (ms : List ModeDef) : PPConfig :=
  { passName := p
    defines := base.defines ++ (own.map (·.defines)).getD [] ++ ms.flatMap (·.defines)
    includePaths := base.includePaths ++ (own.map (·.includePaths)).getD [] ++ ms.flatMap (·.includePaths)
    includeFiles := base.includeFiles ++ (own.map (·.includeFiles)).getD [] ++ ms.flatMap (·.includeFiles) }

/-- the configuration the property demands for pass `p`; `none` for a selected but undeclared pass -/
def specConfig (c : Compiler) (base : PPConfig) (active : List String) (p : String) : Option PPConfig :=
  if p == "default" then some (configOf p base none (declaredModes c active))
  else (lookup c.passes p).map fun pd => configOf p base (some pd.toModeDef) (declaredModes c pd.modes)

/-- reports for pass `p`: the pass itself if undeclared, else each undeclared mode it names -/
def specLogs (c : Compiler) (active : List String) (p : String) : List Log :=
  let bad (ms : List String) : List Log := (ms.filter fun m => !hasKey c.modes m).map Log.badMode
  if p == "default" then bad active
  else match lookup c.passes p with
    | none => [.badPass p]
    | some pd => bad pd.modes

/-- the last table named `k` in a list of `[[…modes]]` / `[[…passes]]` tables -/
def lastBy {α} (name : α → String) (l : List α) (k : String) : Option α := l.reverse.find? fun x => name x == k

/-- by-name override: what the user declares wins, everything else is kept -/
def overridden {α} (name : α → String) (old : List (String × α)) (user : List α) (k : String) : Option α :=
  match lastBy name user k with
  | some x => some x
  | none => lookup old k

/-- "the user configuration extends the built-in one", for one re-defined (non-alias) compiler:
    implicit options and parser rules are appended, modes and passes are added or replaced by name -/
structure Extends (old : Compiler) (d : Definition) (new : Compiler) : Prop where
  notAlias : new.aliasOf = none
  options : new.options = old.options ++ d.options.getD []
  parser : new.parser = old.parser ++ d.parser.getD []
  modes : ∀ k, lookup new.modes k = overridden (fun m : ModeDef => m.name) old.modes (d.modes.getD []) k
  passes : ∀ k, lookup new.passes k = overridden (fun p : PassDef => p.name) old.passes (d.passes.getD []) k

end CbiVerif.Compilers.Spec
