import CbiVerif.Spec.IncludeSem
import CbiVerif.Model.Assoc
/-! # Model of `ParserState.associate` across files (codebasin/finder.py,
`IncludeNode.evaluate_for_platform` in codebasin/preprocessor.py).

Each file's `SourceTree` is built by `Cond.build` (the zipper model of `SourceTree.insert`, C01) from
its node list and walked by `Cond.visitList` (the associator: `branch_taken`, NEXT / NEXT_SIBLING) —
i.e. `Cond.model`; an include node that enters a file runs `associate` on that file's tree with the
*same* `Platform` object and a fresh `branch_taken`.  The recursion is on include depth (`fuel`). -/
namespace CbiVerif.MF
open CbiVerif.Cond

variable {W : Type}

/-- build the tree of `file`, walk it with the associator under semantics `M` starting in world `w`
(fresh `branch_taken`), record the nodes reached; a raise of the builder (`None.add_child`) or of the
`branch_taken` bookkeeping (IndexError) is `crash` -/
def assocWith (M : Sem W) (F : FileOps W) (file : String) (w : W) : W :=
  match model M w (F.labels file) with
  | none => F.crash w
  | some a => F.record (if a.crash then F.crash a.σ else a.σ) file a.out

/-- the `Sem` the associator of `file` works with when `fuel` nested includes are still allowed -/
def sem (F : FileOps W) : Nat → String → Sem W
  | 0, file =>
    { evalIf := F.evalIf file
      exec := fun w i =>
        let r := F.enter file w i
        match r.1 with
        | none => r.2
        | some _ => F.noFuel r.2 }
  | n + 1, file =>
    { evalIf := F.evalIf file
      exec := fun w i =>
        let e := F.enter file w i
        match e.1 with
        | none => e.2
        | some inc => assocWith (sem F n inc) F inc e.2 }

/-- `state.associate(file, platform)` -/
def assocFile (F : FileOps W) (fuel : Nat) (file : String) (w : W) : W :=
  assocWith (sem F fuel file) F file w

end CbiVerif.MF
