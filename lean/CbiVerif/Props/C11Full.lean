import CbiVerif.Lemmas.Argv
import CbiVerif.Lemmas.ArgvSweep
import CbiVerif.Lemmas.ArgvPositional
import CbiVerif.Spec.Unrecognised
/-! # C11 (full parser) — `parse_known_args` as written: positionals, extras, classes of abort

Objects:
* `ArgparseFull.fullModel` — `_parse_known_args` of CPython 3.12.1 followed function by function (up-front
  `O`/`A`/`-` pattern, `consume_positionals` with the single `file` positional, `consume_optional`,
  `_match_argument`, extras, `ArgumentError` vs `parser.error()`), for the generated option table; the driver op
  `c11full` runs it against the real parser *including* `namespace.file` and the extras list;
* `Argparse.argparseModel` / `Argparse.parseKnown` — the left-to-right model `C11.main` is about;
* `ArgvSweep.sweep` — the one-pass form of the full model (proof device, `Lemmas/ArgvSweep.lean`);
* `Extract.lists` / `Extract.Tame` — the property-level extractor and the complement of the recorded classes.
-/
namespace CbiVerif.C11Full
open CbiVerif.Argparse CbiVerif.ArgparseFull CbiVerif.Extract CbiVerif.ArgvLemmas

abbrev Argv := List (List Char)

/-- **full_refines_lr** — for every option table of the supported kinds and every command line the full model's
four value lists are exactly the left-to-right model's, and the two fail on the same command lines with the same
class of abort (no "where neither fails" restriction). -/
theorem full_refines_lr (t : List Opt) (argv : Argv) :
    (parseFull t argv).map FResult.cfg = parseKnown t argv :=
  ArgvSweep.parseFull_cfg t argv

/-- hence the configuration assembled from the full model is the one `C11.main` speaks about -/
theorem full_configuration_eq (argv : Argv) : fullConfiguration argv = argparseModel argv := by
  unfold fullConfiguration fullModel argparseModel
  by_cases h : settingsOK = true
  · simp only [h, Bool.not_true, Bool.false_eq_true, if_false]
    rw [← full_refines_lr table argv]
    cases parseFull table argv <;> rfl
  · have h' : settingsOK = false := by simpa using h
    simp [h', Except.map]

/-- **the index loop is a one-pass scan**: positionals go to `file` during the first run of non-options and to
`extras` afterwards, an unknown option string goes to `extras`, an option string ends the first run. -/
theorem full_eq_onepass (t : List Opt) (argv : Argv) (toks : List Tok) (h : tokenize t argv = .ok toks)
    (hu : t.any (fun o => o.kind == .unsupported) = false) :
    parseFull t argv = ArgvSweep.sweep .idle ⟨{}, .pending, []⟩ toks :=
  ArgvSweep.parseFull_eq_sweep t argv toks h hu

example : tokenize table ["a.c".toList, "-DX".toList, "-Wall".toList, "b.c".toList] =
      .ok [.A "a.c".toList, .O "-DX".toList (.opt oD (some "X".toList)), .O "-Wall".toList .unknown, .A "b.c".toList] ∧
    (table.any fun o => o.kind == .unsupported) = false := by decide

/-- **main_full** — on every tame command line the full parser model does not abort and its four value lists
(`-I` and `-isystem` directories separately) are exactly the property-level extractor's, in command-line order. -/
theorem main_full (argv : Argv) (h : Tame argv) :
    ∃ r, fullModel argv = .ok r ∧ r.cfg = toCfg (lists argv) := by
  have hrun := run_eq_scan argv .idle none false {} .idle h
  have hamb := not_ambiguous argv false h
  have hun : (T.any fun o => o.kind == Kind.unsupported) = false := by decide
  have h0 : toCfg {} = ({} : Cfg) := rfl
  rw [h0] at hrun
  have hk : parseKnown table argv = .ok (toCfg (lists argv)) := by
    unfold parseKnown
    rw [table_eq, hamb, hun]
    simp only [Bool.false_eq_true, if_false, hrun]; rfl
  have hf := full_refines_lr table argv
  rw [hk] at hf
  unfold fullModel
  rw [settings_ok]
  simp only [Bool.not_true, Bool.false_eq_true, if_false]
  cases hp : parseFull table argv with
  | error e => rw [hp] at hf; cases hf
  | ok r =>
    rw [hp] at hf
    refine ⟨r, rfl, ?_⟩
    simpa [Except.map] using hf

/-- non-vacuity of `main_full`, and a look at everything the model returns on a realistic line: the first run of
positionals is `file`, later positionals and unknown options are `extras`, `-c` swallows `main.c`. -/
example :
    let argv : Argv := ["a.c".toList, "-O2".toList, "-Wall".toList, "-DA=1".toList, "-I".toList, "inc dir".toList,
      "-isystem".toList, "/sys".toList, "-MF".toList, "x.d".toList, "-include".toList, "pre.h".toList,
      "-c".toList, "main.c".toList, "-o".toList, "out.o".toList, "b.c".toList]
    Tame argv ∧ fullModel argv = .ok ⟨[.str "A=1".toList], [.str "inc dir".toList], [.str "/sys".toList],
      [.str "pre.h".toList], ["a.c".toList], ["-Wall".toList, "-MF".toList, "x.d".toList, "b.c".toList]⟩ := by
  decide

/-- the abort classes: `ArgumentError` (raised, `exit_on_error=False`) and `SystemExit` (`parser.error()`, taken
during the up-front pass, before any action and whatever precedes) -/
example : fullModel ["-DA".toList, "-I".toList, "-x".toList] = .error .argumentError ∧
    fullModel ["-D".toList, "-x".toList, "-i".toList] = .error .systemExit ∧
    fullModel ["-o".toList, "--".toList, "x".toList] = .error .argumentError ∧
    fullModel ["--".toList, "-i".toList, "-D".toList] =
      .ok ⟨[], [], [], [], ["-i".toList, "-D".toList], []⟩ ∧
    fullModel ["x.c".toList, "-DA".toList, "--".toList, "-DB".toList] =
      .ok ⟨[.str "A".toList], [], [], [], ["x.c".toList], ["--".toList, "-DB".toList]⟩ := by decide

/-! ### positionals -/

/-- **positionals_never_disturb** — inserting any number of positional arguments (empty, or not starting with `-`)
at any place of a command line that is not between an option and its required argument leaves the four value
lists unchanged — and does not turn a parse into an abort or vice versa.  No tameness assumed. -/
theorem positionals_never_disturb (xs ps ys : Argv) (hps : ∀ p ∈ ps, plainPositional p = true)
    (hw : waitsForValue xs = false) :
    (fullModel (xs ++ ps ++ ys)).map FResult.cfg = (fullModel (xs ++ ys)).map FResult.cfg := by
  unfold fullModel
  by_cases hs : settingsOK = true
  · simp only [hs, Bool.not_true, Bool.false_eq_true, if_false]
    rw [full_refines_lr, full_refines_lr]
    apply ArgvPositional.parseKnown_insert table xs ps ys hps
    intro d c
    constructor <;> intro e <;> simp [waitsForValue, e] at hw
  · have h' : settingsOK = false := by simpa using hs
    simp [h']

example :
    let xs : Argv := ["-DA".toList, "-O".toList]
    let ps : Argv := ["x.c".toList, "".toList, "dir/y z.c".toList]
    let ys : Argv := ["-I".toList, "inc".toList, "-Wall".toList]
    (∀ p ∈ ps, plainPositional p = true) ∧ waitsForValue xs = false ∧
    (fullModel (xs ++ ps ++ ys)).map FResult.cfg = .ok ⟨[.str "A".toList], [.str "inc".toList], [], []⟩ := by
  decide

/-- between an option and its required argument a positional *is* the argument (the hypothesis is needed) -/
example : waitsForValue ["-D".toList] = true ∧
    (fullModel (["-D".toList] ++ ["p".toList] ++ ["X".toList])).map FResult.cfg ≠
      (fullModel (["-D".toList] ++ ["X".toList])).map FResult.cfg := by decide

/-- the same for the configuration handed to the preprocessor -/
theorem positionals_never_disturb_configuration (xs ps ys : Argv) (hps : ∀ p ∈ ps, plainPositional p = true)
    (hw : waitsForValue xs = false) :
    argparseModel (xs ++ ps ++ ys) = argparseModel (xs ++ ys) := by
  have h := positionals_never_disturb xs ps ys hps hw
  rw [← full_configuration_eq, ← full_configuration_eq]
  unfold fullConfiguration
  cases h1 : fullModel (xs ++ ps ++ ys) <;> cases h2 : fullModel (xs ++ ys) <;>
    simp only [h1, h2, Except.map, Except.ok.injEq, Except.error.injEq, reduceCtorEq] at h ⊢
  · exact h
  · rw [h]

/-! ### extras -/

/-- **extras_are_exactly_unrecognised**, full statement: on a tame command line the extras list is exactly the
unrecognised arguments and `namespace.file` exactly the first run of operands, as the reference reading
`Unrecognised.leftover` (vocabulary of the property-level extractor) lists them, in order.
NOT proved; it is *tested* by the `leftover` oracle of `harness/props/c11.py` against the real parser on every tame
vector of the exhaustive and random streams. -/
def ExtrasAreExactlyUnrecognised : Prop :=
  ∀ argv : Argv, Tame argv → ∃ r, fullModel argv = .ok r ∧
    r.extras = (Unrecognised.leftover argv).extras ∧ r.file = (Unrecognised.leftover argv).file

/-- proved part: for **every** command line (tame or not) that passes the up-front pass, what `fullModel` returns —
in particular `extras` and `file` — is what the one-pass rule `ArgvSweep.sweep` produces from the parser's own
classification: a positional goes to `file` during the first run of non-options and to `extras` afterwards, an
unknown option string goes to `extras`, every option string ends the first run, an argument taken by an option goes
nowhere.  Missing for the full statement: the per-argument link "model's classification = `Unrecognised.shape`"
on tame lines (the analogue of `ArgvLemmas.agree_single`). -/
theorem extras_are_exactly_unrecognised_partial (argv : Argv) (toks : List Tok)
    (h : tokenize table argv = .ok toks) :
    fullModel argv = ArgvSweep.sweep .idle ⟨{}, .pending, []⟩ toks := by
  unfold fullModel
  rw [settings_ok]
  simp only [Bool.not_true, Bool.false_eq_true, if_false]
  exact full_eq_onepass table argv toks h (by rw [table_eq]; decide)

/-- an instance of the full statement (and non-vacuity of the partial one) -/
example :
    let argv : Argv := ["a.c".toList, "-O2".toList, "-Wall".toList, "-DA=1".toList, "-MF".toList, "x.d".toList,
      "-c".toList, "main.c".toList, "-o".toList, "out.o".toList, "b.c".toList, "-1".toList, "--weird x".toList]
    Tame argv ∧ (∃ toks, tokenize table argv = .ok toks) ∧
    (fullModel argv).map (fun r => (r.file, r.extras)) =
      .ok ((Unrecognised.leftover argv).file, (Unrecognised.leftover argv).extras) ∧
    (Unrecognised.leftover argv).extras =
      ["-Wall".toList, "-MF".toList, "x.d".toList, "b.c".toList, "-1".toList, "--weird x".toList] := by
  refine ⟨by decide, ⟨_, rfl⟩, by decide, by decide⟩

end CbiVerif.C11Full
