import Lean.Data.Json
import CbiVerif.Model.WarnMsgDir
/-! driver ops for the C18 message layer: `warnmsg` (exact text of events, the property's naming predicate applied to
an observed text, the D30 side condition, the aggregator on the exact records), `dirmsgs` (the unknown-directive
messages of a file's text, column included), `pyrepr` -/
open Lean
namespace CbiVerif.Drv.WarnMsg
open CbiVerif.Warn CbiVerif.WarnMsg

def getS (e : Json) (k : String) : String := (e.getObjValAs? String k).toOption.getD ""
def getN (e : Json) (k : String) : Nat := (e.getObjValAs? Nat k).toOption.getD 0
def arrOf (e : Json) (k : String) : List Json := ((e.getObjValAs? (Array Json) k).toOption.getD #[]).toList
def strs (e : Json) (k : String) : List String := ((e.getObjValAs? (Array String) k).toOption.getD #[]).toList

def kindOfStr : String → Kind
  | "user" => .userInclude | "system" => .systemInclude | "directive" => .unknownDirective
  | "missing" => .missingFile | "compiler" => .unknownCompiler | "args" => .unknownArgs | _ => .noFiles

def eventOf (j : Json) : Event :=
  { kind := kindOfStr (getS j "kind"), file := getS j "file", line := getN j "line", col := getN j "col",
    name := getS j "name", spelling := getS j "spelling" }

def natsJ (l : List Nat) : Json := Json.arr (l.map fun (n : Nat) => (n : Json)).toArray

/-- {"op":"warnmsg","events":[{kind,file,line,col,name,spelling,forced?,observed?}…]} -/
def handleMsg (j : Json) : Json :=
  let evs := arrOf j "events"
  let one (x : Json) : Json :=
    let forced := (x.getObjValAs? Bool "forced").toOption.getD false
    let e : Event := if forced then forcedEvent (getS x "file") (getS x "name") else eventOf x
    let msg := if forced then renderForced e else renderX e
    let base := [("message", Json.str (String.ofList msg)),
                 ("model_names", Json.bool (namesEvent msg e)),
                 ("fields_free", Json.arr #[Json.bool (fieldsFree Gen.includeKindUser e), Json.bool (fieldsFree Gen.includeKindSystem e)]),
                 ("fields_plain", Json.bool (fieldsPlain e))]
    match x.getObjValAs? String "observed" with
    | .ok o => Json.mkObj (base ++ [("spec_names", Json.bool (namesEvent o.toList e))])
    | _ => Json.mkObj base
  let es := evs.map fun x =>
    if (x.getObjValAs? Bool "forced").toOption.getD false then forcedEvent (getS x "file") (getS x "name") else eventOf x
  let rs := recordsOfX es
  Json.mkObj [("events", Json.arr (evs.map one).toArray),
              ("counts", natsJ (counts rs)),
              ("expected_counts", natsJ [es.length, (es.filter fun e => e.kind == .userInclude).length,
                                         (es.filter fun e => e.kind == .systemInclude).length]),
              ("closing", Json.arr ((closing rs).map Json.str).toArray)]

/-- {"op":"dirmsgs","file":…,"text":…} → the unknown-directive events of the text, rendered -/
def handleDir (j : Json) : Json :=
  let es := directiveEventsC (getS j "file") (getS j "text")
  Json.arr (es.map fun e => Json.mkObj [("line", (e.line : Nat)), ("col", (e.col : Nat)), ("name", Json.str e.name),
                                        ("spelling", Json.str e.spelling), ("message", Json.str (renderS e))]).toArray

/-- {"op":"dirspell","text":…} → every directive line of the text: [line, col, spelling as `DirectiveNode.spelling()[0]`, warns] -/
def handleSpell (j : Json) : Json :=
  Json.arr ((directivesOfTextC (getS j "text")).map fun dc =>
    Json.arr #[(dc.1.line : Nat), (dc.2 : Nat), Json.str dc.1.spelling, Json.bool dc.1.warns]).toArray

/-- {"op":"pyrepr","list":[…]} → Python's repr of the list of strings -/
def handleRepr (j : Json) : Json := Json.str (String.ofList (pyReprList (strs j "list")))

def argName : CbiVerif.WarnTmpl.Arg → String
  | .file => "file" | .line => "line" | .col => "col" | .name => "name" | .kind => "kind"
  | .spelling => "spelling" | .spellingList => "spellingList" | .other x => "other:" ++ x

def pieceJ : CbiVerif.WarnTmpl.Piece → Json
  | .lit s => Json.arr #[Json.str "lit", Json.str s]
  | .arg a w => Json.arr #[Json.str "arg", Json.str (argName a), (w : Nat)]

/-- {"op":"warntemplates"} → the regenerated templates (so that the harness recognises the messages by them, not by its own regexes) -/
def handleTemplates (_ : Json) : Json :=
  let t (k : Kind) : Json := Json.arr ((template k).map pieceJ).toArray
  Json.mkObj [("include", t .userInclude), ("directive", t .unknownDirective), ("missing", t .missingFile),
              ("compiler", t .unknownCompiler), ("args", t .unknownArgs), ("nofiles", t .noFiles),
              ("forced", Json.arr (Gen.tmplForced.map pieceJ).toArray),
              ("phrases", Json.mkObj [("user", Json.str Gen.includeKindUser), ("system", Json.str Gen.includeKindSystem)])]

def handlers : List (String × (Json → Json)) :=
  [("warnmsg", handleMsg), ("dirmsgs", handleDir), ("dirspell", handleSpell), ("pyrepr", handleRepr), ("warntemplates", handleTemplates)]

end CbiVerif.Drv.WarnMsg
