import CbiVerif.Lemmas.EnginesAgreeCore
/-! Helper lemmas for `Props/C04Engines.lean`, part 4: the walk of one tree (mutual induction on the tree) and of one
file (induction on the include depth). -/
namespace CbiVerif.Engines
open CbiVerif.PP CbiVerif.Exclude CbiVerif.Cond CbiVerif.MF

theorem evalCondL_ok (l : Local) (toks : List Tok) (b : Bool) (h : l.err = none) (hc : condValue l.plat.tbl toks = .ok b) :
    evalCondL l toks = (b, l) := by simp only [evalCondL, h, hc]

theorem evalCondL_err (l : Local) (toks : List Tok) (e : Err) (h : l.err = none) (hc : condValue l.plat.tbl toks = .error e) :
    evalCondL l toks = (false, l.fail e) := by simp only [evalCondL, h, hc]

theorem evalCondW_ok (w : Inc.World) (toks : List Tok) (b : Bool) (h : w.st.err = none) (hc : condValue w.plat.tbl toks = .ok b) :
    Inc.evalCondW w toks = (b, w) := by simp only [Inc.evalCondW, h, hc]

/-- the labels of every built tree are labels of the node list it was built from -/
def TreesOK : Prop :=
  ∀ (nodes : List PNode) (ts : List Tree), build (labels nodes) = some ts → ∀ x ∈ lblsTs ts, x ∈ labels nodes

mutual
theorem visit_step (fs : Inc.FS) (hl : fs.links = []) (hfam : FindInst.CFam fs.files = true) (name : String) (d : Nat)
    (ih : ∀ d', d' < d → FileAgree fs name d') :
    ∀ (t : Tree) (m : Nat) (file : String) (nodes : Array PNode) (E : String → Nat → String → Prop) (l : Local)
      (a : AState Inc.World), (∀ i, (Inc.parseAll fs).node file i = nodes[i]?) → (∀ x ∈ lblsT t, LblOK nodes x) →
      Rel E file name l a →
      Out3 E file name (visitRef (Exclude.sem fs.files) m file .c nodes l (toPTree t))
        (Cond.visit (MF.sem (Inc.ops fs (Inc.parseAll fs)) d file) a t)
  | .node lb kids, m, file, nodes, E, l, a, hnode, hok, hr => by
    cases m with
    | zero => left; simp [visitRef, Local.fail]
    | succ m =>
      obtain ⟨n, hn, hkind, hpay⟩ := hok lb (by simp [lblsT])
      have hkids : ∀ x ∈ lblsTs kids, LblOK nodes x := fun x hx => hok x (by simp [lblsT, hx])
      have hother : kindOf n.kind = .other → Out3 E file name
          (visitRef (Exclude.sem fs.files) (m + 1) file .c nodes l (toPTree (.node lb kids)))
          (Cond.visit (MF.sem (Inc.ops fs (Inc.parseAll fs)) d file) a (.node lb kids)) := by
        intro hko
        have hlk : lb.kind = .other := hkind.trans hko
        have hp : lb.pay = lb.id := by rw [hpay, hko]; rfl
        have := other_step fs hl hfam name d ih m file nodes E l a lb.id (toPTrees kids) n hnode hn hko hr
        simp only [toPTree, Cond.visit, hlk, hp]
        exact this
      have hgetE : nodes[lb.id]! = n := by simp [getElem!_def, hn]
      have hnodeI : (Inc.parseAll fs).node file lb.id = some n := by rw [hnode, hn]
      have hstep : (Exclude.sem fs.files).step = stepNode fs.files := rfl
      have hrr := hr
      obtain ⟨hcr, htk, hw⟩ := hr
      have hatt : ∀ f i p, Has (addAssoc l.assoc file lb.id l.plat.name) f i p ↔
          (Has a.σ.st.assoc f i p ∨ Pend E file name (a.out ++ [lb.id]) f i p) := by
        rw [hw.nm]; exact att_push hw.att lb.id
      have hplat := hw.plat
      have htbl : a.σ.plat.tbl = l.plat.tbl := by rw [hplat]; rfl
      have hev : (MF.sem (Inc.ops fs (Inc.parseAll fs)) d file).evalIf a.σ lb.id = Inc.evalCondW a.σ n.toks := by
        rw [evalIf_eq]; simp only [Inc.ops, Inc.opsWith, hnodeI]
      cases hkk : n.kind with
      | define => exact hother (by rw [hkk]; rfl)
      | undef => exact hother (by rw [hkk]; rfl)
      | «include» => exact hother (by rw [hkk]; rfl)
      | pragma => exact hother (by rw [hkk]; rfl)
      | unrecognized => exact hother (by rw [hkk]; rfl)
      | code =>
        have hlk : lb.kind = .code := by rw [hkind, hkk]; rfl
        simp only [toPTree, visitRef, hw.lerr, hgetE]
        simp only [hstep, stepNode, hkk, Cond.visit, hlk]
        exact .inr (.inr ⟨hcr, htk, ⟨hw.lerr, hw.werr, hplat, hw.nm, hatt⟩⟩)
      | endk =>
        have hlk : lb.kind = .endk := by rw [hkind, hkk]; rfl
        simp only [toPTree, visitRef, hw.lerr, hgetE]
        simp only [hstep, stepNode, hkk, Cond.visit, hlk, htk]
        cases htl : l.taken with
        | nil => exact .inr (.inl (.inl rfl))
        | cons t ts =>
          exact .inr (.inr ⟨hcr, by simp, ⟨hw.lerr, hw.werr, hplat, hw.nm, hatt⟩⟩)
      | ifk =>
        have hlk : lb.kind = .ifk := by rw [hkind, hkk]; rfl
        have hp : lb.pay = lb.id := by rw [hpay, hkk]; rfl
        simp only [toPTree, visitRef, hw.lerr, hgetE]
        simp only [hstep, stepNode, hkk, Cond.visit, hlk, hp, hev]
        cases hcv : condValue l.plat.tbl n.toks with
        | error e =>
          left
          rw [evalCondL_err { l with assoc := addAssoc l.assoc file lb.id l.plat.name } n.toks e hw.lerr hcv]
          simp [Local.fail]
        | ok b =>
          rw [evalCondL_ok { l with assoc := addAssoc l.assoc file lb.id l.plat.name } n.toks b hw.lerr hcv,
            evalCondW_ok a.σ n.toks b hw.werr (by rw [htbl]; exact hcv)]
          cases b with
          | false =>
            simp only [Bool.false_eq_true, if_false]
            exact .inr (.inr ⟨hcr, by simp [htk], ⟨hw.lerr, hw.werr, hplat, hw.nm, hatt⟩⟩)
          | true =>
            simp only [if_true]
            exact visitList_step fs hl hfam name d ih kids m file nodes E _ _ hnode hkids
              ⟨hcr, by simp [htk], ⟨hw.lerr, hw.werr, hplat, hw.nm, hatt⟩⟩
      | elifk =>
        have hlk : lb.kind = .elifk := by rw [hkind, hkk]; rfl
        have hp : lb.pay = lb.id := by rw [hpay, hkk]; rfl
        simp only [toPTree, visitRef, hw.lerr, hgetE]
        simp only [hstep, stepNode, hkk, Cond.visit, hlk, hp, hev, htk]
        cases htl : l.taken with
        | nil => left; simp [Local.fail]
        | cons t ts =>
          simp only []
          cases t with
          | true =>
            simp only [if_true]
            exact .inr (.inr ⟨hcr, by simp, ⟨hw.lerr, hw.werr, hplat, hw.nm, hatt⟩⟩)
          | false =>
            simp only [Bool.false_eq_true, if_false]
            cases hcv : condValue l.plat.tbl n.toks with
            | error e =>
              left
              rw [evalCondL_err { l with assoc := addAssoc l.assoc file lb.id l.plat.name, taken := false :: ts } n.toks e hw.lerr hcv]
              simp [Local.fail]
            | ok b =>
              rw [evalCondL_ok { l with assoc := addAssoc l.assoc file lb.id l.plat.name, taken := false :: ts } n.toks b hw.lerr hcv,
                evalCondW_ok a.σ n.toks b hw.werr (by rw [htbl]; exact hcv)]
              cases b with
              | false =>
                simp only [Bool.false_eq_true, if_false]
                exact .inr (.inr ⟨hcr, by simp, ⟨hw.lerr, hw.werr, hplat, hw.nm, hatt⟩⟩)
              | true =>
                simp only [if_true]
                exact visitList_step fs hl hfam name d ih kids m file nodes E _ _ hnode hkids
                  ⟨hcr, by simp, ⟨hw.lerr, hw.werr, hplat, hw.nm, hatt⟩⟩
      | elsek =>
        have hlk : lb.kind = .elsek := by rw [hkind, hkk]; rfl
        simp only [toPTree, visitRef, hw.lerr, hgetE]
        simp only [hstep, stepNode, hkk, Cond.visit, hlk, htk]
        cases htl : l.taken with
        | nil => left; simp [Local.fail]
        | cons t ts =>
          simp only []
          cases t with
          | true =>
            simp only [if_true]
            exact .inr (.inr ⟨hcr, by simp, ⟨hw.lerr, hw.werr, hplat, hw.nm, hatt⟩⟩)
          | false =>
            simp only [Bool.false_eq_true, if_false]
            exact visitList_step fs hl hfam name d ih kids m file nodes E _ _ hnode hkids
              ⟨hcr, by simp, ⟨hw.lerr, hw.werr, hplat, hw.nm, hatt⟩⟩
theorem visitList_step (fs : Inc.FS) (hl : fs.links = []) (hfam : FindInst.CFam fs.files = true) (name : String) (d : Nat)
    (ih : ∀ d', d' < d → FileAgree fs name d') :
    ∀ (ts : List Tree) (m : Nat) (file : String) (nodes : Array PNode) (E : String → Nat → String → Prop) (l : Local)
      (a : AState Inc.World), (∀ i, (Inc.parseAll fs).node file i = nodes[i]?) → (∀ x ∈ lblsTs ts, LblOK nodes x) →
      Rel E file name l a →
      Out3 E file name (visitListRef (Exclude.sem fs.files) m file .c nodes l (toPTrees ts))
        (Cond.visitList (MF.sem (Inc.ops fs (Inc.parseAll fs)) d file) a ts)
  | [], m, file, nodes, E, l, a, hnode, hok, hr => by
    cases m <;> simp only [toPTrees, visitListRef, Cond.visitList] <;> exact .inr (.inr hr)
  | t :: ts, 0, file, nodes, E, l, a, hnode, hok, hr => by
    left; simp [toPTrees, visitListRef, Local.fail]
  | t :: ts, m + 1, file, nodes, E, l, a, hnode, hok, hr => by
    simp only [toPTrees, visitListRef, Cond.visitList]
    have h1 := visit_step fs hl hfam name d ih t m file nodes E l a hnode (fun x hx => hok x (by simp [lblsTs, hx])) hr
    rcases h1 with h | h | h
    · exact .inl (visitListRef_err _ _ _ _ _ _ _ h)
    · exact .inr (.inl (visitList_bad _ (sem_errW fs (Inc.parseAll fs) d file) ts _ h))
    · exact visitList_step fs hl hfam name d ih ts m file nodes E _ _ hnode (fun x hx => hok x (by simp [lblsTs, hx])) h
end

/-- one whole file: `assocTreeRef` against `assocWith` (attribution recorded after the walk), from related worlds -/
theorem file_step (fs : Inc.FS) (hl : fs.links = []) (hfam : FindInst.CFam fs.files = true) (hT : TreesOK) (name : String)
    (d : Nat) (ih : ∀ d', d' < d → FileAgree fs name d') : FileAgree fs name d := by
  intro g m nodes ts dd E l w hpg hb hrel
  cases m with
  | zero => left; simp [assocTreeRef, Local.fail]
  | succ m =>
    have hnode : ∀ i, (Inc.parseAll fs).node g i = nodes.toArray[i]? := by
      intro i; simp only [Inc.ParsedFS.node, hpg]
    have hok : ∀ x ∈ lblsTs ts, LblOK nodes.toArray x := fun x hx => lblOK_of_mem nodes x (hT nodes ts hb x hx)
    have hlab : (Inc.ops fs (Inc.parseAll fs)).labels g = labels nodes := by
      simp only [Inc.ops, Inc.opsWith, hpg]
    have hr0 : Rel E g name { l with taken := [] } ({ σ := w } : AState Inc.World) :=
      ⟨rfl, rfl, ⟨hrel.lerr, hrel.werr, hrel.plat, hrel.nm, by
        intro f i p
        rw [hrel.att]
        simp [Pend]⟩⟩
    have h1 := visitList_step fs hl hfam name d ih ts m g nodes.toArray E _ _ hnode hok hr0
    have hrec : ∀ (w : Inc.World) (g : String) (out : List Nat), (Inc.ops fs (Inc.parseAll fs)).record w g out =
        { w with st := out.foldl (fun s i => s.addAssoc g i w.plat.name) w.st } := fun _ _ _ => rfl
    have hcrash : ∀ (w : Inc.World), ErrW ((Inc.ops fs (Inc.parseAll fs)).crash w) := by
      intro w; show ErrW (w.setErr .index); simp [ErrW, Inc.World.setErr]
    simp only [assocTreeRef, assocWith, model, hlab, hb, Option.map_some]
    rcases h1 with h | h | h
    · exact .inl h
    · right; left
      rcases h with h | h
      · simp only [h, if_true]
        exact (ops_errW fs (Inc.parseAll fs)).record _ _ _ (hcrash _)
      · split
        · exact (ops_errW fs (Inc.parseAll fs)).record _ _ _ (hcrash _)
        · exact (ops_errW fs (Inc.parseAll fs)).record _ _ _ h
    · right; right
      obtain ⟨hcr, htk, hw⟩ := h
      simp only [hcr, Bool.false_eq_true, if_false]
      refine ⟨⟨hw.lerr, ?_, ?_, hw.nm, ?_⟩, by first | rfl | trivial⟩
      · rw [hrec]
        show Inc.PState.err (List.foldl _ _ _) = none
        rw [(Inc.foldl_addAssoc_frame _ _ g _).2.2.2.2]
        exact hw.werr
      · rw [hrec]; exact hw.plat
      · intro f i p
        rw [hrec]
        show Has _ f i p ↔ (Has (Inc.PState.assoc (List.foldl _ _ _)) f i p ∨ _)
        rw [has_record, hw.att]
        have hnm : (Cond.visitList (MF.sem (Inc.ops fs (Inc.parseAll fs)) d g) { σ := w } ts).σ.plat.name = name := by
          rw [hw.plat]; exact hw.nm
        rw [hnm]
        simp only [Pend]
        constructor
        · rintro (h | h | h)
          · exact .inl (.inl h)
          · exact .inl (.inr h)
          · exact .inr h
        · rintro ((h | h) | h)
          · exact .inl h
          · exact .inr (.inl h)
          · exact .inr (.inr h)

theorem file_agree (fs : Inc.FS) (hl : fs.links = []) (hfam : FindInst.CFam fs.files = true) (hT : TreesOK) (name : String) :
    ∀ d, FileAgree fs name d := by
  intro d
  induction d using Nat.strongRecOn with
  | _ d ih => exact file_step fs hl hfam hT name d ih

end CbiVerif.Engines
