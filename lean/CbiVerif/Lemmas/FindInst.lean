import CbiVerif.Model.FindInst
import CbiVerif.Lemmas.FindFold
/-! Helper lemmas about the up-front parse phase of `FindInst.findI` (core Lean only). -/
namespace CbiVerif.FindInst
open CbiVerif.PP CbiVerif.FindFold

theorem prepare_ok_iff (fs : FSMap) (l : List String) :
    prepare fs l = .ok () ↔ ∀ f ∈ l, parseOne fs f = .ok () := by
  induction l with
  | nil => simp [prepare]
  | cons f l ih =>
    simp only [prepare, List.mem_cons, forall_eq_or_imp]
    cases h : parseOne fs f with
    | error e => simp
    | ok u => simp [ih]

theorem prepare_mono (fs : FSMap) (l l' : List String) (hsub : ∀ f ∈ l', f ∈ l)
    (h : prepare fs l = .ok ()) : prepare fs l' = .ok () := by
  rw [prepare_ok_iff] at h ⊢
  exact fun f hf => h f (hsub f hf)

theorem mem_filesOf (c : Config Entry) (f : String) :
    f ∈ filesOf c ↔ ∃ j ∈ jobs c, j.2.file = f := by
  simp [filesOf]

theorem prepare_single (fs : FSMap) (cb : List String) (c : Config Entry) (p : String) (e : Entry)
    (h : prepare fs (cb ++ filesOf c) = .ok ()) (he : e ∈ entriesOf c p) :
    prepare fs (cb ++ filesOf [(p, [e])]) = .ok () := by
  apply prepare_mono fs _ _ _ h
  intro f hf
  rw [List.mem_append] at hf ⊢
  cases hf with
  | inl h1 => exact Or.inl h1
  | inr h2 =>
    right
    rw [mem_filesOf] at h2 ⊢
    obtain ⟨j, hj, hjf⟩ := h2
    have : j = (p, e) := by simpa [jobs] using hj
    subst this
    exact ⟨(p, e), (mem_jobs_iff_entriesOf c p e).mpr he, hjf⟩

theorem prepare_perm (fs : FSMap) (cb : List String) {c c' : Config Entry} (hc : CfgPerm c c')
    (h : prepare fs (cb ++ filesOf c) = .ok ()) : prepare fs (cb ++ filesOf c') = .ok () := by
  apply prepare_mono fs _ _ _ h
  intro f hf
  rw [List.mem_append] at hf ⊢
  cases hf with
  | inl h1 => exact Or.inl h1
  | inr h2 =>
    right
    rw [mem_filesOf] at h2 ⊢
    obtain ⟨j, hj, hjf⟩ := h2
    exact ⟨j, (jobs_perm hc).mem_iff.mpr hj, hjf⟩

theorem prepare_select (fs : FSMap) (cb : List String) (c : Config Entry) (X : List String)
    (h : prepare fs (cb ++ filesOf c) = .ok ()) : prepare fs (cb ++ filesOf (select X c)) = .ok () := by
  apply prepare_mono fs _ _ _ h
  intro f hf
  rw [List.mem_append] at hf ⊢
  cases hf with
  | inl h1 => exact Or.inl h1
  | inr h2 =>
    right
    rw [mem_filesOf] at h2 ⊢
    obtain ⟨j, hj, hjf⟩ := h2
    refine ⟨j, ?_, hjf⟩
    unfold select at hj
    split at hj
    · exact hj
    · rw [jobs_filter (fun p => X.contains p)] at hj
      exact (List.mem_filter.mp hj).1

end CbiVerif.FindInst
