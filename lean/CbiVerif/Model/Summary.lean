import CbiVerif.Model.Setmap
/-!
C06 — model of `report.summary`: one row per platform set, sorted by
`(len(s), sorted(s))`, with the count and `count / total * 100` (exact `Rat`; the code
computes it in floats and prints two decimals), and the closing `Total SLOC` (the sum of the
row counts).  A non-empty setmap whose counts are all zero makes the real code raise
`ZeroDivisionError`: `rows` is `none` then.
Core Lean only.
-/
namespace CbiVerif.Summary
open CbiVerif.SM

structure Row where
  key : Key
  /-- `"{" + ", ".join(sorted(pset)) + "}"` -/
  name : String
  count : Nat
  percent : Rat
deriving Repr

/-- lexicographic `≤` on lists of strings (Python list comparison) -/
def listLe : List String → List String → Bool
  | [], _ => true
  | _ :: _, [] => false
  | a :: as, b :: bs => decide (a < b) || (a == b && listLe as bs)

def sortStrings (l : List String) : List String := l.mergeSort (fun a b => decide (a ≤ b))

/-- the sort key `(len(s), sorted(s))` -/
def keyLe (a b : Key × Nat) : Bool :=
  decide (a.1.length < b.1.length) ||
    (a.1.length == b.1.length && listLe (sortStrings a.1) (sortStrings b.1))

def rowName (k : Key) : String := "{" ++ ", ".intercalate (sortStrings k) ++ "}"

def mkRow (tot : Nat) (e : Key × Nat) : Row :=
  ⟨e.1, rowName e.1, e.2, (e.2 : Rat) / (tot : Rat) * 100⟩

/-- the table rows; `none` = `ZeroDivisionError` -/
def rows (sm : Setmap) : Option (List Row) :=
  if total sm = 0 ∧ sm ≠ [] then none
  else some ((sm.mergeSort keyLe).map (mkRow (total sm)))

/-- `total_count`, printed as `Total SLOC` -/
def totalCount (sm : Setmap) : Nat := ((sm.mergeSort keyLe).map (·.2)).sum

end CbiVerif.Summary
