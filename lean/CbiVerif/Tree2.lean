/-! Prototype: CBI tree builder + associator vs flat reference preprocessor. -/
namespace CbiVerif.T2

inductive Kind | code | ifk | elifk | elsek | endk | other
deriving DecidableEq, Repr

structure Lbl where
  id : Nat
  kind : Kind
  pay : Nat      -- abstract payload (expression / directive body)
deriving DecidableEq, Repr

def Lbl.isStart (l : Lbl) : Bool := l.kind == .ifk
def Lbl.isCont (l : Lbl) : Bool := l.kind == .elifk || l.kind == .elsek
def Lbl.isEnd (l : Lbl) : Bool := l.kind == .endk
def Lbl.opens (l : Lbl) : Bool := l.isStart || l.isCont

inductive Tree | node (l : Lbl) (kids : List Tree)
deriving Repr

/-! ## Builder (zipper model of SourceTree.insert) -/
structure Frame where
  lbl : Lbl
  kids : List Tree   -- completed children, in order

/-- spine: head = latest node, last = frame directly under root. Root's completed kids kept separately. -/
structure Zip where
  rootKids : List Tree
  spine : List Frame

def Frame.close (f : Frame) : Tree := .node f.lbl f.kids

/-- close the top frame into its parent -/
def Zip.up (z : Zip) : Zip :=
  match z.spine with
  | [] => z
  | f :: [] => { rootKids := z.rootKids ++ [f.close], spine := [] }
  | f :: g :: rest => { z with spine := { g with kids := g.kids ++ [f.close] } :: rest }

def Zip.push (z : Zip) (l : Lbl) : Zip := { z with spine := ⟨l, []⟩ :: z.spine }

/-- walk_to_tree_insertion_point: pop until top is start/cont (or root reached). -/
def Zip.walk : (fuel : Nat) → Zip → Zip
  | 0, z => z
  | n+1, z =>
    match z.spine with
    | [] => z
    | f :: _ => if f.lbl.opens then z else Zip.walk n z.up

def Zip.insert (z : Zip) (l : Lbl) : Zip :=
  match z.spine with
  | [] => z.push l                       -- latest == root
  | f :: _ =>
    if l.isCont || l.isEnd then
      let z' := z.walk z.spine.length
      z'.up.push l                       -- child of latest.parent
    else if f.lbl.opens then z.push l    -- child of latest
    else z.up.push l                     -- sibling of latest

def Zip.closeAll : (fuel : Nat) → Zip → List Tree
  | 0, z => z.rootKids
  | n+1, z => match z.spine with
    | [] => z.rootKids
    | _ => Zip.closeAll n z.up

def build (ls : List Lbl) : List Tree :=
  let z := ls.foldl Zip.insert ⟨[], []⟩
  z.closeAll z.spine.length

/-! ## Associator (visitor) -/
structure Sem (Env : Type) where
  evalIf : Env → Nat → Bool × Env   -- payload ↦ truth; evaluation may change the world (e.g. raise)
  exec : Env → Nat → Env               -- effect of a non-conditional directive

structure AState (Env : Type) where
  σ : Env
  taken : List Bool
  out : List Nat                    -- ids attributed, in visit order

variable {Env : Type}

mutual
def visit (M : Sem Env) (st : AState Env) : Tree → AState Env
  | .node l kids =>
    let st := { st with out := st.out ++ [l.id] }
    match l.kind with
    | .code => st
    | .other => { st with σ := M.exec st.σ l.pay }
    | .endk => { st with taken := st.taken.tail }
    | .ifk =>
      let r := M.evalIf st.σ l.pay
      let st := { st with σ := r.2, taken := r.1 :: st.taken }
      if r.1 then visitList M st kids else st
    | .elifk =>
      match st.taken with
      | [] => st  -- crash in Python; unreachable for well-nested input
      | t :: ts => if t then st else
          let r := M.evalIf st.σ l.pay
          let st := { st with σ := r.2, taken := r.1 :: ts }
          if r.1 then visitList M st kids else st
    | .elsek =>
      match st.taken with
      | [] => st
      | t :: ts => if t then st else
          let st := { st with taken := true :: ts }
          visitList M st kids
def visitList (M : Sem Env) (st : AState Env) : List Tree → AState Env
  | [] => st
  | t :: ts => visitList M (visit M st t) ts
end

/-! ## Flat reference preprocessor (C standard 6.10.1) -/
structure CFrame where
  parentActive : Bool
  taken : Bool
  active : Bool

structure RState (Env : Type) where
  σ : Env
  stack : List CFrame
  out : List Nat

def RState.active (r : RState Env) : Bool :=
  match r.stack with
  | [] => true
  | f :: _ => f.active

def refStep (M : Sem Env) (r : RState Env) (l : Lbl) : RState Env :=
  match l.kind with
  | .code => if r.active then { r with out := r.out ++ [l.id] } else r
  | .other => if r.active then { r with out := r.out ++ [l.id], σ := M.exec r.σ l.pay } else r
  | .ifk =>
    if r.active then
      let a := M.evalIf r.σ l.pay
      { r with σ := a.2, out := r.out ++ [l.id], stack := ⟨true, a.1, a.1⟩ :: r.stack }
    else { r with stack := ⟨false, true, false⟩ :: r.stack }
  | .elifk =>
    match r.stack with
    | [] => r
    | f :: fs =>
      if !f.parentActive then r
      else if f.taken then { r with out := r.out ++ [l.id], stack := { f with active := false } :: fs }
      else
        let a := M.evalIf r.σ l.pay
        { r with σ := a.2, out := r.out ++ [l.id], stack := ⟨true, a.1, a.1⟩ :: fs }
  | .elsek =>
    match r.stack with
    | [] => r
    | f :: fs =>
      if !f.parentActive then r
      else { r with out := r.out ++ [l.id], stack := ⟨true, true, !f.taken⟩ :: fs }
  | .endk =>
    match r.stack with
    | [] => r
    | f :: fs =>
      if f.parentActive then { r with out := r.out ++ [l.id], stack := fs } else { r with stack := fs }

def refRun (M : Sem Env) (r : RState Env) (ls : List Lbl) : RState Env := ls.foldl (refStep M) r

/-! ## Structured programs -/
mutual
inductive Item
  | code (id : Nat)
  | dir (id pay : Nat)
  | cond (id pay : Nat) (body : Block) (rest : Conts)
inductive Block
  | nil
  | cons (i : Item) (b : Block)
inductive Conts
  | endif (id : Nat)
  | elif (id pay : Nat) (body : Block) (rest : Conts)
  | els (id : Nat) (body : Block) (endId : Nat)
end

mutual
def Item.lines : Item → List Lbl
  | .code id => [⟨id, .code, 0⟩]
  | .dir id p => [⟨id, .other, p⟩]
  | .cond id p b r => ⟨id, .ifk, p⟩ :: (b.lines ++ r.lines)
def Block.lines : Block → List Lbl
  | .nil => []
  | .cons i b => i.lines ++ b.lines
def Conts.lines : Conts → List Lbl
  | .endif id => [⟨id, .endk, 0⟩]
  | .elif id p b r => ⟨id, .elifk, p⟩ :: (b.lines ++ r.lines)
  | .els id b e => ⟨id, .elsek, 0⟩ :: (b.lines ++ [⟨e, .endk, 0⟩])
end

-- expected CBI tree shape
mutual
def Item.trees : Item → List Tree
  | .code id => [.node ⟨id, .code, 0⟩ []]
  | .dir id p => [.node ⟨id, .other, p⟩ []]
  | .cond id p b r => .node ⟨id, .ifk, p⟩ b.trees :: r.trees
def Block.trees : Block → List Tree
  | .nil => []
  | .cons i b => i.trees ++ b.trees
def Conts.trees : Conts → List Tree
  | .endif id => [.node ⟨id, .endk, 0⟩ []]
  | .elif id p b r => .node ⟨id, .elifk, p⟩ b.trees :: r.trees
  | .els id b e => [.node ⟨id, .elsek, 0⟩ b.trees, .node ⟨e, .endk, 0⟩ []]
end

end CbiVerif.T2
