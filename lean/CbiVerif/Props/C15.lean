import CbiVerif.Props.C09

/-!
# C15 — each physical file is parsed and counted once, however it is reached

Property theorems only.  Same file-system model as C09 (`Model/FS.lean`): `namei` is the operating
system's resolution of a spelling, `realpath` is `os.path.realpath`, which keys the parse cache
(`ParserState.insert_file/get_tree/get_map`), the `#pragma once` list and the code-base membership test.
-/
namespace CbiVerif.C15
open CbiVerif.Path CbiVerif.FS CbiVerif.CB CbiVerif.C09

/-! ## canonical names -/

/-- all spellings of one physical object (any working directories, `..`, links to it or to a parent
directory) have the same `realpath`, namely its physical path -/
theorem realpath_canonical (fs : FS) (n : Nat) (cwd₁ cwd₂ : Comps) (p q : P) (c : Comps)
    (hp : namei fs n (start cwd₁ p) p.comps = .ok c) (hq : namei fs n (start cwd₂ q) q.comps = .ok c) :
    realpath fs n (start cwd₁ p) p.comps = .ok c ∧ realpath fs n (start cwd₂ q) q.comps = .ok c :=
  ⟨namei_realpath_ok fs n _ _ c hp, namei_realpath_ok fs n _ _ c hq⟩

/-- `realpath` is idempotent: its result is a fixed point (for every spelling, resolvable or not) -/
theorem realpath_idempotent (fs : FS) (n m : Nat) (cwd : Comps) (p : P) (r : Comps)
    (hcwd : linkFree fs cwd = true) (h : realpath fs n (start cwd p) p.comps = .ok r) (hm : r.length + 1 ≤ m) :
    realpath fs m [] r = .ok r :=
  realpath_of_linkFree fs r m (realpath_linkFree fs n _ _ r (start_linkFree fs cwd p hcwd) h) hm

/-- two different `realpath` results never name the same physical object -/
theorem realpath_injective (fs : FS) (n m : Nat) (cwd : Comps) (p q : P) (r₁ r₂ c : Comps)
    (hcwd : linkFree fs cwd = true)
    (h₁ : realpath fs n (start cwd p) p.comps = .ok r₁) (h₂ : realpath fs n (start cwd q) q.comps = .ok r₂)
    (hc₁ : namei fs m [] r₁ = .ok c) (hc₂ : namei fs m [] r₂ = .ok c) : r₁ = r₂ := by
  have l₁ := realpath_linkFree fs n _ _ r₁ (start_linkFree fs cwd p hcwd) h₁
  have l₂ := realpath_linkFree fs n _ _ r₂ (start_linkFree fs cwd q hcwd) h₂
  have e₁ := namei_linkFree_id fs r₁ [] c m l₁ hc₁
  have e₂ := namei_linkFree_id fs r₂ [] c m l₂ hc₂
  simp only [List.nil_append] at e₁ e₂
  rw [← e₁, ← e₂]

/-! ## the parse cache -/

/-- for any sequence of `insert_file` spellings the cache keys are pairwise different, no two of them name
the same physical file, and every resolvable spelling's file is present under its physical path -/
theorem one_tree_per_file (fs : FS) (n m : Nat) (cwd : Comps) (ps : List P)
    (hcwd : linkFree fs cwd = true) :
    (insertFiles fs n cwd [] ps).Nodup ∧
    (∀ k₁ ∈ insertFiles fs n cwd [] ps, ∀ k₂ ∈ insertFiles fs n cwd [] ps, ∀ c,
        namei fs m [] k₁ = .ok c → namei fs m [] k₂ = .ok c → k₁ = k₂) ∧
    (∀ p ∈ ps, ∀ c, namei fs n (start cwd p) p.comps = .ok c → c ∈ insertFiles fs n cwd [] ps) := by
  obtain ⟨h1, h2, _, h4⟩ := insertFiles_inv fs n cwd hcwd ps [] List.nodup_nil (fun k hk => by cases hk)
  refine ⟨h1, ?_, ?_⟩
  · intro k₁ hk₁ k₂ hk₂ c hc₁ hc₂
    have e₁ := namei_linkFree_id fs k₁ [] c m (h2 k₁ hk₁) hc₁
    have e₂ := namei_linkFree_id fs k₂ [] c m (h2 k₂ hk₂) hc₂
    simp only [List.nil_append] at e₁ e₂
    rw [← e₁, ← e₂]
  · intro p hp c hc
    exact h4 p hp c (namei_realpath_ok fs n _ _ c hc)

/-! ## counting -/

/-- in `get_setmap` every counted path is the physical path of a member (never a link), every physical
member is counted, and exactly once — for ANY list of code-base directories: a directory listed twice (under
its own name and through a symbolic link: the directories are resolved) or together with one of its parents
is walked once (repair of F-C15-ROOTS = F-C09-NEST; before it the third part needed "no directory lies inside
another") (hypothesis `hnf` ADDED for the second and third part, as in `C09.iter_complete`, see `C09.file_root_witness`) -/
theorem counted_once (cfg : Cfg) (fs : FS) (n : Nat) (roots l : List Comps)
    (hwf : wf fs = true) (hfuel : bigFuel fs n)
    (hnf : ∀ r ∈ roots, lstat fs r ≠ some .file)
    (h : counted cfg fs n roots = .ok l) :
    (∀ x ∈ l, lstat fs x = some .file ∧ memberSpec cfg fs roots x) ∧
    (∀ c, memberSpec cfg fs roots c → c ∈ l) ∧
    l.Nodup ∧ ∀ c, memberSpec cfg fs roots c → (l.filter fun x => decide (namei fs n [] x = .ok c)).length = 1 := by
  unfold counted at h
  cases hi : iter cfg fs n roots with
  | error e => simp [hi] at h
  | ok l₀ =>
    simp only [hi] at h
    injection h with h
    subst h
    -- every counted path is a regular file and a member
    have hfiles : ∀ x ∈ l₀.filter (fun x => !skipped cfg fs n roots x),
        lstat fs x = some .file ∧ memberSpec cfg fs roots x := by
      intro x hx
      obtain ⟨hx0, hns⟩ := List.mem_filter.mp hx
      rw [skipped_eq_isSymlink cfg fs n roots l₀ x hfuel hi hx0] at hns
      rcases iter_noncanonical cfg fs n roots l₀ x hwf hfuel hi hx0 with hf | ⟨t, c, hl, _⟩ | ⟨t, hl, _⟩
      · exact hf
      · simp [isSymlink, hl, isLinkE] at hns
      · simp [isSymlink, hl, isLinkE] at hns
    have hmem : ∀ c, memberSpec cfg fs roots c → c ∈ l₀.filter (fun x => !skipped cfg fs n roots x) := by
      intro c hc
      have hc0 := iter_complete cfg fs n roots l₀ c hwf hfuel hi hnf hc
      refine List.mem_filter.mpr ⟨hc0, ?_⟩
      rw [skipped_eq_isSymlink cfg fs n roots l₀ c hfuel hi hc0]
      simp [isSymlink, hc.1, isLinkE]
    have hnd : (l₀.filter (fun x => !skipped cfg fs n roots x)).Nodup :=
      List.Nodup.filter _ (iter_nodup cfg fs n roots l₀ hwf hi)
    refine ⟨hfiles, hmem, hnd, ?_⟩
    intro c hc
    have hcongr : (l₀.filter (fun x => !skipped cfg fs n roots x)).filter (fun x => decide (namei fs n [] x = .ok c))
        = (l₀.filter (fun x => !skipped cfg fs n roots x)).filter (fun x => x == c) := by
      apply List.filter_congr
      intro x hx
      have hf := (hfiles x hx).1
      have hkey : x ∈ keys fs := by
        apply lstat_mem_keys fs x _ _ hf
        intro hE; subst hE; rw [lstat_nil] at hf; cases hf
      have hnx : namei fs n [] x = .ok x :=
        namei_of_canon fs x n (wf_canon fs hwf x (Or.inr hf)) (hfuel x hkey)
      rw [hnx]
      by_cases hxc : x = c
      · subst hxc; simp
      · have : ¬ (Res.ok x = Res.ok c) := by intro hE; injection hE with hE; exact hxc hE
        simp [this, hxc]
    rw [hcongr, ← List.count_eq_length_filter]
    exact List.count_eq_one_of_mem hnd (hmem c hc)

/-- the former statement of `counted_once` (exactly once only when no code-base directory lies inside another), now a special case -/
theorem counted_once_disjoint (cfg : Cfg) (fs : FS) (n : Nat) (roots l : List Comps)
    (hwf : wf fs = true) (hfuel : bigFuel fs n)
    (hnf : ∀ r ∈ roots, lstat fs r ≠ some .file)
    (h : counted cfg fs n roots = .ok l) :
    (∀ x ∈ l, lstat fs x = some .file ∧ memberSpec cfg fs roots x) ∧
    (∀ c, memberSpec cfg fs roots c → c ∈ l) ∧
    (roots.Pairwise (fun a b => ¬ a <+: b ∧ ¬ b <+: a) →
        l.Nodup ∧ ∀ c, memberSpec cfg fs roots c → (l.filter fun x => decide (namei fs n [] x = .ok c)).length = 1) := by
  obtain ⟨h1, h2, h3, h4⟩ := counted_once cfg fs n roots l hwf hfuel hnf h
  exact ⟨h1, h2, fun _ => ⟨h3, h4⟩⟩

/-- `find_duplicates` and the propagation in `FileTree.insert` (skip every symlink) visit exactly the files
`get_setmap` counts (skip the symlinks whose target is a member): an enumerated link always has a member target -/
theorem notLinks_eq_counted (cfg : Cfg) (fs : FS) (n : Nat) (roots : List Comps)
    (hwf : wf fs = true) (hfuel : bigFuel fs n) :
    notLinks cfg fs n roots = counted cfg fs n roots := by
  have _ := hwf
  unfold notLinks counted
  cases hi : iter cfg fs n roots with
  | error e => rfl
  | ok l =>
    simp only
    congr 1
    apply List.filter_congr
    intro x hx
    rw [skipped_eq_isSymlink cfg fs n roots l x hfuel hi hx]

/-- a link whose target is not in the code base is not in the code base -/
theorem link_to_nonmember (cfg : Cfg) (fs : FS) (n : Nat) (roots : List Comps) (cwd : Comps) (p : P) (c : Comps)
    (hcwd : dirPath fs cwd = true) (h : namei fs n (start cwd p) p.comps = .ok c) (hn : c.length + 2 ≤ n)
    (hc : ¬ memberSpec cfg fs roots c) :
    contains cfg fs n roots cwd p = .ok false := by
  rw [contains_of_namei cfg fs n roots cwd p c hcwd h hn]
  cases hb : (isFileE (lstat fs c) && accepted cfg roots c) with
  | false => rfl
  | true => exact absurd ((accepted_iff cfg fs roots c).mp hb) hc

/-! ## non-vacuity -/

example : linkFree exFS ["t", "sub"] = true := by decide

/-- three spellings of `/t/a.c` and two of `/t/sub/b.h`: two cache entries -/
example : insertFiles exFS 20 ["t", "sub"] []
      [⟨false, ["..", "la.c"]⟩, ⟨true, ["t", "a.c"]⟩, ⟨false, ["..", "dl", "..", "a.c"]⟩, ⟨false, ["b.h"]⟩, ⟨true, ["t", "dl", "b.h"]⟩]
    = [["t", "a.c"], ["t", "sub", "b.h"]] := by decide

example : counted exCfg exFS 20 [["t"]] = .ok [["t", "a.c"], ["t", "sub", "b.h"]] := by rfl

/-- `counted_once` on overlapping directories (`C09.exFS`: `/t/dl -> sub`, so `CodeBase("t", "t/dl", "t/sub", "t")` resolves to
`/t`, `/t/sub`, `/t/sub`, `/t`): every physical member counted once; before the repair `b.h` was counted three times -/
example : mkRoots exFS 20 [] [⟨true, ["t"]⟩, ⟨true, ["t", "dl"]⟩, ⟨true, ["t", "sub"]⟩, ⟨true, ["t"]⟩]
    = .ok [["t"], ["t", "sub"], ["t", "sub"], ["t"]] := by decide
example : counted exCfg exFS 20 [["t"], ["t", "sub"], ["t", "sub"], ["t"]] = .ok [["t", "a.c"], ["t", "sub", "b.h"]] := by rfl
example : ∀ r ∈ ([["t"], ["t", "sub"], ["t", "sub"], ["t"]] : List Comps), lstat exFS r ≠ some .file := by decide

/-- why `counted_once` assumes `hnf`: a regular file listed as a code-base "directory" is a member
(`C09.file_root_witness`) that is never counted -/
example : counted exCfg [(["a.c"], Entry.file)] 20 [["a.c"]] = .ok [] := by rfl

end CbiVerif.C15
