import CbiVerif.Model.FSource
import CbiVerif.Lemmas.FCleanLift
/-!
Book-keeping lemmas about `fLoop` (`fortran_file_source`), `dLoop`
(`c_file_source(directives_only=True)`) and `group` (`FileParser.parse_file`):
which physical lines end up in `lines`.
-/
namespace CbiVerif.Fortran

/-! ## `one_space_line` well-formedness and `join` -/

/-- `trailing_space` implies a non-empty buffer -/
def OSL.WF (b : OSL) : Prop := b.trailing = true → b.parts ≠ []

theorem wf_empty : ({} : OSL).WF := by intro h; cases h

theorem wf_add (b : OSL) (e : Emit) (_h : b.WF) : (b.add e).WF := by
  cases e with
  | sp => simp only [OSL.add]; split <;> simp_all [OSL.WF]
  | ns c => simp [OSL.add, OSL.WF]

theorem wf_addAll (b : OSL) (es : List Emit) (h : b.WF) : (b.addAll es).WF := by
  induction es generalizing b with
  | nil => simpa [OSL.addAll] using h
  | cons e es ih => simp only [OSL.addAll, List.foldl_cons]; exact ih _ (wf_add b e h)

theorem wf_procChars (l : List Char) : ∀ (s : FSt) (b : OSL), b.WF → (procChars s b l).2.WF := by
  induction l with
  | nil => intro s b h; simpa [procChars] using h
  | cons c cs ih => intro s b h; simp only [procChars]; exact ih _ _ (wf_addAll b _ h)

theorem wf_procLine (s : FSt) (l : List Char) : (procLine s l).2.WF := wf_procChars l s {} wf_empty

theorem blank_iff (b : OSL) : b.blank = true ↔ b.parts = [] ∨ b.parts = [' '] := by
  unfold OSL.blank category
  rcases hp : b.parts with _ | ⟨x, _ | ⟨y, ys⟩⟩
  · simp
  · by_cases hx : x = ' ' <;> simp [hx]
    split <;> simp
  · simp only [List.cons.injEq, reduceCtorEq, and_false, or_false]
    split <;> simp

theorem wf_join (a b : OSL) (ha : a.WF) : (a.join b).WF := by
  unfold OSL.join
  rcases hp : b.parts with _ | ⟨p, ps⟩
  · simpa using ha
  · simp only
    split
    · rename_i hc
      intro _
      simp only [Bool.and_eq_true] at hc
      have := ha hc.2
      simp [this]
    · intro _; simp

/-- J1: a non-blank logical line stays non-blank when more is joined to it -/
theorem join_nonblank_left (a b : OSL) (ha : a.blank = false) : (a.join b).blank = false := by
  have h1 : ¬ (a.parts = [] ∨ a.parts = [' ']) := fun h => by
    rw [(blank_iff a).mpr h] at ha; cases ha
  apply Bool.eq_false_iff.mpr
  intro hj
  rw [blank_iff] at hj
  apply h1
  unfold OSL.join at hj
  rcases hp : b.parts with _ | ⟨p, ps⟩
  · simpa [hp] using hj
  · simp only [hp] at hj
    split at hj
    · simp only at hj
      rcases hj with hj | hj
      · simp at hj; left; exact hj.1
      · rcases ha' : a.parts with _ | ⟨x, xs⟩
        · left; rfl
        · rw [ha'] at hj
          cases xs with
          | nil => cases ps with
            | nil => right; simpa using hj
            | cons q qs => simp at hj
          | cons y ys => simp at hj
    · simp only at hj
      rcases hj with hj | hj
      · simp at hj
      · rcases ha' : a.parts with _ | ⟨x, xs⟩
        · left; rfl
        · rw [ha'] at hj
          cases xs with
          | nil => simp at hj
          | cons y ys => simp at hj

/-- J2: joining a non-blank physical line makes the logical line non-blank -/
theorem join_nonblank_right (a b : OSL) (ha : a.WF) (hb : b.blank = false) : (a.join b).blank = false := by
  have h1 : ¬ (b.parts = [] ∨ b.parts = [' ']) := fun h => by
    rw [(blank_iff b).mpr h] at hb; cases hb
  apply Bool.eq_false_iff.mpr
  intro hj
  rw [blank_iff] at hj
  apply h1
  unfold OSL.join at hj
  rcases hp : b.parts with _ | ⟨p, ps⟩
  · left; rfl
  · simp only [hp] at hj
    split at hj
    · rename_i hc
      simp only [Bool.and_eq_true, beq_iff_eq] at hc
      have hne := ha hc.2
      simp only at hj
      rcases hj with hj | hj
      · simp at hj; exact absurd hj.1 hne
      · rcases ha' : a.parts with _ | ⟨x, xs⟩
        · exact absurd ha' hne
        · rw [ha'] at hj
          cases ps with
          | nil => right; rw [hc.1]
          | cons q qs => cases xs <;> simp at hj
    · simp only at hj
      rcases hj with hj | hj
      · simp at hj
      · rcases ha' : a.parts with _ | ⟨x, xs⟩
        · rw [ha'] at hj; right; simpa using hj
        · rw [ha'] at hj
          cases xs <;> simp at hj

/-! ## per-line view of `fLoop` -/

theorem countedOf_append (a b : List LL) : countedOf (a ++ b) = countedOf a ++ countedOf b := by
  simp [countedOf]

theorem countedOf_emitLL (cur : OSL) (lines : List Nat) (h : lines ≠ [] → cur.blank = false) :
    countedOf (emitLL cur lines) = lines := by
  unfold emitLL
  split
  · rename_i hb
    have : cur.blank = true := by simp [OSL.blank, hb]
    by_cases hl : lines = []
    · simp [hl, countedOf]
    · rw [h hl] at this; cases this
  · simp [countedOf]

/-- **book-keeping of `fortran_file_source`**: when it does not raise, the counted lines are
exactly the lines of the directive lines and of the lines with a non-blank cleaner buffer,
and the cleaner ended at top level -/
theorem fLoop_counted (cls : List CL) : ∀ (s : FSt) (cur : OSL) (lines : List Nat) (lls : List LL),
    fLoop s cur lines cls = .ok lls → cur.WF → (lines ≠ [] → cur.blank = false) →
    countedOf lls = lines ++ select (flagsFrom s (cls.map (·.text))) cls ∧
    (finalState s (cls.map (·.text))).stack = [.top] := by
  induction cls with
  | nil =>
    intro s cur lines lls h _ hl
    simp only [fLoop] at h
    split at h
    · rename_i hs
      simp only [Except.ok.injEq] at h
      subst h
      simp only [List.map_nil, flagsFrom, select, List.append_nil, finalState]
      exact ⟨countedOf_emitLL cur lines hl, by simpa using hs⟩
    · cases h
  | cons cl rest ih =>
    intro s cur lines lls h hw hl
    simp only [fLoop] at h
    simp only [List.map_cons, flagsFrom, finalState]
    split at h
    · rename_i hd
      simp only [hd, if_true]
      cases hr : fLoop s {} [] rest with
      | error e => simp [hr, Except.map] at h
      | ok out =>
        simp only [hr, Except.map, Except.ok.injEq] at h
        subst h
        obtain ⟨i1, i2⟩ := ih s {} [] out hr wf_empty (by simp)
        refine ⟨?_, i2⟩
        rw [countedOf_append, countedOf_append, countedOf_emitLL cur lines hl, i1]
        simp [countedOf, select]
    · rename_i hd
      simp only [hd, Bool.false_eq_true, if_false]
      have hw2 : (cur.join (procLine s cl.text).2).WF := wf_join _ _ hw
      have hl2 : (if (procLine s cl.text).2.blank then lines else lines ++ cl.lines) ≠ [] →
          (cur.join (procLine s cl.text).2).blank = false := by
        intro hne
        cases hb : (procLine s cl.text).2.blank with
        | true =>
          simp only [hb, if_true] at hne
          exact join_nonblank_left _ _ (hl hne)
        | false => exact join_nonblank_right _ _ hw hb
      have hsel : ∀ tail : List Nat,
          (if (procLine s cl.text).2.blank then lines else lines ++ cl.lines) ++ tail =
          lines ++ ((if (!(procLine s cl.text).2.blank) = true then cl.lines else []) ++ tail) := by
        intro tail; cases (procLine s cl.text).2.blank <;> simp
      split at h
      · obtain ⟨i1, i2⟩ := ih _ _ _ lls h hw2 hl2
        refine ⟨?_, i2⟩
        rw [i1, select, hsel]
      · cases hr : fLoop (procLine s cl.text).1 {} [] rest with
        | error e => simp [hr, Except.map] at h
        | ok out =>
          simp only [hr, Except.map, Except.ok.injEq] at h
          subst h
          obtain ⟨i1, i2⟩ := ih _ {} [] out hr wf_empty (by simp)
          refine ⟨?_, i2⟩
          rw [countedOf_append, countedOf_emitLL _ _ hl2, i1, select]
          simp only [List.nil_append]
          rw [hsel]

/-- conversely `fortran_file_source` does not raise when the cleaner ends at top level -/
theorem fLoop_ok (cls : List CL) : ∀ (s : FSt) (cur : OSL) (lines : List Nat),
    (finalState s (cls.map (·.text))).stack = [.top] → ∃ lls, fLoop s cur lines cls = .ok lls := by
  induction cls with
  | nil =>
    intro s cur lines h
    simp only [List.map_nil, finalState] at h
    simp [fLoop, h]
  | cons cl rest ih =>
    intro s cur lines h
    simp only [List.map_cons, finalState] at h
    simp only [fLoop]
    split
    · rename_i hd
      simp only [hd, if_true] at h
      obtain ⟨out, ho⟩ := ih s {} [] h
      simp [ho, Except.map]
    · rename_i hd
      simp only [hd, Bool.false_eq_true, if_false] at h
      split
      · exact ih _ _ _ h
      · obtain ⟨out, ho⟩ := ih _ {} [] h
        simp [ho, Except.map]

theorem select_sublist : ∀ (bs : List Bool) (cls : List CL), (select bs cls).Sublist (cls.flatMap (·.lines))
  | [], _ => by simp [select]
  | _ :: _, [] => by simp [select]
  | b :: bs, cl :: cls => by
    simp only [select, List.flatMap_cons]
    apply List.Sublist.append _ (select_sublist bs cls)
    cases b <;> simp


/-! ## flags vs the reference -/

theorem stack_of_rlF_code (s : FSt) (h : RlF s .code) : s.stack = [.top] := by
  have := h.2
  unfold Tbl.Rl Tbl.proj at this
  simp only [Tbl.absSt, Prod.mk.injEq] at this
  exact this.1

theorem flags_eq_ref (ts : List (List Char)) : ∀ (s : FSt) (m : RF) (r : List (Bool × Bool)),
    RlF s m → (∀ t ∈ ts, isDirText t = isDirectiveLine t) → refLines m ts = some r →
    agree (flagsFrom s ts) r ∧ RlF (finalState s ts) .code := by
  induction ts with
  | nil =>
    intro s m r hR _ h
    simp only [refLines] at h
    split at h
    · rename_i hm
      simp only [Option.some.injEq] at h
      subst h
      simp only [beq_iff_eq] at hm
      subst hm
      exact ⟨trivial, hR⟩
    · cases h
  | cons t ts ih =>
    intro s m r hR hd h
    have hdt : isDirText t = isDirectiveLine t := hd t (by simp)
    have hd' : ∀ t' ∈ ts, isDirText t' = isDirectiveLine t' := fun t' ht' => hd t' (by simp [ht'])
    simp only [refLines] at h
    simp only [flagsFrom, finalState, hdt]
    split at h
    · rename_i hdir
      simp only [hdir, if_true]
      split at h
      · rename_i hm
        simp only [beq_iff_eq] at hm
        subst hm
        cases hr : refLines .code ts with
        | none => simp [hr] at h
        | some r' =>
          simp only [hr, Option.map_some, Option.some.injEq] at h
          subst h
          obtain ⟨i1, i2⟩ := ih s .code r' hR hd' hr
          exact ⟨⟨fun _ => rfl, i1⟩, i2⟩
      · cases h
    · rename_i hdir
      simp only [hdir, Bool.false_eq_true, if_false]
      cases hl : rline m t with
      | none => simp [hl] at h
      | some rl =>
        simp only [hl] at h
        cases hr : refLines rl.next ts with
        | none => simp [hr] at h
        | some r' =>
          simp only [hr, Option.map_some, Option.some.injEq] at h
          subst h
          obtain ⟨l1, l2⟩ := line_sim s m t rl hR hl
          obtain ⟨i1, i2⟩ := ih _ rl.next r' l1 hd' hr
          exact ⟨⟨l2, i1⟩, i2⟩

/-- with no F-C17-1 line the flags are exactly the reference verdicts -/
theorem agree_noK (bs : List Bool) : ∀ (r : List (Bool × Bool)), agree bs r → (∀ x ∈ r, x.2 = false) →
    bs = r.map (·.1) := by
  induction bs with
  | nil => intro r h _; cases r with
    | nil => rfl
    | cons x r => cases x; simp [agree] at h
  | cons b bs ih =>
    intro r h hk
    cases r with
    | nil => simp [agree] at h
    | cons x r =>
      obtain ⟨c, k⟩ := x
      simp only [agree] at h
      have hk0 : k = false := hk (c, k) (by simp)
      simp only [List.map_cons, List.cons.injEq]
      exact ⟨h.1 hk0, ih r h.2 (fun y hy => hk y (by simp [hy]))⟩

/-! ## the C pass: which physical lines it can attribute -/

theorem flat_emitCL_sublist (cur : OSL) (lines : List Nat) :
    ((emitCL cur lines).flatMap (·.lines)).Sublist lines := by
  unfold emitCL; split <;> simp

theorem dLoop_sublist (phys : List (List Char × Bool)) : ∀ (st : List DMode) (cur : OSL) (lines : List Nat)
    (n : Nat) (out : List CL), dLoop st cur lines n phys = .ok out →
    (out.flatMap (·.lines)).Sublist (lines ++ List.range' (n + 1) phys.length) := by
  induction phys with
  | nil =>
    intro st cur lines n out h
    simp only [dLoop] at h
    split at h
    · simp only [Except.ok.injEq] at h; subst h
      simpa using flat_emitCL_sublist cur lines
    · cases h
  | cons p rest ih =>
    intro st cur lines n out h
    obtain ⟨content, hasNl⟩ := p
    simp only [dLoop] at h
    split at h
    · cases h
    · split at h
      · cases h
      · rename_i st1 ob1 _
        split at h
        · cases h
        · rename_i st2 ob2 _
          have hl2 : (if ob2.blank then lines else lines ++ [n + 1]).Sublist (lines ++ [n + 1]) := by
            split <;> simp
          have hr : List.range' (n + 1) (rest.length + 1) = (n + 1) :: List.range' (n + 1 + 1) rest.length := by
            simp [List.range'_succ]
          simp only [List.length_cons, hr]
          split at h
          · cases ho : dLoop st2 {} [] (n + 1) rest with
            | error e => simp [ho, Except.map] at h
            | ok out' =>
              simp only [ho, Except.map, Except.ok.injEq] at h
              subst h
              have i1 := ih _ _ _ _ _ ho
              simp only [List.nil_append] at i1
              rw [List.flatMap_append]
              have := List.Sublist.append ((flat_emitCL_sublist (cur.join ob2) _).trans hl2) i1
              simpa using this
          · have i1 := ih _ _ _ _ _ h
            have := i1.trans (List.Sublist.append hl2 (List.Sublist.refl _))
            simpa using this

/-! ## FileParser grouping -/

theorem mkCode_numLines (ls : List LL) : (mkCode ls).numLines = (mkCode ls).lines.length := by
  simp only [mkCode, List.length_flatMap]

theorem groupAux_lines (lls : List LL) : ∀ acc : List LL,
    nodesLines (groupAux acc lls) = countedOf acc ++ countedOf lls := by
  induction lls with
  | nil =>
    intro acc
    simp only [groupAux]
    split
    · rename_i h; simp [nodesLines, countedOf, List.isEmpty_iff.mp h]
    · simp [nodesLines, countedOf, mkCode]
  | cons l rest ih =>
    intro acc
    simp only [groupAux]
    split
    · rw [nodesLines, List.flatMap_append, List.flatMap_cons]
      have := ih []
      simp only [nodesLines, countedOf, List.flatMap_nil, List.nil_append] at this
      rw [this]
      split
      · rename_i h; simp [countedOf, List.isEmpty_iff.mp h]
      · simp [countedOf, mkCode]
    · rw [ih]; simp [countedOf]

theorem groupAux_numLines (lls : List LL) : ∀ acc : List LL,
    ∀ n ∈ groupAux acc lls, n.numLines = n.lines.length := by
  induction lls with
  | nil =>
    intro acc n hn
    simp only [groupAux] at hn
    split at hn
    · cases hn
    · simp only [List.mem_singleton] at hn; subst hn; exact mkCode_numLines _
  | cons l rest ih =>
    intro acc n hn
    simp only [groupAux] at hn
    split at hn
    · simp only [List.mem_append, List.mem_cons] at hn
      rcases hn with hn | hn | hn
      · split at hn
        · cases hn
        · simp only [List.mem_singleton] at hn; subst hn; exact mkCode_numLines _
      · subst hn; rfl
      · exact ih [] n hn
    · exact ih _ n hn


/-! ## flags by position -/

theorem flagsFrom_length (ts : List (List Char)) : ∀ s, (flagsFrom s ts).length = ts.length := by
  induction ts with
  | nil => intro s; rfl
  | cons t ts ih => intro s; simp only [flagsFrom]; split <;> simp [ih]

theorem flagsFrom_get (ts : List (List Char)) : ∀ (s : FSt) (i : Nat) (h : i < ts.length),
    (flagsFrom s ts)[i]? =
      some (if isDirText ts[i] then true else !(procLine (stateAt s ts i) ts[i]).2.blank) := by
  induction ts with
  | nil => intro s i h; simp at h
  | cons t ts ih =>
    intro s i h
    cases i with
    | zero => simp only [flagsFrom, stateAt, List.getElem_cons_zero]; split <;> simp_all
    | succ i =>
      simp only [List.length_cons, Nat.add_lt_add_iff_right] at h
      simp only [flagsFrom, stateAt, List.getElem_cons_succ]
      split <;> simp [ih _ i h]

theorem select_mem (bs : List Bool) : ∀ (cls : List CL) (i : Nat) (h : i < cls.length) (x : Nat),
    bs[i]? = some true → x ∈ cls[i].lines → x ∈ select bs cls := by
  induction bs with
  | nil => intro cls i h x hb; simp at hb
  | cons b bs ih =>
    intro cls i h x hb hx
    cases cls with
    | nil => simp at h
    | cons cl cls =>
      cases i with
      | zero =>
        simp only [List.getElem?_cons_zero, Option.some.injEq] at hb
        subst hb
        simp only [List.getElem_cons_zero] at hx
        simp [select, hx]
      | succ i =>
        simp only [List.getElem?_cons_succ] at hb
        simp only [List.getElem_cons_succ] at hx
        simp only [select, List.mem_append]
        right
        exact ih cls i (by simpa using h) x hb hx

theorem select_subset (bs : List Bool) (cls : List CL) (x : Nat) (h : x ∈ select bs cls) :
    x ∈ cls.flatMap (·.lines) := (select_sublist bs cls).subset h

theorem select_not_mem (bs : List Bool) : ∀ (cls : List CL) (i : Nat) (h : i < cls.length) (x : Nat),
    (cls.flatMap (·.lines)).Nodup → bs[i]? = some false → x ∈ cls[i].lines → x ∉ select bs cls := by
  induction bs with
  | nil => intro cls i h x _ hb; simp at hb
  | cons b bs ih =>
    intro cls i h x hn hb hx
    cases cls with
    | nil => simp at h
    | cons cl cls =>
      simp only [List.flatMap_cons] at hn
      have hn' := List.nodup_append.mp hn
      cases i with
      | zero =>
        simp only [List.getElem?_cons_zero, Option.some.injEq] at hb
        subst hb
        simp only [List.getElem_cons_zero] at hx
        simp only [select, Bool.false_eq_true, if_false, List.nil_append]
        intro hs
        exact hn'.2.2 x hx x (select_subset bs cls x hs) rfl
      | succ i =>
        simp only [List.getElem?_cons_succ] at hb
        simp only [List.getElem_cons_succ] at hx
        simp only [select, List.mem_append, not_or]
        refine ⟨?_, ih cls i (by simpa using h) x hn'.2.1 hb hx⟩
        intro hc
        have hi : i < cls.length := by simpa using h
        have hxin : x ∈ cls.flatMap (·.lines) := by
          simp only [List.mem_flatMap]
          exact ⟨cls[i], List.getElem_mem hi, hx⟩
        split at hc
        · exact hn'.2.2 x hc x hxin rfl
        · simp at hc

/-- a comment line is not a directive line -/
theorem not_dir_of_comment (t : List Char) (h : isCommentLine t = true) : isDirText t = false := by
  have h1 : cls '#' = .other := by decide
  have h2 : cls ' ' = .ws := by decide
  unfold isDirText category
  rcases t with _ | ⟨a, _ | ⟨b, r⟩⟩
  · rfl
  · by_cases ha : a = '#'
    · subst ha; simp [isCommentLine, dropWs, h1] at h
    · by_cases hb : a = ' ' <;> simp [ha, hb]
  · by_cases ha : a = '#'
    · subst ha; simp [isCommentLine, dropWs, h1] at h
    · by_cases hs : a = ' '
      · subst hs
        by_cases hb : b = '#'
        · subst hb; simp [isCommentLine, dropWs, h1, h2] at h
        · simp [hb]
      · simp [ha, hs]

theorem not_dir_of_sentinel (t : List Char) (h : isSentinelLine t = true) : isDirText t = false := by
  have h1 : cls '#' = .other := by decide
  have h2 : cls ' ' = .ws := by decide
  unfold isDirText category
  rcases t with _ | ⟨a, _ | ⟨b, r⟩⟩
  · rfl
  · by_cases ha : a = '#'
    · subst ha; simp [isSentinelLine, dropWs, h1] at h
    · by_cases hb : a = ' ' <;> simp [ha, hb]
  · by_cases ha : a = '#'
    · subst ha; simp [isSentinelLine, dropWs, h1] at h
    · by_cases hs : a = ' '
      · subst hs
        by_cases hb : b = '#'
        · subst hb; simp [isSentinelLine, dropWs, h1, h2] at h
        · simp [hb]
      · simp [ha, hs]


end CbiVerif.Fortran
