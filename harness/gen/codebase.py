"""Shared generator of random multi-file code bases + adapters to the real analysis.

Used by the code-base level checks (C06, C08, C10, C14, C15, C16, C18).
All randomness comes from the `rng` argument.  Files are created under `root`
(a scratch directory); `gen_codebase` returns a description of what it wrote so a
check can re-create variants (permuted, canonicalised, with links removed, …).
"""
from __future__ import annotations

import collections
import json
import os
import re

NAMES = ["A", "B", "C"]
PLATFORM_NAMES = ["cpu", "gpu", "fpga", "arm"]


def cond(rng):
    n = rng.choice(NAMES)
    m = rng.choice(NAMES)
    return rng.choice([
        f"defined({n})", f"!defined({n})", f"{n}", f"{n} == 1", f"{n} && {m}",
        f"defined({n}) || defined({m})", "0", "1", f"{n} > 0 && !defined({m})",
    ])


def body(rng, depth, headers, here, budget, allow_include=True, dangling=None, unknown=None):
    """lines of a file body: code, comments, defines, includes, nested conditionals"""
    out = []
    for _ in range(rng.randint(1, 4)):
        if budget[0] <= 0:
            break
        budget[0] -= 1
        r = rng.random()
        if r < 0.4:
            out.append(f"int v{rng.randint(0, 9)};")
        elif r < 0.5:
            c = rng.choice([["// comment"], ["/* c */"], [""], ["int w; // t"], ["int k = 1 + \\", "  3;"], ["  2;"],
                            # logical lines that contain physical lines without code: a comment that starts on a code line and
                            # runs on, a comment closed in front of code, a continuation line that holds only the backslash
                            ["int c1; /* starts here", "   goes on", "   ends */"], ["/* closed in front of code", "*/ int c2;"],
                            ["int c3 = 1 + \\", "\\", "  2;"], ["int c4; /* a", "b */ int c5; /* c", "d */"]])
            out += c
        elif r < 0.6:
            n = rng.choice(NAMES)
            out.append(f"#define {n} {rng.randint(0, 2)}" if rng.random() < 0.6 else f"#undef {n}")
        elif r < 0.63 and unknown is not None:
            d = rng.choice(["#foo bar", "#warning careful", "#error never", "#line 7", "#ident \"x\"", "#assert a(b)"])
            out.append(d)
            unknown.append((here, d))
        elif r < 0.78 and allow_include and (headers or dangling is not None):
            if dangling is not None and (not headers or rng.random() < 0.25):
                nm = f"missing{rng.randint(0, 3)}.h"
                line = f'#include "{nm}"' if rng.random() < 0.5 else f"#include <{nm}>"
                if rng.random() < 0.3:
                    # computed form: the kind of the include (quote / angle) is known only after macro expansion
                    mac = f"MISSING_HDR{rng.randint(0, 3)}"
                    out += [f"#undef {mac}", f"#define {mac} {line.split(' ', 1)[1]}"]
                    line = f"#include {mac}"
                out.append(line)
                dangling.append((here, line))
            elif headers:
                h = rng.choice(headers)
                rel = os.path.relpath(h, os.path.dirname(here) or ".")
                out.append(f'#include "{rel}"')
        elif depth > 0:
            out.append(f"#if {cond(rng)}")
            out += body(rng, depth - 1, headers, here, budget, allow_include, dangling, unknown)
            if rng.random() < 0.4:
                out.append(f"#elif {cond(rng)}")
                out += body(rng, depth - 1, headers, here, budget, allow_include, dangling, unknown)
            if rng.random() < 0.5:
                out.append("#else")
                out += body(rng, depth - 1, headers, here, budget, allow_include, dangling, unknown)
            out.append("#endif")
        else:
            out.append(f"int z{rng.randint(0, 9)};")
    return out


def gen_codebase(rng, root, nplat=None, dangling=False, unknown=False, dup_pool=False, symlinks=False,
                 dirsyms=False, write=True):
    """Create a random code base under `root`.

    Returns dict(texts {relpath: [lines]}, headers, sources, dirs, platforms {name: [entry]},
    dangling [(file, line)], unknown [(file, directive)], links [(linkrel, targetrel)]).
    Database entries use `directory` = root and root-relative `file`; -I directories are root-relative."""
    dirs = ["src", "src/util", "include", "third", "lib/deep"]
    rng.shuffle(dirs)
    dirs = [""] + dirs[: rng.randint(1, 4)]
    headers, sources, texts = [], [], {}
    dl = [] if dangling else None
    ul = [] if unknown else None
    for i in range(rng.randint(1, 4)):
        headers.append(os.path.join(rng.choice(dirs), f"h{i}.{rng.choice(['h', 'hpp'])}"))
    for i, h in enumerate(headers):
        guard = f"G{i}_H"
        b = body(rng, 2, headers[i + 1:], h, [8], True, dl, ul)
        style = rng.random()
        if style < 0.5:
            b = [f"#ifndef {guard}", f"#define {guard}"] + b + ["#endif"]
        elif style < 0.75:
            b = ["#pragma once"] + b
        texts[h] = b
    pool = [["int same;", "int same2;"], ["int same;"], []]
    for i in range(rng.randint(1, 4)):
        p = os.path.join(rng.choice(dirs), f"s{i}.{rng.choice(['c', 'cpp', 'cc'])}")
        sources.append(p)
        if dup_pool and rng.random() < 0.4:
            texts[p] = list(rng.choice(pool))
        else:
            texts[p] = body(rng, 3, headers, p, [14], True, dl, ul)
    if rng.random() < 0.6:
        texts[os.path.join(rng.choice(dirs), "unused.c")] = ["int unused;", "// x", "int unused2;"]
    if rng.random() < 0.5:
        texts[os.path.join(rng.choice(dirs), "notes.txt")] = ["not source"]
    if dup_pool:
        for k in range(rng.randint(0, 3)):
            texts[os.path.join(rng.choice(dirs), f"dup{k}.h")] = list(rng.choice(pool))
    links = []
    if symlinks and sources:
        tgt = rng.choice(sources + headers)
        ln = os.path.join(os.path.dirname(tgt), "link_" + os.path.basename(tgt))
        links.append((ln, tgt))
    if dirsyms and len(dirs) > 1:
        d = rng.choice([d for d in dirs if d])
        links.append(("dl_" + d.replace("/", "_"), d))
    nplat = nplat if nplat is not None else rng.randint(0, 3)
    platforms = {}
    for k in range(nplat):
        entries = []
        for s in sources:
            if rng.random() < 0.75:
                defs = [f"-D{n}={rng.randint(0, 1)}" if rng.random() < 0.7 else f"-D{n}" for n in NAMES if rng.random() < 0.5]
                incs = []
                for d in dirs:
                    if d and rng.random() < 0.4:
                        incs += ["-I", d] if rng.random() < 0.7 else [f"-I{d}"]
                entries.append({"file": s, "directory": ".", "arguments": ["gcc"] + defs + incs + ["-c", s]})
        platforms[PLATFORM_NAMES[k]] = entries
    desc = dict(texts=texts, headers=headers, sources=sources, dirs=dirs, platforms=platforms,
                dangling=dl or [], unknown=ul or [], links=links)
    if write:
        write_codebase(root, desc)
    return desc


def write_codebase(root, desc, platform_order=None, file_order=None):
    """(Re)create the files of `desc` under root: sources, links, one database per platform, analysis.toml."""
    root = str(root)
    names = list(desc["texts"])
    if file_order is not None:
        names = file_order
    for p in names:
        full = os.path.join(root, p)
        os.makedirs(os.path.dirname(full), exist_ok=True)
        b = desc["texts"][p]
        with open(full, "w") as f:
            f.write("\n".join(b) + ("\n" if b else ""))
    for ln, tgt in desc["links"]:
        full = os.path.join(root, ln)
        os.makedirs(os.path.dirname(full), exist_ok=True)
        if not os.path.lexists(full):
            os.symlink(os.path.relpath(os.path.join(root, tgt), os.path.dirname(full)), full)
    plats = list(desc["platforms"])
    if platform_order is not None:
        plats = platform_order
    for name in plats:
        # "builddir": the entry's working directory is that sub-directory of the root (it need not exist)
        entries = [{k: v for k, v in dict(e, directory=os.path.join(root, e["builddir"]) if e.get("builddir") else root).items() if k != "builddir"}
                   for e in desc["platforms"][name]]
        with open(os.path.join(root, f"{name}.json"), "w") as f:
            json.dump(entries, f)
    with open(os.path.join(root, "analysis.toml"), "w") as f:
        for name in plats:
            f.write(f'[platform.{name}]\ncommands = "{name}.json"\n\n')


# --------------------------------------------------------------------------
# adapters to the real code (call core.import_codebasin() first)
# --------------------------------------------------------------------------
def analyse(root, platforms, excludes=(), dbfile=lambda root, p: os.path.join(root, f"{p}.json")):
    """finder.find on the generated analysis: returns (CodeBase, ParserState)."""
    from codebasin import CodeBase, config, finder

    cfg = {}
    for name in platforms:
        cfg[name] = config.load_database(dbfile(str(root), name), str(root))
    cb = CodeBase(str(root), exclude_patterns=list(excludes))
    st = finder.find(str(root), cb, cfg, summarize_only=False)
    return cb, st


def attribution(files, st, root):
    """{relpath: {physical line: frozenset(platforms)}} for the CodeNodes of `files`."""
    from codebasin.preprocessor import CodeNode

    out = {}
    for f in files:
        tree = st.get_tree(f)
        m = st.get_map(f)
        if tree is None:
            continue
        d = {}
        for n in tree.walk():
            if isinstance(n, CodeNode):
                for ln in n.lines:
                    d[ln] = frozenset(m[n])
        out[os.path.relpath(f, root)] = d
    return out


def parse_summary(out):
    """summary table of `codebasin`: ({frozenset(platforms): (count, percent_str)}, total, metrics dict)"""
    rows = collections.OrderedDict()
    for line in out.splitlines():
        m = re.match(r"^│\s*\{(.*?)\}\s*│\s*(\d+)\s*│\s*([\d.]+|nan)\s*│", line)
        if m:
            key = frozenset(x.strip() for x in m.group(1).split(",") if x.strip())
            rows[key] = (int(m.group(2)), m.group(3))
    tot = re.search(r"Total SLOC: (\d+)", out)
    metrics = {}
    for k, pat in (("divergence", r"Code Divergence: (\S+)"), ("coverage", r"Coverage \(%\): (\S+)"),
                   ("avg_coverage", r"Avg\. Coverage \(%\): (\S+)")):
        mm = re.search(pat, out)
        metrics[k] = mm.group(1) if mm else None
    return rows, (int(tot.group(1)) if tot else None), metrics


ANSI = re.compile(r"\x1b\[[0-9;]*m")


def parse_tree(out):
    """rows of `cbi-tree`: [(platform letters, sloc, coverage, avg coverage, depth, is_dir, name)];
    the root has depth 0, its children depth 1; a symlink row's name is 'link -> target'."""
    rows = []
    for line in ANSI.sub("", out).splitlines():
        m = re.match(r"^\[\s*([A-Za-z-]*)\s*\|\s*(\S+)\s*\|\s*(\S+)\s*\|\s*(\S+)\s*\]\s(.*)$", line)
        if not m:
            continue
        rest = m.group(5)
        mm = re.match(r"^((?:[| ] )*)(?:([|\\])-)?([o-]) (.*)$", rest)
        if not mm:
            continue
        depth = len(mm.group(1)) // 2 + (1 if mm.group(2) else 0)
        rows.append((m.group(1), m.group(2), m.group(3), m.group(4), depth, mm.group(3) == "o", mm.group(4)))
    return rows
