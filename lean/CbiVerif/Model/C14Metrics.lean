import CbiVerif.Model.C14Compose
/-!
C14 about SOURCE TEXT — the METRIC readings of the composed pipeline `C06C.setmapOfTexts` (`Model/C06Compose.lean`).

`SM.Setmap` (the dict `C06C.setmapOfTexts` returns), `Metrics.Setmap` (C07) and `Order.Setmap` (C14) are one and the same type
`List (List String × Nat)`: the bridge between them is the identity, nothing is converted.  The functions of `Model/Order.lean`
read a key only through `contains` / `any` / `canon`, i.e. as a set, so they apply to the keys in platform-table order as they are.

* `platformSet sm` — `set().union(*setmap.keys())` listed in dict order (what `report.summary` hands to `average_coverage`);
* `metricsOf ops sm` — the four metric lines (`Order.metricLines`) of a dict, for law-free float operations `ops`;
* `readTexts g files plats` — a reading `g` of the dict of the texts; `none` = the analysis raises;
* `metricsOfTexts`, `distanceMatrixOfTexts` — divergence / coverage / average coverage / Total SLOC and the distance matrix
  (rows and columns in sorted platform order) of a code base given as texts;
* `lineSetmap L` — the reference attribution `L` (one entry per counted line with its platform set) read as a setmap in which
  every line is its own row with count 1: C07's definitions (`Model/Metrics.lean`) applied to it are the metrics "by definition".

Core Lean only.
-/
namespace CbiVerif.C14C
open CbiVerif.C06C

/-- `set().union(*setmap.keys())` in dict order -/
def platformSet (sm : CbiVerif.Order.Setmap) : List String := sm.flatMap (·.1)

/-- the metric lines `report.summary` prints under the table, for the dict `sm` -/
def metricsOf {F : Type} (ops : CbiVerif.Order.FloatOps F) (sm : CbiVerif.Order.Setmap) : CbiVerif.Order.MetricLines F :=
  CbiVerif.Order.metricLines ops sm (platformSet sm)

/-- a reading of `state.get_setmap(codebase)` of the texts; `none` = the analysis raises -/
def readTexts {β : Type} (g : CbiVerif.SM.Setmap → β) (files : List SrcFile) (plats : List Plat) : Option β :=
  match setmapOfTexts files plats with
  | .ok sm => some (g sm)
  | .error _ => none

/-- divergence, coverage, average coverage, Total SLOC of the code base given as texts -/
def metricsOfTexts {F : Type} (ops : CbiVerif.Order.FloatOps F) (files : List SrcFile) (plats : List Plat) :
    Option (CbiVerif.Order.MetricLines F) := readTexts (metricsOf ops) files plats

/-- the distance matrix of the clustering report of the code base given as texts -/
def distanceMatrixOfTexts {F : Type} (ops : CbiVerif.Order.FloatOps F) (files : List SrcFile) (plats : List Plat) :
    Option (List String × List (List F)) := readTexts (CbiVerif.Order.distanceMatrix ops) files plats

/-- a per-line attribution read as a setmap: every counted line is a row of its own with count 1 -/
def lineSetmap (L : List (Nat × CbiVerif.SM.Key)) : CbiVerif.Metrics.Setmap := L.map fun y => (y.2, 1)

/-- the reference attribution of the whole code base: `specLineAttr` of every file, files in the given order -/
def refLines (plats : List Plat) (files : List SrcFile) (ps : List Parsed) : List (Nat × CbiVerif.SM.Key) :=
  (files.zip ps).flatMap fun x => specLineAttr plats x.1 x.2.pnodes

end CbiVerif.C14C
