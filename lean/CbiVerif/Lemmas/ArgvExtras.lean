import CbiVerif.Lemmas.Argv
import CbiVerif.Lemmas.ArgvSweep
import CbiVerif.Lemmas.ArgvPositional
import CbiVerif.Spec.Unrecognised
/-! C11 helper: the per-argument link between the full parser model's classification of an argument
(`Argparse.classify`, the class `ArgparseFull.tokenize` puts into the token) and the reference reading
`Unrecognised.shape` on command lines without recorded shapes (`link_single`, the analogue of
`ArgvLemmas.agree_single`), and the invariant that keeps `ArgvSweep.sweep` and `Unrecognised.scanU` in step
(`sweep_scanU`). -/
set_option linter.unusedSimpArgs false
set_option linter.unusedVariables false
namespace CbiVerif.ArgvExtras
open CbiVerif.Argparse CbiVerif.ArgparseFull CbiVerif.Extract CbiVerif.ArgvLemmas CbiVerif.ArgvSweep
open CbiVerif.Unrecognised

abbrev dd : List Char := ['-', '-']

/-! ### classification once nothing matches: `fallback` itself (not just "positional or unknown") -/

theorem classify_fallback (c : Char) (rest : List Char)
    (h2 : lookup T ('-' :: c :: rest) = none)
    (h1 : ∀ l r, splitEq ('-' :: c :: rest) = some (l, r) → lookup T l = none)
    (h3 : c = '-' ∨ tuples T ('-' :: c :: rest) = []) :
    classify T ('-' :: c :: rest) = fallback T ('-' :: c :: rest) := by
  have hv : viaEq T ('-' :: c :: rest) = none := by
    unfold viaEq
    cases hs : splitEq ('-' :: c :: rest) with
    | none => rfl
    | some p => obtain ⟨l, r⟩ := p; simp [h1 l r hs]
  have ht : (if c = '-' then [] else tuples T ('-' :: c :: rest)) = [] := by
    rcases h3 with h | h
    · simp [h]
    · simp [h]
  unfold classify
  simp only [ne_eq, not_true_eq_false, if_false, h2, ht, hv, pick]

/-- an argument related to no option string at all is classified by the fallback rule -/
theorem unrelated_fallback (a : List Char) (c : Char) (rest : List Char) (ha : a = '-' :: c :: rest)
    (hD : c ≠ 'D') (hU : c ≠ 'U') (hI : c ≠ 'I') (hO : c ≠ 'O') (ho : c ≠ 'o') (hg : c ≠ 'g') (hc : c ≠ 'c')
    (hs1 : sysT.isPrefixOf a = false) (hs2 : a.isPrefixOf sysT = false)
    (hi1 : incT.isPrefixOf a = false) (hi2 : a.isPrefixOf incT = false) :
    classify T a = fallback T a := by
  have hasys : a ≠ sysT := by intro h; rw [h] at hs1; simp [sysT, List.isPrefixOf] at hs1
  have hainc : a ≠ incT := by intro h; rw [h] at hi1; simp [incT, List.isPrefixOf] at hi1
  have h2 : lookup T a = none := by
    rw [lookup_T]
    have e1 : ¬ (['-','D'] = a) := by rw [ha]; simp [Ne.symm hD]
    have e0 : ¬ (['-','U'] = a) := by rw [ha]; simp [Ne.symm hU]
    have e2 : ¬ (['-','I'] = a) := by rw [ha]; simp [Ne.symm hI]
    have e3 : ¬ (['-','O'] = a) := by rw [ha]; simp [Ne.symm hO]
    have e4 : ¬ (['-','o'] = a) := by rw [ha]; simp [Ne.symm ho]
    have e5 : ¬ (['-','g'] = a) := by rw [ha]; simp [Ne.symm hg]
    have e6 : ¬ (['-','c'] = a) := by rw [ha]; simp [Ne.symm hc]
    have e7 : ¬ (['-','i','s','y','s','t','e','m'] = a) := fun h => hasys h.symm
    have e8 : ¬ (['-','i','n','c','l','u','d','e'] = a) := fun h => hainc h.symm
    simp [e0, e1, e2, e3, e4, e5, e6, e7, e8]
  have h1 : ∀ l r, splitEq a = some (l, r) → lookup T l = none := by
    intro l r hs
    have hsp := splitEq_spec a l r hs
    rw [lookup_T]
    have e7 : ¬ (['-','i','s','y','s','t','e','m'] = l) := by
      intro h; rw [hsp, ← h] at hs1
      have := isPrefixOf_append sysT ('=' :: r)
      simp only [sysT] at this hs1
      rw [this] at hs1; exact Bool.noConfusion hs1
    have e8 : ¬ (['-','i','n','c','l','u','d','e'] = l) := by
      intro h; rw [hsp, ← h] at hi1
      have := isPrefixOf_append incT ('=' :: r)
      simp only [incT] at this hi1
      rw [this] at hi1; exact Bool.noConfusion hi1
    have short : ∀ x : Char, c ≠ x → ¬ (['-', x] = l) := by
      intro x hx h
      rw [ha, ← h] at hsp
      simp at hsp
      exact hx hsp.1
    simp [short 'D' hD, short 'U' hU, short 'I' hI, short 'O' hO, short 'o' ho, short 'g' hg, short 'c' hc, e7, e8]
  have h3 : c = '-' ∨ tuples T a = [] := by
    by_cases hcd : c = '-'
    · exact Or.inl hcd
    · right
      have htake : a.take 2 = ['-', c] := by rw [ha]; rfl
      have p1 : ∀ x : Char, c ≠ x → a.isPrefixOf ['-', x] = false := by
        intro x hx; rw [ha]
        cases rest <;> simp [List.isPrefixOf, hx]
      simp [tuples, T, oD, oU, oI, oSys, oInc, oO, oo, og, oc, htake, Ne.symm hD, Ne.symm hU, Ne.symm hI, Ne.symm hO, Ne.symm ho,
        Ne.symm hg, Ne.symm hc, p1 'D' hD, p1 'U' hU, p1 'I' hI, p1 'O' hO, p1 'o' ho, p1 'g' hg, p1 'c' hc]
      have hs2' : ¬ a <+: ['-','i','s','y','s','t','e','m'] := by
        rw [← List.isPrefixOf_iff_prefix]; simp only [sysT] at hs2; simp [hs2]
      have hi2' : ¬ a <+: ['-','i','n','c','l','u','d','e'] := by
        rw [← List.isPrefixOf_iff_prefix]; simp only [incT] at hi2; simp [hi2]
      simp [hs2', hi2']
  have hcl := classify_fallback c rest (ha ▸ h2) (ha ▸ h1) (ha ▸ h3)
  rw [← ha] at hcl
  exact hcl

/-! ### the per-argument link -/

/-- the parser's class of an argument in flag position, the reference reading's shape of it, and whether the
class scan treats it as a flag waiting for its value, say the same -/
inductive Link : Cls → Shape → Bool → Prop
  | pos : Link .positional .operand false
  | unk : Link .unknown .unknownOpt false
  | bare (o : Opt) (h : o.kind = .ignoreOpt) : Link (.opt o none) .ignBare false
  | ignAtt (o : Opt) (e : List Char) (h : o.kind = .ignoreOpt ∨ o.kind = .ignoreReq) : Link (.opt o (some e)) .ignAtt false
  | att (o : Opt) (e : List Char) (d : Act) (h : o.kind = .value d) : Link (.opt o (some e)) .flagAtt false
  | sep (o : Opt) (d : Act) (h : o.kind = .value d) : Link (.opt o none) .flagSep true
  | req (o : Opt) (h : o.kind = .ignoreReq) : Link (.opt o none) .ignReq true

theorem hasNeg_T : hasNegOptionals T = false := by decide

theorem fallback_leftover (c : Char) (rest : List Char) :
    Link (fallback T ('-' :: c :: rest)) (leftoverShape ('-' :: c :: rest)) false := by
  have hp : plainValue ('-' :: c :: rest) = false := by simp [plainValue]
  unfold fallback leftoverShape operandLike
  rw [hasNeg_T, hp]
  generalize isNegNumber ('-' :: c :: rest) = n
  generalize ('-' :: c :: rest).contains ' ' = m
  cases n <;> cases m <;> simp <;> constructor

/-- an argument the property reads as `other`, in flag position, no recorded shape -/
theorem link_other (a : List Char) (h1 : takesValue a = false) (h2 : tagsOf1 a = []) (hr : reading a = .other) :
    Link (classify T a) (shape a) false := by
  obtain ⟨nD, nI, nS, nN, nU, no⟩ := takesValue_false a h1
  obtain ⟨⟨t1, t2, t3, t2u⟩, ⟨t4, t5, t4u⟩, ⟨t6, t7⟩, t8⟩ := tagsOf1_nil a h2
  cases a with
  | nil => exact (by decide : classify T [] = .positional ∧ shape [] = .operand).1 ▸
      (by decide : classify T [] = .positional ∧ shape [] = .operand).2 ▸ Link.pos
  | cons c0 tl =>
    by_cases hc0 : c0 = '-'
    · subst hc0
      cases tl with
      | nil => exact (by decide : classify T ['-'] = .positional ∧ shape ['-'] = .operand).1 ▸
          (by decide : classify T ['-'] = .positional ∧ shape ['-'] = .operand).2 ▸ Link.pos
      | cons c rest =>
        have hlen : 2 ≤ ('-' :: c :: rest).length := by simp
        obtain ⟨t8a, t8b⟩ := t8 hlen
        obtain ⟨ps1, ps2⟩ := prefix_facts sysT _ nS t6 t8a
        obtain ⟨pi1, pi2⟩ := prefix_facts incT _ nN t7 t8b
        by_cases hD : c = 'D'
        · subst hD
          cases rest with
          | nil => exact absurd rfl nD
          | cons r rs => simp [reading, readingFrom, allFlags, Flag.text, stripPrefix] at hr
        · by_cases hU : c = 'U'
          · subst hU
            cases rest with
            | nil => exact absurd rfl nU
            | cons r rs =>
              have r3 := stripPrefix_none sysT _ ps1
              have r4 := stripPrefix_none incT _ pi1
              simp only [sysT, incT] at r3 r4
              simp [reading, readingFrom, allFlags, Flag.text, stripPrefix, r3, r4] at hr
          · by_cases hI : c = 'I'
            · subst hI
              cases rest with
              | nil => exact absurd rfl nI
              | cons r rs => simp [reading, readingFrom, allFlags, Flag.text, stripPrefix] at hr
            · by_cases hign : c = 'O' ∨ c = 'o' ∨ c = 'g' ∨ c = 'c'
              · cases rest with
                | nil =>
                  rcases hign with rfl | rfl | rfl | rfl
                  · have : classify T ['-','O'] = .opt oO none ∧ shape ['-','O'] = .ignBare := by decide
                    rw [this.1, this.2]; exact Link.bare oO rfl
                  · exact absurd rfl no
                  · have : classify T ['-','g'] = .opt og none ∧ shape ['-','g'] = .ignBare := by decide
                    rw [this.1, this.2]; exact Link.bare og rfl
                  · have : classify T ['-','c'] = .opt oc none ∧ shape ['-','c'] = .ignBare := by decide
                    rw [this.1, this.2]; exact Link.bare oc rfl
                | cons r rs =>
                  have hsh : shape ('-' :: c :: r :: rs) = .ignAtt := by
                    unfold shape
                    rw [hr]
                    rcases hign with rfl | rfl | rfl | rfl <;> simp
                  have : ∃ o e, classify T ('-' :: c :: r :: rs) = .opt o (some e) ∧ (o.kind = .ignoreOpt ∨ o.kind = .ignoreReq) := by
                    rcases hign with rfl | rfl | rfl | rfl
                    · obtain ⟨e, he⟩ := classify_ign 'O' r rs oO (Or.inl ⟨rfl, rfl⟩); exact ⟨oO, e, he, Or.inl rfl⟩
                    · obtain ⟨e, he⟩ := classify_ign 'o' r rs oo (Or.inr (Or.inl ⟨rfl, rfl⟩)); exact ⟨oo, e, he, Or.inr rfl⟩
                    · obtain ⟨e, he⟩ := classify_ign 'g' r rs og (Or.inr (Or.inr (Or.inl ⟨rfl, rfl⟩))); exact ⟨og, e, he, Or.inl rfl⟩
                    · obtain ⟨e, he⟩ := classify_ign 'c' r rs oc (Or.inr (Or.inr (Or.inr ⟨rfl, rfl⟩))); exact ⟨oc, e, he, Or.inl rfl⟩
                  obtain ⟨o, e, he, hk⟩ := this
                  rw [he, hsh]
                  exact Link.ignAtt o e hk
              · have hO : c ≠ 'O' := fun h => hign (Or.inl h)
                have ho : c ≠ 'o' := fun h => hign (Or.inr (Or.inl h))
                have hg : c ≠ 'g' := fun h => hign (Or.inr (Or.inr (Or.inl h)))
                have hcc : c ≠ 'c' := fun h => hign (Or.inr (Or.inr (Or.inr h)))
                have hcl := unrelated_fallback _ c rest rfl hD hU hI hO ho hg hcc ps1 ps2 pi1 pi2
                have hsh : shape ('-' :: c :: rest) = leftoverShape ('-' :: c :: rest) := by
                  unfold shape
                  rw [hr]
                  cases rest with
                  | nil => simp [hO, ho, hg, hcc]
                  | cons r rs => simp [hO, ho, hg, hcc]
                rw [hcl, hsh]
                exact fallback_leftover c rest
    · have hv : classify T (c0 :: tl) = .positional := by
        unfold classify; simp [hc0]
      have hp : plainValue (c0 :: tl) = true := by
        cases tl <;> simp [plainValue, hc0]
      have hsh : shape (c0 :: tl) = .operand := by
        unfold shape
        rw [hr]
        have hl : leftoverShape (c0 :: tl) = .operand := by simp [leftoverShape, operandLike, hp]
        cases tl with
        | nil => simp [hl]
        | cons x xs =>
          cases xs with
          | nil => simp [hc0, hl]
          | cons y ys => simp [hc0, hl]
      rw [hv, hsh]; exact Link.pos

/-- **per-argument link** (the analogue of `agree_single` for the leftover reading): an argument in flag
position that is not a separate-form flag and has none of the recorded shapes -/
theorem link_single (a : List Char) (h1 : takesValue a = false) (h2 : tagsOf1 a = []) :
    Link (classify T a) (shape a) false := by
  have hag := agree_single a h1 h2
  have hne : a ≠ ['-', '-'] := (tagsOf1_nil a h2).1.1
  rw [viewOf_ne a hne] at hag
  cases hr : reading a with
  | other => exact link_other a h1 h2 hr
  | sep f =>
    rw [hr] at hag
    generalize viewOfCls (classify T a) = v at hag
    cases v <;> simp [agree] at hag
  | att f w =>
    rw [hr] at hag
    have hsh : shape a = .flagAtt := by simp [shape, hr]
    rw [hsh]
    cases hc : classify T a with
    | positional => rw [hc] at hag; simp [viewOfCls, agree] at hag
    | unknown => rw [hc] at hag; simp [viewOfCls, agree] at hag
    | ambiguous => rw [hc] at hag; simp [viewOfCls, agree] at hag
    | opt o x =>
      rw [hc] at hag
      cases x with
      | none => cases hk : o.kind <;> simp [viewOfCls, hk, agree] at hag
      | some e =>
        cases hk : o.kind with
        | value d => exact Link.att o e d hk
        | ignoreReq => simp [viewOfCls, hk, agree] at hag
        | ignoreOpt => simp [viewOfCls, hk, agree] at hag
        | unsupported => simp [viewOfCls, hk, agree] at hag

/-- the separate-form flags and `-o` -/
theorem link_takes (a : List Char) (h : takesValue a = true) : Link (classify T a) (shape a) true := by
  rcases takesValue_true a h with ⟨f, rfl⟩ | rfl
  · cases f
    · have : classify T Flag.D.text = .opt oD none ∧ shape Flag.D.text = .flagSep := by decide
      rw [this.1, this.2]; exact Link.sep oD _ rfl
    · have : classify T Flag.I.text = .opt oI none ∧ shape Flag.I.text = .flagSep := by decide
      rw [this.1, this.2]; exact Link.sep oI _ rfl
    · have : classify T Flag.isystem.text = .opt oSys none ∧ shape Flag.isystem.text = .flagSep := by decide
      rw [this.1, this.2]; exact Link.sep oSys _ rfl
    · have : classify T Flag.include.text = .opt oInc none ∧ shape Flag.include.text = .flagSep := by decide
      rw [this.1, this.2]; exact Link.sep oInc _ rfl
    · have : classify T Flag.U.text = .opt oU none ∧ shape Flag.U.text = .flagSep := by decide
      rw [this.1, this.2]; exact Link.sep oU _ rfl
  · have : classify T dashO = .opt oo none ∧ shape dashO = .ignReq := by decide
    rw [this.1, this.2]; exact Link.req oo rfl

/-! ### tokens -/

/-- the token `tokenize` makes of an argument of class `c` -/
def tokOf (a : List Char) : Cls → Tok
  | .positional => .A a
  | c => .O a c

theorem tokenize_step (a : List Char) (rest : List (List Char)) (toks : List Tok) (hne : a ≠ ['-', '-'])
    (hamb : classify T a ≠ .ambiguous) (ht : tokenize T (a :: rest) = .ok toks) :
    ∃ toks', tokenize T rest = .ok toks' ∧ toks = tokOf a (classify T a) :: toks' := by
  have hne' : ¬ (a = ArgparseFull.ddash) := hne
  simp only [tokenize, hne', if_false] at ht
  cases hc : classify T a with
  | ambiguous => exact absurd hc hamb
  | positional =>
    rw [hc] at ht
    cases hrest : tokenize T rest with
    | error e => rw [hrest] at ht; simp [Except.map] at ht
    | ok t => rw [hrest] at ht; simp [Except.map] at ht; exact ⟨t, rfl, by simp [tokOf, ht]⟩
  | unknown =>
    rw [hc] at ht
    cases hrest : tokenize T rest with
    | error e => rw [hrest] at ht; simp [Except.map] at ht
    | ok t => rw [hrest] at ht; simp [Except.map] at ht; exact ⟨t, rfl, by simp [tokOf, ht]⟩
  | opt o x =>
    rw [hc] at ht
    cases hrest : tokenize T rest with
    | error e => rw [hrest] at ht; simp [Except.map] at ht
    | ok t => rw [hrest] at ht; simp [Except.map] at ht; exact ⟨t, rfl, by simp [tokOf, ht]⟩

/-! ### the invariant -/

/-- where the model's positional `file` stands vs where the reference reading's operand list stands -/
inductive FR : FileSt → Run → List (List Char) → Prop
  | pending : FR .pending .pending []
  | opened (acc : List (List Char)) (h : ¬ (ArgparseFull.ddash ∈ acc)) : FR (.opened acc) .opened acc
  | closed (f : List (List Char)) : FR (.closed f) .closed f

/-- what the one-pass model waits for vs what `scanU` waits for vs what the class scan waits for -/
inductive WR : Pend → Wait → Bool → Prop
  | idle : WR .idle .none false
  | need (d : Act) : WR (.need d) .value true
  | needIgn : WR .needIgn .value true
  | optIgn : WR .optIgn .optional false

theorem FR_fileOf (fs : FileSt) (r : Run) (f : List (List Char)) (h : FR fs r f) : fileOf fs = f := by
  cases h with
  | pending => rfl
  | opened acc h => simp [fileOf, List.erase_of_not_mem h]
  | closed f => rfl

theorem FR_close (s : XSt) (r : Run) (f : List (List Char)) (h : FR s.file r f) :
    FR s.close.file r.close f ∧ s.close.extras = s.extras := by
  obtain ⟨cfg, fs, ex⟩ := s
  simp only at h
  cases h with
  | pending => exact ⟨FR.pending, rfl⟩
  | opened acc h =>
    simp only [XSt.close, Run.close, List.erase_of_not_mem h]
    exact ⟨FR.closed _, trivial⟩
  | closed f => exact ⟨FR.closed _, rfl⟩

/-- what `scanU` does with an argument in flag position, by shape -/
def nextU (w : Wait) (r : Run) (o : Leftover) (a : List Char) (rest : List (List Char)) : Shape → Leftover
  | .operand =>
    if w = .optional then scanU .none r o rest
    else if r = .closed then scanU .none .closed { o with extras := o.extras ++ [a] } rest
    else scanU .none .opened { o with file := o.file ++ [a] } rest
  | .unknownOpt => scanU .none r.close { o with extras := o.extras ++ [a] } rest
  | .flagSep => scanU .value r.close o rest
  | .ignReq => scanU .value r.close o rest
  | .flagAtt => scanU .none r.close o rest
  | .ignAtt => scanU .none r.close o rest
  | .ignBare => scanU .optional r.close o rest

theorem scanU_flag (w : Wait) (r : Run) (o : Leftover) (a : List Char) (rest : List (List Char)) (hw : w ≠ .value) :
    scanU w r o (a :: rest) = nextU w r o a rest (shape a) := by
  cases w with
  | value => exact absurd rfl hw
  | none => simp only [scanU]; cases shape a <;> simp [nextU]
  | optional => simp only [scanU]; cases shape a <;> simp [nextU]

/-- one step in flag position: the model's step on the token and the reference reading's step on the shape -/
theorem link_step (a : List Char) (c : Cls) (sh : Shape) (b : Bool) (hl : Link c sh b)
    (p : Pend) (w : Wait) (hw : WR p w false) (s : XSt) (r : Run) (o : Leftover)
    (hfr : FR s.file r o.file) (hex : s.extras = o.extras) (hsh : shape a = sh)
    (p' : Pend) (s' : XSt) (hst : stepX p s (tokOf a c) = .ok (p', s')) :
    ∃ w' r' o', (∀ rest, scanU w r o (a :: rest) = scanU w' r' o' rest) ∧ WR p' w' b ∧
      FR s'.file r' o'.file ∧ s'.extras = o'.extras := by
  obtain ⟨hcl, hcx⟩ := FR_close s r o.file hfr
  have hO : ∀ c', stepX p s (.O a c') = optStepX s.close a c' := by
    intro c'; cases hw <;> rfl
  have hwv : w ≠ .value := by cases hw <;> simp
  have hsc : ∀ rest, scanU w r o (a :: rest) = nextU w r o a rest sh := by
    intro rest; rw [scanU_flag w r o a rest hwv, hsh]
  cases hl with
  | unk =>
    simp only [tokOf, hO, optStepX, Except.ok.injEq, Prod.mk.injEq] at hst
    obtain ⟨rfl, rfl⟩ := hst
    exact ⟨.none, r.close, { o with extras := o.extras ++ [a] }, fun rest => by rw [hsc]; rfl, WR.idle, hcl, by simp [hcx, hex]⟩
  | bare ob hk =>
    simp only [tokOf, hO, optStepX, hk, Except.ok.injEq, Prod.mk.injEq] at hst
    obtain ⟨rfl, rfl⟩ := hst
    exact ⟨.optional, r.close, o, fun rest => by rw [hsc]; rfl, WR.optIgn, hcl, by simp [hcx, hex]⟩
  | ignAtt ob e hk =>
    have : p' = .idle ∧ s' = s.close := by
      rcases hk with hk | hk <;> simp only [tokOf, hO, optStepX, hk, Except.ok.injEq, Prod.mk.injEq] at hst <;>
        exact ⟨hst.1.symm, hst.2.symm⟩
    obtain ⟨rfl, rfl⟩ := this
    exact ⟨.none, r.close, o, fun rest => by rw [hsc]; rfl, WR.idle, hcl, by simp [hcx, hex]⟩
  | att ob e d hk =>
    simp only [tokOf, hO, optStepX, hk, applyX] at hst
    cases hap : s.close.cfg.apply d (toVal e) with
    | error er => rw [hap] at hst; simp at hst
    | ok cf =>
      rw [hap] at hst
      simp only [Except.ok.injEq, Prod.mk.injEq] at hst
      obtain ⟨rfl, rfl⟩ := hst
      exact ⟨.none, r.close, o, fun rest => by rw [hsc]; rfl, WR.idle, hcl, by simp [hcx, hex]⟩
  | sep ob d hk =>
    simp only [tokOf, hO, optStepX, hk, Except.ok.injEq, Prod.mk.injEq] at hst
    obtain ⟨rfl, rfl⟩ := hst
    exact ⟨.value, r.close, o, fun rest => by rw [hsc]; rfl, WR.need d, hcl, by simp [hcx, hex]⟩
  | req ob hk =>
    simp only [tokOf, hO, optStepX, hk, Except.ok.injEq, Prod.mk.injEq] at hst
    obtain ⟨rfl, rfl⟩ := hst
    exact ⟨.value, r.close, o, fun rest => by rw [hsc]; rfl, WR.needIgn, hcl, by simp [hcx, hex]⟩
  | pos =>
    cases hw with
    | optIgn =>
      simp only [tokOf, stepX, Except.ok.injEq, Prod.mk.injEq] at hst
      obtain ⟨rfl, rfl⟩ := hst
      exact ⟨.none, r, o, fun rest => by rw [hsc]; rfl, WR.idle, hfr, hex⟩
    | idle =>
      simp only [tokOf, stepX, Except.ok.injEq, Prod.mk.injEq] at hst
      obtain ⟨rfl, rfl⟩ := hst
      obtain ⟨cfg, fs, ex⟩ := s
      obtain ⟨of, oe⟩ := o
      simp only at hfr hex
      subst hex
      have hdd : ArgparseFull.ddash ≠ a := by
        intro hm
        have : shape ArgparseFull.ddash = .unknownOpt := by decide
        rw [hm, hsh] at this
        cases this
      cases hfr with
      | pending =>
        refine ⟨.none, .opened, ⟨[] ++ [a], ex⟩, fun rest => by rw [hsc]; simp [nextU], WR.idle, ?_, rfl⟩
        simp only [XSt.pos, List.nil_append]
        refine FR.opened [a] ?_
        intro hm
        simp at hm
        exact hdd hm
      | opened _ hacc =>
        refine ⟨.none, .opened, ⟨of ++ [a], ex⟩, fun rest => by rw [hsc]; simp [nextU], WR.idle, ?_, rfl⟩
        simp only [XSt.pos]
        refine FR.opened (of ++ [a]) ?_
        intro hm
        simp at hm
        rcases hm with hm | hm
        · exact hacc hm
        · exact hdd hm
      | closed _ =>
        refine ⟨.none, .closed, ⟨of, ex ++ [a]⟩, fun rest => by rw [hsc]; simp [nextU], WR.idle, ?_, rfl⟩
        simp only [XSt.pos]
        exact FR.closed of

theorem viewOfCls_positional (c : Cls) (h : viewOfCls c = .positional) : c = .positional := by
  cases c with
  | positional => rfl
  | unknown => simp [viewOfCls] at h
  | ambiguous => simp [viewOfCls] at h
  | opt o x => cases x <;> cases hk : o.kind <;> simp [viewOfCls, hk] at h

/-- a value that cannot be mistaken for an option is the token `A` -/
theorem plain_classify (v : List Char) (h : plainValue v = true) : classify T v = .positional ∧ v ≠ ['-', '-'] := by
  have hne : v ≠ ['-', '-'] := by
    intro e; rw [e] at h; simp [plainValue] at h
  have hv := (plain_value v h).1
  rw [viewOf_ne v hne] at hv
  exact ⟨viewOfCls_positional _ hv, hne⟩

/-- **the one-pass model and the reference reading stay in step** on a command line without recorded shapes:
whatever the one-pass model returns, its `extras` and `file` are the reference reading's -/
theorem sweep_scanU : ∀ (argv : List (List Char)) (p : Pend) (w : Wait) (b : Bool) (s : XSt) (r : Run) (o : Leftover)
    (toks : List Tok) (res : FResult),
    WR p w b → classesFrom b argv = [] → FR s.file r o.file → s.extras = o.extras →
    tokenize T argv = .ok toks → sweep p s toks = .ok res →
    res.extras = (scanU w r o argv).extras ∧ res.file = (scanU w r o argv).file
  | [], p, w, b, s, r, o, toks, res, hw, hc, hfr, hex, ht, hs => by
    simp only [tokenize, Except.ok.injEq] at ht
    subst ht
    have hf := FR_fileOf _ _ _ hfr
    cases hw <;> simp [classesFrom] at hc <;> simp only [sweep, finishX, Except.ok.injEq] at hs <;> subst hs <;>
      simp [scanU, XSt.result, hex, hf]
  | a :: rest, p, w, b, s, r, o, toks, res, hw, hc, hfr, hex, ht, hs => by
    have key : ∀ (hb : b = false), res.extras = (scanU w r o (a :: rest)).extras ∧ res.file = (scanU w r o (a :: rest)).file := by
      intro hb
      subst hb
      simp only [classesFrom] at hc
      have hlink : ∃ b', Link (classify T a) (shape a) b' ∧ classesFrom b' rest = [] ∧ a ≠ ['-', '-'] := by
        by_cases htv : takesValue a = true
        · simp only [htv, if_true] at hc
          refine ⟨true, link_takes a htv, hc, ?_⟩
          intro e; rw [e] at htv; exact absurd htv (by decide)
        · have htv' : takesValue a = false := by simpa using htv
          simp only [htv', Bool.false_eq_true, if_false, List.append_eq_nil_iff] at hc
          exact ⟨false, link_single a htv' hc.1, hc.2, (tagsOf1_nil a hc.1).1.1⟩
      obtain ⟨b', hl, hc', hne⟩ := hlink
      have hamb : classify T a ≠ .ambiguous := by
        intro e; rw [e] at hl; cases hl
      obtain ⟨toks', ht', rfl⟩ := tokenize_step a rest toks hne hamb ht
      simp only [sweep] at hs
      cases hst : stepX p s (tokOf a (classify T a)) with
      | error e => rw [hst] at hs; simp at hs
      | ok q =>
        obtain ⟨p', s'⟩ := q
        rw [hst] at hs
        simp only at hs
        obtain ⟨w', r', o', hsc, hw', hfr', hex'⟩ := link_step a _ _ b' hl p w hw s r o hfr hex rfl p' s' hst
        rw [hsc rest]
        exact sweep_scanU rest p' w' b' s' r' o' toks' res hw' hc' hfr' hex' ht' hs
    have val : ∀ (hb : b = true) (hp : p = .needIgn ∨ ∃ d, p = .need d) (hwv : w = .value),
        res.extras = (scanU w r o (a :: rest)).extras ∧ res.file = (scanU w r o (a :: rest)).file := by
      intro hb hp hwv
      subst hb hwv
      simp only [classesFrom, List.append_eq_nil_iff, ite_nil] at hc
      obtain ⟨hpv, hc'⟩ := hc
      have hpv' : plainValue a = true := by simpa using hpv
      obtain ⟨hcls, hne⟩ := plain_classify a hpv'
      have hamb : classify T a ≠ .ambiguous := by rw [hcls]; intro e; cases e
      obtain ⟨toks', ht', rfl⟩ := tokenize_step a rest toks hne hamb ht
      rw [hcls] at hs
      have hsc : scanU .value r o (a :: rest) = scanU .none r o rest := by simp [scanU]
      rw [hsc]
      rcases hp with rfl | ⟨d, rfl⟩
      · simp only [sweep, tokOf, stepX] at hs
        exact sweep_scanU rest .idle .none false s r o toks' res WR.idle hc' hfr hex ht' hs
      · simp only [sweep, tokOf, stepX, applyX] at hs
        cases hap : s.cfg.apply d (toVal a) with
        | error er => rw [hap] at hs; simp at hs
        | ok cf =>
          rw [hap] at hs
          simp only at hs
          exact sweep_scanU rest .idle .none false { s with cfg := cf } r o toks' res WR.idle hc' hfr hex ht' hs
    cases hw with
    | idle => exact key rfl
    | optIgn => exact key rfl
    | need d => exact val rfl (Or.inr ⟨d, rfl⟩) rfl
    | needIgn => exact val rfl (Or.inl rfl) rfl

end CbiVerif.ArgvExtras
