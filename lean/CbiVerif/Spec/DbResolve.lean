import CbiVerif.Generated.Tables
/-!
Specification for C13, written from the property text on **normalised component lists**.

A *location* is the list of directory-entry names leading from `/` to a file or
directory.  A spelled path is read the way a process started in a directory reads it:
an absolute spelling starts again at `/`, every segment between slashes is either a
no-op (empty, `.`), a step to the parent (`..`; the parent of `/` is `/`) or a step
into the named entry.

* the entry's working directory is its `directory`, read from the analysis root;
  without `directory` it is the root itself;
* the analysed file is `file`, read from that working directory;
* every include directory of the command is read from that working directory
  (what a compiler started there does with `-I dir`);
* entries with an empty command, whose `file` spelling does not end in a source-file name
  (extension table of `source.py`), or whose file does not exist contribute nothing (the
  last with a warning);
  every other entry contributes one result per compiler pass, in database order.

Nothing here refers to the string-level model (`Model/DbPath.lean`): it has its own
splitter and its own extension function.
-/
namespace CbiVerif.DbResolve

abbrev Str := List Char
abbrev Loc := List Str

inductive Seg | cur | up | name (s : Str)
deriving DecidableEq, Repr

/-- the pieces between slashes; `acc` is the current piece, reversed -/
def chunks : Str → Str → List Str
  | acc, [] => [acc.reverse]
  | acc, c :: cs => if c = '/' then acc.reverse :: chunks [] cs else chunks (c :: acc) cs

def segOf (s : Str) : Seg :=
  if s = [] ∨ s = ['.'] then .cur else if s = ['.', '.'] then .up else .name s

def segments (p : Str) : List Seg := (chunks [] p).map segOf

def isAbsolute (p : Str) : Bool := p.head? = some '/'

def step (loc : Loc) : Seg → Loc
  | .cur => loc
  | .up => loc.dropLast
  | .name s => loc ++ [s]

def walk (loc : Loc) (segs : List Seg) : Loc := segs.foldl step loc

/-- where the spelling `p` leads when read in the directory `base` -/
def resolve (base : Loc) (p : Str) : Loc :=
  walk (if isAbsolute p then [] else base) (segments p)

/-- location of an absolute spelling -/
def locOf (p : Str) : Loc := resolve [] p

/-- the extension of a file name: from its last dot, unless that dot is the first or the last character -/
def extension (name : Str) : Str :=
  let r := name.reverse
  let tail := r.takeWhile (· ≠ '.')
  if tail.length = r.length then []
  else if tail = [] then []
  else if tail.length + 1 = r.length then []
  else '.' :: tail.reverse

/-- the `file` spelling names a source file: its last segment that is not a no-op is a
name whose extension is in the table of `source.py` -/
def isSourceSpelling (file : Str) : Bool :=
  match ((segments file).filter (· ≠ .cur)).getLast? with
  | some (.name n) => CbiVerif.Gen.sourceExts.contains (String.ofList (extension n))
  | _ => false

structure Entry where
  file : Str
  directory : Option Str
  argv : List Str
deriving Repr

structure Expect (α : Type) where
  file : Loc
  includeDirs : List Loc
  pass : α
deriving Repr

/-- working directory of an entry -/
def dirLoc (root : Loc) (d : Option Str) : Loc :=
  match d with
  | none => root
  | some d => resolve root d

/-- the analysed file of an entry -/
def fileLoc (root : Loc) (e : Entry) : Loc := resolve (dirLoc root e.directory) e.file

/-- what one entry contributes: (results, locations warned about as non-existent) -/
def expectEntry {α : Type} (root : Loc) (exL : Loc → Bool) (parse : List Str → List (α × List Str))
    (e : Entry) : List (Expect α) × List Loc :=
  let f := fileLoc root e
  if e.argv.isEmpty then ([], [])
  else if !isSourceSpelling e.file then ([], [])
  else if !exL f then ([], [f])
  else ((parse e.argv).map fun (a, incs) =>
          { file := f, includeDirs := incs.map (resolve (dirLoc root e.directory)), pass := a }, [])

/-- the whole database, in order -/
def expect {α : Type} (root : Loc) (exL : Loc → Bool) (parse : List Str → List (α × List Str))
    (db : List Entry) : List (Expect α) × List Loc :=
  ((db.map (expectEntry root exL parse)).flatMap (·.1), (db.map (expectEntry root exL parse)).flatMap (·.2))

/-- the root as given to the analysis, read in the process's working directory -/
def rootLoc (cwd root : Str) : Loc := resolve (locOf cwd) root

/-- the name the `file` spelling ends in (its last segment that is not a no-op), if it is a name -/
def spelledName (file : Str) : Option Str :=
  match ((segments file).filter (· ≠ .cur)).getLast? with
  | some (.name n) => some n
  | _ => none

end CbiVerif.DbResolve
