#!/bin/bash
# run_all.sh [tier] : every registered check once, summary lines only
cd "$(dirname "$0")/.."; tier=${1:-quick}
for p in $(python3 -c "import json;print(' '.join(c['property_id'] for c in json.load(open('MANIFEST.json'))['checks']))"); do
  out=$(./check $p $tier 2>&1); rc=$?
  echo "rc=$rc $(echo "$out" | tail -1)"
  echo "$out" | grep -E "^VIOLATION|INTERNAL" | head -3
done
