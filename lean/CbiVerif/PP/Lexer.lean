import CbiVerif.Generated.Tables
/-! Model of codebasin.preprocessor.Lexer (ASCII inputs only).  The operator, punctuator and exponent lists are the
ones regenerated from the code on every run (`Generated/Tables.lean`). -/
namespace CbiVerif.PP

inductive TKind | num | chr | str | ident | op | punct | unknown
deriving DecidableEq, Repr, Inhabited

structure Tok where
  kind : TKind
  text : String          -- `token` attribute (strings: without quotes; char constants: without quotes)
  pw : Bool              -- prev_white
  expandable : Bool := true
deriving DecidableEq, Repr, Inhabited

/-- `str(token)` / `spelling()` -/
def Tok.spell (t : Tok) : String :=
  match t.kind with
  | .str => "\"" ++ t.text ++ "\""
  | _ => t.text

def isWs (c : Char) : Bool := c == ' ' || c == '\t' || c == '\n' || c == '\r'
def isDigit (c : Char) : Bool := c.isDigit
def isAlpha (c : Char) : Bool := c.isAlpha
def isAlnum (c : Char) : Bool := c.isAlphanum
/-- str.isprintable for ASCII -/
def isPrintable (c : Char) : Bool := c.toNat ≥ 32 && c.toNat < 127

def operators : List String := CbiVerif.Gen.lexOperators
def punctuators : List String := CbiVerif.Gen.lexPunctuators
def exponents : List String := CbiVerif.Gen.lexExponents

def startsWithL (s : List Char) (p : List Char) : Bool := p.isPrefixOf s

/-- match_any: first literal (in list order) that is a prefix -/
def matchAny (s : List Char) (lits : List String) : Option String :=
  lits.find? (fun l => startsWithL s l.toList)

/-- number(): returns (text, rest) -/
def lexNumber (s : List Char) : Option (List Char × List Char) :=
  let (pre, s1) := match s with
    | '.' :: r => (['.'], r)
    | _ => ([], s)
  match s1 with
  | d :: r =>
    if isDigit d then
      let rec go (fuel : Nat) (acc : List Char) (s : List Char) : List Char × List Char :=
        match fuel with
        | 0 => (acc, s)
        | fuel + 1 =>
          match s with
          | [] => (acc, s)
          | c :: r =>
            match r with
            | c2 :: r2 =>
              if exponents.contains (String.ofList [c, c2]) then go fuel (acc ++ [c, c2]) r2
              else if isAlpha c || isDigit c || c == '_' || c == '.' then go fuel (acc ++ [c]) r
              else (acc, s)
            | [] =>
              if isAlpha c || isDigit c || c == '_' || c == '.' then go fuel (acc ++ [c]) r
              else (acc, s)
      some (go (s.length + 1) (pre ++ [d]) r)
    else none
  | [] => none

def isOctDigit (c : Char) : Bool := decide ('0' ≤ c) && decide (c ≤ '7')
def isHexDigit (c : Char) : Bool :=
  isDigit c || (decide ('a' ≤ c) && decide (c ≤ 'f')) || (decide ('A' ≤ c) && decide (c ≤ 'F'))

/-- `_NUMERIC_ESCAPE.match(string, pos)`, the regex `\\(?:[0-7]{1,3}|x[0-9a-fA-F]+)` (greedy): a backslash and
    one to three octal digits, or a backslash, `x` and hexadecimal digits.  Returns (matched text, rest). -/
def numericEscape (s : List Char) : Option (List Char × List Char) :=
  match s with
  | '\\' :: c :: r =>
    if isOctDigit c then
      let ds := ((c :: r).take 3).takeWhile isOctDigit
      some ('\\' :: ds, (c :: r).drop ds.length)
    else if c == 'x' then
      let hs := r.takeWhile isHexDigit
      if hs.isEmpty then none else some ('\\' :: 'x' :: hs, r.drop hs.length)
    else none
  | _ => none

/-- character_constant(): a numeric escape sequence, else a backslash and one printable character, else one
    printable character, between single quotes -/
def lexChar (s : List Char) : Option (List Char × List Char) :=
  match s with
  | '\'' :: r =>
    match numericEscape r with
    | some (t, r1) =>
      (match r1 with
       | '\'' :: rest => some (t, rest)
       | _ => none)
    | none =>
      match r with
      | '\\' :: c :: '\'' :: rest => if isPrintable c then some (['\\', c], rest) else none
      | c :: '\'' :: rest =>
        if c == '\\' then none   -- read(2) = "\\'" is printable: value = "\\'" then needs another quote
        else if isPrintable c then some ([c], rest) else none
      | _ => none
  | _ => none

/-- string_constant() -/
def lexString (s : List Char) : Option (List Char × List Char) :=
  match s with
  | '"' :: r =>
    let rec go (fuel : Nat) (acc : List Char) (s : List Char) : Option (List Char × List Char) :=
      match fuel with
      | 0 => none
      | fuel + 1 =>
        match s with
        | [] => none
        | '"' :: rest => some (acc, rest)
        | '\\' :: c :: rest => go fuel (acc ++ ['\\', c]) rest   -- a backslash escapes the character after it (repair of finding D45)
        | c :: rest => go fuel (acc ++ [c]) rest
    go (r.length + 1) [] r
  | _ => none

/-- identifier() -/
def lexIdent (s : List Char) : Option (List Char × List Char) :=
  match s with
  | c :: _ =>
    if isDigit c then none
    else
      let w := s.takeWhile (fun c => isAlnum c || c == '_')
      if w.isEmpty then none else some (w, s.drop w.length)
  | [] => none

/-- tokenize_one(): candidates in order -/
def tokenizeOne (s : List Char) (pw : Bool) : Option (Tok × List Char) :=
  match lexNumber s with
  | some (t, r) => some (⟨.num, String.ofList t, pw, true⟩, r)
  | none =>
  match lexChar s with
  | some (t, r) => some (⟨.chr, String.ofList t, pw, true⟩, r)
  | none =>
  match lexString s with
  | some (t, r) => some (⟨.str, String.ofList t, pw, true⟩, r)
  | none =>
  match lexIdent s with
  | some (t, r) => some (⟨.ident, String.ofList t, pw, true⟩, r)
  | none =>
  match matchAny s operators with
  | some o => some (⟨.op, o, pw, true⟩, s.drop o.length)
  | none =>
  match matchAny s punctuators with
  | some o => some (⟨.punct, o, pw, true⟩, s.drop o.length)
  | none => none

/-- tokenize() -/
def tokenize (input : String) : List Tok :=
  let rec go (fuel : Nat) (s : List Char) (pw : Bool) (acc : List Tok) : List Tok :=
    match fuel with
    | 0 => acc
    | fuel + 1 =>
      let ws := s.takeWhile isWs
      let s1 := s.drop ws.length
      let pw1 := pw || !ws.isEmpty
      match s1 with
      | [] => acc
      | c :: r =>
        match tokenizeOne s1 pw1 with
        | some (t, rest) => go fuel rest false (acc ++ [t])
        | none => go fuel r false (acc ++ [⟨.unknown, String.singleton c, pw1, true⟩])
  go (input.length + 1) input.toList false []

end CbiVerif.PP
