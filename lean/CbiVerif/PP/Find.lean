import CbiVerif.PP.Analyse
/-! Multi-file model: Platform (include search, memo, once-list), IncludeNode, ParserState.associate recursion, finder.find. -/
namespace CbiVerif.PP

/-- os.path.normpath for absolute POSIX paths (lexical) -/
def normpath (p : String) : String :=
  let comps := p.splitOn "/"
  let out := comps.foldl (fun (acc : List String) c =>
    if c == "" || c == "." then acc
    else if c == ".." then acc.dropLast
    else acc ++ [c]) []
  "/" ++ "/".intercalate out

def joinPath (a b : String) : String := if b.startsWith "/" then b else if a.endsWith "/" then a ++ b else a ++ "/" ++ b
def dirname (p : String) : String :=
  match (p.splitOn "/").dropLast with
  | [] => ""
  | [""] => "/"
  | l => "/".intercalate l

/-- the file system as seen by the analysis: absolute canonical path ↦ text -/
abbrev FSMap := List (String × String)
def FSMap.get (fs : FSMap) (p : String) : Option String := (fs.find? (·.1 == p)).map (·.2)

structure Platform where
  name : String
  tbl : Table := []
  skip : List String := []
  incPaths : List String := []
  memo : List ((String × Option String) × Option String) := []   -- key (spelling, dir unless <>) as in the drafted repair

/-- Platform.find_include_file (memo keyed as in the D13 repair) -/
def Platform.findInclude (p : Platform) (fs : FSMap) (filename thisPath : String) (sys : Bool) : Option String × Platform :=
  let key := (filename, if sys then none else some thisPath)
  match p.memo.find? (·.1 == key) with
  | some (_, r) => (r, p)
  | none =>
    let dirs := (if sys then [] else [thisPath]) ++ p.incPaths
    let r := (dirs.map fun d => normpath (joinPath d filename)).find? fun c => (fs.get c).isSome
    (r, { p with memo := p.memo ++ [(key, r)] })

inductive Warn | userInclude (file : String) (line : Nat) (name : String) | sysInclude (file : String) (line : Nat) (name : String)
deriving Repr, DecidableEq

structure PState where
  trees : List (String × (Array PNode × List PTree)) := []
  assoc : List ((String × Nat) × List String) := []       -- (file, node) ↦ platforms
  warns : List Warn := []
  err : Option Err := none

def PState.addAssoc (s : PState) (f : String) (i : Nat) (p : String) : PState :=
  match s.assoc.find? (·.1 == (f, i)) with
  | some (_, ps) => if ps.contains p then s else { s with assoc := s.assoc.map fun e => if e.1 == (f, i) then (e.1, e.2 ++ [p]) else e }
  | none => { s with assoc := s.assoc ++ [((f, i), [p])] }

def PState.insertFile (s : PState) (fs : FSMap) (f : String) : PState :=
  if (s.trees.find? (·.1 == f)).isSome || s.err.isSome then s else
  match fs.get f with
  | none => { s with err := some (.other "FileNotFoundError") }
  | some text =>
    match parseFile text with
    | .error e => { s with err := some e }
    | .ok nodes =>
      match buildTree nodes with
      | .error e => { s with err := some e }
      | .ok t => { s with trees := s.trees ++ [(f, (nodes.toArray, t))] }

/-- DirectiveParser.include_path on a token list: (path, system) -/
def includePath (ts : List Tok) : Option (String × Bool) :=
  match ts with
  | t :: rest =>
    if t.kind == .op && t.text == "<" then
      let inner := rest.takeWhile (fun x => !(x.kind == .op && x.text == ">"))
      if inner.length < rest.length then some ("".intercalate (inner.map (·.spell)), true) else
        (if t.kind == .str then some (t.text, false) else none)
    else if t.kind == .str then some (t.text, false) else none
  | [] => none

structure World where
  st : PState
  plat : Platform
  taken : List Bool := []

def evalCondW (w : World) (toks : List Tok) : Bool × World :=
  match w.st.err with
  | some _ => (false, w)
  | none =>
    match condValue w.plat.tbl toks with
    | .ok b => (b, w)
    | .error e => (false, { w with st := { w.st with err := some e } })

mutual
partial def assocFile (fs : FSMap) (file : String) (w : World) : World :=
  match w.st.trees.find? (·.1 == file) with
  | none => { w with st := { w.st with err := some (.other "no tree") } }
  | some (_, (nodes, trees)) =>
    let w' := visitListW fs file nodes { w with taken := [] } trees
    { w' with taken := w.taken }
partial def visitW (fs : FSMap) (file : String) (nodes : Array PNode) (w : World) : PTree → World
  | .node idx kids =>
    match w.st.err with
    | some _ => w
    | none =>
      let n := nodes[idx]!
      let w := { w with st := w.st.addAssoc file idx w.plat.name }
      match n.kind with
      | .code | .unrecognized => w
      | .pragma =>
        match n.toks with
        | t :: _ => if t.spell == "once" && !w.plat.skip.contains file then { w with plat := { w.plat with skip := w.plat.skip ++ [file] } } else w
        | [] => w
      | .define =>
        match makeMacro n.name n.margs n.toks with
        | .ok m => if (w.plat.tbl.get n.name).isSome then w else { w with plat := { w.plat with tbl := w.plat.tbl ++ [(n.name, m)] } }
        | .error e => { w with st := { w.st with err := some e } }
      | .undef => { w with plat := { w.plat with tbl := w.plat.tbl.filter (·.1 != n.name) } }
      | .include =>
        -- literal or computed include
        let lit := includePath n.toks
        let resolved : Except Err (String × Bool) :=
          match lit with
          | some r => .ok r
          | none =>
            match runExpandT w.plat.tbl n.toks with
            | .ok ts => match includePath ts with | some r => .ok r | none => .error (.parse "Invalid path.")
            | .error e => .error e
            | .sig s => .error (.other s)
        match resolved with
        | .error e => { w with st := { w.st with err := some e } }
        | .ok (path, sys) =>
          let (found, plat) := w.plat.findInclude fs path (dirname file) sys
          let w := { w with plat := plat }
          match found with
          | none =>
            let line := n.lines.headD 0
            { w with st := { w.st with warns := w.st.warns ++ [if sys then .sysInclude file line path else .userInclude file line path] } }
          | some inc =>
            if w.plat.skip.contains inc then w
            else
              let w := { w with st := w.st.insertFile fs inc }
              if w.st.err.isSome then w else assocFile fs inc w
      | .endk => { w with taken := w.taken.tail }
      | .ifk =>
        let (a, w) := evalCondW w n.toks
        let w := { w with taken := a :: w.taken }
        if a then visitListW fs file nodes w kids else w
      | .elifk =>
        match w.taken with
        | [] => { w with st := { w.st with err := some .index } }
        | t :: ts =>
          if t then w else
            let (a, w) := evalCondW w n.toks
            let w := { w with taken := a :: ts }
            if a then visitListW fs file nodes w kids else w
      | .elsek =>
        match w.taken with
        | [] => { w with st := { w.st with err := some .index } }
        | t :: ts => if t then w else visitListW fs file nodes { w with taken := true :: ts } kids
partial def visitListW (fs : FSMap) (file : String) (nodes : Array PNode) (w : World) : List PTree → World
  | [] => w
  | t :: ts => visitListW fs file nodes (visitW fs file nodes w t) ts
end

structure Entry where
  file : String
  defines : List String
  includePaths : List String
  includeFiles : List String

/-- finder.find -/
def find (fs : FSMap) (codebase : List String) (config : List (String × List Entry)) : PState := Id.run do
  let mut st : PState := {}
  for f in codebase do st := st.insertFile fs f
  for (_, es) in config do for e in es do st := st.insertFile fs e.file
  for (pname, es) in config do
    for e in es do
      if st.err.isSome then break
      let mut plat : Platform := { name := pname, incPaths := e.includePaths }
      let mut bad : Option Err := none
      for d in e.defines do
        match macroFromDefinitionString d with
        | .ok m => if (plat.tbl.get m.name).isNone then plat := { plat with tbl := plat.tbl ++ [(m.name, m)] }
        | .error er => bad := some er
      if let some er := bad then
        st := { st with err := some er }; break
      let mut w : World := { st := st, plat := plat }
      for inc in e.includeFiles do
        let (found, p2) := w.plat.findInclude fs inc (dirname e.file) false
        w := { w with plat := p2 }
        match found with
        | some f =>
          if !w.plat.skip.contains f then
            w := { w with st := w.st.insertFile fs f }
            if w.st.err.isNone then w := assocFile fs f w
        | none => pure ()
      if w.st.err.isNone then w := assocFile fs e.file w
      st := w.st
  return st

end CbiVerif.PP
