import CbiVerif.Model.FindInst
import CbiVerif.Lemmas.FindInst
import CbiVerif.Lemmas.FindCacheMono
import CbiVerif.Model.FindInc
/-!
Helper lemmas for `Props/C08Engines.lean`: the multi-file engines are ONE engine.

* Part A — congruence of the cache-free engine `Exclude.runEntryRef` in its semantics record: two records with
  the same node step, the same `-include` search and the same `Platform` construction, which agree on every file
  entered from an includer of class `cl0` (and on the files entered at top level), run alike.  Induction on fuel.
* Part B — the up-front parse of `FindInst.findI` (`prepare`) is the up-front parse of the engine (`preparse`)
  under `FindInst.semPP`.
* Part C — the instance: `semPP fs` (every file through the C front end) against `Exclude.sem fs` (class by
  extension / by includer) on C-family inputs.
-/
namespace CbiVerif.FindEngines
open CbiVerif.PP CbiVerif.FindFold CbiVerif.Exclude CbiVerif.FindCache CbiVerif.FindInst

/-! ## Part A — congruence of the reference engine -/

/-- the two records treat file `g`, entered with inherited class `inh`, alike, and use it under class `cl0` -/
def EnterAgree (S1 S2 : Sem) (cl0 : LClass) (g : String) (inh : Option LClass) : Prop :=
  (∀ l, S1.enterRef l g inh = S2.enterRef l g inh) ∧
  (∀ l cl t, (S1.enterRef l g inh).2 = some (cl, t) → cl = cl0)

/-- what the congruence needs of the two records; `P` is an invariant of the `Platform` object (for the instance:
every file the include memo remembers exists) -/
structure Congr (S1 S2 : Sem) (cl0 : LClass) (P : Platform → Prop) : Prop where
  step_eq : S1.step = S2.step
  find_eq : S1.findInc = S2.findInc
  plat_eq : S1.mkPlat = S2.mkPlat
  stepP : ∀ file idx nd l, P l.plat → P (S1.step file idx nd l).1.plat
  findP : ∀ p inc dir, P p → P (S1.findInc p inc dir).2
  mkP : ∀ pname e plat, S1.mkPlat pname e = .ok plat → P plat
  inh : ∀ g, EnterAgree S1 S2 cl0 g (some cl0)

theorem enterRef_plat (S : Sem) (l : Local) (g : String) (inh : Option LClass) :
    (S.enterRef l g inh).1.plat = l.plat := by
  unfold Sem.enterRef
  cases S.refClass g inh with
  | none => rfl
  | some cl => simp only []; cases S.parseAs cl g <;> rfl

variable {S1 S2 : Sem} {cl0 : LClass} {P : Platform → Prop}

theorem congr_all (h : Congr S1 S2 cl0 P) : ∀ n,
    (∀ file t l, P l.plat →
      assocTreeRef S1 n file cl0 t l = assocTreeRef S2 n file cl0 t l ∧ P (assocTreeRef S1 n file cl0 t l).plat) ∧
    (∀ file nodes l tr, P l.plat →
      visitRef S1 n file cl0 nodes l tr = visitRef S2 n file cl0 nodes l tr ∧ P (visitRef S1 n file cl0 nodes l tr).plat) ∧
    (∀ file nodes l ts, P l.plat →
      visitListRef S1 n file cl0 nodes l ts = visitListRef S2 n file cl0 nodes l ts ∧
      P (visitListRef S1 n file cl0 nodes l ts).plat) := by
  intro n
  induction n with
  | zero =>
    refine ⟨?_, ?_, ?_⟩
    · intro file t l hP; simp only [assocTreeRef]; first | exact ⟨rfl, hP⟩ | exact ⟨trivial, hP⟩
    · intro file nodes l tr hP; simp only [visitRef]; first | exact ⟨rfl, hP⟩ | exact ⟨trivial, hP⟩
    · intro file nodes l ts hP
      cases ts with
      | nil => simp only [visitListRef]; first | exact ⟨rfl, hP⟩ | exact ⟨trivial, hP⟩
      | cons t ts => simp only [visitListRef]; first | exact ⟨rfl, hP⟩ | exact ⟨trivial, hP⟩
  | succ n ih =>
    obtain ⟨ihA, ihV, ihL⟩ := ih
    refine ⟨?_, ?_, ?_⟩
    · intro file t l hP
      obtain ⟨nodes, trees⟩ := t
      simp only [assocTreeRef]
      obtain ⟨he, hp⟩ := ihL file nodes { l with taken := [] } trees hP
      rw [he]
      exact ⟨rfl, by rw [← he]; exact hp⟩
    · intro file nodes l tr hP
      obtain ⟨idx, kids⟩ := tr
      simp only [visitRef]
      cases herr : l.err with
      | some e => simp only []; first | exact ⟨rfl, hP⟩ | exact ⟨trivial, hP⟩
      | none =>
        simp only []
        rw [← h.step_eq]
        have hsP := h.stepP file idx (nodes[idx]!) l hP
        cases hstep : S1.step file idx (nodes[idx]!) l with
        | mk loc act =>
          rw [hstep] at hsP
          cases act with
          | stay => simp only []; first | exact ⟨rfl, hsP⟩ | exact ⟨trivial, hsP⟩
          | descend => simp only []; exact ihL file nodes loc kids hsP
          | incl g =>
            simp only []
            obtain ⟨hag, hcl⟩ := h.inh g
            rw [← hag loc]
            have hpl := enterRef_plat S1 loc g (some cl0)
            cases hr : S1.enterRef loc g (some cl0) with
            | mk l1 r =>
              rw [hr] at hpl
              simp only [] at hpl
              have hP1 : P l1.plat := by rw [hpl]; exact hsP
              cases r with
              | none => simp only []; first | exact ⟨rfl, hP1⟩ | exact ⟨trivial, hP1⟩
              | some ct =>
                obtain ⟨cl2, t⟩ := ct
                have : cl2 = cl0 := hcl loc cl2 t (by rw [hr])
                subst this
                simp only []
                exact ihA g t l1 hP1
    · intro file nodes l ts hP
      cases ts with
      | nil => simp only [visitListRef]; first | exact ⟨rfl, hP⟩ | exact ⟨trivial, hP⟩
      | cons t ts =>
        simp only [visitListRef]
        obtain ⟨he, hp⟩ := ihV file nodes l t hP
        rw [← he]
        exact ihL file nodes _ ts hp

/-- the `-include` loop: every file it enters is treated alike at top level -/
def ForcedAgree (S1 S2 : Sem) (cl0 : LClass) (P : Platform → Prop) (incs : List String) : Prop :=
  incs = [] ∨ ∀ p inc dir f p2, P p → S1.findInc p inc dir = (some f, p2) → EnterAgree S1 S2 cl0 f none

theorem congr_forced (h : Congr S1 S2 cl0 P) (n : Nat) (dir : String) :
    ∀ (incs : List String) (l : Local), ForcedAgree S1 S2 cl0 P incs → P l.plat →
      runForcedRef S1 n dir incs l = runForcedRef S2 n dir incs l ∧ P (runForcedRef S1 n dir incs l).plat := by
  intro incs
  induction incs with
  | nil => intro l _ hP; simp only [runForcedRef]; first | exact ⟨rfl, hP⟩ | exact ⟨trivial, hP⟩
  | cons inc rest ih =>
    intro l hF hP
    have hF' : ∀ p inc dir f p2, P p → S1.findInc p inc dir = (some f, p2) → EnterAgree S1 S2 cl0 f none := by
      rcases hF with hF | hF
      · cases hF
      · exact hF
    have hFr : ForcedAgree S1 S2 cl0 P rest := Or.inr hF'
    obtain ⟨a, ws, er, pl, tk⟩ := l
    simp only [runForcedRef]
    cases er with
    | some e => simp only []; first | exact ⟨rfl, hP⟩ | exact ⟨trivial, hP⟩
    | none =>
      simp only []
      rw [← h.find_eq]
      have hfP := h.findP pl inc dir hP
      cases hf : S1.findInc pl inc dir with
      | mk found p2 =>
        rw [hf] at hfP
        simp only [] at hfP
        cases found with
        | none => simp only []; exact ih ⟨a, ws, none, p2, tk⟩ hFr hfP
        | some f =>
          simp only []
          obtain ⟨hag, hcl⟩ := hF' pl inc dir f p2 hP hf
          rw [← hag ⟨a, ws, none, p2, tk⟩]
          have hpl := enterRef_plat S1 ⟨a, ws, none, p2, tk⟩ f none
          cases hr : S1.enterRef ⟨a, ws, none, p2, tk⟩ f none with
          | mk l1 r =>
            rw [hr] at hpl
            simp only [] at hpl
            have hP1 : P l1.plat := by rw [hpl]; exact hfP
            cases r with
            | none => simp only []; first | exact ⟨rfl, hP1⟩ | exact ⟨trivial, hP1⟩
            | some ct =>
              obtain ⟨cl2, t⟩ := ct
              have : cl2 = cl0 := hcl ⟨a, ws, none, p2, tk⟩ cl2 t (by rw [hr])
              subst this
              simp only []
              obtain ⟨he, hp⟩ := (congr_all h n).1 f t l1 hP1
              rw [← he]
              exact ih _ hFr hp

/-- **one database entry**: the two records run it alike -/
theorem congr_entry (h : Congr S1 S2 cl0 P) (n : Nat) (pname : String) (e : Entry) (l : Local)
    (hF : ForcedAgree S1 S2 cl0 P e.includeFiles) (hE : EnterAgree S1 S2 cl0 e.file none) :
    runEntryRef S1 n pname e l = runEntryRef S2 n pname e l := by
  obtain ⟨a, ws, er, pl, tk⟩ := l
  simp only [runEntryRef]
  cases er with
  | some er => rfl
  | none =>
    simp only []
    rw [← h.plat_eq]
    cases hp : S1.mkPlat pname e with
    | error er => rfl
    | ok plat =>
      simp only []
      have hP0 : P (⟨a, ws, none, plat, []⟩ : Local).plat := h.mkP pname e plat hp
      obtain ⟨he, hPf⟩ := congr_forced h n (dirname e.file) e.includeFiles ⟨a, ws, none, plat, []⟩ hF hP0
      rw [← he]
      generalize runForcedRef S1 n (dirname e.file) e.includeFiles ⟨a, ws, none, plat, []⟩ = lf at hPf ⊢
      cases herr2 : lf.err with
      | some e2 => rfl
      | none =>
        simp only []
        obtain ⟨hag, hcl⟩ := hE
        rw [← hag lf]
        have hpl := enterRef_plat S1 lf e.file none
        cases hr : S1.enterRef lf e.file none with
        | mk l1 r =>
          rw [hr] at hpl
          simp only [] at hpl
          cases r with
          | none => rfl
          | some ct =>
            obtain ⟨cl2, t⟩ := ct
            have : cl2 = cl0 := hcl lf cl2 t (by rw [hr])
            subst this
            simp only []
            exact ((congr_all h n).1 e.file t l1 (by rw [hpl]; exact hPf)).1

/-! ### the folds -/

theorem findG_congr {Entry Key Warn Err : Type} (A B : Entry → Except Err (Out Key Warn)) (c : Config Entry)
    (h : ∀ j ∈ jobs c, A j.2 = B j.2) : findG A c = findG B c := by
  unfold findG
  rw [foldlM_stepPlatform, foldlM_stepPlatform]
  generalize ({} : Acc Key Warn) = acc
  revert acc
  generalize jobs c = js at h
  induction js with
  | nil => intro acc; rfl
  | cons j js ih =>
    intro acc
    obtain ⟨p, e⟩ := j
    rw [foldJobs_cons, foldJobs_cons]
    simp only [stepEntry]
    rw [← h (p, e) (List.mem_cons_self ..)]
    cases A e with
    | error er => rfl
    | ok o => exact ih (fun j hj => h j (List.mem_cons_of_mem _ hj)) _

/-- the up-front parse under two records that enter every listed file alike -/
theorem preparse_congr (S1 S2 : Sem) : ∀ (fs : List String) (w : XW),
    (∀ f ∈ fs, ∀ w, S1.enter w f none = S2.enter w f none) → preparse S1 fs w = preparse S2 fs w := by
  intro fs
  induction fs with
  | nil => intro w _; rfl
  | cons f fs ih =>
    intro w h
    simp only [preparse]
    cases w.loc.err with
    | some e => rfl
    | none =>
      simp only []
      rw [← h f (List.mem_cons_self ..) w]
      exact ih _ (fun g hg => h g (List.mem_cons_of_mem _ hg))

/-! ## Part B — the up-front parse of `findI` is the engine's, under `semPP` -/

theorem parseOne_eq (fs : FSMap) (f : String) :
    parseOne fs f = match parseAsFS fs .c f with | .ok _ => .ok () | .error e => .error e := by
  unfold parseOne PState.insertFile parseAsFS
  cases hg : fs.get f with
  | none => simp
  | some text =>
    unfold parseText
    cases hp : parseFile text with
    | error e => simp [hp, bind, Except.bind]
    | ok nodes =>
      cases hb : buildTree nodes with
      | error e => simp [hp, hb, bind, Except.bind]
      | ok t => simp [hp, hb, bind, Except.bind, pure, Except.pure]

theorem preparse_of_err (S : Sem) (l : List String) (w : XW) {e : Err} (h : w.loc.err = some e) :
    preparse S l w = w := by
  cases l <;> simp [preparse, h]

theorem prepare_eq_preparse (fs : FSMap) : ∀ (l : List String) (w : XW), w.loc.err = none → Inv (semPP fs) w.cache →
    (preparse (semPP fs) l w).loc.err = (match prepare fs l with | .ok _ => none | .error e => some e) := by
  intro l
  induction l with
  | nil => intro w h0 _; simpa [preparse, prepare] using h0
  | cons f l ih =>
    intro w h0 hI
    simp only [preparse, h0, prepare]
    rw [parseOne_eq]
    cases hl : w.cache.look f with
    | some x =>
      obtain ⟨cl, t⟩ := x
      rw [enter_cached hl]
      have hp : parseAsFS fs .c f = .ok t := hI _ _ _ (look_mem hl)
      rw [hp]
      exact ih _ h0 hI
    | none =>
      have hc : (semPP fs).inhOrExt f none = some .c := rfl
      cases hp : parseAsFS fs .c f with
      | error e =>
        have hp' : (semPP fs).parseAs .c f = .error e := hp
        rw [enter_err hl hc hp']
        rw [preparse_of_err _ _ _ (e := e) (by simp [Local.fail])]
        simp [Local.fail]
      | ok t =>
        have hp' : (semPP fs).parseAs .c f = .ok t := hp
        rw [enter_ok hl hc hp']
        exact ih _ h0 (hI.snoc hp')

theorem filesOf_eq_entryFiles (cfg : Config Entry) : filesOf cfg = entryFiles cfg := by
  unfold filesOf entryFiles jobs
  induction cfg with
  | nil => rfl
  | cons pe cfg ih => simp [List.flatMap_cons, List.map_append, ih, Function.comp_def]

/-- `findIN` is `findRefG` of the engine under `semPP` -/
theorem findIN_eq_findRefG (n : Nat) (fs : FSMap) (cb : List String) (cfg : Config Entry) :
    findIN n fs cb cfg = findRefG (semPP fs) n cb cfg := by
  unfold findIN findRefG prep
  have h := prepare_eq_preparse fs (cb ++ entryFiles cfg) {} rfl (Inv.nil _)
  rw [filesOf_eq_entryFiles, h]
  cases prepare fs (cb ++ entryFiles cfg) with
  | error e => rfl
  | ok u => rfl

/-- under `semPP` every file has extension class C: the one-class theorems of `FindCacheMono` apply -/
theorem oneClass_semPP (fs : FSMap) : OneClass (semPP fs) .c := fun _ => Or.inl rfl

/-- in a one-class semantics the cached run equals `findG` over the cache-free analysis, for EVERY configuration
(`transparent_state_refines` applied to `cstep_transparent_mono`) -/
theorem findC_eq_findRefG_oneclass (S : Sem) (cl0 : LClass) (hS : OneClass S cl0) (n : Nat)
    (cb : List String) (cfg : Config Entry) : findC S n cb cfg = findRefG S n cb cfg := by
  unfold findC findRefG
  cases herr : (prep S cb cfg).loc.err with
  | some er => rfl
  | none =>
    simp only []
    have h := findS_refines (InvMono S cl0) (cstep S n) (analyse S n) (cstep_transparent_mono S cl0 hS n) cfg {}
      (prep S cb cfg).cache (prep_invMono S cl0 hS cb cfg herr)
    unfold findS findG
    cases hS : List.foldlM (fun acc pe => List.foldlM (stepEntryS (cstep S n) pe.1) acc pe.2) ({}, (prep S cb cfg).cache) cfg with
    | error er => rw [hS] at h; exact h.symm
    | ok as => obtain ⟨a, s'⟩ := as; rw [hS] at h; exact h.1.symm

/-! ## Part C — `semPP fs` against `Exclude.sem fs` on C-family inputs -/

-- `CFam`, `AllC`, `ClassOK` (the decidable side conditions) are defined in `Model/FindInst.lean`, so that the driver
-- evaluates the very definitions the theorems are about

theorem get_isSome {fs : FSMap} {g : String} (h : (fs.get g).isSome = true) : ∃ ft ∈ fs, ft.1 = g := by
  unfold FSMap.get at h
  cases hf : fs.find? (·.1 == g) with
  | none => simp [hf] at h
  | some ft => exact ⟨ft, List.mem_of_find?_eq_some hf, by simpa using List.find?_some hf⟩

theorem get_none_parse {fs : FSMap} {g : String} (h : fs.get g = none) (cl : LClass) :
    parseAsFS fs cl g = .error (.other "FileNotFoundError") := by
  simp [parseAsFS, h]

/-- every file the include memo remembers exists -/
def MemoOK (fs : FSMap) (p : Platform) : Prop := ∀ k r, (k, some r) ∈ p.memo → (fs.get r).isSome = true

theorem findInclude_spec (fs : FSMap) (p : Platform) (name dir : String) (sys : Bool) (h : MemoOK fs p) :
    MemoOK fs (p.findInclude fs name dir sys).2 ∧
    (∀ f, (p.findInclude fs name dir sys).1 = some f → (fs.get f).isSome = true) := by
  unfold Platform.findInclude
  simp only []
  cases hm : p.memo.find? (·.1 == (name, if sys then none else some dir)) with
  | some kr =>
    obtain ⟨k, r⟩ := kr
    simp only []
    refine ⟨h, fun f hf => ?_⟩
    subst hf
    exact h k f (List.mem_of_find?_eq_some hm)
  | none =>
    simp only []
    refine ⟨?_, fun f hf => ?_⟩
    · intro k r hkr
      rcases List.mem_append.mp hkr with hkr | hkr
      · exact h k r hkr
      · simp only [List.mem_singleton, Prod.mk.injEq] at hkr
        exact List.find?_some (p := fun c => (fs.get c).isSome) hkr.2.symm
    · exact List.find?_some (p := fun c => (fs.get c).isSome) hf

theorem evalCondL_plat (l : Local) (toks : List Tok) : (evalCondL l toks).2.plat = l.plat := by
  unfold evalCondL
  cases l.err with
  | some e => rfl
  | none => simp only []; cases condValue l.plat.tbl toks <;> rfl

/-- one node of `associate` keeps the memo invariant: only an `#include` touches the memo, through `findInclude` -/
theorem stepNode_memoOK (fs : FSMap) (file : String) (idx : Nat) (nd : PNode) (l : Local)
    (h : MemoOK fs l.plat) : MemoOK fs (stepNode fs file idx nd l).1.plat := by
  have hm : ∀ (p : Platform), p.memo = l.plat.memo → MemoOK fs p := fun p hp k r hkr => h k r (hp ▸ hkr)
  unfold stepNode
  simp only []
  split
  · exact h
  · exact h
  · split
    · split
      · exact hm _ rfl
      · exact h
    · exact h
  · split
    · split
      · exact h
      · exact hm _ rfl
    · exact h
  · exact hm _ rfl
  · split
    · exact h
    · rename_i path sys hres
      have hs := (findInclude_spec fs l.plat path (dirname file) sys h).1
      split
      · exact hs
      · split
        · exact hs
        · exact hs
  · exact h
  · exact hm _ (by rw [evalCondL_plat])
  · split
    · exact h
    · split
      · exact h
      · exact hm _ (by rw [evalCondL_plat])
  · split
    · exact h
    · split
      · exact h
      · exact h

theorem findForced_spec (fs : FSMap) (p : Platform) (inc dir : String) (h : MemoOK fs p) :
    MemoOK fs (findForced fs p inc dir).2 ∧
    (∀ f, (findForced fs p inc dir).1 = some f → (fs.get f).isSome = true) := by
  obtain ⟨h1, h2⟩ := findInclude_spec fs p inc dir false h
  unfold findForced
  cases hr : p.findInclude fs inc dir false with
  | mk found p2 =>
    rw [hr] at h1 h2
    cases found with
    | none => exact ⟨h1, fun f hf => by cases hf⟩
    | some f0 =>
      simp only []
      split
      · exact ⟨h1, fun f hf => by cases hf⟩
      · exact ⟨h1, fun f hf => h2 f hf⟩

theorem defineAll_memo : ∀ (ds : List String) (p plat : Platform), defineAll ds p = .ok plat → plat.memo = p.memo := by
  intro ds
  induction ds with
  | nil => intro p plat h; simp only [defineAll, Except.ok.injEq] at h; rw [h]
  | cons d ds ih =>
    intro p plat h
    simp only [defineAll] at h
    cases hm : macroFromDefinitionString d with
    | error er => rw [hm] at h; cases h
    | ok m =>
      rw [hm] at h
      simp only [] at h
      have := ih _ plat h
      rw [this]
      split <;> rfl

theorem mkPlatform_memoOK (fs : FSMap) (pname : String) (e : Entry) (plat : Platform)
    (h : mkPlatform pname e = .ok plat) : MemoOK fs plat := by
  intro k r hkr
  rw [defineAll_memo _ _ _ h] at hkr
  cases hkr

theorem semPP_ext (fs : FSMap) (g : String) : (semPP fs).extClass g = some .c := by simp only [semPP]
theorem semPP_parse (fs : FSMap) (cl : LClass) (g : String) : (semPP fs).parseAs cl g = parseAsFS fs .c g := by
  simp only [semPP]
theorem sem_ext (fs : FSMap) (g : String) : (sem fs).extClass g = extClass g := by simp only [sem]
theorem sem_parse (fs : FSMap) (cl : LClass) (g : String) : (sem fs).parseAs cl g = parseAsFS fs cl g := by
  simp only [sem]

theorem enterRef_semPP (fs : FSMap) (l : Local) (g : String) (inh : Option LClass) :
    (semPP fs).enterRef l g inh =
      match parseAsFS fs .c g with | .error e => (l.fail e, none) | .ok t => (l, some (.c, t)) := by
  simp only [Sem.enterRef, Sem.refClass, semPP_ext, semPP_parse]
  rfl

theorem enterRef_sem_of_class (fs : FSMap) (l : Local) (g : String) (inh : Option LClass) (cl : LClass)
    (h : (sem fs).refClass g inh = some cl) :
    (sem fs).enterRef l g inh =
      match parseAsFS fs cl g with | .error e => (l.fail e, none) | .ok t => (l, some (cl, t)) := by
  simp only [Sem.enterRef, h, sem_parse]
  rfl

theorem enterRef_semPP_class (fs : FSMap) (l : Local) (g : String) (inh : Option LClass) (cl : LClass) (t : Parsed)
    (hr : ((semPP fs).enterRef l g inh).2 = some (cl, t)) : cl = .c := by
  rw [enterRef_semPP] at hr
  cases hp : parseAsFS fs .c g with
  | error e => rw [hp] at hr; cases hr
  | ok t2 => rw [hp] at hr; simp only [Option.some.injEq, Prod.mk.injEq] at hr; exact hr.1.symm

/-- a file entered from a C includer: C-family or no class by extension if it exists -/
theorem enterAgree_inh (fs : FSMap) (hfam : CFam fs = true) (g : String) :
    EnterAgree (semPP fs) (sem fs) .c g (some .c) := by
  refine ⟨fun l => ?_, fun l cl t hr => enterRef_semPP_class fs l g _ cl t hr⟩
  rw [enterRef_semPP]
  cases hg : fs.get g with
  | none =>
    -- a missing file fails alike under every class
    have hcl : ∃ cl, (sem fs).refClass g (some .c) = some cl := by
      simp only [Sem.refClass, sem_ext]
      cases extClass g with
      | none => exact ⟨_, rfl⟩
      | some e => exact ⟨_, rfl⟩
    obtain ⟨cl, hcl⟩ := hcl
    rw [enterRef_sem_of_class fs l g _ cl hcl, get_none_parse hg, get_none_parse hg]
  | some text =>
    obtain ⟨ft, hft, hgt⟩ := get_isSome (fs := fs) (g := g) (by rw [hg]; rfl)
    have hx := (List.all_eq_true.mp hfam) ft hft
    rw [hgt] at hx
    simp only [Bool.or_eq_true, beq_iff_eq] at hx
    have hcl : (sem fs).refClass g (some .c) = some .c := by
      simp only [Sem.refClass, sem_ext]
      rcases hx with hx | hx <;> rw [hx]
    rw [enterRef_sem_of_class fs l g _ .c hcl]

/-- a file entered at top level (compiled file, `-include` file): C-family by extension -/
theorem enterAgree_top (fs : FSMap) (g : String) (hx : extClass g = some .c) :
    EnterAgree (semPP fs) (sem fs) .c g none := by
  refine ⟨fun l => ?_, fun l cl t hr => enterRef_semPP_class fs l g _ cl t hr⟩
  have hcl : (sem fs).refClass g none = some .c := by
    simp only [Sem.refClass, sem_ext, hx]
  rw [enterRef_semPP, enterRef_sem_of_class fs l g _ .c hcl]

theorem congr_semPP (fs : FSMap) (hfam : CFam fs = true) : Congr (semPP fs) (sem fs) .c (MemoOK fs) where
  step_eq := rfl
  find_eq := rfl
  plat_eq := rfl
  stepP := fun file idx nd l h => stepNode_memoOK fs file idx nd l h
  findP := fun p inc dir h => (findForced_spec fs p inc dir h).1
  mkP := fun pname e plat h => mkPlatform_memoOK fs pname e plat h
  inh := enterAgree_inh fs hfam

theorem allC_ext {fs : FSMap} (h : AllC fs = true) {g : String} (hg : (fs.get g).isSome = true) :
    extClass g = some .c := by
  obtain ⟨ft, hft, hgt⟩ := get_isSome hg
  have := (List.all_eq_true.mp h) ft hft
  rw [hgt] at this
  simpa using this

/-- **one database entry, the instance**: on a C-family input the C-only record and the driver's record give the
same single-command analysis, for every fuel -/
theorem analyse_semPP_eq_sem (fs : FSMap) (n : Nat) (e : Entry) (hfam : CFam fs = true)
    (hfile : extClass e.file = some .c) (hforced : e.includeFiles = [] ∨ AllC fs = true) :
    analyse (semPP fs) n e = analyse (sem fs) n e := by
  unfold analyse
  rw [congr_entry (congr_semPP fs hfam) n "" e {} ?_ (enterAgree_top fs e.file hfile)]
  rcases hforced with h | h
  · exact Or.inl h
  · right
    intro p inc dir f p2 hP hf
    have hf' : (findForced fs p inc dir).1 = some f := by
      have : (semPP fs).findInc p inc dir = findForced fs p inc dir := rfl
      rw [this] at hf; rw [hf]
    exact enterAgree_top fs f (allC_ext h ((findForced_spec fs p inc dir hP).2 f hf'))

theorem enter_semPP_eq_sem (fs : FSMap) (f : String) (hx : extClass f = some .c) (w : XW) :
    (semPP fs).enter w f none = (sem fs).enter w f none := by
  simp only [Sem.enter, Sem.inhOrExt, Sem.mixOf, Sem.refClass, semPP_ext, sem_ext, semPP_parse, sem_parse, hx]

/-- **the whole run, the instance** -/
theorem findIN_eq_findRefG_sem (n : Nat) (fs : FSMap) (cb : List String) (cfg : Config Entry)
    (hok : ClassOK fs cb cfg = true) : findIN n fs cb cfg = findRefG (sem fs) n cb cfg := by
  rw [findIN_eq_findRefG]
  unfold ClassOK at hok
  simp only [Bool.and_eq_true, Bool.or_eq_true] at hok
  obtain ⟨⟨hfam, hfiles⟩, hforced⟩ := hok
  have hfiles' : ∀ f ∈ cb ++ entryFiles cfg, extClass f = some .c := by
    intro f hf
    simpa using (List.all_eq_true.mp hfiles) f hf
  unfold findRefG prep
  rw [preparse_congr (semPP fs) (sem fs) _ _ (fun f hf w => enter_semPP_eq_sem fs f (hfiles' f hf) w)]
  cases (preparse (sem fs) (cb ++ entryFiles cfg) {}).loc.err with
  | some er => rfl
  | none =>
    simp only []
    apply findG_congr
    intro j hj
    apply analyse_semPP_eq_sem fs n j.2 hfam
    · apply hfiles'
      apply List.mem_append_right
      exact (mem_entryFiles cfg _).mpr ⟨j, hj, rfl⟩
    · rcases hforced with h | h
      · left
        have := (List.all_eq_true.mp h) j hj
        simpa using this
      · exact Or.inr h

/-! ## Part D — the path layer of `Model/FindInc.lean` is the path layer of `PP/Find.lean` -/

theorem splitSlash_eq : ∀ (cs cur : List Char), Inc.splitSlash cs cur = slashSplit cs cur := by
  intro cs
  induction cs with
  | nil => intro cur; rfl
  | cons c cs ih =>
    intro cur
    simp only [Inc.splitSlash, slashSplit, ih]

theorem joinSlash_eq : ∀ (l : List String), Inc.joinSlash l = slashJoin l := by
  intro l
  induction l with
  | nil => rfl
  | cons a rest ih =>
    cases rest with
    | nil => rfl
    | cons b r => simp only [Inc.joinSlash, slashJoin, ih]

theorem normpathK_eq (p : String) : Inc.normpathK p = normpath p := by
  simp only [Inc.normpathK, normpath, components, splitSlash_eq, joinSlash_eq]

theorem joinPathK_eq (a b : String) : Inc.joinPathK a b = joinPath a b := rfl

theorem dirnameK_eq (p : String) : Inc.dirnameK p = dirname p := by
  simp only [Inc.dirnameK, dirname, components, splitSlash_eq]
  split <;> simp_all [joinSlash_eq]

end CbiVerif.FindEngines
