"""C11 — -D/-U/-I/-isystem/-include are extracted from any command line, robustly.

-U NAME (either spelling) is an option of the parser (`_UndefineAction`): the configuration's defines are the definitions
*in force* after processing -D / -U left to right (Spec/Extract.lean; theorems Props/C11Undef.lean).

Implementation: codebasin.config.ArgumentParser(argv0).parse_args(argv) (the call load_database makes),
                codebasin.CompileCommand(command=...).arguments, config.load_database
Model (Lean):   CbiVerif.Argparse.argparseModel (argparse subset driven by Generated/ArgTable.lean),
                CbiVerif.Shlex.commandArguments                                   driver op "c11"
Spec (Lean):    CbiVerif.Extract.extract / classes / Tame, CbiVerif.ShellQuote.shellJoin  (same op)
Full model:     CbiVerif.ArgparseFull.fullModel (`_parse_known_args` as written: O/A/- pattern, consume_positionals with
                the `file` positional, consume_optional, extras, class of abort)           driver op "c11full"
                compared with what the real `parser.parse_known_args` call returns (four lists separately,
                namespace.file, extras) on every vector of every stream of the fixed option table; on the random and
                realistic streams plain positionals are inserted at a place where the model is not waiting for a
                required argument (theorem C11Full.positionals_never_disturb) and the real parser must return the same lists.

Streams
  exhaustive  every vector of <= L elements over a catalogue of real gcc/clang/icx/nvcc flags, the modelled
              flags in both spellings with awkward values, and the shapes of the recorded findings
              (unrecognised compiler name => exactly the fixed option table);
  random      item-structured vectors of up to 40 elements;
  realistic   cmake-like command lines (only real shapes): measures how often real lines are Tame;
  compilers   the same items under gcc/clang/icx/nvcc... (compiler-specific options and implied defines):
              implementation vs spec only (user values must appear, in order, among the configured ones);
  database    compile_commands.json entries in `arguments` and in `command` form through load_database.
Every vector is also rendered as a shell-quoted command string and split again by CompileCommand.
"""
from __future__ import annotations

import argparse
import collections
import itertools
import json
import multiprocessing
import os
import sys

from harness import core

MODELLED = {"-D": "defines", "-I": "user", "-isystem": "system", "-include": "files", "-U": "undefs"}
LONG = ("-isystem", "-include")

# ---- catalogue -----------------------------------------------------------------------------------
# real options CBI does not model (an option that takes a separate argument is listed with one)
UNMODELLED_SINGLE = [
    "-g3", "-ggdb", "-gdwarf-4", "-O2", "-O", "-Ofast", "-g", "-c", "-Wall", "-Wextra", "-Werror=format",
    "-std=c++17", "-std=gnu11", "-MD", "-MMD", "-MP", "-fPIC", "-fno-exceptions", "-march=native", "-mavx2",
    "@build/flags.rsp", "-pthread", "-Wl,-rpath,/x", "--sysroot=/y", "-pipe", "-shared", "-L/usr/lib", "-lm",
    "-S", "-E", "-v", "-w", "-nostdinc", "-qopenmp", "-arch=sm_70", "-rdynamic", "-fsycl-unnamed-lambda",
    "-ffast-math", "-fvisibility=hidden", "-cxx-isystem/opt/cxx", "-Xclang", "-", "file.c", "src/a b.cpp",
    "--std=c++14", "-fdiagnostics-color=always", "-Winvalid-pch", "-iprefix/p", "-o-",
]
UNMODELLED_PAIR = [
    ("-MF", "x.d"), ("-MT", "t.o"), ("-ccbin", "g++"), ("-x", "c++"), ("-o", "out.o"),
    ("-Xcompiler", "-rdynamic"), ("-idirafter", "/after"), ("-iquote", "q"), ("-imacros", "m.h"),
    ("-isysroot", "/sr"), ("-cxx-isystem", "/cxx"), ("-c", "main.c"), ("-O", "x.c"), ("-target", "x86_64-linux"),
    ("--param", "max-inline=3"), ("-arch", "sm_80"),
]
VALUES = [
    "A", "A=1", "N=\"a b\"", "X='q'", "F(x)=(x+1)", "a b", "", "dir with space", "/abs/inc", "x=y=z", "=eq",
    "A=1#2", "back\\slash", "tab\there", "$HOME", "`id`", "é", "q\"uote", "-", "-1", "-x", "-Dfoo", "--", "-1.5", "--weird value",
]
# shapes of the recorded findings (and near misses)
EXOTIC = [
    "--", "-isystem/sys", "-include/pre.h", "-isystem=dir", "-include=f.h", "-I=rel", "-D=x", "-D--", "-I--",
    "-i", "-is", "-isys", "-isyste", "-in", "-inc", "-includ", "-isystemd", "-included", "-U=A", "-U--",
]
# -U in both spellings against the -D values of the catalogues (A, A=1, A=-1, N="a b", F(x)=(x+1), X='q', _GNU_SOURCE)
UNDEFS = ["-UA", "-UN", "-UF", "-UX", "-UNDEBUG", "-U_GNU_SOURCE", "-UA=1"]


def macro_name(d):
    """the macro a -D value defines: the text before the first '=' or '('"""
    for i, ch in enumerate(d):
        if ch in "=(":
            return d[:i]
    return d



def modelled_items():
    out = []
    for f in MODELLED:
        for v in VALUES:
            out.append(("sep", f, v))
            if v != "":
                out.append(("att", f, v))
    return out


def catalogue_full():
    """flat catalogue for the exhaustive enumeration (every element is one argument)"""
    cat = list(UNMODELLED_SINGLE)
    for a, b in UNMODELLED_PAIR:
        for x in (a, b):
            if x not in cat:
                cat.append(x)
    for f in MODELLED:
        cat.append(f)
    for x in ["A", "A=1", "N=\"a b\"", "a b", "", "inc", "-1", "-x", "=eq", "X='q'",
              "-DA", "-DA=1", "-DN=\"a b\"", "-DX='q'", "-D-x", "-DA=-1", "-Da b", "-Iinc", "-I/abs/inc", "-I-",
              "-Idir with space", "-I..", "-D_GNU_SOURCE", "-DF(x)=(x+1)", "-DV=1#2", "N", "F", "X"] + UNDEFS:
        if x not in cat:
            cat.append(x)
    for x in EXOTIC:
        if x not in cat:
            cat.append(x)
    return cat


def catalogue_core():
    """smaller catalogue for the deeper exhaustive bound: every kind of element once or twice"""
    return [
        "-D", "-I", "-isystem", "-include", "A=1", "inc", "N=\"a b\"", "-x", "-1", "", "-",
        "-DA", "-DX='q'", "-D-x", "-Iinc", "-Idir with space", "-I-",
        "-O2", "-O", "-g3", "-ggdb", "-g", "-c", "-o", "out.o", "-Wall", "-std=c++17", "-MF", "-MD", "-fPIC",
        "-ccbin", "-x", "-march=native", "@rsp", "file.c", "-pthread", "-Wl,-rpath,/x", "--sysroot=/y", "-cxx-isystem",
        "-iquote", "-UNDEBUG", "--", "-isystem/sys", "-include/pre.h", "-I=rel", "-i", "-isys", "-in", "-D--",
        "-U", "-UA", "A", "-DA=1",
    ]


def catalogue_mid():
    """full catalogue without near-duplicates (same kind of element for parser and property)"""
    drop = {"-gdwarf-4", "-Ofast", "-Wextra", "-std=gnu11", "-MMD", "-MP", "-fno-exceptions", "-mavx2", "-pipe", "-shared",
            "-lm", "-S", "-E", "-v", "-w", "-nostdinc", "-qopenmp", "-rdynamic", "-fsycl-unnamed-lambda", "-ffast-math",
            "-fvisibility=hidden", "-Xclang", "--std=c++14", "-fdiagnostics-color=always", "-Winvalid-pch", "t.o", "-MT",
            "-Xcompiler", "/after", "-idirafter", "q", "m.h", "-imacros", "/sr", "-isysroot", "/cxx", "main.c", "x.c",
            "-target", "x86_64-linux", "--param", "max-inline=3", "-arch", "sm_80", "-DA=1", "-DX='q'", "-I/abs/inc",
            "-I..", "-D_GNU_SOURCE", "-isyste", "-includ", "-isystemd", "-included", "-is", "-inc", "-U_GNU_SOURCE", "-UX", "X"}
    return [x for x in catalogue_full() if x not in drop]


def catalogue_mini():
    """one element of every kind, for the deepest exhaustive bound"""
    return [
        "-D", "-I", "-isystem", "-include", "A=1", "a b", "-x", "-1", "-",
        "-DA", "-D-x", "-Iinc", "-O2", "-O", "-g3", "-c", "-o", "-Wall", "-std=c++17", "-MF", "-ccbin", "@rsp", "file.c",
        "--sysroot=/y", "-cxx-isystem", "--", "-isystem/sys", "-I=rel", "-i", "-isys", "-D--", "-U", "-UA", "A",
    ]


# ---- Python twins of the Lean spec (used for the known-finding classifiers, and when the driver is down) ----
def reading(a):
    for f in MODELLED:
        if a.startswith(f):
            return ("sep", f, None) if a == f else ("att", f, a[len(f):])
    return ("other", None, None)


def py_extract(argv, cancel=True):
    lists = {"defines": [], "user": [], "system": [], "files": [], "undefs": []}

    def add(f, v):
        lists[MODELLED[f]].append(v)
        if f == "-U" and cancel:  # cancels the definitions of that macro made so far; a later -D defines it again
            lists["defines"] = [d for d in lists["defines"] if macro_name(d) != v]

    pend = None
    for a in argv:
        if pend is not None:
            add(pend, a)
            pend = None
            continue
        k, f, v = reading(a)
        if k == "sep":
            pend = f
        elif k == "att":
            add(f, v)
    return {"defines": lists["defines"], "include_paths": lists["user"] + lists["system"], "include_files": lists["files"]}


def plain_value(v):
    return v == "" or v == "-" or not v.startswith("-")


def tags_of1(a):
    t = []
    if a in ("--", "-D--", "-I--", "-U--"):
        t.append("D23")
    if a.startswith("-D=") or a.startswith("-I=") or a.startswith("-U="):
        t.append("D36")
    if any(a.startswith(f) and len(a) > len(f) for f in LONG):
        t.append("D21")
    if len(a) >= 2 and any(f.startswith(a) and len(a) < len(f) for f in LONG):
        t.append("D22abbrev")
    return t


def py_classes(argv):
    out = []
    pending = False
    for a in argv:
        if pending:
            if not plain_value(a):
                out.append("D22dash")
            pending = False
        elif a in MODELLED or a == "-o":
            pending = True
        else:
            out += tags_of1(a)
    if pending:
        out.append("dangling")
    return out


_SAFE = set("abcdefghijklmnopqrstuvwxyzABCDEFGHIJKLMNOPQRSTUVWXYZ0123456789_@%+=:,./-")


def quote_sq(s):
    """the spec's quoting (= shlex.quote)"""
    if not s:
        return "''"
    if all(c in _SAFE for c in s):
        return s
    return "'" + s.replace("'", "'\"'\"'") + "'"


def quote_dq(s):
    """double-quote style of the compilation-database specification: only `"` and `\\` are special"""
    return '"' + s.replace("\\", "\\\\").replace('"', '\\"') + '"'


def quote_bs(s):
    """backslash style: every unsafe character escaped (no newline: `\\<newline>` is a continuation in sh)"""
    if not s or "\n" in s:
        return quote_sq(s)
    return "".join(c if c in _SAFE else "\\" + c for c in s)


_SH_SPECIAL = set(" \t\n\r'\"\\$`;&|<>()*?[]~!{}^")


def quote_min(s):
    """what a careful shell user types: quote only what the shell would otherwise interpret
    (`#` starts a comment only at the beginning of a word)"""
    if not s or s[0] == "#" or any(c in _SH_SPECIAL or ord(c) < 32 for c in s):
        return quote_sq(s)
    return s


# finding id -> (tags that select it, outcome kinds the finding explains)
FINDINGS = {
    "D21": ({"D21"}, {"ok"}),
    "D22": ({"D22dash", "D22abbrev"}, None),
    "D23": ({"D23"}, {"ok"}),
    "D36": ({"D36"}, {"ok"}),
}


def explained_by(classes, outcome, argv=()):
    """ids of the recorded findings whose classifier accepts (classes of the input, kind of failure)"""
    ids = []
    cs = set(classes)
    for fid, (tags, kinds) in FINDINGS.items():
        hit = cs & tags
        if not hit:
            continue
        if fid == "D22":
            # the ambiguous prefix -i makes argparse exit during the up-front classification, wherever it stands
            ok = ("D22abbrev" in hit) or outcome == "ArgumentError" or (outcome == "SystemExit" and "-i" in argv)
        elif fid == "D23" and outcome == "TypeError":
            # the empty list that -D-- stored among the defines is filtered by a later -U (re.split on a list)
            ok = "-D--" in argv and any(a.startswith("-U") for a in list(argv)[list(argv).index("-D--") + 1:])
        else:
            ok = outcome in kinds
        if ok:
            ids.append(fid)
    return ids


# ---- implementation adapters ---------------------------------------------------------------------------
class Impl:
    def __init__(self):
        core.import_codebasin()
        import codebasin
        from codebasin import config

        self.cb = codebasin
        self.config = config
        self.devnull = open(os.devnull, "w")
        self.last_full = None
        # observe everything the parser call returns (the code only logs `unrecognized` and drops `file`)
        impl = self
        if not getattr(argparse.ArgumentParser.parse_known_args, "_c11_wrapped", False):
            orig = argparse.ArgumentParser.parse_known_args

            def wrapped(parser, args=None, namespace=None):
                ns, extras = orig(parser, args, namespace)
                try:
                    Impl.captured = {
                        "defines": list(ns.defines), "include_paths": list(ns.include_paths),
                        "system_include_paths": list(ns.system_include_paths), "include_files": list(ns.include_files),
                        "file": list(ns.file) if isinstance(getattr(ns, "file", None), list) else repr(getattr(ns, "file", None)),
                        "extras": list(extras),
                    }
                except Exception as e:  # noqa
                    Impl.captured = {"uncapturable": type(e).__name__}
                return ns, extras

            wrapped._c11_wrapped = True
            argparse.ArgumentParser.parse_known_args = wrapped

    captured = None

    def parse(self, argv0, argv):
        """all pass configurations, or the abort"""
        old = sys.stderr
        sys.stderr = self.devnull  # argparse prints its usage before SystemExit
        Impl.captured = None
        self.last_full = None
        try:
            cfgs = self.config.ArgumentParser(argv0).parse_args(list(argv))
        except argparse.ArgumentError:
            self.last_full = {"exc": "ArgumentError"}
            return {"exc": "ArgumentError"}
        except SystemExit:
            self.last_full = {"exc": "SystemExit"}
            return {"exc": "SystemExit"}
        except Exception as e:  # noqa
            self.last_full = {"exc": type(e).__name__}
            return {"exc": type(e).__name__}
        finally:
            sys.stderr = old
        self.last_full = {"ok": Impl.captured}
        return {"cfgs": [
            {"pass": c.pass_name, "defines": list(c.defines), "include_paths": list(c.include_paths), "include_files": list(c.include_files)}
            for c in cfgs]}

    def parse_default(self, argv0, argv):
        r = self.parse(argv0, argv)
        if "exc" in r:
            return r
        d = [c for c in r["cfgs"] if c["pass"] == "default"]
        if len(r["cfgs"]) != 1 or len(d) != 1:
            return {"exc": "passes:" + ",".join(c["pass"] for c in r["cfgs"])}
        c = d[0]
        return {"ok": {"defines": c["defines"], "include_paths": c["include_paths"], "include_files": c["include_files"]}}

    def parse_full(self, argv0, argv):
        """what the `parser.parse_known_args` call inside parse_args returned, or the class of the abort"""
        self.parse(argv0, argv)
        return self.last_full

    def command_arguments(self, cmd):
        try:
            return {"ok": self.cb.CompileCommand("main.c", command=cmd).arguments}
        except ValueError as e:
            return {"exc": str(e)}
        except Exception as e:  # noqa
            return {"exc": type(e).__name__}


def outcome_kind(r):
    return "ok" if "ok" in r or "cfgs" in r else r["exc"]


def canon_model(m):
    """driver reply -> same shape as Impl.parse_default"""
    return m


# ---- one evaluation -------------------------------------------------------------------------------------
class Acc:
    """what a worker sends back"""

    def __init__(self):
        self.evals = 0
        self.dist = collections.Counter()
        self.nontrivial = 0
        self.tame = collections.Counter()  # stream -> tame count
        self.total = collections.Counter()
        self.problems = []  # (kind, what, case, extra)
        self.known = {}
        self.samples = []
        self.notes = []
        self.full_ok = 0

    def problem(self, kind, what, case, extra=None):
        same = [i for i, p in enumerate(self.problems) if p[0] == kind]
        if len(same) < 12:
            self.problems.append((kind, what, case, extra))
        elif kind == "violation" and not py_classes(case.get("argv") or []):
            # keep the clearest witnesses: inputs without any recorded shape replace inputs with one
            for i in same:
                if py_classes(self.problems[i][2].get("argv") or []):
                    self.problems[i] = (kind, what, case, extra)
                    break


UNKNOWN_ARGV0 = "/usr/bin/cc"  # basename is not a compiler CBI knows: exactly the fixed option table


def evaluate(impl, drv, acc, stream, argv, argv0=UNKNOWN_ARGV0, rng=None, reply=None):
    case = {"argv0": argv0, "argv": list(argv), "stream": stream}
    got = impl.parse_default(argv0, argv)
    got_full = impl.last_full
    if reply is None and drv is not None:
        reply = drv.ask({"op": "c11full", "argv": list(argv), "argv0": argv0, "waits": rng is not None})
    classes = py_classes(argv)
    spec = py_extract(argv)
    if reply is not None:
        if reply["classes"] != classes or reply["spec"] != spec:
            acc.problem("twin", "Python twin of the spec differs from the Lean spec", case,
                        {"lean": [reply["classes"], reply["spec"]], "python": [classes, spec]})
            classes, spec = reply["classes"], reply["spec"]
    tame = not classes
    acc.evals += 1
    acc.total[stream] += 1
    if tame:
        acc.tame[stream] += 1
    n_mod = len(spec["defines"]) + len(spec["include_paths"]) + len(spec["include_files"])
    if any(a.startswith("-U") for a in argv):
        all_d = py_extract(argv, cancel=False)["defines"]
        acc.dist["undef:-U cancels a definition" if len(all_d) > len(spec["defines"]) else "undef:-U cancels nothing"] += 1
        gone = {macro_name(x) for x in (collections.Counter(all_d) - collections.Counter(spec["defines"]))}
        if any(macro_name(d) in gone for d in spec["defines"]):
            acc.dist["undef:macro defined again after its -U"] += 1
    kind = outcome_kind(got)
    acc.dist[f"{stream}:len={min(len(argv), 9) if len(argv) < 10 else '10+'}"] += 1
    acc.dist["outcome:" + kind] += 1
    acc.dist["tame" if tame else "class:" + "+".join(sorted(set(classes)))] += 1
    if n_mod >= 1 and len(argv) > n_mod and kind == "ok":
        acc.nontrivial += 1
    if not acc.samples and tame and kind == "ok" and n_mod >= 2 and len(argv) >= n_mod + 1:
        acc.samples.append(case)
    # (1) correspondence: implementation vs model
    if reply is not None and reply["model"] != got:
        acc.problem("corr", "c11", case, {"impl": got, "model": reply["model"]})
    # (1b) the full model: four lists separately, namespace.file, extras, class of abort
    if reply is not None and "full" in reply:
        if reply["full"] != got_full:
            acc.problem("corr", "c11full", case, {"impl": got_full, "model": reply["full"]})
        elif "ok" in got_full:
            f = got_full["ok"]
            acc.full_ok += 1
            # (1d) reference reading of the leftovers (Spec/Unrecognised.lean; statement C11Full.ExtrasAreExactlyUnrecognised,
            # tested here and proved (C11Extras.extras_are_exactly_unrecognised)): on a tame line the real extras / file are the unrecognised arguments / operands
            if tame and "leftover" in reply:
                acc.dist["leftover-oracle (tame, parsed)"] += 1
                if reply["leftover"] != {"file": f["file"], "extras": f["extras"]}:
                    acc.problem("corr", "c11full-leftover", case, {"impl": {"file": f["file"], "extras": f["extras"]}, "model": reply["leftover"]})
            if f["extras"]:
                acc.dist["full:extras non-empty"] += 1
            if f["file"]:
                acc.dist["full:file non-empty"] += 1
            pat = reply.get("pattern")
            if isinstance(pat, str) and f["file"] and any(x in f["extras"] for x in argv if not x.startswith("-")):
                acc.dist["full:later positional -> extras"] += 1
            if isinstance(pat, str) and "-" in pat:
                acc.dist["full:pattern with --"] += 1
        else:
            acc.dist["full:abort " + got_full["exc"]] += 1
        # (1c) C11Full.positionals_never_disturb on the real parser: plain positionals inserted where the model is not
        # waiting for a required argument leave the four lists (and the class of the outcome) unchanged
        if rng is not None and "waits" in reply:
            places = [i for i, w in enumerate(reply["waits"]) if not w]
            if places:
                i = rng.choice(places)
                ps = [rng.choice(["x.c", "", "dir/y z.cpp", "a=b", "@rsp", "o.o", "é.c"]) for _ in range(rng.randint(1, 3))]
                argv2 = list(argv[:i]) + ps + list(argv[i:])
                g2 = impl.parse_full(argv0, argv2)

                def four(r):
                    return {"exc": r["exc"]} if "exc" in r else {k: r["ok"][k] for k in ("defines", "include_paths", "system_include_paths", "include_files")}

                acc.dist["positional-insertion"] += 1
                if four(g2) != four(got_full):
                    m2 = drv.ask({"op": "c11full", "argv": argv2, "argv0": argv0})["full"] if drv is not None else None
                    acc.problem("corr", "c11full-positional-insertion", dict(case, inserted_at=i, inserted=ps, argv_with_positionals=argv2),
                                {"impl": {"without": four(got_full), "with": four(g2)}, "model": {"with": m2, "theorem": "C11Full.positionals_never_disturb"}})
    # (2) property: implementation vs spec
    if got != {"ok": spec}:
        if "dangling" in classes:
            acc.dist["ill-formed (flag without value at the end)"] += 1
        else:
            ids = explained_by(classes, kind, argv)
            if ids:
                new = [fid for fid in ids if fid not in acc.known]
                for fid in ids:
                    acc.known[fid] = acc.known.get(fid, 0) + 1
                if new:
                    acc.problem("known", f"{argv0} {argv!r}: implementation {json.dumps(got)} but the command line says {json.dumps(spec)}", case, new)
            else:
                acc.problem("violation", f"{argv0} {argv!r}: implementation {json.dumps(got)} but the command line says {json.dumps(spec)}", case)
    # (3) command string form == arguments form
    full = [argv0] + list(argv)
    styles = [quote_sq, quote_min]
    if rng is not None:
        styles.append(rng.choice([quote_dq, quote_bs, lambda s: rng.choice([quote_sq, quote_dq, quote_bs, quote_min])(s)]))
    for qi, q in enumerate(styles):
        cmd = " ".join(q(a) for a in full)
        back = impl.command_arguments(cmd)
        if back != {"ok": full}:
            acc.problem("violation", f"command form {cmd!r} is split into {json.dumps(back)}, arguments form is {full!r}",
                        dict(case, command=cmd))
        if qi == 0 and reply is not None:
            if reply["command"] != cmd:
                acc.problem("twin", "shell quoting twin differs from the Lean spec", case, {"lean": reply["command"], "python": cmd})
            if reply["split"] != back:
                acc.problem("corr", "c11split", dict(case, command=cmd), {"impl": back, "model": reply["split"]})
        elif drv is not None:
            ms = drv.ask({"op": "c11split", "s": cmd})["model"]
            if ms != back:
                acc.problem("corr", "c11split", dict(case, command=cmd), {"impl": back, "model": ms})
    return got, spec, classes


# ---- exhaustive enumeration in worker processes ------------------------------------------------------------
_W = {}


def _winit(use_driver):
    _W["impl"] = Impl()
    _W["drv"] = core.Driver() if use_driver else None


def _wrun(task):
    stream, cat, length, lo, hi = task
    impl, drv = _W["impl"], _W["drv"]
    acc = Acc()
    n = len(cat)
    B = 2000
    for start in range(lo, hi, B):
        idxs = range(start, min(hi, start + B))
        vecs = []
        for i in idxs:
            v = []
            x = i
            for _ in range(length):
                v.append(cat[x % n])
                x //= n
            vecs.append(v)
        replies = drv.batch([{"op": "c11full", "argv": v, "argv0": UNKNOWN_ARGV0} for v in vecs]) if drv is not None else [None] * len(vecs)
        for v, r in zip(vecs, replies):
            evaluate(impl, drv, acc, stream, v, reply=r)
    return acc


def exhaustive(ctx, use_driver, plan, workers):
    """plan: list of (stream, catalogue, length)"""
    tasks = []
    for stream, cat, length in plan:
        total = len(cat) ** length
        chunk = max(2000, min(60000, total // (workers * 4) + 1))
        for lo in range(0, total, chunk):
            tasks.append((stream, cat, length, lo, min(total, lo + chunk)))
    mp = multiprocessing.get_context("fork")
    with mp.Pool(workers, initializer=_winit, initargs=(use_driver,)) as pool:
        for acc in pool.imap_unordered(_wrun, tasks):
            merge(ctx, acc)


class CountSet:
    """ctx.nontrivial replacement: exhaustive streams enumerate pairwise distinct inputs, so they are counted."""

    def __init__(self):
        self.n = 0
        self.s = set()

    def add(self, k):
        self.s.add(k)

    def bump(self, n):
        self.n += n

    def __len__(self):
        return self.n + len(self.s)


def merge(ctx, acc, distinct=True):
    ctx.evaluations += acc.evals
    ctx.dist.update(acc.dist)
    ctx.extra["full_model_compared_ok_outcomes"] = ctx.extra.get("full_model_compared_ok_outcomes", 0) + acc.full_ok
    und = ctx.extra.setdefault("undefine_lines", {})
    for k, v in acc.dist.items():
        if k.startswith("undef:"):
            und[k[6:]] = und.get(k[6:], 0) + v
    if distinct:
        ctx.nontrivial.bump(acc.nontrivial)
    st = ctx.extra.setdefault("tame_rate", {})
    for k, v in acc.total.items():
        e = st.setdefault(k, {"command_lines": 0, "tame": 0})
        e["command_lines"] += v
        e["tame"] += acc.tame.get(k, 0)
    sampled = ctx.extra.setdefault("_sampled", {})
    for s in acc.samples:
        if sampled.get(s["stream"], 0) < 1:
            sampled[s["stream"]] = sampled.get(s["stream"], 0) + 1
            ctx.sample(s, cap=8)
    seen = ctx.extra.setdefault("known_finding_inputs", {})
    for fid, n in acc.known.items():
        seen[fid] = seen.get(fid, 0) + n
    for kind, what, case, extra in acc.problems:
        if kind == "violation":
            if len(ctx.violations) >= 20 and not py_classes(case.get("argv") or []):
                for i, (_, c) in enumerate(ctx.violations):
                    if py_classes(c.get("argv") or []):
                        ctx.violations[i] = (what, case)
                        break
            else:
                ctx.violation(what, case)
        elif kind == "known":
            for fid in extra:
                ctx.classify(case, what, [(fid, lambda c: True)])
        elif kind == "corr":
            ctx.corr_break(what, case, extra["impl"], extra["model"])
        elif kind == "twin":
            if len(ctx.notes) < 10:
                ctx.notes.append(f"{what}: {json.dumps(case)[:200]} {json.dumps(extra)[:300]}")
            ctx.corr_break("c11-spec-twin", case, extra.get("python"), extra.get("lean"))
    ctx.notes.extend(acc.notes[:3])


# ---- generators ---------------------------------------------------------------------------------------
def rand_value(rng, dash_p=0.15):
    if rng.random() < 0.6:
        v = rng.choice(VALUES)
        if v.startswith("-") and v != "-" and rng.random() >= dash_p:
            v = "v" + v
        return v
    alphabet = "abAB01_=-+./ \"'\\$`(),:@%é\t"
    v = "".join(rng.choice(alphabet) for _ in range(rng.randint(0, 8)))
    if v.startswith("-") and v != "-" and rng.random() >= dash_p:
        v = "v" + v
    return v


def undef_target(rng, argv):
    """a name for -U: with probability 0.6 the macro of a -D already on the line (both spellings), else None"""
    names = [macro_name(v) for k, f, v in (reading(a) for a in argv) if k == "att" and f == "-D"]
    names += [macro_name(argv[i + 1]) for i in range(len(argv) - 1) if argv[i] == "-D"]
    names = [x for x in names if x and not x.startswith("-") and x != "--"]
    if names and rng.random() < 0.6:
        return rng.choice(names)
    return None


def rand_items(rng, n, exotic_p=0.04, known_compiler=False):
    argv = []
    while len(argv) < n:
        r = rng.random()
        if r < exotic_p:
            argv.append(rng.choice(EXOTIC))
        elif r < 0.40:
            argv.append(rng.choice(UNMODELLED_SINGLE))
        elif r < 0.55:
            argv.extend(rng.choice(UNMODELLED_PAIR))
        elif r < 0.80:
            f = rng.choice(list(MODELLED))
            argv.extend([f, (undef_target(rng, argv) if f == "-U" else None) or rand_value(rng, dash_p=4 * exotic_p)])
        else:
            f = rng.choice(list(MODELLED))
            v = (undef_target(rng, argv) if f == "-U" else None) or rand_value(rng, dash_p=1.0)
            if f in LONG or v.startswith("=") or v == "--":
                if rng.random() >= 4 * exotic_p:
                    f = rng.choice(["-D", "-I"])
                    v = "v" + v
            argv.append(f + v if v else f + "x")
    return argv[:n] if rng.random() < 0.1 else argv


def realistic(rng):
    """a cmake / make style compile command: only shapes that occur in practice"""
    argv = []
    singles = [x for x in UNMODELLED_SINGLE if x not in ("-", "-o-", "src/a b.cpp", "file.c", "@build/flags.rsp")]
    pairs = [p for p in UNMODELLED_PAIR if p[0] not in ("-c", "-O", "-o")]
    names = ["NDEBUG", "VERSION=\"1.2\"", "USE_MPI", "N=32", "_GNU_SOURCE", "PATH_MAX=4096", "F(x)=(x)", "STR='a'", "EMPTY="]
    dirs = ["include", "/usr/include/mpi", "../third_party/inc", "build/gen", "src", "/opt/My SDK/include", "."]
    for _ in range(rng.randint(2, 18)):
        r = rng.random()
        if r < 0.35:
            argv.append(rng.choice(singles))
        elif r < 0.45:
            argv.extend(rng.choice(pairs))
        elif r < 0.64:
            argv.extend(["-D" + rng.choice(names)] if rng.random() < 0.85 else ["-D", rng.choice(names)])
        elif r < 0.70:
            u = macro_name(rng.choice(names))
            argv.extend(["-U" + u] if rng.random() < 0.85 else ["-U", u])
        elif r < 0.88:
            d = rng.choice(dirs)
            argv.extend(["-I" + d] if rng.random() < 0.8 else ["-I", d])
        elif r < 0.95:
            argv.extend(["-isystem", rng.choice(dirs)])
        else:
            argv.extend(["-include", rng.choice(["config.h", "pch/pre.hpp", "/abs/force.h"])])
    src = rng.choice(["main.c", "src/kernel.cpp", "a/b/c.cu"])
    argv += ["-o", src + ".o", "-c", src]
    return argv


def implied_values(config):
    """values a compiler definition may add on its own (modes, passes, options, append_const to a list)"""
    if not config._compilers:
        config._load_compilers()
    out = {"defines": set(), "include_paths": set(), "include_files": set()}
    for c in config._compilers.values():
        for coll in (c.modes, c.passes):
            for m in coll.values():
                out["defines"].update(m.defines)
                out["include_paths"].update(m.include_paths)
                out["include_files"].update(m.include_files)
        for o in c.options:
            if o.startswith("-D"):
                out["defines"].add(o[2:])
        for o in c.parser:
            if o.get("action") == "append_const" and o.get("dest") in out:
                out[o["dest"]].add(o["const"])
    return out


def embedded(spec_list, impl_list, implied):
    """impl_list = spec_list with implied values interleaved"""
    i = 0
    for x in impl_list:
        if i < len(spec_list) and x == spec_list[i]:
            i += 1
        elif isinstance(x, str) and x in implied:
            continue
        else:
            return False
    return i == len(spec_list)


def compiler_specific(config, name):
    """option strings of the (alias-resolved) compiler definition"""
    seen = set()
    while name in config._compilers and name not in seen:
        seen.add(name)
        c = config._compilers[name]
        if c.alias_of:
            name = c.alias_of
            continue
        return [(f, o) for o in c.parser for f in o["flags"]]
    return []


def compilers_stream(ctx, impl, drv, n):
    """known compilers: the user's values must appear, in order, in every pass configuration"""
    config = impl.config
    implied = implied_values(config)
    names = sorted(config._compilers)
    extra_flags = ["-fopenmp", "-fsycl", "-fsycl-targets=spir64_gen", "--gpu-architecture=sm_80", "-fopenmp=libomp",
                   "-fsycl-is-device", "-gencode=arch=compute_75,code=sm_75", "-fopenmp-simd"]
    acc = Acc()
    for _ in range(n):
        name = ctx.rng.choice(names)
        argv = rand_items(ctx.rng, ctx.rng.randint(1, 12), exotic_p=0.0)
        for _ in range(ctx.rng.randint(0, 2)):
            argv.insert(ctx.rng.randint(0, len(argv)), ctx.rng.choice(extra_flags))
        argv0 = ctx.rng.choice(["", "/opt/bin/"]) + name
        classes = py_classes(argv)
        spec = py_extract(argv)
        case = {"argv0": argv0, "argv": argv, "stream": "compilers"}
        got = impl.parse(argv0, argv)
        acc.evals += 1
        acc.total["compilers"] += 1
        if not classes:
            acc.tame["compilers"] += 1
        acc.dist["compilers:" + name] += 1
        kind = outcome_kind(got)
        acc.dist["compilers-outcome:" + kind] += 1
        ok = "cfgs" in got and all(
            embedded(spec[k], c[k], implied[k]) for c in got["cfgs"] for k in ("defines", "include_paths", "include_files"))
        if ok:
            if spec["defines"] or spec["include_paths"] or spec["include_files"]:
                acc.nontrivial += 1
                if not acc.samples:
                    acc.samples.append(case)
            continue
        if "dangling" in classes:
            continue
        # FLAG=value for a zero-argument option of this compiler's own definition (C12's subject, recorded here as D37)
        own = compiler_specific(config, name)
        d37 = any(a.split("=", 1)[0] == f and "=" in a and o.get("action") == "append_const" for a in argv for f, o in own)
        what = f"{argv0} {argv!r}: implementation {json.dumps(got)[:300]} but the command line says {json.dumps(spec)}"
        ids = explained_by(classes, kind, argv)
        if d37 and kind == "ArgumentError":
            ids.append("D37")
        if ids:
            new = [fid for fid in ids if fid not in acc.known]
            for fid in ids:
                acc.known[fid] = acc.known.get(fid, 0) + 1
            if new:
                acc.problem("known", what, case, new)
        else:
            acc.problem("violation", what, case)
    merge(ctx, acc, distinct=False)
    ctx.nontrivial.bump(0)


def database_stream(ctx, impl, n):
    """load_database: `arguments` form and `command` form of the same entry give the same configuration"""
    config = impl.config
    acc = Acc()
    with core.Scratch() as d:
        (d / "sub").mkdir()
        (d / "sub" / "main.c").write_text("int x;\n")
        cases = []
        for _ in range(n):
            argv = realistic(ctx.rng) if ctx.rng.random() < 0.5 else rand_items(ctx.rng, ctx.rng.randint(1, 10), exotic_p=0.0)
            if py_classes(argv):
                continue
            if any("\x00" in a for a in argv):
                continue
            cases.append(argv)
            # a twin command with the same option spellings whose SEPARATE-form values differ (two entries of one database
            # that share every dash-prefixed argument: a per-database cache keyed on the flags alone would confuse them)
            if ctx.rng.random() < 0.35:
                twin, changed = list(argv), False
                for i in range(len(twin) - 1):
                    if twin[i] in ("-D", "-I", "-isystem", "-include") and not twin[i + 1].startswith("-"):
                        twin[i + 1] = twin[i + 1] + ("_t" if twin[i] == "-D" and "=" not in twin[i + 1] else "2")
                        changed = True
                if changed and not py_classes(twin):
                    cases.append(twin)
        db = []
        for argv in cases:
            full = ["cc"] + argv
            db.append({"file": "main.c", "directory": str(d / "sub"), "arguments": full})
            db.append({"file": "main.c", "directory": str(d / "sub"), "command": " ".join(quote_sq(a) for a in full)})
        p = d / "compile_commands.json"
        p.write_text(json.dumps(db))
        def load(path):
            old = sys.stderr
            sys.stderr = impl.devnull
            try:
                return config.load_database(str(path), str(d)), None
            except (Exception, SystemExit) as e:  # noqa
                return None, f"{type(e).__name__}: {e}"
            finally:
                sys.stderr = old

        entries, err = load(p)
        if err is not None:
            # find one command line that aborts on its own
            culprit = None
            for argv in cases:
                q = d / "one.json"
                q.write_text(json.dumps([{"file": "main.c", "directory": str(d / "sub"), "arguments": ["cc"] + argv}]))
                if load(q)[1] is not None:
                    culprit = argv
                    break
            acc.problem("violation", f"load_database aborts with {err} on a database of tame command lines"
                        + (f", e.g. on {culprit!r}" if culprit else ""),
                        {"stream": "database", "argv0": "cc", "argv": culprit or [], "argvs": cases[:20]})
        if entries is not None:
            if len(entries) != 2 * len(cases):
                acc.problem("violation", f"load_database returned {len(entries)} entries for {2 * len(cases)} commands",
                            {"stream": "database", "argvs": cases[:50]})
            else:
                for i, argv in enumerate(cases):
                    a, c = entries[2 * i], entries[2 * i + 1]
                    spec = py_extract(argv)
                    want = {
                        "defines": spec["defines"],
                        "include_paths": [os.path.abspath(os.path.join(str(d / "sub"), x)) for x in spec["include_paths"]],
                        "include_files": spec["include_files"],
                    }
                    acc.evals += 1
                    acc.total["database"] += 1
                    acc.tame["database"] += 1
                    ga = {k: a[k] for k in want}
                    gc = {k: c[k] for k in want}
                    case = {"argv0": "cc", "argv": argv, "stream": "database"}
                    if ga != gc:
                        acc.problem("violation", f"load_database: arguments form gives {json.dumps(ga)}, command form {json.dumps(gc)}", case)
                    elif ga != want:
                        acc.problem("violation", f"load_database entry {json.dumps(ga)} but the command line says {json.dumps(want)}", case)
                    elif spec["defines"] or spec["include_paths"]:
                        acc.nontrivial += 1
                        if not acc.samples:
                            acc.samples.append(case)
    merge(ctx, acc, distinct=False)


def minimise(impl, case):
    """drop arguments while the implementation still contradicts the spec outside every recorded class"""
    argv0 = case["argv0"]

    def bad(argv):
        classes = py_classes(argv)
        if classes:
            return False
        got = impl.parse_default(argv0, argv)
        return got != {"ok": py_extract(argv)}

    argv = list(case["argv"])
    if "command" in case or case.get("stream") in ("compilers", "database") or not bad(argv):
        return case
    changed = True
    while changed:
        changed = False
        for i in range(len(argv)):
            for w in (2, 1):
                cand = argv[:i] + argv[i + w:]
                if len(cand) < len(argv) and bad(cand):
                    argv = cand
                    changed = True
                    break
            if changed:
                break
    return dict(case, argv=argv, minimised_from=case["argv"])


# ---- entry points --------------------------------------------------------------------------------------------
def run(ctx, drv):
    impl = Impl()
    if not isinstance(ctx.nontrivial, CountSet):
        ctx.nontrivial = CountSet()
    deep = ctx.thorough() or ctx.budget_scale > 1
    full, corecat = catalogue_full(), catalogue_core()
    ctx.rule = (
        f"argument vectors over a catalogue of {len(full)} elements ({len(UNMODELLED_SINGLE) + len(UNMODELLED_PAIR)} real "
        "gcc/clang/icx/nvcc options CBI does not model, the modelled flags -D/-U/-I/-isystem/-include in both spellings with values containing =, quotes, blanks, "
        f"leading dashes, -U of the catalogue's macros before and after their -D, and the shapes of the recorded findings): exhaustive for <= 2 elements over the full catalogue and <= 3 over a "
        f"{len(corecat)}-element core catalogue (quick); additionally <= 3 over {len(catalogue_mid())} elements (the full catalogue without near-duplicates) and "
        f"<= 4 over {len(catalogue_mini())} elements, one of every kind (thorough); item-structured random vectors up to 40 elements; "
        "cmake-like realistic lines; the same under the compilers CBI knows; compile_commands.json entries in both forms. "
        "Each vector is also rendered as a shell-quoted command string (4 quoting styles) and split by CompileCommand. "
        "On every vector of the fixed-table streams the real parser.parse_known_args result (four lists separately, namespace.file, extras, "
        "class of abort) is compared with the full Lean model of _parse_known_args (op c11full); on the random/realistic streams plain "
        "positionals are inserted at a place where the model is not inside a flag/value pair and the real parser must return the same lists. "
        "-U: the random streams name the macro of a -D already on the line in 60 % of the -U items (both spellings), the realistic stream undefines its own names. "
        "Non-trivial = the implementation returns a configuration, the line contains at least one modelled value and at least one other argument."
    )
    ctx.assumptions += [
        "well-formed command line = no flag that needs a value is the last argument (every compiler rejects those); "
        "an abort or a differing configuration on any other command line is a violation unless it has a recorded shape (D21, D22, D23, D36, D37)",
        "the compiler name of the exhaustive/random streams is one CBI does not know (exactly the fixed option table); compiler-specific "
        "options and implied defines are C12's subject and are only checked here for not disturbing the user's values",
        "arguments are ASCII plus a few non-digit non-ASCII letters (Python's \\d and Lean's isDigit differ on non-ASCII digits)",
        "shell quoting of the command form: shlex.quote style (the spec), minimal sh quoting (only what a POSIX shell would interpret), "
        "double-quote style with only \\\" and \\\\ escaped (compilation-database specification), backslash style",
    ]
    use_driver = drv is not None
    workers = max(1, min(12 if ctx.thorough() else 8, (os.cpu_count() or 2) - 1))
    # corpus
    for f in sorted((core.VERIF / "corpus" / "C11").glob("*.json")):
        c = json.loads(f.read_text())
        acc = Acc()
        evaluate(impl, drv, acc, "corpus", c["argv"], c.get("argv0", UNKNOWN_ARGV0), rng=ctx.rng)
        merge(ctx, acc)
    # exhaustive
    mid, mini = catalogue_mid(), catalogue_mini()
    plan = [("exhaustive-full", full, L) for L in (0, 1, 2)] + [("exhaustive-core", corecat, 3)]
    if deep:
        plan += [("exhaustive-mid", mid, 3)]
    if ctx.thorough():
        plan += [("exhaustive-mini", mini, 4)]
    exhaustive(ctx, use_driver, plan, workers)
    ctx.exhaustive = True
    ctx.extra["exhaustive_bounds"] = [{"stream": s, "catalogue": len(c), "length": L, "vectors": len(c) ** L} for s, c, L in plan]
    # random, long
    acc = Acc()
    seen = set()
    for _ in range(ctx.n(2500, 40000)):
        argv = rand_items(ctx.rng, ctx.rng.choice([1, 2, 3, 5, 8, 13, 21, 30, 40]), exotic_p=ctx.rng.choice([0.0, 0.0, 0.03, 0.1]))
        k = tuple(argv)
        if k in seen:
            continue
        seen.add(k)
        evaluate(impl, drv, acc, "random", argv, rng=ctx.rng)
    for _ in range(ctx.n(1500, 20000)):
        argv = realistic(ctx.rng)
        k = tuple(argv)
        if k in seen:
            continue
        seen.add(k)
        evaluate(impl, drv, acc, "realistic", argv, rng=ctx.rng)
    merge(ctx, acc)
    compilers_stream(ctx, impl, drv, ctx.n(2500, 30000))
    database_stream(ctx, impl, ctx.n(150, 1500))
    # shlex model vs implementation on arbitrary (also ill-formed) command strings
    if drv is not None:
        alphabet = "ab -D'\"\\ \t\n=x"
        reqs, strs = [], []
        for _ in range(ctx.n(3000, 40000)):
            s = "".join(ctx.rng.choice(alphabet) for _ in range(ctx.rng.randint(0, 10)))
            strs.append(s)
            reqs.append({"op": "c11split", "s": s})
        for s, r in zip(strs, drv.batch(reqs)):
            ctx.count(key="shlex:" + ("ok" if "ok" in r["model"] else "error"))
            back = impl.command_arguments(s)
            if back != r["model"]:
                ctx.corr_break("c11split", {"command": s, "stream": "shlex"}, back, r["model"])
    # minimise what will be reported
    # tame, short inputs first
    ctx.violations.sort(key=lambda wc: (bool(py_classes(wc[1].get("argv", []))), len(wc[1].get("argv", []))))
    ctx.violations[:] = [(w, minimise(impl, c)) for w, c in ctx.violations]
    ctx.extra.pop("_sampled", None)
    tr = ctx.extra.get("tame_rate", {})
    for k, e in tr.items():
        e["tame_fraction"] = round(e["tame"] / e["command_lines"], 4) if e["command_lines"] else None


def search(ctx, drv):
    run(ctx, drv)


def replay(ctx, drv, case):
    impl = Impl()
    out = {}
    if "command" in case and "argv" not in case:
        out["implementation"] = impl.command_arguments(case["command"])
        if drv is not None:
            out["model"] = drv.ask({"op": "c11split", "s": case["command"]})["model"]
        return out
    if "argvs" in case and not case.get("argv"):
        return {"note": "database case: see the listed command lines", "argvs": case["argvs"][:5]}
    argv0, argv = case.get("argv0", UNKNOWN_ARGV0), case["argv"]
    if not impl.config._compilers:
        impl.config._load_compilers()
    known = os.path.basename(argv0) in impl.config._compilers
    out["implementation"] = impl.parse(argv0, argv) if known else impl.parse_default(argv0, argv)
    out["spec"] = py_extract(argv)
    out["classes"] = py_classes(argv)
    cmd = case.get("command") or " ".join(quote_sq(a) for a in [argv0] + argv)
    out["command"] = cmd
    out["implementation_split"] = impl.command_arguments(cmd)
    if drv is not None:
        r = drv.ask({"op": "c11full", "argv": argv, "argv0": argv0, "views": True, "waits": True})
        out["model"] = r["model"] if not known else "(the Lean model covers the fixed option table only)"
        if not known:
            out["implementation_parse_known_args"] = impl.parse_full(argv0, argv)
            out["full_model"] = r.get("full")
            out["pattern"] = r.get("pattern")
            out["waits_for_value_after_prefix"] = r.get("waits")
        if case.get("argv_with_positionals"):
            a2 = case["argv_with_positionals"]
            out["with_positionals"] = {"argv": a2, "implementation_parse_known_args": impl.parse_full(argv0, a2),
                                       "full_model": drv.ask({"op": "c11full", "argv": a2, "argv0": argv0}).get("full")}
        out["lean_spec"] = r["spec"]
        out["lean_classes"] = r["classes"]
        out["tame"] = r["tame"]
        out["views"] = r.get("views")
        out["model_split"] = drv.ask({"op": "c11split", "s": cmd})["model"]
    return out
