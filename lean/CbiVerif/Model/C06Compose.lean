import CbiVerif.Model.CClean
import CbiVerif.PP.Analyse
import CbiVerif.Model.Setmap
import CbiVerif.Model.Coverage
import CbiVerif.Spec.C06
import CbiVerif.Spec.CLexRef
/-!
C06, composed — from SOURCE TEXT to the setmap and the coverage export.

The pipeline is put together from the definitions the other properties' theorems are about; nothing is re-implemented:

* `CClean.parseFile` (C05: `c_file_source` + the `LineGroup` folding of `FileParser.parse_file`) gives the node list of a
  text: kind (code / directive), `lines`, `num_lines`;
* the text of the k-th directive node is the text of the k-th yielded directive logical line of the same
  `CClean.cFileSource` run (`dirTexts`), handed to `PP.parseDirective` (`DirectiveParser.parse`, C01's parse layer): `attach`;
* `PP.analyseNodes` (C01: `SourceTree.insert` + the associator with `Platform.define`) is run once per configuration entry
  (one compile command = one `-D` list) of every platform, in configuration order, as `finder.find` does after it has
  parsed every file;
* the platform set of a node is the list of platforms one of whose entries for that file attributed the node
  (`association[node].add(platform.name)`);
* `SM.getSetmap` / `Cov.compute` (C06) are applied to the resulting analysis result.

Restrictions (stated, and respected by the generator of the correspondence stream): the code base has no `#include`
that resolves and no `-include` (cross-file attribution is C04's layer: in this single-file composition `#include` is a
no-op, which is what the code does for an include that is not found), every configuration entry names a file of the code
base, files are regular files (symbolic links are covered by the analysis-result-level streams), platform names are
distinct and given in sorted order (so that a sub-list is the canonical form of a `frozenset`).

The reference side (`refKeeps`, `specPlats`, `specLineAttr`) is written from the property text: a counted line (C05
specification `CLexRef`) is used by a platform iff the ISO C conditional-inclusion reference machine of C01
(`PP.referenceNodes`) does not skip it under one of the platform's `-D` lists.

Core Lean only.
-/
namespace CbiVerif.C06C
open CbiVerif.SM

/-- `[f(x) for x in xs]` where `f` may raise: the first exception ends the loop -/
def mapE {α β ε : Type} (f : α → Except ε β) : List α → Except ε (List β)
  | [] => .ok []
  | a :: as =>
    match f a with
    | .error e => .error e
    | .ok b =>
      match mapE f as with
      | .error e => .error e
      | .ok bs => .ok (b :: bs)

/-- the exceptions of `c_file_source` / `parse_file` in the error type of the C01 layer -/
def errOf : CClean.Err → PP.Err
  | .finalBackslash => .runtime "file seems to end in \\ with no newline!"
  | .notTopLevel => .runtime "Parser must end at top level without 'relaxed' mode."
  | .inconsistent => .runtime "Inconsistent parser state"

/-- `flushed_line` of the yielded logical lines that `parse_file` treats as directives (`FileParser.is_directive`:
    category `CPP_DIRECTIVE`, first token not `##`), in source order -/
def dirTexts (t : List Char) : List (List Char) :=
  (((CClean.cFileSource t).all.filter CClean.LLine.yielded).filter CClean.LLine.isDirective).map CClean.LLine.text

/-- the C05 node list with the payload of every directive node: the k-th directive node is
    `DirectiveParser(Lexer(text_k).tokenize()).parse()` of the k-th directive line -/
def attach : List CClean.Node → List (List Char) → Except PP.Err (List PP.PNode)
  | [], _ => .ok []
  | n :: ns, ds =>
    match n.kind with
    | .code =>
      match attach ns ds with
      | .error e => .error e
      | .ok r => .ok ({ kind := .code, lines := n.lines } :: r)
    | .directive =>
      match ds with
      | [] => .error .index
      | d :: ds' =>
        match PP.parseDirective (String.ofList d) n.lines with
        | .error e => .error e
        | .ok p =>
          match attach ns ds' with
          | .error e => .error e
          | .ok r => .ok (p :: r)

/-- one parsed file: the C05 node list and the same list with directive payloads -/
structure Parsed where
  nodes : List CClean.Node
  pnodes : List PP.PNode

/-- the node list of `FileParser(path).parse_file()` on the decoded text, with directive payloads -/
def cPNodes (t : List Char) : Except PP.Err Parsed :=
  match CClean.parseFile t with
  | .error e => .error (errOf e)
  | .ok r =>
    match attach r.nodes (dirTexts t) with
    | .error e => .error e
    | .ok pn => .ok ⟨r.nodes, pn⟩

/-- `FileParser(path).parse_file()` on the decoded text.  The source tree is built while the file is parsed
    (`SourceTree.insert` per node): a stray `#elif/#else/#endif` is an `AttributeError` of `insert_file`, whether or not
    any platform compiles the file. -/
def parseSrc (t : List Char) : Except PP.Err Parsed :=
  match cPNodes t with
  | .error e => .error e
  | .ok p => if (Cond.build (PP.labels p.pnodes)).isNone then .error .type_ else .ok p

/-- a file of the code base: path components below the root, decoded text -/
structure SrcFile where
  path : List String
  text : List Char

/-- one entry of `configuration[p]`: the file compiled and its `-D` list -/
structure Entry where
  file : List String
  defs : List String

structure Plat where
  name : String
  entries : List Entry

/-- per node: was it attributed (`association[node].add(platform.name)` executed) -/
def flagsOf (rows : List PP.Row) : List Bool := rows.map (·.2.2)

/-- `state.get_tree(e["file"])` -/
def lookup (files : List SrcFile) (ps : List Parsed) (p : List String) : Option Parsed :=
  ((files.zip ps).find? fun x => x.1.path == p).map (·.2)

abbrev Run := List String × List Bool

/-- `state.associate(e["file"], file_platform)` with the entry's defines -/
def runEntry (files : List SrcFile) (ps : List Parsed) (e : Entry) : Except PP.Err Run :=
  match lookup files ps e.file with
  | none => .error .index
  | some p =>
    match PP.analyseNodes p.pnodes e.defs with
    | .error er => .error er
    | .ok rows => .ok (e.file, flagsOf rows)

def runPlat (files : List SrcFile) (ps : List Parsed) (p : Plat) : Except PP.Err (String × List Run) :=
  match mapE (runEntry files ps) p.entries with
  | .error e => .error e
  | .ok rs => .ok (p.name, rs)

/-- `platform.name in association[node]` for node `j` of the file `path` -/
def attributed (runs : List Run) (path : List String) (j : Nat) : Bool :=
  runs.any fun r => r.1 == path && r.2.getD j false

/-- `frozenset(association[node])` -/
def platsOf (pr : List (String × List Run)) (path : List String) (j : Nat) : Key :=
  (pr.filter fun p => attributed p.2 path j).map (·.1)

def nodeRecs (pr : List (String × List Run)) (path : List String) (ns : List CClean.Node) : List NodeRec :=
  ns.zipIdx.map fun x => ⟨platsOf pr path x.2, x.1.numLines, x.1.lines⟩

def mkRec (pr : List (String × List Run)) (x : SrcFile × Parsed) : FileRec :=
  ⟨x.1.path, false, nodeRecs pr x.1.path x.2.nodes⟩

/-- `finder.find(rootdir, codebase, configuration)` seen through `tree.walk()` / `association`: every file is parsed
    first, then every entry of every platform is associated; the first exception ends the analysis -/
def analyse (files : List SrcFile) (plats : List Plat) : Except PP.Err (List FileRec) :=
  match mapE (fun f => parseSrc f.text) files with
  | .error e => .error e
  | .ok ps =>
    match mapE (runPlat files ps) plats with
    | .error e => .error e
    | .ok pr => .ok ((files.zip ps).map (mkRec pr))

/-- `state.get_setmap(codebase)` of the texts -/
def setmapOfTexts (files : List SrcFile) (plats : List Plat) : Except PP.Err Setmap :=
  match analyse files plats with
  | .error e => .error e
  | .ok fs => .ok (getSetmap fs)

/-- the records of the coverage export of the texts -/
def coverageOfTexts (files : List SrcFile) (plats : List Plat) : Except PP.Err (List (List String × CbiVerif.Cov.Split)) :=
  match analyse files plats with
  | .error e => .error e
  | .ok fs => .ok (CbiVerif.Cov.compute fs)

/-! ## reference side -/

/-- the reference preprocessor run (ISO C conditional inclusion, C's `#define`) with this `-D` list accepts the unit:
    no structural diagnostic, no unterminated `#if`, no macro redefinition -/
def refAccepts (pn : List PP.PNode) (defs : List String) : Bool :=
  match PP.referenceNodes pn defs with
  | .ok r => !r.bad && !r.unterminated && !r.diag
  | .error _ => false

/-- the conditional directives of the unit nest properly (a property of the text alone, whatever the macros are): the
    reference machine reports no structural diagnostic and no unterminated `#if` -/
def structOK (pn : List PP.PNode) : Bool :=
  match PP.referenceNodes pn [] with
  | .ok r => !r.bad && !r.unterminated
  | .error _ => false

/-- … and does not skip node `j` -/
def refKeeps (pn : List PP.PNode) (defs : List String) (j : Nat) : Bool :=
  match PP.referenceNodes pn defs with
  | .ok r => (flagsOf r.rows).getD j false
  | .error _ => false

/-- the platforms that use node `j` of the file `path`: those with a compile command for the file whose reference run
    does not skip the node -/
def specPlats (plats : List Plat) (path : List String) (pn : List PP.PNode) (j : Nat) : Key :=
  (plats.filter fun p => p.entries.any fun e => e.file == path && refKeeps pn e.defs j).map (·.name)

/-- the guard of C05: well-formed text outside the recorded finding classes F-C05-1 / F-C05-2 -/
def guard (t : List Char) : Bool := CLexRef.wf t && !CLexRef.k1 t && !CLexRef.k2 t

/-- the per-line attribution the property speaks about, from the two specifications: every counted line of the text
    (grouped as the C05 specification groups them into nodes) with the platforms whose reference run keeps its node -/
def specLineAttr (plats : List Plat) (f : SrcFile) (pn : List PP.PNode) : List (Nat × Key) :=
  (CLexRef.nodes f.text).zipIdx.flatMap fun x => x.1.2.map fun l => (l, specPlats plats f.path pn x.2)

end CbiVerif.C06C
