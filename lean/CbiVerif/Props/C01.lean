import CbiVerif.Lemmas.TreeBuild
import CbiVerif.Lemmas.TreeSim
import CbiVerif.Lemmas.TreeDefine
import CbiVerif.Lemmas.TreeParse
import CbiVerif.Lemmas.TreeExec
import CbiVerif.Lemmas.ExpandPP
/-! # C01 — conditional inclusion matches what a real C preprocessor would do

Model: `Model/Tree.lean` (`SourceTree.insert` as a zipper, `build`), `Model/Assoc.lean`
(`ParserState.associate` as the visitor `visit/visitList`, `Platform.define` = keep first).
Spec: `Spec/CPreproc.lean` (the flat conditional-stack machine of ISO C 6.10.1, `#define`
overwrites, redefinition diagnostic).  The driver op `c01` executes exactly these
definitions (`Drv/C01.lean`), instantiated with the macro table of `PP/*` and with
`PP.condValue` as the meaning of a controlling expression: the total macro expander
`MX.cbiExpand` (the model of the C03 theorems) followed by the evaluator `Eval.cbiEval` (the model
of the C02 theorems).  Nothing executed for C01 is a `partial def`; the last part of this file
states what that composition gives (`cond_*`, `ifdef_*`).

All theorems quantify over every structured program `b : Block` (arbitrary nesting depth,
arbitrary length), every meaning of the payloads (`Sem Env` / `Lang B E`) and every
initial world. -/
namespace CbiVerif.C01
open CbiVerif.Cond

variable {Env : Type}

/-- `SourceTree.insert` builds, for every structured program, the tree in which each `#if`
holds its group and `#elif/#else/#endif` are its siblings — and never raises. -/
theorem build_eq (b : Block) : build b.lines = some b.trees := build_eq_aux b

/-- The visitor over that tree and the flat reference machine, started in related states,
end in related states: same attributed ids in the same order, same world, `branch_taken`
= the reference's `taken` flags, no raise, no structural diagnostic. -/
theorem assoc_eq_ref (M : Sem Env) (b : Block) (st : AState Env) (r : RState Env) (h : Rel st r) :
    Rel (visitList M st b.trees) (refRun M r b.lines) := Block.sim M b st r h

theorem rel_init (σ : Env) : Rel ({ σ := σ } : AState Env) ({ σ := σ } : RState Env) :=
  ⟨rfl, rfl, rfl, (by intro f hf; cases hf), ⟨rfl, rfl⟩⟩

/-- Main theorem (composition of `build_eq` and `assoc_eq_ref`): on the line list of any
structured program the executed pipeline `model` (build the tree, visit it) succeeds and
agrees with the reference run on the attributed ids (in order), on the final world (macro
table, failure flag, …) and on being failure-free; the reference sees a well-nested unit. -/
theorem main (M : Sem Env) (σ : Env) (b : Block) :
    ∃ a, model M σ b.lines = some a ∧
      a.out = (reference M σ b.lines).out ∧
      a.σ = (reference M σ b.lines).σ ∧
      a.crash = false ∧ a.taken = [] ∧
      (reference M σ b.lines).wellNested = true := by
  have hr := assoc_eq_ref M b _ _ (rel_init σ)
  have hbal := Block.balanced M b ({ σ := σ } : RState Env) rfl
  refine ⟨visitList M { σ := σ } b.trees, by simp [model, build_eq], hr.out, hr.env, hr.ok.1, ?_, ?_⟩
  · rw [hr.tk, hbal]; rfl
  · simp [RState.wellNested, reference, hbal, hr.ok.2]

/-- Instrumented meaning: every call of `evalIf` / `exec` is logged with its payload and the
world it was made in. -/
def Sem.traced (M : Sem Env) : Sem (Env × List (Bool × Nat × Env)) where
  evalIf := fun s p => ((M.evalIf s.1 p).1, ((M.evalIf s.1 p).2, s.2 ++ [(true, p, s.1)]))
  exec := fun s p => (M.exec s.1 p, s.2 ++ [(false, p, s.1)])

/-- "`#define/#undef` take effect in source order and only where they are reached", and each
controlling expression is evaluated in the world the reference evaluates it in: the *sequence*
of (kind, payload, world-before) of all evaluations/executions made by the model equals the
reference's.  In particular an `#elif` after a taken group, or anything in a skipped group, is
evaluated by neither. -/
theorem same_evaluations (M : Sem Env) (σ : Env) (b : Block) :
    ∃ a, model (Sem.traced M) (σ, []) b.lines = some a ∧
      a.σ.2 = (reference (Sem.traced M) (σ, []) b.lines).σ.2 := by
  obtain ⟨a, h1, _, h3, _⟩ := main (Sem.traced M) (σ, []) b
  exact ⟨a, h1, by rw [h3]⟩

/-! ## `#define` order: CBI keeps the first definition, C the last -/
variable {B E : Type} [DecidableEq B]

/-- With the reference's redefinition diagnostic clear at the end of the run (gcc printed no
"redefined" warning), the flat machine run with CBI's keep-first table is, **after every
prefix of the unit**, in exactly the state of the run with C's overwrite table: same macro
table, same failure flag, same attribution, same stack.  Holds for every line list. -/
theorem define_order (L : Lang B E) (r : RState (MWorld B E)) (pre suf : List Lbl)
    (h : (refRun (semC L) r (pre ++ suf)).σ.diag = false) :
    refRun (semCBI L) r pre = refRun (semC L) r pre := by
  rcases refRun_sync L pre r r (Or.inr rfl) with hd | he
  · have := refRun_diag_mono L suf _ hd
    rw [← refRun_append] at this
    rw [this] at h; cases h
  · exact he

/-- Main theorem for macro worlds: the model as executed (tree + visitor + `Platform.define`
keeping the first definition) against the reference with C's `#define`: if the reference
reports no redefinition diagnostic, attribution, final macro table and failure flag coincide. -/
theorem main_macro (L : Lang B E) (w : MWorld B E) (b : Block)
    (h : (reference (semC L) w b.lines).σ.diag = false) :
    ∃ a, model (semCBI L) w b.lines = some a ∧
      a.out = (reference (semC L) w b.lines).out ∧
      a.σ = (reference (semC L) w b.lines).σ ∧
      a.crash = false := by
  obtain ⟨a, h1, h2, h3, h4, _⟩ := main (semCBI L) w b
  have hd := define_order L ({ σ := w } : RState (MWorld B E)) b.lines [] (by simpa [reference] using h)
  simp only [reference] at h2 h3 ⊢
  rw [hd] at h2 h3
  exact ⟨a, h1, h2, h3, h4⟩

/-- "A program that a real preprocessor accepts without diagnostics never makes the analysis
fail" (generic form): the model fails exactly when the reference's world has failed — the tree
builder and the `branch_taken` bookkeeping never raise on a structured program. -/
theorem no_spurious_failure (M : Sem Env) (failed : Env → Bool) (σ : Env) (b : Block)
    (h : failed (reference M σ b.lines).σ = false) :
    ∃ a, model M σ b.lines = some a ∧ a.crash = false ∧ failed a.σ = false := by
  obtain ⟨a, h1, _, h3, h4, _⟩ := main M σ b
  exact ⟨a, h1, h4, by rw [h3]; exact h⟩

/-- … and for macro worlds against the C reference: no expression/directive failure and no
redefinition diagnostic in the reference ⇒ no failure in the model.  Since the reference
evaluates an `#elif` only when no earlier group of the chain was taken, this needs the
repaired associator (defect D1, commit 1c8af0e). -/
theorem no_spurious_failure_macro (L : Lang B E) (w : MWorld B E) (b : Block)
    (hd : (reference (semC L) w b.lines).σ.diag = false)
    (he : (reference (semC L) w b.lines).σ.err = none) :
    ∃ a, model (semCBI L) w b.lines = some a ∧ a.crash = false ∧ a.σ.err = none := by
  obtain ⟨a, h1, _, h3, h4⟩ := main_macro L w b hd
  exact ⟨a, h1, h4, by rw [h3]; exact he⟩


/-! ## From structured programs to arbitrary line lists, and to the executed functions -/

/-- Every line list on which the reference machine raises no structural diagnostic (no stray
`#elif/#else/#endif`, nothing after `#else`, every `#if` closed) is the line list of a structured
program — whatever the semantics and the initial world.  So quantifying over `b : Block` above is
quantifying over all translation units a C preprocessor accepts structurally. -/
theorem structured_of_wellNested (M : Sem Env) (σ : Env) (ls : List Lbl) (hl : ∀ l ∈ ls, l.normal)
    (h : (reference M σ ls).wellNested = true) : ∃ b : Block, b.lines = ls := by
  simp only [RState.wellNested, Bool.and_eq_true, Bool.not_eq_true', List.isEmpty_iff] at h
  have hn := refRun_nest M ls ({ σ := σ } : RState Env) h.1
  simp only [reference] at h
  rw [h.2] at hn
  exact structured_of_nest ls hl hn

/-- `main_macro` for arbitrary (normalised) line lists: reference structurally content and without
redefinition diagnostic ⇒ the model completes with the reference's attribution and world. -/
theorem main_macro_lines (L : Lang B E) (w : MWorld B E) (ls : List Lbl) (hl : ∀ l ∈ ls, l.normal)
    (hw : (reference (semC L) w ls).wellNested = true)
    (hd : (reference (semC L) w ls).σ.diag = false) :
    ∃ a, model (semCBI L) w ls = some a ∧
      a.out = (reference (semC L) w ls).out ∧
      a.σ = (reference (semC L) w ls).σ ∧
      a.crash = false := by
  obtain ⟨b, rfl⟩ := structured_of_wellNested (semC L) w ls hl hw
  exact main_macro L w b hd

open CbiVerif.PP in
/-- **The executed functions, node-list level.**  `PP.analyseNodes` (tree builder + visitor with
`Platform.define` semantics, i.e. `Cond.model (Cond.semCBI …)`) against `PP.referenceNodes` (the same line
list through the flat ISO C machine with C's `#define`), for EVERY node list — whatever front end produced
it (`parse_file` on a C source, `fortran_file_source` + `DirectiveParser` on a Fortran source) — and every
`-D` list: whenever the reference reports no structural diagnostic, no unterminated `#if` and no macro
redefinition, the model returns exactly the reference's per-node attribution — or fails with exactly the
reference's expression/directive failure. -/
theorem analyseNodes_eq_reference (nodes : List PNode) (defs : List String) (r : RefResult)
    (h : referenceNodes nodes defs = .ok r)
    (hb : r.bad = false) (hu : r.unterminated = false) (hd : r.diag = false) :
    analyseNodes nodes defs = match r.err with | none => .ok r.rows | some e => .error e := by
  unfold referenceNodes at h
  cases hi : initWorld MWorld.defineC defs with
  | error e => simp [hi, bind, Except.bind] at h
  | ok w2 =>
    simp only [hi, bind, Except.bind, pure, Except.pure, Except.ok.injEq] at h
    subst h
    simp only [Bool.not_eq_eq_eq_not, Bool.not_false, List.isEmpty_iff] at hu
    simp only at hb hd
    have hw : (reference (semC (langOf nodes.toArray)) w2 (labels nodes)).wellNested = true := by
      simp [RState.wellNested, hb, hu]
    obtain ⟨a, hm, ho, hs, hc⟩ := main_macro_lines (langOf nodes.toArray) w2 (labels nodes) (labels_normal nodes) hw hd
    have hw2 : w2.diag = false := by
      cases hx : w2.diag with
      | false => rfl
      | true =>
        have := refRun_diag_mono (langOf nodes.toArray) (labels nodes) ({ σ := w2 } : RState _) hx
        simp only [reference] at hd
        rw [this] at hd; cases hd
    have hi2 := initWorld_sync defs w2 hi hw2
    have hbuild : (build (labels nodes)).isNone = false := by
      simp only [model] at hm
      cases hbb : build (labels nodes) with
      | none => simp [hbb] at hm
      | some ts => rfl
    unfold analyseNodes
    simp only [hi2, hbuild, hm, hc, bind, Except.bind, pure, Except.pure, Bool.false_eq_true, if_false]
    simp only [hs, ho]
    cases (reference (semC (langOf nodes.toArray)) w2 (labels nodes)).σ.err <;> rfl

open CbiVerif.PP in
/-- **The executed functions.**  `PP.analyseFile` (what driver op `c01` returns as `model`: the
`parse_file` port, then `analyseNodes`) and `PP.referenceFile` (what it returns as `spec`: the same node
list through `referenceNodes`): whenever the reference reports no structural diagnostic, no unterminated
`#if` and no macro redefinition, the model returns exactly the reference's per-node attribution — or fails
with exactly the reference's expression/directive failure.  For every file text and every `-D` list. -/
theorem analyse_eq_reference (text : String) (defs : List String) (r : RefResult)
    (h : referenceFile text defs = .ok r)
    (hb : r.bad = false) (hu : r.unterminated = false) (hd : r.diag = false) :
    analyseFile text defs = match r.err with | none => .ok r.rows | some e => .error e := by
  unfold referenceFile at h
  unfold analyseFile
  cases hp : parseFile text with
  | error e => simp [hp, bind, Except.bind] at h
  | ok nodes =>
    simp only [hp, bind, Except.bind] at h ⊢
    exact analyseNodes_eq_reference nodes defs r h hb hu hd

/-! ## Non-vacuity: a three-level nested chain with `#define/#undef` on one path -/
section Examples

/-- payloads: 0 `defined A`, 1 `defined B`, 2 `A == 1`, 3 `!defined A`, 9 a malformed expression;
10 `#define A 1`, 11 `#undef A`, 12 `#define B 2`, 13 `#define A 2`. -/
def exLang : Lang Nat Unit where
  cond := fun t p =>
    match p with
    | 0 => .ok (lookup t "A").isSome
    | 1 => .ok (lookup t "B").isSome
    | 2 => .ok (lookup t "A" == some 1)
    | 3 => .ok (lookup t "A").isNone
    | _ => .error ()
  act := fun p =>
    match p with
    | 10 => .define "A" 1
    | 11 => .undef "A"
    | 12 => .define "B" 2
    | 13 => .define "A" 2
    | _ => .nop

/--
```
 0 #if defined A            8     code
 1   code                   9   #else
 2   #if defined B         10     code
 3     code                11   #endif
 4   #elif A == 1          12   #elif <malformed>      (never evaluated: chain decided)
 5     #undef A            13     code
 6     #if !defined A      14   #endif
 7       #define B 2       15 #else / 16 code / 17 #endif
                           18 #if defined B / 19 code / 20 #endif
``` -/
def exProg : Block :=
  .cons (.cond 0 0
      (.cons (.code 1) (.cons (.cond 2 1 (.cons (.code 3) .nil)
        (.elif 4 2
          (.cons (.dir 5 11) (.cons (.cond 6 3 (.cons (.dir 7 12) (.cons (.code 8) .nil))
            (.els 9 (.cons (.code 10) .nil) 11)) .nil))
          (.elif 12 9 (.cons (.code 13) .nil) (.endif 14)))) .nil))
      (.els 15 (.cons (.code 16) .nil) 17))
    (.cons (.cond 18 1 (.cons (.code 19) .nil) (.endif 20)) .nil)

def exWorld : MWorld Nat Unit := { tbl := [("A", 1)] }

/-- the reference accepts the unit silently (hypotheses of `main_macro` / `no_spurious_failure_macro`) -/
example : (reference (semC exLang) exWorld exProg.lines).σ.diag = false ∧
    (reference (semC exLang) exWorld exProg.lines).σ.err = none ∧
    (reference (semC exLang) exWorld exProg.lines).wellNested = true := by decide

/-- non-trivial attribution: lines 3, 10, 13, 16 are skipped, the rest is attributed; `B` is
defined afterwards only because line 7 was reached, `A` is gone because line 5 was. -/
example : (model (semCBI exLang) exWorld exProg.lines).map (fun a => (a.out, a.σ.tbl, a.σ.err, a.crash)) =
    some ([0, 1, 2, 4, 5, 6, 7, 8, 9, 11, 12, 14, 15, 17, 18, 19, 20], [("B", 2)], none, false) := by
  simp only [model, build_eq, Option.map_some]
  decide

example : (reference (semC exLang) exWorld exProg.lines).out =
    [0, 1, 2, 4, 5, 6, 7, 8, 9, 11, 12, 14, 15, 17, 18, 19, 20] := by decide

/-- `Rel` is inhabited by the initial states (hypothesis of `assoc_eq_ref`) -/
example : Rel ({ σ := exWorld } : AState _) ({ σ := exWorld } : RState _) := rel_init _

/-- the diagnostic hypothesis of `define_order` matters: `#define A 2` while `A` is `1` raises it,
and there CBI's table (`A ↦ 1`) differs from C's (`A ↦ 2`). -/
example : (reference (semC exLang) exWorld [⟨0, .other, 13⟩]).σ.diag = true ∧
    (reference (semCBI exLang) exWorld [⟨0, .other, 13⟩]).σ.tbl = [("A", 1)] ∧
    (reference (semC exLang) exWorld [⟨0, .other, 13⟩]).σ.tbl = [("A", 2)] := by decide


/-- witness for D1 (before the repair an `#elif` of a decided chain was evaluated): the
reference does not evaluate payload 9 on line 1 when the `#if` was taken — it fails if it must. -/
example : (reference (semC exLang) exWorld [⟨0, .ifk, 0⟩, ⟨1, .elifk, 9⟩, ⟨2, .endk, 0⟩]).σ.err = none ∧
    (reference (semC exLang) exWorld [⟨0, .ifk, 1⟩, ⟨1, .elifk, 9⟩, ⟨2, .endk, 0⟩]).σ.err = some () := by decide

end Examples

end CbiVerif.C01

/-! ## The value of a controlling expression: one expander (C03), one evaluator (C02)

`(langOf nodes).cond tbl i` is what the executed model (`analyseNodes`, `analyseFile`, the Fortran front end, and — through the
same `PP.condValue` — the multi-file models of C04/C08/C10/C18) takes as the value of the `#if`/`#elif` of node `i` under the
macro table `tbl`. -/
namespace CbiVerif.C01
open CbiVerif.PP CbiVerif.MX

/-- the tokens `#ifdef X` is parsed to (`DirectiveParser.parse`: `defined ( X )`) -/
def ifdefToks (x : Tok) : List Tok := [mkTok .ident "defined" true, mkTok .punct "(" false, x, mkTok .punct ")" false]
/-- the tokens `#ifndef X` is parsed to (`! defined ( X )`) -/
def ifndefToks (x : Tok) : List Tok :=
  [mkTok .op "!" true, mkTok .ident "defined" false, mkTok .punct "(" false, x, mkTok .punct ")" false]

/-- **One expander, one evaluator.**  For every node list, table and node: the value of the controlling expression in the
executed model is the evaluation (`Eval.evaluatePP` = `Eval.cbiEval` behind CBI's exception names) of the expansion computed
by the total step machine `MX.cbiExpand`; an exception of the expander is the failure of the directive; running out of the
model's fuel is reported as such (excluded for object-like tables by `C03.terminates_objlike_partial`). -/
theorem cond_is_expand_then_eval (nodes : Array PNode) (tbl : Table) (i : Nat) :
    (langOf nodes).cond tbl i =
      match cbiExpand tbl nodes[i]!.toks with
      | .ok ts => CbiVerif.Eval.evaluatePP ts
      | .error e => .error e
      | .fuel => .error (.other "ModelOutOfFuel") :=
  condValue_eq tbl nodes[i]!.toks

/-- … and its truth value, when the expansion succeeds, is exactly the truth value the C02 evaluator `Eval.cbiEval` gives to the
expanded tokens (flags erased: the evaluator looks at kind and spelling only) -/
theorem cond_truth_is_cbiEval (nodes : Array PNode) (tbl : Table) (i : Nat) (ts : List Tok) (b : Bool)
    (h : cbiExpand tbl nodes[i]!.toks = .ok ts) :
    (langOf nodes).cond tbl i = .ok b ↔ CbiVerif.Eval.cbiEval (ts.map CbiVerif.Eval.eraseFlags) = .ok b := by
  rw [cond_is_expand_then_eval, h]
  exact evaluatePP_ok_iff ts b

/-- FULL statement of the composition (kept visible, NOT proved; it is false for the code as it is for the same reason as
`C03.Full`: finding D10, `#` keeps a leading blank): for every well-formed table — function-like macros, `#`, `##` included —
the controlling expression is evaluated on tokens whose spellings are those ISO C 6.10.3 (Prosser's algorithm) assigns. -/
def CondConforms : Prop :=
  ∀ (cmd defs : List String) (text : String) (tbl : Table) (out : List CbiVerif.Spec.Prosser.T),
    buildTable cmd defs = .ok tbl →
    CbiVerif.Spec.Prosser.prosser (cmd.map CbiVerif.Spec.Prosser.cmdlineToDefine ++ defs) text = .ok out →
    ∃ r, r.map spellTok = out.map (·.text) ∧ condValue tbl (tokenize text) = CbiVerif.Eval.evaluatePP r

/-- **object-like units (model side)**: when the macro table holds only object-like macros (`TblOK`: no parameters, keyed by
their name, no `defined` in a body — any size below the nesting limit, self- and mutually recursive definitions included) and
the controlling expression does not use `defined`, the executed model evaluates the recursive hide-set expansion `E` of the
expression: no expander exception, no backstop `0`, no fuel exhaustion can be the cause of the value. -/
theorem cond_object_like_partial (nodes : Array PNode) (tbl : Table) (i : Nat) (hT : TblOK tbl) (hnd : NoDef nodes[i]!.toks)
    (hsz : tbl.length + 2 < CbiVerif.Gen.maxLevel) :
    (langOf nodes).cond tbl i = CbiVerif.Eval.evaluatePP (E tbl (tbl.length + 1) [] nodes[i]!.toks) := by
  have h : cbiExpand tbl nodes[i]!.toks = .ok (E tbl (tbl.length + 1) [] nodes[i]!.toks) := by
    unfold cbiExpand
    exact expandWith_obj realCfg tbl hT _ hnd hsz (fuelFor tbl _) (by unfold fuelFor; omega)
  exact condValue_of_expand tbl _ _ h

/-- **object-like units (against the specification)** — the proved part of `CondConforms`: for a table of object-like macros
without `##`/`defined` in their bodies and a controlling expression of such tokens, the executed model's value of `#if E` is
the evaluation of a token list `r` whose spellings are exactly those of the Prosser expansion of `E` (ISO C 6.10.3.4:
rescanning, no re-expansion of a name inside its own expansion), and its truth value is `Eval.cbiEval` of `r`.
(Spellings, not kinds: the specification's tokens carry a coarser kind; what the evaluator does with `r` is C02's subject.) -/
theorem cond_object_like_conforms_partial (nodes : Array PNode) (tbl : Table) (i : Nat) (hT : PlainTbl tbl)
    (hts : ∀ t ∈ nodes[i]!.toks, PlainTok t) (hnd : NoDef nodes[i]!.toks) (hsz : tbl.length + 2 < CbiVerif.Gen.maxLevel)
    (hfuel : nodes[i]!.toks.length * Cb (bodyMax tbl) (tbl.length + 1) < CbiVerif.Spec.Prosser.defaultFuel) :
    ∃ r out, CbiVerif.Spec.Prosser.prosserToks (specTable tbl) (nodes[i]!.toks.map (toSpec [])) = .ok out ∧
      r.map spellTok = out.map (·.text) ∧
      (langOf nodes).cond tbl i = CbiVerif.Eval.evaluatePP r ∧
      ∀ b, (langOf nodes).cond tbl i = .ok b ↔ CbiVerif.Eval.cbiEval (r.map CbiVerif.Eval.eraseFlags) = .ok b := by
  obtain ⟨out, ho, he⟩ := E_eq_prosser tbl hT nodes[i]!.toks hts hfuel
  have hc := cond_object_like_partial nodes tbl i hT.ok hnd hsz
  refine ⟨_, out, ho, he.symm, hc, fun b => ?_⟩
  rw [hc]; exact evaluatePP_ok_iff _ b

/-- **`#ifdef X`** in the executed model: decided from the macro table alone.  `X` is not expanded, whatever it is defined
as (object-like, function-like, recursive, with an empty or malformed body): no expander or evaluator failure is possible. -/
theorem ifdef_decided_by_table (nodes : Array PNode) (tbl : Table) (i : Nat) (x : Tok) (hx : x.kind = .ident)
    (h : nodes[i]!.toks = ifdefToks x) : (langOf nodes).cond tbl i = .ok (tbl.get x.text).isSome := by
  have he : cbiExpand tbl (ifdefToks x) = .ok [numTok (isDefined tbl x.text) x.pw] :=
    cbiExpand_defined_paren tbl _ _ x _ rfl rfl rfl hx rfl
  show condValue tbl nodes[i]!.toks = _
  rw [h, condValue_of_expand tbl _ _ he, evaluatePP_defined]

/-- **`#ifndef X`** in the executed model: the negation, decided from the macro table alone -/
theorem ifndef_decided_by_table (nodes : Array PNode) (tbl : Table) (i : Nat) (x : Tok) (hx : x.kind = .ident)
    (h : nodes[i]!.toks = ifndefToks x) : (langOf nodes).cond tbl i = .ok (!(tbl.get x.text).isSome) := by
  have he : cbiExpand tbl (ifndefToks x) = .ok [mkTok .op "!" true, numTok (isDefined tbl x.text) x.pw] :=
    cbiExpand_not_defined_paren tbl _ _ _ x _ (by decide) rfl rfl rfl hx rfl
  show condValue tbl nodes[i]!.toks = _
  rw [h, condValue_of_expand tbl _ _ he, evaluatePP_not_defined]

/-- **`#if defined X`** (no parentheses) in the executed model -/
theorem if_defined_decided_by_table (nodes : Array PNode) (tbl : Table) (i : Nat) (dt x : Tok) (hd : dt.kind = .ident)
    (hdt : dt.text = "defined") (hx : x.kind = .ident) (hxp : x.text ≠ "(") (h : nodes[i]!.toks = [dt, x]) :
    (langOf nodes).cond tbl i = .ok (tbl.get x.text).isSome := by
  have he := cbiExpand_defined_plain tbl dt x hd hdt hx hxp
  show condValue tbl nodes[i]!.toks = _
  rw [h, condValue_of_expand tbl _ _ he, evaluatePP_defined]

/-! ### non-vacuity of the composition theorems (all kernel-checked) -/

/-- the directive parser really produces `ifdefToks` / `ifndefToks` -/
example : (parseDirective "#ifdef FOO" [1]).toOption.map (·.toks) = some (ifdefToks ⟨.ident, "FOO", true, true⟩) ∧
    (parseDirective "# ifndef FOO" [1]).toOption.map (·.toks) = some (ifndefToks ⟨.ident, "FOO", true, true⟩) := by
  decide +kernel

/-- `cond_object_like_(conforms_)partial`: a self- and mutually recursive object-like table (C11 6.10.3.4's pattern) and the
expression `AA == 4 || CC` satisfy every hypothesis; the model evaluates the expansion `BB … == 4 || …` (identifiers left
over count as 0) -/
example :
    let tbl : Table := [("AA", ⟨"AA", none, false, false, [], [⟨.ident, "BB", false, true⟩]⟩),
                        ("BB", ⟨"BB", none, false, false, [], [⟨.num, "4", false, true⟩]⟩),
                        ("CC", ⟨"CC", none, false, false, [], [⟨.ident, "AA", false, true⟩, ⟨.op, "+", true, true⟩, ⟨.ident, "CC", true, true⟩]⟩)]
    let toks : List Tok := tokenize "AA == 4 || CC"
    plainTblb tbl = true ∧ toks.all plainTokb = true ∧ toks.all (fun t => t.text != "defined") = true ∧
      tbl.length + 2 < CbiVerif.Gen.maxLevel ∧
      toks.length * Cb (bodyMax tbl) (tbl.length + 1) < CbiVerif.Spec.Prosser.defaultFuel ∧
      (match cbiExpand tbl toks with | .ok r => r.map spellTok | _ => []) = ["4", "==", "4", "||", "4", "+", "CC"] ∧
      (condValue tbl toks).toOption = some true := by
  decide +kernel

/-- `ifdef_decided_by_table` on a function-like macro with a body that cannot even be expanded on its own -/
example :
    let text := "#define F(x) x ## ## x\n#ifdef F\nint a;\n#endif\n#ifndef F\nint b;\n#endif\n#if defined F\nint c;\n#endif\n"
    (analyseFile text []).toOption.map (fun rows => (rows.filter (fun x => x.1 == .code)).map (fun x => (x.2.1, x.2.2)))
      = some [([3], true), ([6], false), ([9], true)] := by
  decide +kernel

end CbiVerif.C01

/-! Non-vacuity of `analyse_eq_reference`: its hypotheses hold on a concrete nested unit with `#define/#undef` on one path
(`nvText`), and on a unit whose controlling expression goes through a function-like macro and a self-referential object-like
one (`nvText2`).  Since the macro expander and the evaluator of the executed model are the total definitions `MX.cbiExpand` /
`Eval.cbiEval`, these are kernel-checked statements (the first was a `#guard` while `runExpand` was a `partial def`); the
harness observes the same on every well-formed generated unit.  (Almost all of the kernel's time, about 7 s, goes into the
character-level cleaner and lexer models of `PP/CSource.lean` / `PP/Lexer.lean`, not into expansion or evaluation.) -/
namespace CbiVerif.C01
open CbiVerif.PP

def nvText : String :=
  "#if defined(A)\na\n#if B\nb\n#elif A==1\n#undef A\n#ifndef A\n#define B 2\nc\n#else\nd\n#endif\n#elif 1+\ne\n#endif\n#else\nf\n#endif\n#if B==2\ng\n#endif\n"
def nvText2 : String := "#define S(x) ((x)*(x))\n#define R R+1\n#if S(B+1)==9&&R\ng\n#else\nh\n#endif\n"

/-- the hypotheses of `analyse_eq_reference` hold, its conclusion is the `.ok` case, and the code lines are attributed as `want` -/
def nvOK (text : String) (defs : List String) (want : List (List Nat × Bool)) : Bool :=
  match referenceFile text defs, analyseFile text defs with
  | .ok r, .ok rows =>
    !r.bad && !r.unterminated && !r.diag && r.err.isNone && rows == r.rows &&
    (rows.filter (fun x => x.1 == .code)).map (fun x => (x.2.1, x.2.2)) == want
  | _, _ => false

example : nvOK nvText ["A=1"]
    [([2], true), ([4], false), ([9], true), ([11], false), ([14], false), ([17], false), ([20], true)] = true := by
  decide +kernel

example : nvOK nvText2 ["B=2"] [([4], true), ([6], false)] = true := by
  decide +kernel
end CbiVerif.C01
