import CbiVerif.Lemmas.MacroObjTop
/-! # C03: command-line definitions vs `#define` lines (token level), and a decidable check of `TblOK` -/
namespace CbiVerif.MX
open CbiVerif.PP

def hashTok : Tok := ⟨.op, "#", false, true⟩
def defineTok : Tok := ⟨.ident, "define", false, true⟩
def eqTok : Tok := ⟨.op, "=", false, true⟩
def lparenTok : Tok := ⟨.punct, "(", false, true⟩
def rparenTok : Tok := ⟨.punct, ")", false, true⟩

/-- `Macro.__init__` resets `prev_white` of the first replacement token, so it does not matter -/
theorem makeMacro_pw (n : String) (args : Option (List String)) (b : Tok) (bs : List Tok) (w : Bool) :
    makeMacro n args ({ b with pw := w } :: bs) = makeMacro n args (b :: bs) := by
  simp only [makeMacro, List.tail_cons]
  have h : (({ b with pw := w } : Tok) :: bs).getLast?.map (·.text) = (b :: bs).getLast?.map (·.text) := by
    cases bs with
    | nil => simp
    | cons c cs => simp [List.getLast?_cons_cons]
  rw [h]
  cases args <;> rfl

theorem defineFromToks_eq (rest : List Tok) :
    defineFromToks (hashTok :: defineTok :: rest) =
      match macroDefinition rest with
      | some (n, args, body) => makeMacro n args body
      | none => .error (.parse "Invalid define") := by
  simp only [defineFromToks, hashTok, defineTok]
  simp
  rfl

/-- object-like head: an identifier that is not directly followed by `(` -/
theorem macroDefinition_obj (nm nx : Tok) (r : List Tok) (hn : nm.kind = .ident)
    (hnx : (nx.kind == .punct && nx.text == "(" && !nx.pw) = false) :
    macroDefinition (nm :: nx :: r) = some (nm.text, none, nx :: r) := by
  simp [macroDefinition, hn, hnx]

theorem macroDefinition_single (nm : Tok) (hn : nm.kind = .ident) : macroDefinition [nm] = some (nm.text, none, []) := by
  simp [macroDefinition, hn]

/-- function-like head `NAME(` params `)`; `A` are the tokens between the parentheses -/
theorem macroDefinition_fun (nm : Tok) (A : List Tok) (args : List String) (r : List Tok) (hn : nm.kind = .ident)
    (hA : parseArgList (A ++ rparenTok :: r) = (args, rparenTok :: r)) :
    macroDefinition (nm :: lparenTok :: (A ++ rparenTok :: r)) = some (nm.text, some args, r) := by
  have hA' : parseArgList (A ++ ({ kind := TKind.punct, text := ")", pw := false } : Tok) :: r)
      = (args, ({ kind := TKind.punct, text := ")", pw := false } : Tok) :: r) := hA
  simp [macroDefinition, hn, lparenTok, rparenTok, hA']

/-! decidable check of the object-like fragment -/
def tblOKb (tbl : Table) : Bool :=
  tbl.all fun e => e.2.args.isNone && e.2.name == e.1 && e.2.replacement.all (fun t => t.text != "defined")

theorem tblOK_of_check (tbl : Table) (h : tblOKb tbl = true) : TblOK tbl := by
  have key : ∀ n m, tbl.get n = some m → m.args = none ∧ m.name = n ∧ NoDef m.replacement := by
    intro n m hm
    unfold Table.get at hm
    cases hf : tbl.find? (·.1 == n) with
    | none => simp [hf] at hm
    | some e =>
      have hmem := List.mem_of_find?_eq_some hf
      have hp := List.find?_some hf
      have hen : e.1 = n := by simpa using hp
      simp [hf] at hm
      subst hm
      have := (List.all_eq_true.mp h) e hmem
      simp only [Bool.and_eq_true, Option.isNone_iff_eq_none, beq_iff_eq, List.all_eq_true, bne_iff_ne] at this
      refine ⟨this.1.1, this.1.2.trans hen, ?_⟩
      intro t ht
      exact this.2 t ht
  exact ⟨fun n m h => (key n m h).1, fun n m h => (key n m h).2.1, fun n m h => (key n m h).2.2⟩

def noDefb (ts : List Tok) : Bool := ts.all fun t => t.text != "defined"
theorem noDef_of_check (ts : List Tok) (h : noDefb ts = true) : NoDef ts := by
  intro t ht
  have := (List.all_eq_true.mp h) t ht
  simpa using this

end CbiVerif.MX
