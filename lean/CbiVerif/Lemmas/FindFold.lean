import CbiVerif.Model.FindFold
/-! Helper lemmas for `Props/C08.lean` (core Lean only). -/
namespace CbiVerif.FindFold

variable {Entry Key Warn Err : Type}

/-- append a later result to an earlier state -/
def app (acc r : Acc Key Warn) : Acc Key Warn :=
  { pairs := acc.pairs ++ r.pairs, warns := acc.warns ++ r.warns }

theorem app_empty (r : Acc Key Warn) : app {} r = r := by
  cases r; simp [app]

/-- the state-passing loop over a flat job list -/
def foldJobs (A : Entry → Except Err (Out Key Warn)) (js : List (String × Entry))
    (acc : Acc Key Warn) : Except Err (Acc Key Warn) :=
  js.foldlM (fun acc j => stepEntry A j.1 acc j.2) acc

theorem foldJobs_nil (A : Entry → Except Err (Out Key Warn)) (acc : Acc Key Warn) :
    foldJobs A [] acc = .ok acc := rfl

theorem foldJobs_cons (A : Entry → Except Err (Out Key Warn)) (j : String × Entry)
    (js : List (String × Entry)) (acc : Acc Key Warn) :
    foldJobs A (j :: js) acc =
      match stepEntry A j.1 acc j.2 with
      | .ok a => foldJobs A js a
      | .error e => .error e := by
  unfold foldJobs
  rw [List.foldlM_cons]
  cases stepEntry A j.1 acc j.2 <;> rfl

theorem foldJobs_append (A : Entry → Except Err (Out Key Warn)) (js js' : List (String × Entry))
    (acc : Acc Key Warn) :
    foldJobs A (js ++ js') acc =
      match foldJobs A js acc with
      | .ok a => foldJobs A js' a
      | .error e => .error e := by
  induction js generalizing acc with
  | nil => simp [foldJobs_nil]
  | cons j js ih =>
    rw [List.cons_append, foldJobs_cons, foldJobs_cons]
    cases stepEntry A j.1 acc j.2 with
    | error e => rfl
    | ok a => exact ih a

/-- the inner loop is the flat loop over the platform's tagged commands -/
theorem stepPlatform_eq (A : Entry → Except Err (Out Key Warn)) (p : String) (es : List Entry)
    (acc : Acc Key Warn) :
    stepPlatform A acc (p, es) = foldJobs A (es.map fun e => (p, e)) acc := by
  unfold stepPlatform foldJobs
  induction es generalizing acc with
  | nil => rfl
  | cons e es ih =>
    simp only [List.map_cons, List.foldlM_cons]
    cases stepEntry A p acc e with
    | error e => rfl
    | ok a => exact ih a

/-- the double loop is the flat loop over `jobs` -/
theorem foldlM_stepPlatform (A : Entry → Except Err (Out Key Warn)) (c : Config Entry)
    (acc : Acc Key Warn) :
    c.foldlM (stepPlatform A) acc = foldJobs A (jobs c) acc := by
  induction c generalizing acc with
  | nil => rfl
  | cons pe c ih =>
    obtain ⟨p, es⟩ := pe
    rw [List.foldlM_cons]
    have hj : jobs ((p, es) :: c) = (es.map fun e => (p, e)) ++ jobs c := by
      simp [jobs]
    rw [hj, foldJobs_append, stepPlatform_eq]
    cases foldJobs A (es.map fun e => (p, e)) acc with
    | error e => rfl
    | ok a => exact ih a

/-- state passing = stateless union (including which error is raised) -/
theorem foldJobs_eq_spec (A : Entry → Except Err (Out Key Warn)) (js : List (String × Entry))
    (acc : Acc Key Warn) :
    foldJobs A js acc =
      match specJobs A js with
      | .ok r => .ok (app acc r)
      | .error e => .error e := by
  induction js generalizing acc with
  | nil => simp [foldJobs_nil, specJobs, app]
  | cons j js ih =>
    obtain ⟨p, e⟩ := j
    rw [foldJobs_cons]
    simp only [stepEntry, specJobs]
    cases hA : A e with
    | error er => rfl
    | ok o =>
      simp only []
      rw [ih]
      cases specJobs A js with
      | error er => rfl
      | ok r => simp [app, associate, List.append_assoc]

/-! ### the spec, characterised -/

/-- total version of the single-command analysis (nothing on failure) -/
def outOf (A : Entry → Except Err (Out Key Warn)) (e : Entry) : Out Key Warn :=
  match A e with
  | .ok o => o
  | .error _ => {}

def pairsOfJob (A : Entry → Except Err (Out Key Warn)) (j : String × Entry) : List (Key × String) :=
  (outOf A j.2).keys.map fun k => (k, j.1)

theorem specJobs_ok_iff (A : Entry → Except Err (Out Key Warn)) (js : List (String × Entry)) :
    (∃ r, specJobs A js = .ok r) ↔ ∀ j ∈ js, ∃ o, A j.2 = .ok o := by
  induction js with
  | nil => simp [specJobs]
  | cons j js ih =>
    obtain ⟨p, e⟩ := j
    simp only [specJobs, List.mem_cons, forall_eq_or_imp]
    cases hA : A e with
    | error er => simp
    | ok o =>
      simp only []
      rw [← ih]
      cases specJobs A js with
      | error er => simp
      | ok r => simp

theorem specJobs_pairs (A : Entry → Except Err (Out Key Warn)) (js : List (String × Entry))
    (r : Acc Key Warn) (h : specJobs A js = .ok r) :
    r.pairs = js.flatMap (pairsOfJob A) ∧ r.warns = js.flatMap (fun j => (outOf A j.2).warns) := by
  induction js generalizing r with
  | nil =>
    simp only [specJobs] at h
    cases h; simp
  | cons j js ih =>
    obtain ⟨p, e⟩ := j
    simp only [specJobs] at h
    cases hA : A e with
    | error er => simp [hA] at h
    | ok o =>
      simp only [hA] at h
      cases hs : specJobs A js with
      | error er => simp [hs] at h
      | ok r' =>
        simp only [hs] at h
        cases h
        obtain ⟨h1, h2⟩ := ih r' hs
        simp [List.flatMap_cons, pairsOfJob, outOf, hA, h1, h2]

theorem mem_pairsOfJob (A : Entry → Except Err (Out Key Warn)) (j : String × Entry) (k : Key) (p : String) :
    (k, p) ∈ pairsOfJob A j ↔ j.1 = p ∧ ∃ o, A j.2 = .ok o ∧ k ∈ o.keys := by
  unfold pairsOfJob outOf
  cases hA : A j.2 with
  | error er => simp
  | ok o =>
    simp only [List.mem_map, Prod.mk.injEq]
    constructor
    · rintro ⟨k', hk, rfl, rfl⟩
      exact ⟨rfl, o, rfl, hk⟩
    · rintro ⟨rfl, o', ho, hk⟩
      cases ho
      exact ⟨k, hk, rfl, rfl⟩

theorem mem_jobs (c : Config Entry) (p : String) (e : Entry) :
    (p, e) ∈ jobs c ↔ ∃ es, (p, es) ∈ c ∧ e ∈ es := by
  simp only [jobs, List.mem_flatMap, List.mem_map, Prod.mk.injEq]
  constructor
  · rintro ⟨⟨q, es⟩, hc, e', he, rfl, rfl⟩
    exact ⟨es, hc, he⟩
  · rintro ⟨es, hc, he⟩
    exact ⟨(p, es), hc, e, he, rfl, rfl⟩

theorem mem_entriesOf (c : Config Entry) (p : String) (e : Entry) :
    e ∈ entriesOf c p ↔ ∃ es, (p, es) ∈ c ∧ e ∈ es := by
  simp only [entriesOf, List.mem_flatMap, List.mem_filter, beq_iff_eq]
  constructor
  · rintro ⟨⟨q, es⟩, ⟨hc, rfl⟩, he⟩
    exact ⟨es, hc, he⟩
  · rintro ⟨es, hc, he⟩
    exact ⟨(p, es), ⟨hc, rfl⟩, he⟩

theorem mem_jobs_iff_entriesOf (c : Config Entry) (p : String) (e : Entry) :
    (p, e) ∈ jobs c ↔ e ∈ entriesOf c p := by
  rw [mem_jobs, mem_entriesOf]

/-! ### permutations -/

theorem CfgPerm.refl (c : Config Entry) : CfgPerm c c := by
  induction c with
  | nil => exact .nil
  | cons pe c ih => obtain ⟨p, es⟩ := pe; exact .cons p (List.Perm.refl _) ih

theorem CfgPerm.symm {c c' : Config Entry} (h : CfgPerm c c') : CfgPerm c' c := by
  induction h with
  | nil => exact .nil
  | cons p hes _ ih => exact .cons p hes.symm ih
  | swap a b c => exact .swap b a c
  | trans _ _ ih1 ih2 => exact .trans ih2 ih1



theorem jobs_cons (pe : String × List Entry) (c : Config Entry) :
    jobs (pe :: c) = (pe.2.map fun e => (pe.1, e)) ++ jobs c := by
  simp [jobs]

theorem jobs_perm {c c' : Config Entry} (h : CfgPerm c c') : (jobs c).Perm (jobs c') := by
  induction h with
  | nil => exact List.Perm.refl _
  | cons p hes _ ih =>
    rw [jobs_cons, jobs_cons]
    exact List.Perm.append (List.Perm.map _ hes) ih
  | swap a b c =>
    simp only [jobs_cons, ← List.append_assoc]
    exact List.Perm.append (List.perm_append_comm) (List.Perm.refl _)
  | trans _ _ ih1 ih2 => exact ih1.trans ih2

theorem specJobs_perm (A : Entry → Except Err (Out Key Warn)) {js js' : List (String × Entry)}
    (hp : js.Perm js') (r : Acc Key Warn) (h : specJobs A js = .ok r) :
    ∃ r', specJobs A js' = .ok r' ∧ r.pairs.Perm r'.pairs ∧ r.warns.Perm r'.warns := by
  have hok : ∃ r', specJobs A js' = .ok r' := by
    rw [specJobs_ok_iff]
    intro j hj
    exact (specJobs_ok_iff A js).mp ⟨r, h⟩ j (hp.mem_iff.mpr hj)
  obtain ⟨r', hr'⟩ := hok
  refine ⟨r', hr', ?_, ?_⟩
  · rw [(specJobs_pairs A js r h).1, (specJobs_pairs A js' r' hr').1]
    exact List.Perm.flatMap_right _ hp
  · rw [(specJobs_pairs A js r h).2, (specJobs_pairs A js' r' hr').2]
    exact List.Perm.flatMap_right _ hp

/-! ### small list facts -/

theorem filter_snd_map_tag {α : Type} (f : String → Bool) (p : String) (l : List α) :
    (l.map fun k => (k, p)).filter (fun kp => f kp.2) = if f p then l.map (fun k => (k, p)) else [] := by
  induction l with
  | nil => cases f p <;> rfl
  | cons a l ih =>
    simp only [List.map_cons, List.filter_cons, ih]
    cases f p <;> rfl

theorem filter_fst_map_tag {α : Type} (f : String → Bool) (p : String) (l : List α) :
    (l.map fun e => (p, e)).filter (fun j => f j.1) = if f p then l.map (fun e => (p, e)) else [] := by
  induction l with
  | nil => cases f p <;> rfl
  | cons a l ih =>
    simp only [List.map_cons, List.filter_cons, ih]
    cases f p <;> rfl

theorem filter_const_true {α : Type} (l : List α) : l.filter (fun _ => true) = l := by
  induction l with
  | nil => rfl
  | cons a l ih => simp [ih]

theorem sum_map_zero {α : Type} (l : List α) : (l.map fun _ => (0 : Nat)).sum = 0 := by
  induction l with
  | nil => rfl
  | cons a l ih => simp [ih]

theorem sum_map_add {α : Type} (l : List α) (u v : α → Nat) :
    (l.map fun a => u a + v a).sum = (l.map u).sum + (l.map v).sum := by
  induction l with
  | nil => rfl
  | cons a l ih => simp only [List.map_cons, List.sum_cons, ih]; omega

/-! ### selection of platforms -/

theorem jobs_filter (f : String → Bool) (c : Config Entry) :
    jobs (c.filter fun pe => f pe.1) = (jobs c).filter fun j => f j.1 := by
  induction c with
  | nil => rfl
  | cons pe c ih =>
    obtain ⟨p, es⟩ := pe
    rw [jobs_cons, List.filter_append, ← ih, filter_fst_map_tag]
    simp only [List.filter_cons]
    cases hf : f p with
    | true => simp only [if_true]; rw [jobs_cons]
    | false => simp

theorem specJobs_filter (A : Entry → Except Err (Out Key Warn)) (f : String → Bool)
    (js : List (String × Entry)) (r : Acc Key Warn) (h : specJobs A js = .ok r) :
    ∃ r', specJobs A (js.filter fun j => f j.1) = .ok r' ∧
      r'.pairs = r.pairs.filter fun kp => f kp.2 := by
  have hok : ∃ r', specJobs A (js.filter fun j => f j.1) = .ok r' := by
    rw [specJobs_ok_iff]
    intro j hj
    exact (specJobs_ok_iff A js).mp ⟨r, h⟩ j (List.mem_filter.mp hj).1
  obtain ⟨r', hr'⟩ := hok
  refine ⟨r', hr', ?_⟩
  rw [(specJobs_pairs A js r h).1, (specJobs_pairs A _ r' hr').1]
  clear h hr'
  induction js with
  | nil => rfl
  | cons j js ih =>
    simp only [List.filter_cons, List.flatMap_cons, List.filter_append]
    have hj : (pairsOfJob A j).filter (fun kp => f kp.2) = if f j.1 then pairsOfJob A j else [] := by
      unfold pairsOfJob
      exact filter_snd_map_tag f j.1 _
    rw [hj, ← ih]
    cases hf : f j.1 with
    | true => simp
    | false => simp

/-! ### threaded state that is transparent -/

/-- "the carried state never changes what a command observes" -/
def Transparent {σ : Type} (Inv : σ → Prop) (step : σ → Entry → Except Err (Out Key Warn × σ))
    (A : Entry → Except Err (Out Key Warn)) : Prop :=
  ∀ s e, Inv s →
    match step s e with
    | .ok (o, s') => A e = .ok o ∧ Inv s'
    | .error er => A e = .error er

theorem foldlM_stepEntryS {σ : Type} (Inv : σ → Prop)
    (step : σ → Entry → Except Err (Out Key Warn × σ)) (A : Entry → Except Err (Out Key Warn))
    (ht : Transparent Inv step A) (p : String) (es : List Entry) (acc : Acc Key Warn) (s : σ)
    (hs : Inv s) :
    match es.foldlM (stepEntryS step p) (acc, s) with
    | .ok (a, s') => es.foldlM (stepEntry A p) acc = .ok a ∧ Inv s'
    | .error er => es.foldlM (stepEntry A p) acc = .error er := by
  induction es generalizing acc s with
  | nil => exact ⟨rfl, hs⟩
  | cons e es ih =>
    simp only [List.foldlM_cons]
    have h1 := ht s e hs
    simp only [stepEntryS, stepEntry]
    cases hstep : step s e with
    | error er =>
      rw [hstep] at h1
      simp only at h1
      rw [h1]
      rfl
    | ok os =>
      obtain ⟨o, s'⟩ := os
      rw [hstep] at h1
      simp only at h1
      rw [h1.1]
      exact ih (associate p acc o) s' h1.2

theorem findS_refines {σ : Type} (Inv : σ → Prop)
    (step : σ → Entry → Except Err (Out Key Warn × σ)) (A : Entry → Except Err (Out Key Warn))
    (ht : Transparent Inv step A) (c : Config Entry) (acc : Acc Key Warn) (s : σ) (hs : Inv s) :
    match c.foldlM (fun acc pe => pe.2.foldlM (stepEntryS step pe.1) acc) (acc, s) with
    | .ok (a, s') => c.foldlM (stepPlatform A) acc = .ok a ∧ Inv s'
    | .error er => c.foldlM (stepPlatform A) acc = .error er := by
  induction c generalizing acc s with
  | nil => exact ⟨rfl, hs⟩
  | cons pe c ih =>
    simp only [List.foldlM_cons]
    have h1 := foldlM_stepEntryS Inv step A ht pe.1 pe.2 acc s hs
    unfold stepPlatform
    cases hin : List.foldlM (stepEntryS step pe.1) (acc, s) pe.2 with
    | error er =>
      rw [hin] at h1
      simp only at h1
      rw [h1]
      rfl
    | ok as =>
      obtain ⟨a, s'⟩ := as
      rw [hin] at h1
      simp only at h1
      rw [h1.1]
      exact ih a s' h1.2

/-! ### counting by platform set -/

theorem sum_indicator {C : Type} [DecidableEq C] (classes : List C) (hnd : classes.Nodup) (c : C)
    (hc : c ∈ classes) (P : C → Bool) (x : Nat) :
    ((classes.filter P).map fun S => if c = S then x else 0).sum = if P c then x else 0 := by
  induction classes with
  | nil => cases hc
  | cons S cs ih =>
    rw [List.nodup_cons] at hnd
    by_cases hcS : c = S
    · subst hcS
      have hz : ((cs.filter P).map fun S => if c = S then x else 0).sum = 0 := by
        have : ∀ S ∈ cs.filter P, (if c = S then x else 0) = 0 := by
          intro S hS
          have : c ≠ S := fun h => hnd.1 (h ▸ (List.mem_filter.mp hS).1)
          simp [this]
        rw [List.map_congr_left this]
        exact sum_map_zero _
      simp only [List.filter_cons]
      cases hP : P c with
      | true => simp [hz]
      | false => simp [hz]
    · have hc' : c ∈ cs := by
        cases hc with
        | head => exact absurd rfl hcS
        | tail _ h => exact h
      simp only [List.filter_cons]
      cases hP : P S with
      | true => simp [hcS, ih hnd.2 hc']
      | false => simp [ih hnd.2 hc']

/-- counting along a coarser classification = merging the counts of the finer classes -/
theorem count_fibres {K C D : Type} [DecidableEq C] [DecidableEq D]
    (nodes : List K) (w : K → Nat) (f : K → C) (g : C → D) (T : D)
    (classes : List C) (hnd : classes.Nodup) (hall : ∀ k ∈ nodes, f k ∈ classes) :
    ((nodes.filter fun k => g (f k) = T).map w).sum =
      ((classes.filter fun S => g S = T).map fun S => ((nodes.filter fun k => f k = S).map w).sum).sum := by
  induction nodes with
  | nil => simp [sum_map_zero]
  | cons k ks ih =>
    have hk : f k ∈ classes := hall k (List.mem_cons_self ..)
    have ih' := ih (fun k' hk' => hall k' (List.mem_cons_of_mem _ hk'))
    have hsplit : ∀ S, ((List.filter (fun k => decide (f k = S)) (k :: ks)).map w).sum =
        (if f k = S then w k else 0) + ((List.filter (fun k => decide (f k = S)) ks).map w).sum := by
      intro S
      by_cases h : f k = S <;> simp [h]
    simp only [hsplit]
    rw [sum_map_add]
    rw [sum_indicator classes hnd (f k) hk (fun S => decide (g S = T)) (w k), ← ih']
    by_cases h : g (f k) = T <;> simp [h]

end CbiVerif.FindFold
