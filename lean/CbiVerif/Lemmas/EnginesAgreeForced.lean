import CbiVerif.Model.EnginesAgreeF
import CbiVerif.Lemmas.EnginesAgreeTop
/-! Helper lemmas for `Props/C04EnginesForced.lean`: the `-include` loop of the two engines (`Exclude.runForcedRef` against
the fold of `Inc.forcedWith`), one database entry with `-include` files, all entries of all platforms. -/
namespace CbiVerif.Engines
open CbiVerif.PP CbiVerif.Exclude CbiVerif.Cond CbiVerif.MF

/-- outcome of the two engines inside one entry: one of them failed, or the worlds are related -/
def F3 (E : String → Nat → String → Prop) (name : String) (l : Local) (w : Inc.World) : Prop :=
  l.err ≠ none ∨ w.st.err ≠ none ∨ RelW E name l w

/-- failure is sticky in the `-include` loop of `Model/Exclude.lean` … -/
theorem runForcedRef_err (S : Exclude.Sem) (n : Nat) (dir : String) (incs : List String) (l : Local) (h : l.err ≠ none) :
    runForcedRef S n dir incs l = l := by
  cases incs with
  | nil => rfl
  | cons inc rest =>
    unfold runForcedRef
    cases he : l.err with
    | none => exact absurd he h
    | some e => rfl

/-- … and in the one of `Model/FindInc.lean` -/
theorem forcedFold_err (run : String → Inc.World → Inc.World) (fs : Inc.FS) (pfs : Inc.ParsedFS) (src : String)
    (incs : List String) (w : Inc.World) (h : w.st.err ≠ none) :
    incs.foldl (Inc.forcedWith true run fs pfs src) w = w := by
  induction incs with
  | nil => rfl
  | cons inc rest ih =>
    have h1 : Inc.forcedWith true run fs pfs src w inc = w := by
      unfold Inc.forcedWith
      cases he : w.st.err with
      | none => exact absurd he h
      | some e => simp
    simp only [List.foldl_cons, h1, ih]

/-- every existing file is C-family by extension: a file entered without includer is parsed by the C front end -/
theorem allC_ref (fs : Inc.FS) (hall : FindInst.AllC fs.files = true) (g : String) (text : String)
    (hg : fs.files.get g = some text) : (Exclude.sem fs.files).refClass g none = some .c := by
  have hmem : ∃ e ∈ fs.files, e.1 = g := by
    unfold FSMap.get at hg
    cases hf : fs.files.find? (fun x => x.1 == g) with
    | none => simp [hf] at hg
    | some e => exact ⟨e, List.mem_of_find?_eq_some hf, by simpa using List.find?_some hf⟩
  obtain ⟨e, he, rfl⟩ := hmem
  have hcl := (List.all_eq_true.mp hall) e he
  simp only [beq_iff_eq] at hcl
  simp [Exclude.Sem.refClass, Exclude.sem, hcl]

/-- one `-include` file: the step of `Exclude.runForcedRef` against `Inc.forcedWith`, from related worlds -/
theorem forced_one (fs : Inc.FS) (hl : fs.links = []) (hfam : FindInst.CFam fs.files = true) (hT : TreesOK)
    (hall : FindInst.AllC fs.files = true) (n fuel : Nat) (name src : String) (E : String → Nat → String → Prop)
    (inc : String) (l : Local) (w : Inc.World) (hrel : RelW E name l w) :
    ∃ l', (∀ rest, runForcedRef (Exclude.sem fs.files) n (dirname src) (inc :: rest) l =
              runForcedRef (Exclude.sem fs.files) n (dirname src) rest l') ∧
      F3 E name l' (Inc.forcedWith true (assocFile (Inc.ops fs (Inc.parseAll fs)) fuel) fs (Inc.parseAll fs) src w inc) := by
  obtain ⟨hlk, hfi2⟩ := findInclude_eq fs hl l.plat inc (dirname src) false
  have hlk' : Inc.lookupWith true fs.env w.plat.incPaths w.plat.memo ⟨inc, Inc.dirnameK src, false⟩ =
      ((l.plat.findInclude fs.files inc (dirname src) false).1, (l.plat.findInclude fs.files inc (dirname src) false).2.memo) := by
    rw [hrel.plat, FindEngines.dirnameK_eq]; exact hlk
  have hplat2 : ({ w.plat with memo := (l.plat.findInclude fs.files inc (dirname src) false).2.memo } : Inc.Platform) =
      cv (l.plat.findInclude fs.files inc (dirname src) false).2 := by
    rw [hrel.plat]
    conv => rhs; rw [hfi2]
    rfl
  have hname2 : (l.plat.findInclude fs.files inc (dirname src) false).2.name = name := by
    rw [hfi2]; exact hrel.nm
  have hskip2 : w.plat.skip = (l.plat.findInclude fs.files inc (dirname src) false).2.skip := by
    rw [hrel.plat]; conv => rhs; rw [hfi2]
    rfl
  have hfinc : (Exclude.sem fs.files).findInc = findForced fs.files := rfl
  unfold Inc.forcedWith
  simp only [runForcedRef, hrel.lerr, hrel.werr, hfinc, findForced, hlk', Option.isSome_none, Bool.false_eq_true, if_false,
    realpath_id fs hl]
  clear hlk hlk' hfi2
  generalize l.plat.findInclude fs.files inc (dirname src) false = fi at *
  obtain ⟨r1, p2⟩ := fi
  simp only at hplat2 hname2 hskip2 ⊢
  have hrelN : RelW E name { l with plat := p2 }
      { st := w.st, plat := { w.plat with memo := p2.memo } } :=
    ⟨hrel.lerr, hrel.werr, hplat2, hname2, hrel.att⟩
  cases r1 with
  | none =>
    simp only []
    refine ⟨{ l with plat := p2 }, fun rest => by simp only [hrel.lerr], .inr (.inr ?_)⟩
    exact ⟨hrel.lerr, by first | rfl | exact hrel.werr, hplat2, hname2, hrel.att⟩
  | some f =>
    simp only []
    by_cases hsk : w.plat.skip.contains f = true
    · have hsk' : p2.skip.contains f = true := by rw [← hskip2]; exact hsk
      simp only [hsk, hsk', if_true]
      refine ⟨{ l with plat := p2 }, fun rest => by simp only [hrel.lerr], .inr (.inr ?_)⟩
      exact ⟨hrel.lerr, by first | rfl | exact hrel.werr, hplat2, hname2, hrel.att⟩
    · have hsk' : ¬ p2.skip.contains f = true := by rw [← hskip2]; exact hsk
      simp only [hsk, hsk', Bool.false_eq_true, if_false]
      rcases enterRef_cases' fs { assoc := l.assoc, warns := l.warns, err := none, plat := p2, taken := l.taken } f none
          (allC_ref fs hall f) with ⟨l1, hen, hl1⟩ | ⟨nodes, ts, dd, hpg, hb, hen⟩
      · refine ⟨l1, fun rest => ?_, .inl hl1⟩
        rw [hen]
        exact (runForcedRef_err _ _ _ _ _ hl1).symm
      · rw [hen]
        refine ⟨_, fun rest => rfl, ?_⟩
        have hins : ∀ st : Inc.PState, st.err = none → (st.insertFile (Inc.parseAll fs) f).err = none :=
          fun st h => Inc.insertFile_err_none st _ f _ h hpg
        rw [hins _ rfl]
        simp only [Option.isSome_none, Bool.false_eq_true, if_false]
        have hrel' : RelW E name { assoc := l.assoc, warns := l.warns, err := none, plat := p2, taken := l.taken }
            { st := ({ w.st with err := none, visits := w.st.visits ++ [(⟨src, 0, 0, inc, false, w.plat.incPaths,
                        IncMemo.resolveM fs.env w.plat.incPaths ⟨inc, Inc.dirnameK src, false⟩⟩ : Inc.Visit)] } : Inc.PState).insertFile
                      (Inc.parseAll fs) f,
              plat := { w.plat with memo := p2.memo } } :=
          ⟨rfl, hins _ rfl, hplat2, hname2, fun f' i p => by
            rw [(Inc.insertFile_frame _ (Inc.parseAll fs) f).2.2]; exact hrel.att f' i p⟩
        rcases file_agree fs hl hfam hT name fuel f n nodes ts dd E _ _ hpg hb hrel' with h | h | ⟨h, _⟩
        · exact .inl h
        · exact .inr (.inl (by simpa [assocFile] using h))
        · exact .inr (.inr (by simpa [assocFile] using h))

/-- **the `-include` loop**: `Exclude.runForcedRef` against the fold of `Inc.forcedWith`, from related worlds -/
theorem forced_agree (fs : Inc.FS) (hl : fs.links = []) (hfam : FindInst.CFam fs.files = true) (hT : TreesOK)
    (n fuel : Nat) (name src : String) (E : String → Nat → String → Prop) :
    ∀ (incs : List String), (incs ≠ [] → FindInst.AllC fs.files = true) → ∀ (l : Local) (w : Inc.World), F3 E name l w →
    F3 E name (runForcedRef (Exclude.sem fs.files) n (dirname src) incs l)
      (incs.foldl (Inc.forcedWith true (assocFile (Inc.ops fs (Inc.parseAll fs)) fuel) fs (Inc.parseAll fs) src) w)
  | [], _, l, w, h => by simpa [runForcedRef] using h
  | inc :: rest, hA, l, w, h => by
    have hall : FindInst.AllC fs.files = true := hA (by simp)
    have hrest : rest ≠ [] → FindInst.AllC fs.files = true := fun _ => hall
    rcases h with h | h | hrel
    · rw [runForcedRef_err _ _ _ _ _ h]; exact .inl h
    · rw [forcedFold_err _ _ _ _ _ _ h]; exact .inr (.inl h)
    · simp only [List.foldl_cons]
      obtain ⟨l', h1, h2⟩ := forced_one fs hl hfam hT hall n fuel name src E inc l w hrel
      rw [h1 rest]
      exact forced_agree fs hl hfam hT n fuel name src E rest hrest l' _ h2

/-- one database entry with `-include` files -/
theorem entry_top_f (fs : Inc.FS) (hl : fs.links = []) (hfam : FindInst.CFam fs.files = true) (hT : TreesOK) (n fuel : Nat)
    (pname : String) (e : Entry) (hext : extClass e.file = some .c)
    (hforced : e.includeFiles ≠ [] → FindInst.AllC fs.files = true)
    (l : Local) (st : Inc.PState) (h : Top3 l st) :
    Top3 (runEntryRef (Exclude.sem fs.files) n pname e l)
      (Inc.runEntryWith true (assocFile (Inc.ops fs (Inc.parseAll fs)) fuel) fs (Inc.parseAll fs) pname st e) := by
  rcases h with h | h | ⟨hle, hse, hatt⟩
  · left
    unfold runEntryRef
    cases he : l.err with
    | none => exact absurd he h
    | some e => simpa using h
  · right; left
    unfold Inc.runEntryWith
    cases he : st.err with
    | none => exact absurd he h
    | some e => simpa using h
  · obtain ⟨la, lw, lerr, lp, lt⟩ := l
    simp only at hle
    subst hle
    unfold runEntryRef Inc.runEntryWith
    simp only [hse, Option.isSome_none, Bool.false_eq_true, if_false]
    have hmk : (Exclude.sem fs.files).mkPlat pname e = defineAll e.defines { name := pname, incPaths := e.includePaths } := rfl
    rw [hmk, defineAll_eq]
    cases hbd : Inc.buildDefines e.defines ([] : Table) with
    | error er => left; simp [Except.map, Local.fail]
    | ok tbl =>
      simp only [Except.map]
      rw [realpath_id fs hl]
      have hrel0 : RelW (fun _ _ _ => False) pname
          { assoc := la, warns := lw, err := none, plat := { name := pname, tbl := tbl, incPaths := e.includePaths }, taken := [] }
          ({ st := st, plat := { name := pname, tbl := tbl, incPaths := e.includePaths } } : Inc.World) :=
        ⟨rfl, hse, rfl, rfl, fun f i p => by simp [hatt]⟩
      have hf := forced_agree fs hl hfam hT n fuel pname e.file (fun _ _ _ => False) e.includeFiles hforced _ _
        (.inr (.inr hrel0))
      generalize runForcedRef (Exclude.sem fs.files) n (dirname e.file) e.includeFiles
        { assoc := la, warns := lw, err := none, plat := { name := pname, tbl := tbl, incPaths := e.includePaths }, taken := [] } = lf at hf ⊢
      generalize List.foldl (Inc.forcedWith true (assocFile (Inc.ops fs (Inc.parseAll fs)) fuel) fs (Inc.parseAll fs) e.file)
        ({ st := st, plat := { name := pname, tbl := tbl, incPaths := e.includePaths } } : Inc.World) e.includeFiles = wf at hf ⊢
      rcases hf with h | h | hrel
      · left
        cases he : lf.err with
        | none => exact absurd he h
        | some e => simpa using h
      · right; left
        cases he : wf.st.err with
        | none => exact absurd he h
        | some e => simpa using h
      · simp only [hrel.lerr, hrel.werr, Option.isSome_none, Bool.false_eq_true, if_false]
        rcases enterRef_cases' fs lf e.file none
            (fun _ _ => by simp [Exclude.Sem.refClass, Exclude.sem, hext])
          with ⟨l1, hen, hl1⟩ | ⟨nodes, ts, dd, hpg, hb, hen⟩
        · rw [hen]; exact .inl hl1
        · rw [hen]
          simp only []
          rcases file_agree fs hl hfam hT pname fuel e.file n nodes ts dd _ _ _ hpg hb hrel with h | h | ⟨h, _⟩
          · exact .inl h
          · exact .inr (.inl (by simpa [assocFile] using h))
          · exact .inr (.inr ⟨h.lerr, by simpa [assocFile] using h.werr, fun f i p => by
              have := h.att f i p
              simpa [assocFile] using this⟩)

theorem entries_top_f (fs : Inc.FS) (hl : fs.links = []) (hfam : FindInst.CFam fs.files = true) (hT : TreesOK) (n fuel : Nat)
    (pname : String) : ∀ (es : List Entry),
    (∀ e ∈ es, extClass e.file = some .c ∧ (e.includeFiles ≠ [] → FindInst.AllC fs.files = true)) →
    ∀ (l : Local) (st : Inc.PState), Top3 l st →
    Top3 (runEntriesRef (Exclude.sem fs.files) n pname es l)
      (es.foldl (Inc.runEntryWith true (assocFile (Inc.ops fs (Inc.parseAll fs)) fuel) fs (Inc.parseAll fs) pname) st)
  | [], _, l, st, h => by simpa [runEntriesRef] using h
  | e :: es, hes, l, st, h => by
    simp only [runEntriesRef, List.foldl_cons]
    exact entries_top_f fs hl hfam hT n fuel pname es (fun x hx => hes x (by simp [hx])) _ _
      (entry_top_f fs hl hfam hT n fuel pname e (hes e (by simp)).1 (hes e (by simp)).2 l st h)

theorem config_top_f (fs : Inc.FS) (hl : fs.links = []) (hfam : FindInst.CFam fs.files = true) (hT : TreesOK) (n fuel : Nat) :
    ∀ (cfg : List (String × List Entry)),
    (∀ pe ∈ cfg, ∀ e ∈ pe.2, extClass e.file = some .c ∧ (e.includeFiles ≠ [] → FindInst.AllC fs.files = true)) →
    ∀ (l : Local) (st : Inc.PState), Top3 l st →
    Top3 (runConfigRef (Exclude.sem fs.files) n cfg l)
      (cfg.foldl (fun st pe => pe.2.foldl
        (Inc.runEntryWith true (assocFile (Inc.ops fs (Inc.parseAll fs)) fuel) fs (Inc.parseAll fs) pe.1) st) st)
  | [], _, l, st, h => by simpa [runConfigRef] using h
  | (p, es) :: cfg, hc, l, st, h => by
    simp only [runConfigRef, List.foldl_cons]
    exact config_top_f fs hl hfam hT n fuel cfg (fun x hx => hc x (by simp [hx])) _ _
      (entries_top_f fs hl hfam hT n fuel p es (hc (p, es) (by simp)) l st h)

theorem engOKF_spec (fs : Inc.FS) (cfg : List (String × List Entry)) (h : EngOKF fs cfg = true) :
    fs.links = [] ∧ FindInst.CFam fs.files = true ∧
    ∀ pe ∈ cfg, ∀ e ∈ pe.2, extClass e.file = some .c ∧ (e.includeFiles ≠ [] → FindInst.AllC fs.files = true) := by
  simp only [EngOKF, Bool.and_eq_true, Bool.or_eq_true, List.all_eq_true, List.isEmpty_iff, beq_iff_eq] at h
  refine ⟨h.1.1, h.1.2, fun pe hpe e he => ⟨(h.2 pe hpe e he).1, fun hne => ?_⟩⟩
  rcases (h.2 pe hpe e he).2 with h2 | h2
  · exact absurd h2 hne
  · exact h2

/-- `EngOK` is the special case "no `-include` file" of `EngOKF` -/
theorem engOKF_of_engOK (fs : Inc.FS) (cfg : List (String × List Entry)) (h : EngOK fs cfg = true) : EngOKF fs cfg = true := by
  simp only [EngOK, EngOKF, Bool.and_eq_true, Bool.or_eq_true, List.all_eq_true, List.isEmpty_iff, beq_iff_eq] at h ⊢
  exact ⟨h.1, fun pe hpe e he => ⟨(h.2 pe hpe e he).1, .inl (h.2 pe hpe e he).2⟩⟩

theorem find_top_f (fs : Inc.FS) (cb : List String) (cfg : List (String × List Entry)) (n fuel : Nat) (hT : TreesOK)
    (hok : EngOKF fs cfg = true) : Top3 (runExclude fs cfg n) (Inc.find fs cb cfg fuel) := by
  obtain ⟨hl, hfam, hc⟩ := engOKF_spec fs cfg hok
  unfold runExclude findRef Inc.find Inc.findWith
  simp only []
  apply config_top_f fs hl hfam hT n fuel cfg hc
  by_cases he : (List.foldl (fun s f => s.insertFile (Inc.parseAll fs) (fs.realpath f)) ({} : Inc.PState)
      (cb ++ List.map (fun x => x.file) (List.flatMap (fun x => x.2) cfg))).err = none
  · refine .inr (.inr ⟨rfl, he, fun f i p => ?_⟩)
    rw [st0_assoc]
  · exact .inr (.inl he)

end CbiVerif.Engines
