/-! Prototype: include-resolution memo is transparent (C04.memo_transparent / C18). -/
namespace CbiVerif.Memo

structure Query where
  name : String
  dir : String      -- directory of the includer
  sys : Bool        -- <> form
deriving DecidableEq

/-- abstract file system + include paths: the memo-free resolver of the spec -/
structure Ctx where
  isfile : String → Bool
  paths : List String
  join : String → String → String

def Ctx.resolve (c : Ctx) (q : Query) : Option String :=
  ((if q.sys then [] else [q.dir]) ++ c.paths).map (c.join · q.name) |>.find? c.isfile

/-- the memo as the *fixed* code keeps it: keyed by the whole query -/
abbrev Memo := List (Query × Option String)

def lookup (m : Memo) (q : Query) : Option (Option String) := (m.find? (·.1 == q)).map (·.2)

/-- `Platform.find_include_file` with a memo keyed by `key q` -/
def find (c : Ctx) (m : Memo) (q : Query) : Option String × Memo :=
  match lookup m q with
  | some r => (r, m)
  | none => let r := c.resolve q; (r, (q, r) :: m)

def Sound (c : Ctx) (m : Memo) : Prop := ∀ q r, lookup m q = some r → r = c.resolve q

theorem find_spec (c : Ctx) (m : Memo) (q : Query) (h : Sound c m) :
    (find c m q).1 = c.resolve q ∧ Sound c (find c m q).2 := by
  unfold find
  cases hl : lookup m q with
  | some r => exact ⟨h q r hl, h⟩
  | none =>
    refine ⟨rfl, ?_⟩
    intro q' r' hq
    simp only [lookup, List.find?_cons] at hq
    by_cases e : q = q'
    · subst e; simp at hq; exact hq.symm
    · have : ((q, c.resolve q).1 == q') = false := by simpa using e
      simp only [this] at hq
      exact h q' r' hq

/-- every history of look-ups: the memoised resolver answers exactly like the memo-free one -/
def run (c : Ctx) : Memo → List Query → List (Option String)
  | _, [] => []
  | m, q :: qs => let (r, m') := find c m q; r :: run c m' qs

theorem memo_transparent (c : Ctx) (m : Memo) (h : Sound c m) (qs : List Query) :
    run c m qs = qs.map c.resolve := by
  induction qs generalizing m with
  | nil => rfl
  | cons q qs ih =>
    obtain ⟨h1, h2⟩ := find_spec c m q h
    simp only [run, List.map_cons]
    rw [h1, ih _ h2]

/-- the pinned code keys the memo by spelling only: a two-query counter-example -/
def findBySpelling (c : Ctx) (m : List (String × Option String)) (q : Query) :=
  match (m.find? (·.1 == q.name)).map (·.2) with
  | some r => (r, m)
  | none => let r := c.resolve q; (r, (q.name, r) :: m)

def ctxEx : Ctx := { isfile := fun p => p == "b/x.h" || p == "a/x.h", paths := [], join := fun d n => d ++ "/" ++ n }

example :
    let q1 : Query := ⟨"x.h", "a", false⟩
    let q2 : Query := ⟨"x.h", "b", false⟩
    let (_, m1) := findBySpelling ctxEx [] q1
    (findBySpelling ctxEx m1 q2).1 ≠ ctxEx.resolve q2 := by decide

end CbiVerif.Memo
