import Lean.Data.Json
import CbiVerif.Model.FindInc
import CbiVerif.Model.Warn
/-! driver ops for C04 / C18: `findinc`, `incmemo`, `incargv`, `warncount`, `warnrender`, `dbevents` -/
open Lean
namespace CbiVerif.Drv.Include
open CbiVerif.PP CbiVerif.Inc CbiVerif.IncludeSearch

def strs (e : Json) (k : String) : List String := ((e.getObjValAs? (Array String) k).toOption.getD #[]).toList
def getS (e : Json) (k : String) : String := (e.getObjValAs? String k).toOption.getD ""
def optS : Option String → Json | none => Json.null | some s => Json.str s
def arrOf (e : Json) (k : String) : List Json := ((e.getObjValAs? (Array Json) k).toOption.getD #[]).toList
def jstr (j : Json) : String := j.getStr?.toOption.getD ""
def jnth (j : Json) (i : Nat) : Json := match j with | Json.arr a => a[i]?.getD Json.null | _ => Json.null

def visitJson (v : Visit) : Json :=
  Json.arr #[Json.str (if v.sys then "system" else "user"), Json.str v.file, (v.line : Nat), Json.str v.name, optS v.spec]

def handleFind (j : Json) : Json :=
  let files : FSMap := match j.getObjVal? "files" with
    | .ok (Json.obj kvs) => kvs.toList.map fun (k, v) => (k, jstr v)
    | _ => []
  let links := (arrOf j "links").map fun l => (jstr (jnth l 0), jstr (jnth l 1))
  let fs : FS := { files := files, links := links }
  let config : List (String × List Entry) := (arrOf j "config").map fun pj =>
    (getS pj "name", (arrOf pj "entries").map fun e =>
      ({ file := getS e "file", defines := strs e "defines", includePaths := strs e "include_paths",
         includeFiles := strs e "include_files" } : Entry))
  let fuel := (j.getObjValAs? Nat "fuel").toOption.getD 64
  let st := find fs (strs j "codebase") config fuel
  match st.err with
  | some e => Json.mkObj [("exc", toString (repr e))]
  | none =>
    let pfs := parseAll fs
    let filesOut := st.inserted.map fun f =>
      let nodes : List PNode := match pfs.get f with | some (.ok p) => p.nodes.toList | _ => []
      (f, Json.arr (nodes.zipIdx.map fun (n, i) =>
        let ps := ((st.assoc.find? (·.1 == (f, i))).map (·.2)).getD []
        Json.arr #[Json.str ((toString (repr n.kind)).splitOn "." |>.getLast!),
                   Json.arr (n.lines.map fun (x : Nat) => (x : Json)).toArray,
                   Json.arr (ps.map Json.str).toArray]).toArray)
    let sp := findSpec fs (strs j "codebase") config fuel
    let assocOf (s : Inc.PState) : List (String × Nat × List String) :=
      (s.assoc.map fun e => (e.1.1, e.1.2, e.2.mergeSort (fun a b => decide (a ≤ b)))).mergeSort
        (fun a b => decide (a.1 < b.1 || (a.1 == b.1 && a.2.1 ≤ b.2.1)))
    let specAgrees : Bool := sp.err.isNone && assocOf sp == assocOf st && sp.warns == st.warns && sp.visits == st.visits
    Json.mkObj [("ok", Json.mkObj filesOut), ("spec_agrees", specAgrees), ("wf", pfs.wf),
      ("warns", Json.arr (st.warns.map visitJson).toArray),
      ("visits", Json.arr (st.visits.map visitJson).toArray),
      ("dwarns", Json.arr (st.dwarns.map fun d => Json.arr #[Json.str d.file, (d.line : Nat), Json.str d.name, Json.str d.spelling]).toArray)]

def flagOf (j : Json) : Flag :=
  match jstr (jnth j 0) with
  | "I" => .I (jstr (jnth j 1))
  | "isystem" => .isystem (jstr (jnth j 1))
  | _ => .other (jstr (jnth j 1))

/-- {"op":"incargv","argv":[["I",d]|["isystem",d]|["other",t]…]} → model = handed list, spec = compiler's list -/
def handleArgv (j : Json) : Json :=
  let argv := (arrOf j "argv").map flagOf
  Json.mkObj [("model", Json.arr ((IncMemo.handed argv).map Json.str).toArray),
              ("spec", Json.arr ((commandDirs argv).map Json.str).toArray)]

/-- {"op":"incmemo","existing":[paths],"argv":[…],"queries":[[name,dir,sys]…],"key":"code"|"spelling"}
model = the memoised resolver run over the whole history; spec = the compiler's rule per query -/
def handleMemo (j : Json) : Json :=
  let existing := strs j "existing"
  let E : Env := { isfile := fun p => existing.contains p, join := fun d n => normpathK (joinPathK d n) }
  let argv := (arrOf j "argv").map flagOf
  let qs : List IncMemo.Query := (arrOf j "queries").map fun q =>
    ⟨jstr (jnth q 0), jstr (jnth q 1), (jnth q 2).getBool?.toOption.getD false⟩
  let model :=
    if getS j "key" == "spelling" then IncMemo.runBy (fun q => q.name) (IncMemo.resolveM E (IncMemo.handed argv)) [] qs
    else IncMemo.run E (IncMemo.handed argv) [] qs
  let spec := qs.map fun q =>
    resolve E (!q.sys) q.dir (argv.filterMap Flag.getI) (argv.filterMap Flag.getSys) q.name
  Json.mkObj [("model", Json.arr (model.map optS).toArray), ("spec", Json.arr (spec.map optS).toArray)]

open CbiVerif.Warn in
def kindOfStr : String → Kind
  | "user" => .userInclude | "system" => .systemInclude | "directive" => .unknownDirective
  | "missing" => .missingFile | "compiler" => .unknownCompiler | "args" => .unknownArgs | _ => .noFiles

open CbiVerif.Warn in
def eventOf (j : Json) : Event :=
  { kind := kindOfStr (getS j "kind"), file := getS j "file", line := (j.getObjValAs? Nat "line").toOption.getD 0,
    col := (j.getObjValAs? Nat "col").toOption.getD 0, name := getS j "name", spelling := getS j "spelling" }

/-- {"op":"warncount","records":[[level,msg]…]} → counters and closing lines of the aggregator model -/
def handleWarnCount (j : Json) : Json :=
  let rs : List CbiVerif.Warn.Record := (arrOf j "records").map fun r => ⟨jstr (jnth r 0), (jstr (jnth r 1)).toList⟩
  Json.mkObj [("counts", Json.arr ((CbiVerif.Warn.counts rs).map fun (n : Nat) => (n : Json)).toArray),
              ("closing", Json.arr ((CbiVerif.Warn.closing rs).map Json.str).toArray)]

/-- {"op":"warnrender","events":[{kind,file,line,col,name,spelling}…]} → messages, counters, closing lines -/
def handleRender (j : Json) : Json :=
  let es := (arrOf j "events").map eventOf
  let rs := CbiVerif.Warn.recordsOf es
  Json.mkObj [("messages", Json.arr (es.map fun e => Json.str (CbiVerif.Warn.render e)).toArray),
              ("counts", Json.arr ((CbiVerif.Warn.counts rs).map fun (n : Nat) => (n : Json)).toArray),
              ("closing", Json.arr ((CbiVerif.Warn.closing rs).map Json.str).toArray)]

/-- {"op":"dbevents","dbpath":…,"entries":[{path,supported,exists,compiler,known,unrecognised}…]} -/
def handleDb (j : Json) : Json :=
  let gb (e : Json) (k : String) : Bool := (e.getObjValAs? Bool k).toOption.getD false
  let es : List CbiVerif.Warn.DbEntry := (arrOf j "entries").map fun e =>
    { path := getS e "path", supported := gb e "supported", exists_ := gb e "exists", compiler := getS e "compiler",
      known := gb e "known", unrecognised := strs e "unrecognised" }
  let evs := CbiVerif.Warn.dbEvents (getS j "dbpath") es
  Json.mkObj [("events", Json.arr (evs.map fun e => Json.arr #[Json.str (toString (repr e.kind) |>.splitOn "." |>.getLast!), Json.str e.name]).toArray),
              ("messages", Json.arr (evs.map fun e => Json.str (CbiVerif.Warn.render e)).toArray)]

/-- {"op":"dirwarns","text":…} → unknown-directive warnings of one file's text [[line,name,spelling]…] -/
def handleDirWarns (j : Json) : Json :=
  Json.arr (((directivesOfText (getS j "text")).filter (·.warns)).map fun d =>
    Json.arr #[(d.line : Nat), Json.str d.name, Json.str d.spelling]).toArray

def handlers : List (String × (Json → Json)) :=
  [("findinc", handleFind), ("incargv", handleArgv), ("incmemo", handleMemo),
   ("warncount", handleWarnCount), ("warnrender", handleRender), ("dbevents", handleDb), ("dirwarns", handleDirWarns)]

end CbiVerif.Drv.Include
