import CbiVerif.Model.FindInc
/-! # The include graph of the multi-file model (`CbiVerif.Inc`) and the files a platform is attributed to.

Used by C13 (`Props/C13Closure.lean`): "only files named by entries, and what they include, are attributed".

* `Includes fs pfs incs f g` is defined from the model's own resolution function (`IncMemo.resolveM`, the loop of
  `Platform.find_include_file`, over `FS.env`) and the model's own parse of `f` (`ParsedFS.node`): `f` contains an
  `#include` directive whose target (spelled literally, or computed under some macro table) the search rule resolves
  - from the directory of `f`, then along `incs` - to a file whose real path is `g`.
* `ForcedRoot fs src incs forced g`: `g` is the real path of what a `-include` name of the command resolves to
  (searched like a quote include written in the entry's source file).
* `PState.attributedTo st p`: the files that have at least one node attributed to platform `p`.
Core Lean only (linked into the driver). -/
namespace CbiVerif.Inc
open CbiVerif.PP CbiVerif.IncludeSearch

/-- reflexive-transitive closure of an edge relation, from `root` -/
inductive Reach (R : String → String → Prop) (root : String) : String → Prop
  | self : Reach R root root
  | step {f g : String} : Reach R root f → R f g → Reach R root g

/-- `f`, processed with search directories `incs`, has an include directive that resolves to (the real path) `g` -/
def Includes (fs : FS) (pfs : ParsedFS) (incs : List String) (f g : String) : Prop :=
  ∃ (idx : Nat) (n : PNode) (tbl : Table) (name : String) (sys : Bool) (inc : String),
    pfs.node f idx = some n ∧ n.kind = .include ∧ includeTarget tbl n.toks = .ok (name, sys) ∧
    IncMemo.resolveM fs.env incs ⟨name, dirnameK f, sys⟩ = some inc ∧ g = fs.realpath inc

/-- executable sufficient check for `Includes`: node `idx` of `f` is a literally spelled include that resolves to `g` -/
def includesB (fs : FS) (pfs : ParsedFS) (incs : List String) (f : String) (idx : Nat) (g : String) : Bool :=
  match pfs.node f idx with
  | some n =>
    decide (n.kind = .include) &&
    (match includeTarget [] n.toks with
     | .ok ps => (IncMemo.resolveM fs.env incs ⟨ps.1, dirnameK f, ps.2⟩).map fs.realpath == some g
     | .error _ => false)
  | none => false

/-- `g` is (the real path of) a forced include of a command for source file `src` -/
def ForcedRoot (fs : FS) (src : String) (incs forced : List String) (g : String) : Prop :=
  ∃ inc ∈ forced, ∃ r, IncMemo.resolveM fs.env incs ⟨inc, dirnameK src, false⟩ = some r ∧ g = fs.realpath r

/-- `f` is the entry's file, one of its forced includes, or reached from one of those through include directives
resolved with the entry's search directories -/
def ReachE (fs : FS) (pfs : ParsedFS) (e : Entry) (f : String) : Prop :=
  ∃ root, (root = fs.realpath e.file ∨ ForcedRoot fs e.file e.includePaths e.includeFiles root) ∧
    Reach (Includes fs pfs e.includePaths) root f

/-- the files with at least one node attributed to platform `p` (one occurrence per such node) -/
def PState.attributedTo (st : PState) (p : String) : List String :=
  (st.assoc.filter fun a => a.2.contains p).map (·.1.1)

/-- the same without repetitions, in order of first attribution (what the driver prints) -/
def PState.attributedFiles (st : PState) (p : String) : List String := (st.attributedTo p).eraseDups

end CbiVerif.Inc
