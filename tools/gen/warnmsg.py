"""Translator plug-in (C18): the message templates of the warnings the property covers -> Generated/WarnMsg.lean.

Extracted with `ast` from the `log.warning(...)` call sites

  include     codebasin/preprocessor.py  IncludeNode.evaluate_for_platform   (unresolved #include)
  forced      codebasin/finder.py        find                                (-include file not found)
  directive   codebasin/file_parser.py   FileParser.insert_directive_node    (unrecognised directive)
  compiler    codebasin/config.py        ArgumentParser.__init__             (unknown compiler)
  args        codebasin/config.py        ArgumentParser.parse_args           (unrecognised arguments)
  missing     codebasin/config.py        load_database (1st)                 (database entry for a missing file)
  nofiles     codebasin/config.py        load_database (2nd)                 (no usable entry)

The message expression (f-strings joined by `+`, local f-string variables inlined) becomes a list of pieces
`.lit "text"` / `.arg <field> <width>`; the *field* of a `{placeholder}` is decided from where its value comes
from in the function (the assignments to the local variable, a loop variable, a parameter, an attribute), not from
its name.  A placeholder whose provenance is none of the recognised ones becomes `.arg (.other "<python expr>") 0`
- the model then renders nothing for it and the theorems of Props/C18Msg.lean about the template (it names the file,
the line, the requested name, ...) stop holding, which is the intended outcome when e.g. the resolved path is
printed instead of the requested name.  Only the format specs "" and ">N" and no conversion / `!s` are understood.
"""
from __future__ import annotations

import ast

# provenance (python expression the placeholder's value comes from)  ->  field
PROV = {
    "include": {
        "kwargs['filename']": "file",
        "self.start_line": "line",
        "self.spelling()[0]": "spelling",
        "'system include' if is_system_include else 'user include'": "kind",
        # requested name: literal include (self.value.path) or computed include (path_obj.path)
        "None|path_obj.path|self.value.path": "name",
    },
    "forced": {
        "e['file']": "file",
        "iter:e['include_files']": "name",
    },
    "directive": {
        "tree.root.filename": "file",
        "tokens[0].line": "line",
        "tokens[0].col": "col",
        "new_node.spelling()": "spellingList",   # a list[str]: printed with Python's list repr
    },
    "compiler": {"self.name": "name"},
    "args": {"join:unrecognized": "name"},
    "missing": {"os.path.abspath(command.filename)|os.path.abspath(os.path.join(filedir, command.filename))": "name"},
    "nofiles": {"param:dbpath": "name"},
}

SITES = [
    # key, file, class, function, index among the function's log.warning calls, number of such calls
    ("include", "codebasin/preprocessor.py", "IncludeNode", "evaluate_for_platform", 0, 1),
    ("forced", "codebasin/finder.py", None, "find", 0, 1),
    ("directive", "codebasin/file_parser.py", "FileParser", "insert_directive_node", 0, 1),
    ("compiler", "codebasin/config.py", "ArgumentParser", "__init__", 0, 1),
    ("args", "codebasin/config.py", "ArgumentParser", "parse_args", 0, 1),
    ("missing", "codebasin/config.py", None, "load_database", 0, 2),
    ("nofiles", "codebasin/config.py", None, "load_database", 1, 2),
]


def warning_calls(fn):
    out = []
    for n in ast.walk(fn):
        if isinstance(n, ast.Call) and isinstance(n.func, ast.Attribute) and n.func.attr == "warning" \
                and ast.unparse(n.func.value) in ("log", "logging", "logger"):
            out.append(n)
    out.sort(key=lambda c: (c.lineno, c.col_offset))
    return out


def provenance(fn, name):
    """where the value of local `name` comes from: the (sorted, '|'-joined) right-hand sides assigned to it, the
    iterable it loops over, or the parameter it is"""
    rhs = set()
    for n in ast.walk(fn):
        if isinstance(n, ast.Assign) and any(isinstance(t, ast.Name) and t.id == name for t in n.targets):
            rhs.add(ast.unparse(n.value))
        elif isinstance(n, ast.For) and isinstance(n.target, ast.Name) and n.target.id == name:
            rhs.add("iter:" + ast.unparse(n.iter))
    if not rhs and name in [a.arg for a in fn.args.args + fn.args.kwonlyargs]:
        rhs.add("param:" + name)
    return "|".join(sorted(rhs))


def local_fstring(fn, name):
    """the f-string (or string) a local variable is assigned, if it is assigned exactly once and to one"""
    vals = [n.value for n in ast.walk(fn) if isinstance(n, ast.Assign)
            and any(isinstance(t, ast.Name) and t.id == name for t in n.targets)]
    if len(vals) == 1 and isinstance(vals[0], (ast.JoinedStr, ast.BinOp)) and is_stringy(vals[0]):
        return vals[0]
    return None


def is_stringy(e):
    if isinstance(e, ast.JoinedStr):
        return True
    if isinstance(e, ast.Constant) and isinstance(e.value, str):
        return True
    if isinstance(e, ast.BinOp) and isinstance(e.op, ast.Add):
        return is_stringy(e.left) and is_stringy(e.right)
    return False


def pieces(h, fn, key, e, depth=0):
    if depth > 4:
        raise h.Missing("message expression nests too deeply")
    if isinstance(e, ast.BinOp) and isinstance(e.op, ast.Add):
        return pieces(h, fn, key, e.left, depth) + pieces(h, fn, key, e.right, depth)
    if isinstance(e, ast.Constant) and isinstance(e.value, str):
        return [("lit", e.value)]
    if isinstance(e, ast.JoinedStr):
        out = []
        for v in e.values:
            if isinstance(v, ast.Constant):
                out.append(("lit", str(v.value)))
                continue
            width = 0
            if v.format_spec is not None:
                spec = "".join(x.value for x in v.format_spec.values if isinstance(x, ast.Constant)) \
                    if all(isinstance(x, ast.Constant) for x in v.format_spec.values) else None
                if spec is None or not (spec == "" or (spec[0] == ">" and spec[1:].isdigit())):
                    out.append(("arg", "other", ast.unparse(v), 0))
                    continue
                width = int(spec[1:]) if spec else 0
            if v.conversion not in (-1, 115):
                out.append(("arg", "other", ast.unparse(v), 0))
                continue
            val = v.value
            # an integer / string literal placeholder is text
            if isinstance(val, ast.Constant) and isinstance(val.value, (int, str)) and not isinstance(val.value, bool) and width == 0:
                out.append(("lit", str(val.value)))
                continue
            if isinstance(val, ast.Name):
                inner = local_fstring(fn, val.id)
                if inner is not None and width == 0:
                    out.extend(pieces(h, fn, key, inner, depth + 1))
                    continue
                prov = provenance(fn, val.id)
            elif isinstance(val, ast.Call) and isinstance(val.func, ast.Attribute) and val.func.attr == "join" \
                    and isinstance(val.func.value, ast.Constant) and len(val.args) == 1 and isinstance(val.args[0], ast.Name):
                JOINERS[key] = val.func.value.value
                prov = "join:" + val.args[0].id
            else:
                prov = ast.unparse(val)
            field = PROV[key].get(prov)
            if field is None:
                out.append(("arg", "other", ast.unparse(val) + " <- " + prov, 0))
            else:
                out.append(("arg", field, None, width))
        return out
    raise h.Missing(f"{key}: message is not built from string literals and f-strings: {ast.unparse(e)[:80]}")


JOINERS = {}


def merge(ps):
    out = []
    for p in ps:
        if p[0] == "lit" and out and out[-1][0] == "lit":
            out[-1] = ("lit", out[-1][1] + p[1])
        elif p[0] == "lit" and p[1] == "":
            continue
        else:
            out.append(p)
    return out


def lean_piece(h, p):
    if p[0] == "lit":
        return f".lit {h.lstr(p[1])}"
    if p[1] == "other":
        return f".arg (.other {h.lstr(p[2])}) {p[3]}"
    return f".arg .{p[1]} {p[3]}"


def generate(repo, h):
    JOINERS.clear()
    L = ["import CbiVerif.Model.WarnTmpl",
         "/-! GENERATED by tools/gen/warnmsg.py from /repo's working tree — do not edit. -/",
         "namespace CbiVerif.Gen",
         "open CbiVerif.WarnTmpl\n"]
    sites = []
    for key, rel, cls, fname, idx, count in SITES:
        mod = h.parse(rel)
        scope = h.find_class(mod, cls) if cls else mod
        fn = h.find_func(scope, fname)
        calls = warning_calls(fn)
        if len(calls) != count:
            raise h.Missing(f"{rel}:{fname}: {len(calls)} log.warning call(s), {count} expected")
        call = calls[idx]
        if len(call.args) != 1 or call.keywords:
            raise h.Missing(f"{rel}:{fname}: log.warning is not called with one message argument")
        ps = merge(pieces(h, fn, key, call.args[0]))
        name = "tmpl" + key[0].upper() + key[1:]
        L.append(f"/-- {rel}: {(cls + '.') if cls else ''}{fname} -/")
        L.append(f"def {name} : List Piece :=\n  " + h.llist(ps, lambda p: lean_piece(h, p)))
        sites.append((key, f"{rel}:{(cls + '.') if cls else ''}{fname}"))
    L.append("/-- separator of `' '.join(unrecognized)` in the unrecognised-arguments message -/")
    L.append(f"def argsJoiner : String := {h.lstr(JOINERS.get('args', ''))}")
    L.append("def warnSites : List (String × String) :=\n  " + h.llist(sites, lambda r: f"({h.lstr(r[0])}, {h.lstr(r[1])})"))
    L.append("\nend CbiVerif.Gen")
    return {"WarnMsg.lean": "\n".join(L) + "\n"}
