import Lean.Data.Json
import CbiVerif.Model.C14Compose
import CbiVerif.Drv.C06Compose
/-! driver op for C14 on the composed text-level pipeline:
`{"op":"c14text","variants":[{"files":[{"path":[..],"text":str}],"plats":[{"name":str,"entries":[{"file":[..],"defs":[..]}]}]}, ..]}` →
`{"results":[ {"ok":{"rows":[[name,count,"p/q"]..]|null,"total":n,"coverage":[{"file":str,"used":[..],"unused":[..]}..],
                     "attribution":[[file,[[line,[plat..]]..]]..],"setmap":[[[plat..],n]..]}} | {"exc":str}, ..],
   "invariant": b}`
`ok` = `C14C.canonOf` of `C06C.analyse` — the readings `Props/C14Compose.lean` is about (`setmap` is the list representation, for
information: it is NOT invariant); `invariant` = all `C14C.resultsOfTexts` of the variants are equal (`DecidableEq` of `Option Canon`),
i.e. the statement of `C14.Text.analysis_deterministic` evaluated on the presentations sent. -/
open Lean
namespace CbiVerif.Drv.C14Compose
open CbiVerif.SM CbiVerif.C06C CbiVerif.C14C CbiVerif.Drv.C06 CbiVerif.Drv.C06Compose

def canonJson (c : Canon) : Json :=
  Json.mkObj [
    ("rows", match c.rows with
      | none => Json.null
      | some rs => Json.arr (rs.map fun (r : String × Nat × Rat) => Json.arr #[Json.str r.1, nj r.2.1, ratJson (some r.2.2)]).toArray),
    ("total", nj c.total),
    ("coverage", Json.arr (c.coverage.map fun r =>
        Json.mkObj [("file", Json.str r.file), ("used", natsJson r.used), ("unused", natsJson r.unused)]).toArray),
    ("attribution", Json.arr (c.attribution.map fun (x : String × List (Nat × List String)) =>
        Json.arr #[Json.str x.1, Json.arr (x.2.map fun (y : Nat × List String) => Json.arr #[nj y.1, keyJson y.2]).toArray]).toArray)]

def variantOf (j : Json) : List SrcFile × List Plat :=
  (((j.getObjValAs? (Array Json) "files").toOption.getD #[]).toList.map parseSrcFile,
   ((j.getObjValAs? (Array Json) "plats").toOption.getD #[]).toList.map parsePlat)

def resultJson (v : List SrcFile × List Plat) : Json :=
  match analyse v.1 v.2 with
  | .error e => Json.mkObj [("exc", toString (repr e))]
  | .ok fs => Json.mkObj [("ok", (canonJson (canonOf fs)).setObjVal! "setmap" (smJson (getSetmap fs)))]

def handle (j : Json) : Json :=
  let vs := ((j.getObjValAs? (Array Json) "variants").toOption.getD #[]).toList.map variantOf
  let rs := vs.map fun v => resultsOfTexts v.1 v.2
  let inv := match rs with
    | [] => true
    | r :: rest => rest.all fun r' => decide (r' = r)
  Json.mkObj [("results", Json.arr (vs.map resultJson).toArray), ("invariant", Json.bool inv)]

def handlers : List (String × (Json → Json)) := [("c14text", handle)]

end CbiVerif.Drv.C14Compose
