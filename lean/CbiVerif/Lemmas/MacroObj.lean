import CbiVerif.Model.MacroExpand
/-! # C03, object-like fragment: the stream-stack machine `MX.step` computes the recursive reference `E`

Port of the design prototype (`CbiVerif.ObjProof`) to the full machine `CbiVerif.MX.step` (the definitions the driver
executes): for tables that contain only object-like macros the machine, started on a stream positioned before `ts`,
reaches the stream in which `ts` is replaced by `E d D ts`, touching nothing else. -/
namespace CbiVerif.MX
open CbiVerif.PP

/-- `k` loop iterations that all continue -/
def runK (c : Cfg) (tbl : Table) : Nat → MS → Option MS
  | 0, s => some s
  | k + 1, s => match step c tbl s with | .cont s' => runK c tbl k s' | _ => none

theorem runK_add (c : Cfg) (tbl : Table) (a b : Nat) (s s' s'' : MS) (h1 : runK c tbl a s = some s') (h2 : runK c tbl b s' = some s'') :
    runK c tbl (a + b) s = some s'' := by
  induction a generalizing s with
  | zero => simp [runK] at h1; subst h1; simpa using h2
  | succ a ih =>
    simp only [runK] at h1
    have : a + 1 + b = (a + b) + 1 := by omega
    rw [this]
    simp only [runK]
    cases hi : step c tbl s with
    | cont s1 => simp only [hi] at h1; exact ih s1 h1
    | _ => simp [hi] at h1

/-- the recursive (hide-set style) reference for object-like tables: `D` = names disabled in the current context,
    `d` = nesting budget; a disabled or already painted identifier is painted, a macro name is replaced by the
    expansion of its replacement list with that name disabled, everything else is copied -/
def E (tbl : Table) : Nat → NoExp → List Tok → List Tok
  | _, _, [] => []
  | 0, D, t :: ts => t :: E tbl 0 D ts
  | d + 1, D, t :: ts =>
    if t.kind != .ident then t :: E tbl (d + 1) D ts
    else if !t.expandable || D.contains (some t.text) then paint t :: E tbl (d + 1) D ts
    else match tbl.get t.text with
      | none => t :: E tbl (d + 1) D ts
      | some m => E tbl d (some m.name :: D) (fixpw m.replacement t.pw) ++ E tbl (d + 1) D ts
termination_by d _ ts => (d, ts.length)

/-! list bookkeeping -/
theorem filterSome_map (l : List Tok) : filterSome (l.map some) = l := by
  induction l with
  | nil => rfl
  | cons a l ih => simp [filterSome] at ih ⊢

theorem idx_mid (pre ts : List Tok) (t : Tok) : ((pre ++ t :: ts).map some)[pre.length]? = some (some t) := by
  simp

theorem set_mid (pre ts : List Tok) (t : Tok) (x : Option Tok) :
    ((pre ++ t :: ts).map some).set pre.length x = pre.map some ++ x :: ts.map some := by
  simp [List.map_append, List.set_append_right]

theorem len_mid (pre ts : List Tok) (t : Tok) : pre.length < ((pre ++ t :: ts).map some).length := by simp

def Stable (tbl : Table) (D : NoExp) (t : Tok) : Prop :=
  t.kind ≠ .ident ∨ (t.text ≠ "defined" ∧ (t.expandable = false ∨ (tbl.get t.text = none ∧ D.contains (some t.text) = false)))

/-- re-scanning already expanded tokens is the identity (any `Cfg`; the machine before the repair of D11 relied on it, the
    repaired `splice` moves past the spliced tokens and no longer needs it) -/
theorem rescan (c : Cfg) (tbl : Table) (F : List Frame) : ∀ (R pre ts' : List Tok) (S : List Helper) (pr : Bool) (D : NoExp),
    (∀ t ∈ R, Stable tbl D t) →
    runK c tbl R.length ⟨⟨(pre ++ (R ++ ts')).map some, pre.length, pr⟩ :: S, D, F, none⟩
      = some ⟨⟨(pre ++ (R ++ ts')).map some, pre.length + R.length, pr⟩ :: S, D, F, none⟩ := by
  intro R
  induction R with
  | nil => intro pre ts' S pr D _; simp [runK]
  | cons t R ih =>
    intro pre ts' S pr D hst
    have ht := hst t (by simp)
    have hrest : ∀ x ∈ R, Stable tbl D x := fun x hx => hst x (by simp [hx])
    have hnext := ih (pre ++ [t]) ts' S pr D hrest
    simp only [List.length_append, List.length_cons, List.length_nil, Nat.zero_add, List.append_assoc, List.cons_append, List.nil_append] at hnext
    simp only [List.length_cons, runK]
    have hlt := len_mid pre (R ++ ts') t
    have hidx := idx_mid pre (R ++ ts') t
    have hiter : step c tbl ⟨⟨(pre ++ (t :: R ++ ts')).map some, pre.length, pr⟩ :: S, D, F, none⟩
        = .cont ⟨⟨(pre ++ (t :: R ++ ts')).map some, pre.length + 1, pr⟩ :: S, D, F, none⟩ := by
      simp only [step, List.cons_append]
      have : ¬ (pre.length ≥ ((pre ++ t :: (R ++ ts')).map some).length) := by omega
      simp only [this, if_false, hidx]
      rcases ht with hk | ⟨hd, hp | ⟨hn, hnd⟩⟩
      · have : (t.kind != TKind.ident) = true := by simpa using hk
        simp [this]
      · by_cases hk : (t.kind != TKind.ident) = true
        · simp [hk]
        · have hd' : (t.text == "defined") = false := by simpa using hd
          simp only [hk, Bool.false_eq_true, if_false, hd', hp, Bool.not_false, Bool.true_or, if_true]
          have : paint t = t := by cases t; simp_all [paint]
          rw [this, set_mid]; simp
      · by_cases hk : (t.kind != TKind.ident) = true
        · simp [hk]
        · have hd' : (t.text == "defined") = false := by simpa using hd
          simp only [hk, Bool.false_eq_true, if_false, hd']
          by_cases hq : (!t.expandable || D.contains (some t.text)) = true
          · simp only [hq, if_true]
            have hp : t.expandable = false := by
              simp only [hnd, Bool.or_false, Bool.not_eq_true'] at hq; exact hq
            have : paint t = t := by cases t; simp_all [paint]
            rw [this, set_mid]; simp
          · have hq' : (!t.expandable || D.contains (some t.text)) = false := by simpa using hq
            simp only [hq', Bool.false_eq_true, if_false, hn]
    rw [hiter]
    have e1 : pre.length + 1 + R.length = pre.length + (R.length + 1) := by omega
    rw [← e1]
    simpa [List.cons_append] using hnext


/-! well-formedness of the fragment -/
def NoDef (ts : List Tok) : Prop := ∀ t ∈ ts, t.text ≠ "defined"

structure TblOK (tbl : Table) : Prop where
  objLike : ∀ n m, tbl.get n = some m → m.args = none
  named : ∀ n m, tbl.get n = some m → m.name = n
  noDef : ∀ n m, tbl.get n = some m → NoDef m.replacement

theorem noDef_fixpw (r : List Tok) (pw : Bool) (h : NoDef r) : NoDef (fixpw r pw) := by
  cases r with
  | nil => simpa [fixpw] using h
  | cons f rest =>
    intro t ht
    simp only [fixpw, List.mem_cons] at ht
    rcases ht with rfl | ht
    · exact h f (by simp)
    · exact h t (by simp [ht])

/-- the depth budget `d` is never exhausted while a macro still has to be expanded -/
def Fits (tbl : Table) : Nat → NoExp → List Tok → Prop
  | _, _, [] => True
  | 0, _, _ :: _ => False
  | d + 1, D, t :: ts =>
    Fits tbl (d + 1) D ts ∧
    (t.kind = .ident → (!t.expandable || D.contains (some t.text)) = false →
      ∀ m, tbl.get t.text = some m → Fits tbl d (some m.name :: D) (fixpw m.replacement t.pw))
termination_by d _ ts => (d, ts.length)

theorem stable_weaken (tbl : Table) (n : Option String) (D : NoExp) (t : Tok) (h : Stable tbl (n :: D) t) : Stable tbl D t := by
  rcases h with h | ⟨hd, h | ⟨hn, hc⟩⟩
  · exact .inl h
  · exact .inr ⟨hd, .inl h⟩
  · refine .inr ⟨hd, .inr ⟨hn, ?_⟩⟩
    simp only [List.contains_cons, Bool.or_eq_false_iff] at hc
    exact hc.2

theorem E_stable (tbl : Table) (hT : TblOK tbl) : ∀ (d : Nat) (D : NoExp) (ts : List Tok),
    NoDef ts → Fits tbl d D ts → ∀ t ∈ E tbl d D ts, Stable tbl D t := by
  intro d
  induction d with
  | zero =>
    intro D ts _ hf
    cases ts with
    | nil => intro t ht; simp [E] at ht
    | cons a as => simp [Fits] at hf
  | succ d ihd =>
    intro D ts
    induction ts with
    | nil => intro _ _ t ht; simp [E] at ht
    | cons a as iha =>
      intro hnd hf t ht
      have hnd' : NoDef as := fun x hx => hnd x (by simp [hx])
      have ha : a.text ≠ "defined" := hnd a (by simp)
      simp only [Fits] at hf
      obtain ⟨hf1, hf2⟩ := hf
      simp only [E] at ht
      by_cases hk : (a.kind != TKind.ident) = true
      · simp only [hk, if_true, List.mem_cons] at ht
        rcases ht with rfl | ht
        · exact .inl (by simpa using hk)
        · exact iha hnd' hf1 t ht
      · simp only [hk, Bool.false_eq_true, if_false] at ht
        by_cases hq : (!a.expandable || D.contains (some a.text)) = true
        · simp only [hq, if_true, List.mem_cons] at ht
          rcases ht with rfl | ht
          · exact .inr ⟨by simpa [paint] using ha, .inl rfl⟩
          · exact iha hnd' hf1 t ht
        · have hq' : (!a.expandable || D.contains (some a.text)) = false := by simpa using hq
          simp only [hq', Bool.false_eq_true, if_false] at ht
          cases hm : tbl.get a.text with
          | none =>
            simp only [hm, List.mem_cons] at ht
            rcases ht with rfl | ht
            · refine .inr ⟨ha, .inr ⟨hm, ?_⟩⟩
              simp only [Bool.or_eq_false_iff] at hq'
              exact hq'.2
            · exact iha hnd' hf1 t ht
          | some m =>
            simp only [hm, List.mem_append] at ht
            rcases ht with ht | ht
            · have hki : a.kind = .ident := by simpa using hk
              have := ihd (some m.name :: D) (fixpw m.replacement a.pw) (noDef_fixpw _ _ (hT.noDef _ _ hm)) (hf2 hki hq' m hm) t ht
              exact stable_weaken tbl _ D t this
            · exact iha hnd' hf1 t ht


theorem filterSome_append (a b : List (Option Tok)) : filterSome (a ++ b) = filterSome a ++ filterSome b := by
  simp [filterSome, List.filterMap_append]

theorem take_hole {α} (pre : List α) (x : α) (as : List α) : (pre ++ x :: as).take (pre.length + 1) = pre ++ [x] := by
  induction pre with
  | nil => simp
  | cons p ps ih => simpa using ih

theorem drop_hole {α} (pre : List α) (x : α) (as : List α) : (pre ++ x :: as).drop (pre.length + 1) = as := by
  induction pre with
  | nil => simp
  | cons p ps ih => simpa using ih

theorem splice_hole (adv : Bool) (pre as R : List Tok) (pr : Bool) :
    splice adv ⟨pre.map some ++ none :: as.map some, pre.length + 1, pr⟩ ⟨R.map some, R.length, false⟩
      = ⟨(pre ++ (R ++ as)).map some, if adv then pre.length + R.length else pre.length, pr⟩ := by
  have h1 : (pre.map some ++ none :: as.map some).take (pre.length + 1) = pre.map some ++ [none] := by
    have := take_hole (pre.map some) none (as.map some); simpa using this
  have h2 : (pre.map some ++ none :: as.map some).drop (pre.length + 1) = as.map some := by
    have := drop_hole (pre.map some) none (as.map some); simpa using this
  simp only [splice, h1, h2, filterSome_append, filterSome_map]
  simp [filterSome]

/-! bounds: length of the expansion and number of loop iterations -/
def BodiesLe (tbl : Table) (B : Nat) : Prop := ∀ n m, tbl.get n = some m → m.replacement.length ≤ B

theorem fixpw_length (r : List Tok) (pw : Bool) : (fixpw r pw).length = r.length := by
  cases r <;> simp [fixpw]

theorem Lb_pos (B d : Nat) : 1 ≤ Lb B d := by cases d <;> simp [Lb]
theorem Cb_pos (B d : Nat) : 1 ≤ Cb B d := by cases d <;> simp [Cb]

theorem E_length (tbl : Table) (B : Nat) (hB : BodiesLe tbl B) : ∀ (d : Nat) (D : NoExp) (ts : List Tok),
    (E tbl d D ts).length ≤ ts.length * Lb B d := by
  intro d
  induction d with
  | zero =>
    intro D ts
    induction ts with
    | nil => simp [E]
    | cons a as ih => simp only [E, List.length_cons, Lb] at ih ⊢; omega
  | succ d ihd =>
    intro D ts
    induction ts with
    | nil => simp [E]
    | cons a as iha =>
      have hL := Lb_pos B (d + 1)
      have hmul : (as.length + 1) * Lb B (d + 1) = as.length * Lb B (d + 1) + Lb B (d + 1) := Nat.succ_mul _ _
      rw [E]
      by_cases hk : (a.kind != TKind.ident) = true
      · simp only [hk, if_true, List.length_cons]; omega
      · simp only [hk, Bool.false_eq_true, if_false]
        by_cases hq : (!a.expandable || D.contains (some a.text)) = true
        · simp only [hq, if_true, List.length_cons]; omega
        · simp only [hq, Bool.false_eq_true, if_false]
          cases hm : tbl.get a.text with
          | none => simp only [List.length_cons]; omega
          | some m =>
            simp only [List.length_append, List.length_cons]
            have h1 := ihd (some m.name :: D) (fixpw m.replacement a.pw)
            rw [fixpw_length] at h1
            have h2 : m.replacement.length * Lb B d ≤ B * Lb B d := Nat.mul_le_mul_right _ (hB _ _ hm)
            have h3 : Lb B (d + 1) = B * Lb B d + 1 := rfl
            omega

/-- **C03 (object-like fragment)**: from a stream positioned at `ts`, the stack machine reaches the stream in which `ts`
    has been replaced by its recursive expansion, leaving everything else (prefix, lower streams, disabled names) as it was.
    Stated for every `Cfg`: with the repaired `splice` (`adv = true`) the exhausted child stream is spliced in and the read
    position is behind it; the machine before the repair (`adv = false`) re-scanned the spliced tokens, which is the identity
    on them (`rescan`). -/
theorem sim (c : Cfg) (tbl : Table) (hT : TblOK tbl) (B : Nat) (hB : BodiesLe tbl B) (F : List Frame) :
    ∀ (d : Nat) (D : NoExp) (ts pre : List Tok) (S : List Helper) (pr : Bool),
    NoDef ts → Fits tbl d D ts → S.length + d + 1 < c.lim →
    ∃ k, k ≤ ts.length * Cb B d ∧ runK c tbl k ⟨⟨(pre ++ ts).map some, pre.length, pr⟩ :: S, D, F, none⟩
      = some ⟨⟨(pre ++ E tbl d D ts).map some, (pre ++ E tbl d D ts).length, pr⟩ :: S, D, F, none⟩ := by
  intro d
  induction d with
  | zero =>
    intro D ts pre S pr _ hf _
    cases ts with
    | nil => exact ⟨0, by simp, by simp [runK, E]⟩
    | cons a as => simp [Fits] at hf
  | succ d ihd =>
    intro D ts
    induction ts with
    | nil => intro pre S pr _ _ _; exact ⟨0, by simp, by simp [runK, E]⟩
    | cons a as iha =>
      intro pre S pr hnd hf hlen
      have hC := Cb_pos B (d + 1)
      have hmul : (as.length + 1) * Cb B (d + 1) = as.length * Cb B (d + 1) + Cb B (d + 1) := Nat.succ_mul _ _
      have hnd' : NoDef as := fun x hx => hnd x (by simp [hx])
      have ha : a.text ≠ "defined" := hnd a (by simp)
      have hd' : (a.text == "defined") = false := by simpa using ha
      simp only [Fits] at hf
      obtain ⟨hf1, hf2⟩ := hf
      have hidx := idx_mid pre as a
      have hnl : ¬ (pre.length ≥ ((pre ++ a :: as).map some).length) := by
        have := len_mid pre as a; omega
      -- one step that leaves a (possibly painted) token `a'` in place and advances
      have advance : ∀ a' : Tok, E tbl (d + 1) D (a :: as) = a' :: E tbl (d + 1) D as →
          step c tbl ⟨⟨(pre ++ a :: as).map some, pre.length, pr⟩ :: S, D, F, none⟩
            = .cont ⟨⟨((pre ++ [a']) ++ as).map some, (pre ++ [a']).length, pr⟩ :: S, D, F, none⟩ →
          ∃ k, k ≤ (a :: as).length * Cb B (d + 1) ∧ runK c tbl k ⟨⟨(pre ++ a :: as).map some, pre.length, pr⟩ :: S, D, F, none⟩
            = some ⟨⟨(pre ++ E tbl (d + 1) D (a :: as)).map some, (pre ++ E tbl (d + 1) D (a :: as)).length, pr⟩ :: S, D, F, none⟩ := by
        intro a' hE hit
        obtain ⟨k, hkb, hk⟩ := iha (pre ++ [a']) S pr hnd' hf1 hlen
        refine ⟨k + 1, by simp only [List.length_cons]; omega, ?_⟩
        simp only [runK, hit]
        rw [hk, hE]
        simp
      by_cases hk : (a.kind != TKind.ident) = true
      · apply advance a
        · rw [E]; simp only [hk, if_true]
        · simp only [step, hnl, if_false, hidx, hk, if_true]; simp
      · have hk' : (a.kind != TKind.ident) = false := by simpa using hk
        by_cases hq : (!a.expandable || D.contains (some a.text)) = true
        · apply advance (paint a)
          · rw [E]; simp only [hk', Bool.false_eq_true, if_false, hq, if_true]
          · simp only [step, hnl, if_false, hidx, hk', Bool.false_eq_true, hd', hq, if_true, set_mid]
            simp
        · have hq' : (!a.expandable || D.contains (some a.text)) = false := by simpa using hq
          cases hm : tbl.get a.text with
          | none =>
            apply advance a
            · rw [E]; simp only [hk', Bool.false_eq_true, if_false, hq', hm]
            · simp only [step, hnl, if_false, hidx, hk', Bool.false_eq_true, hd', hq', hm]; simp
          | some m =>
            have hobj := hT.objLike _ _ hm
            have hki : a.kind = .ident := by simpa using hk
            have hfit := hf2 hki hq' m hm
            -- the expansion of the macro body in a child stream
            let R := E tbl d (some m.name :: D) (fixpw m.replacement a.pw)
            have hE : E tbl (d + 1) D (a :: as) = R ++ E tbl (d + 1) D as := by
              rw [E]; simp only [hk', Bool.false_eq_true, if_false, hq', hm, R]
            -- step 1: push the child
            have hpush : step c tbl ⟨⟨(pre ++ a :: as).map some, pre.length, pr⟩ :: S, D, F, none⟩
                = .cont ⟨⟨(fixpw m.replacement a.pw).map some, 0, false⟩ ::
                    ⟨pre.map some ++ none :: as.map some, pre.length + 1, pr⟩ :: S, some m.name :: D, F, none⟩ := by
              have hov : ¬ (S.length + 2 ≥ c.lim) := by omega
              simp only [step, hnl, if_false, hidx, hk', Bool.false_eq_true, hd', hq', hm, hobj, hov, set_mid]
            -- step 2: run the child to completion
            obtain ⟨k1, hk1b, hk1⟩ := ihd (some m.name :: D) (fixpw m.replacement a.pw) [] (⟨pre.map some ++ none :: as.map some, pre.length + 1, pr⟩ :: S) false
              (noDef_fixpw _ _ (hT.noDef _ _ hm)) hfit (by simp; omega)
            simp only [List.nil_append, List.length_nil] at hk1
            -- step 3: the exhausted child is spliced into the stream below
            have hpop : step c tbl ⟨⟨R.map some, R.length, false⟩ :: ⟨pre.map some ++ none :: as.map some, pre.length + 1, pr⟩ :: S, some m.name :: D, F, none⟩
                = .cont ⟨⟨(pre ++ (R ++ as)).map some, if c.adv then pre.length + R.length else pre.length, pr⟩ :: S, D, F, none⟩ := by
              have : R.length ≥ (R.map some).length := by simp
              simp only [step, this, if_true, Bool.false_eq_true, if_false, splice_hole, List.tail_cons]
            -- step 4 (only the machine before the repair of D11): rescanning the spliced tokens changes nothing
            have hstab : ∀ t ∈ R, Stable tbl D t := fun t ht =>
              stable_weaken tbl _ D t (E_stable tbl hT d (some m.name :: D) _ (noDef_fixpw _ _ (hT.noDef _ _ hm)) hfit t ht)
            have hres : ∃ k4, k4 ≤ R.length ∧ runK c tbl k4 ⟨⟨(pre ++ (R ++ as)).map some, if c.adv then pre.length + R.length else pre.length, pr⟩ :: S, D, F, none⟩
                = some ⟨⟨(pre ++ (R ++ as)).map some, pre.length + R.length, pr⟩ :: S, D, F, none⟩ := by
              cases hadv : c.adv with
              | true => exact ⟨0, by omega, by simp [runK]⟩
              | false => exact ⟨R.length, Nat.le_refl _, by simpa using rescan c tbl F R pre as S pr D hstab⟩
            obtain ⟨k4, hk4b, hk4⟩ := hres
            -- step 5: the rest of the stream
            obtain ⟨k2, hk2b, hk2⟩ := iha (pre ++ R) S pr hnd' hf1 hlen
            have s1 : runK c tbl 1 ⟨⟨(pre ++ a :: as).map some, pre.length, pr⟩ :: S, D, F, none⟩
                = some ⟨⟨(fixpw m.replacement a.pw).map some, 0, false⟩ ::
                    ⟨pre.map some ++ none :: as.map some, pre.length + 1, pr⟩ :: S, some m.name :: D, F, none⟩ := by
              simp only [runK, hpush]
            have s3 : runK c tbl 1 ⟨⟨R.map some, R.length, false⟩ :: ⟨pre.map some ++ none :: as.map some, pre.length + 1, pr⟩ :: S, some m.name :: D, F, none⟩
                = some ⟨⟨(pre ++ (R ++ as)).map some, if c.adv then pre.length + R.length else pre.length, pr⟩ :: S, D, F, none⟩ := by
              simp only [runK, hpop]
            have e1 : pre.length + R.length = (pre ++ R).length := by simp
            have e2 : pre ++ (R ++ as) = (pre ++ R) ++ as := by simp
            have s5 : runK c tbl k2 ⟨⟨(pre ++ (R ++ as)).map some, pre.length + R.length, pr⟩ :: S, D, F, none⟩
                = some ⟨⟨(pre ++ E tbl (d + 1) D (a :: as)).map some, (pre ++ E tbl (d + 1) D (a :: as)).length, pr⟩ :: S, D, F, none⟩ := by
              rw [e1, e2, hk2, hE]; simp
            have hRlen : R.length ≤ B * Lb B d := by
              have h1 := E_length tbl B hB d (some m.name :: D) (fixpw m.replacement a.pw)
              rw [fixpw_length] at h1
              have h2 : m.replacement.length * Lb B d ≤ B * Lb B d := Nat.mul_le_mul_right _ (hB _ _ hm)
              exact Nat.le_trans h1 h2
            have hk1' : k1 ≤ B * Cb B d := by
              rw [fixpw_length] at hk1b
              exact Nat.le_trans hk1b (Nat.mul_le_mul_right _ (hB _ _ hm))
            have hCb : Cb B (d + 1) = B * Cb B d + B * Lb B d + 3 := rfl
            refine ⟨1 + (k1 + (1 + (k4 + k2))), by simp only [List.length_cons]; omega, ?_⟩
            exact
              runK_add c tbl 1 _ _ _ _ s1 (runK_add c tbl k1 _ _ _ _ hk1 (runK_add c tbl 1 _ _ _ _ s3 (runK_add c tbl k4 _ _ _ _ hk4 s5)))

/-- top level: from the state `expand(tokens)` starts in, the machine reaches (without error and without overflow)
    the state in which the only stream holds the recursive expansion and is exhausted -/
theorem expand_top (c : Cfg) (tbl : Table) (hT : TblOK tbl) (B : Nat) (hB : BodiesLe tbl B) (d : Nat) (ts : List Tok)
    (hnd : NoDef ts) (hf : Fits tbl d [none] ts) (hd : d + 1 < c.lim) :
    ∃ k, k ≤ ts.length * Cb B d ∧ runK c tbl k (initState ts)
      = some ⟨[⟨(E tbl d [none] ts).map some, (E tbl d [none] ts).length, false⟩], [none], [], none⟩ := by
  obtain ⟨k, hkb, hk⟩ := sim c tbl hT B hB [] d [none] ts [] [] false hnd hf (by simpa using hd)
  simp only [List.nil_append, List.length_nil] at hk
  exact ⟨k, hkb, hk⟩

end CbiVerif.MX
