import CbiVerif.Spec.RegexPrio
/-! every expression the pattern parser answers lies in the fragment of the priority theorem -/
namespace CbiVerif.Regex

def FrameOk (f : Frame) : Prop := (∀ x ∈ f.cur, inFragment x.1 = true) ∧ (∀ a ∈ f.alts, inFragment a = true)

theorem inFragment_seqOf : ∀ (l : List Re), (∀ r ∈ l, inFragment r = true) → inFragment (seqOf l) = true := by
  intro l
  induction l with
  | nil => intro _; rfl
  | cons a t ih =>
    intro h
    cases t with
    | nil => exact h a (by simp)
    | cons b t =>
      simp only [seqOf, inFragment, Bool.and_eq_true]
      exact ⟨h a (by simp), ih (fun r hr => h r (by simp [hr]))⟩

theorem inFragment_altOf : ∀ (l : List Re), (∀ r ∈ l, inFragment r = true) → inFragment (altOf l) = true := by
  intro l
  induction l with
  | nil => intro _; rfl
  | cons a t ih =>
    intro h
    cases t with
    | nil => exact h a (by simp)
    | cons b t =>
      simp only [altOf, inFragment, Bool.and_eq_true]
      exact ⟨h a (by simp), ih (fun r hr => h r (by simp [hr]))⟩

theorem cur_seq_ok {f : Frame} (hf : FrameOk f) : inFragment (seqOf (f.cur.reverse.map (·.1))) = true := by
  apply inFragment_seqOf
  intro r hr
  obtain ⟨x, hx, rfl⟩ := List.mem_map.mp hr
  exact hf.1 x (by simpa using hx)

theorem close_ok {f : Frame} (hf : FrameOk f) : inFragment f.close = true := by
  have hbody : inFragment (altOf ((seqOf (f.cur.reverse.map (·.1)) :: f.alts).reverse)) = true := by
    apply inFragment_altOf
    intro r hr
    simp only [List.mem_reverse, List.mem_cons] at hr
    rcases hr with rfl | hr
    · exact cur_seq_ok hf
    · exact hf.2 r hr
  unfold Frame.close
  cases f.kind with
  | none => exact hbody
  | some i => simpa [inFragment] using hbody

theorem push_ok {f : Frame} (hf : FrameOk f) {r : Re} (hr : inFragment r = true) (q : Bool) : FrameOk (f.push r q) := by
  refine ⟨?_, hf.2⟩
  intro x hx
  simp only [Frame.push, List.mem_cons] at hx
  rcases hx with rfl | hx
  · exact hr
  · exact hf.1 x hx

theorem empty_ok (k : Option Nat) : FrameOk { kind := k } := ⟨by simp, by simp⟩

theorem quantify_ok (c : Char) {r : Re} (hn : nullable r = false) (hr : inFragment r = true) : inFragment (quantify c r) = true := by
  unfold quantify
  split
  · simp [inFragment, hn, hr]
  · split
    · simp [inFragment, hn, hr]
    · simpa [inFragment] using hr

theorem parseLoop_inFragment : ∀ (fuel : Nat) (s : List Char) (f : Frame) (stack : List Frame) (ng : Nat) (res : Re × Nat),
    FrameOk f → (∀ g ∈ stack, FrameOk g) → parseLoop fuel s f stack ng = .ok res → inFragment res.1 = true := by
  intro fuel
  induction fuel with
  | zero => intro s f stack ng res _ _ h; simp [parseLoop, unsup] at h
  | succ fuel ih =>
    intro s f stack ng res hf hs h
    have hst : ∀ g ∈ f :: stack, FrameOk g := by
      intro g hg
      rcases List.mem_cons.mp hg with rfl | hg
      · exact hf
      · exact hs g hg
    unfold parseLoop at h
    split at h
    · split at h
      · cases h; exact close_ok hf
      · simp [unsup] at h
    · exact ih _ _ _ _ _ (empty_ok none) hst h
    · simp [unsup] at h
    · exact ih _ _ _ _ _ (empty_ok _) hst h
    · split at h
      · simp [unsup] at h
      · exact ih _ _ _ _ _ (push_ok (hs _ (by simp)) (close_ok hf) true) (fun g hg => hs g (by simp [hg])) h
    · refine ih _ _ _ _ _ ⟨by simp, ?_⟩ hs h
      intro a ha
      simp only [List.mem_cons] at ha
      rcases ha with rfl | ha
      · exact cur_seq_ok hf
      · exact hf.2 a ha
    · split at h
      split at h
      · simp [unsup] at h
      · split at h
        · simp at h
        · exact ih _ _ _ _ _ (push_ok hf (by simp [inFragment]) true) hs h
    · split at h
      · exact ih _ _ _ _ _ (push_ok hf (by simp [inFragment]) true) hs h
      · split at h
        · exact ih _ _ _ _ _ (push_ok hf (by simp [inFragment]) true) hs h
        · simp [unsup] at h
    · simp [unsup] at h
    · exact ih _ _ _ _ _ (push_ok hf (by simp [inFragment]) true) hs h
    · exact ih _ _ _ _ _ (push_ok hf (by simp [inFragment]) false) hs h
    · split at h
      · split at h
        · rename_i r cur' hcur
          split at h
          · simp [unsup] at h
          · rename_i hnull
            refine ih _ _ _ _ _ ?_ hs h
            refine ⟨?_, hf.2⟩
            intro x hx
            simp only [List.mem_cons] at hx
            rcases hx with rfl | hx
            · exact quantify_ok _ (by simpa using hnull) (hf.1 (r, true) (by rw [hcur]; simp))
            · exact hf.1 x (by rw [hcur]; simp [hx])
        · simp [unsup] at h
      · split at h
        · simp [unsup] at h
        · exact ih _ _ _ _ _ (push_ok hf (by simp [inFragment]) true) hs h

theorem parse_inFragment (p : String) (r : Re) (ng : Nat) (h : parse p = .ok (r, ng)) : inFragment r = true :=
  parseLoop_inFragment _ _ _ _ _ _ (empty_ok none) (by simp) h

end CbiVerif.Regex
