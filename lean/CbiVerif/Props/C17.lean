import CbiVerif.Props.C17Table
import CbiVerif.Props.C17Loop
import CbiVerif.Model.FSource
import CbiVerif.Model.FCond
import CbiVerif.Spec.FortranRef
import CbiVerif.Lemmas.FSourceLemmas
import CbiVerif.Lemmas.FLineKinds
import CbiVerif.Lemmas.FCPass3
import CbiVerif.Props.C01
import CbiVerif.Generated.Tables

/-!
# C17 — Fortran sources: comment/continuation handling and preprocessor conditionals

Property theorems only.  The executed model (`Model/FClean.lean`, `Model/FSource.lean`,
driver op `fortran`) is what the theorems are about; the reference scanner is
`Spec/FortranRef.lean`.

* `structural …`           — invariants of the counted lines of *every* text / line list (full);
* `lines_eq_ref`           — counted = reference for every accepted text (full, text level);
* `lines_eq_ref_logical`   — the same for every accepted list of C-pass logical lines;
* `finding_F_C17_1`        — the recorded finding class is real (witness);
* `conditionals_as_C`      — the executed conditional selection of a Fortran source (`analyseFortran`:
                             Fortran node list through the ONE C01 model `PP.analyseNodes`) returns exactly
                             the rows (or the failure) of the flat ISO C machine (`referenceFortran`) whenever
                             that reports no diagnostic (full; from `C01.analyseNodes_eq_reference`);
* `ext_free_form`          — `.f90`/`.F90` are the free-form extensions in the code's current table.
-/
namespace CbiVerif.C17
open CbiVerif CbiVerif.Fortran

/-! ## structural -/

/-- **no line twice, all in range** (text level, through the C pass and the Fortran pass):
the counted lines are a sub-sequence of `1, 2, …, number of physical lines`. -/
theorem structural_sublist (text : String) (lls : List LL) (h : fortranSource text = .ok lls) :
    (countedOf lls).Sublist (List.range' 1 (splitLines text).length) := by
  unfold fortranSource at h
  cases hd : dPass (splitLines text) with
  | error e => simp [hd] at h
  | ok cls =>
    simp only [hd] at h
    have h1 := dLoop_sublist (splitLines text) [.top] {} [] 0 cls hd
    simp only [List.nil_append, Nat.zero_add] at h1
    obtain ⟨h2, _⟩ := fLoop_counted cls {} {} [] lls h wf_empty (by simp)
    simp only [List.nil_append] at h2
    rw [h2]
    exact (select_sublist _ _).trans h1

/-- the hypothesis is satisfiable: a text the code accepts, with comment, sentinel, continuation
and preprocessor lines (lines 2, 5 and 6 are not counted) -/
example :
    (fortranSource "x = 1 ! c\n! only a comment\n!$omp do\ny = 'a!b' // &\n\n  ! c\n  & 'c'\n#ifdef A\nz = 2\n#endif\n").toOption.map countedOf
      = some [1, 3, 4, 7, 8, 9, 10] := by decide

theorem structural_nodup (text : String) (lls : List LL) (h : fortranSource text = .ok lls) :
    (countedOf lls).Nodup :=
  (structural_sublist text lls h).nodup (List.nodup_range' (step := 1) (by decide))

theorem structural_increasing (text : String) (lls : List LL) (h : fortranSource text = .ok lls) :
    (countedOf lls).Pairwise (· < ·) :=
  List.Pairwise.sublist (structural_sublist text lls h) (List.pairwise_lt_range' (step := 1) (by decide))

theorem structural_in_range (text : String) (lls : List LL) (h : fortranSource text = .ok lls) :
    ∀ x ∈ countedOf lls, 1 ≤ x ∧ x ≤ (splitLines text).length := by
  intro x hx
  have := (structural_sublist text lls h).subset hx
  simp only [List.mem_range'_1] at this
  omega

/-- **the nodes partition the counted lines and `num_lines = |lines|`** for every node
`FileParser` builds -/
theorem structural_nodes (lls : List LL) :
    nodesLines (group lls) = countedOf lls ∧ ∀ n ∈ group lls, n.numLines = n.lines.length := by
  refine ⟨?_, groupAux_numLines lls []⟩
  have := groupAux_lines lls []
  simpa [group, countedOf] using this

/-- **which lines are counted**: exactly the lines of the directive lines and of the lines for
which the cleaner's buffer is non-blank; and `fortran_file_source` raises iff the cleaner does
not end at top level -/
theorem structural_counted_eq_flags (cls : List CL) :
    (∀ lls, fPass cls = .ok lls →
      countedOf lls = select (flagsFrom {} (cls.map (·.text))) cls) ∧
    ((∃ lls, fPass cls = .ok lls) ↔ (finalState {} (cls.map (·.text))).stack = [.top]) := by
  refine ⟨fun lls h => ?_, ⟨fun ⟨lls, h⟩ => ?_, fun h => fLoop_ok cls {} {} [] h⟩⟩
  · simpa using (fLoop_counted cls {} {} [] lls h wf_empty (by simp)).1
  · exact (fLoop_counted cls {} {} [] lls h wf_empty (by simp)).2

/-- **blank lines are never counted** (cleaner at top level or at the start of a continuation line) -/
theorem structural_blank (s : FSt) (l : List Char) (hs : AtCode s) (hl : isBlankLine l = true) :
    (procLine s l).2.blank = true :=
  blank_of_onlySp _ (blank_onlySp l s {} hs onlySp_empty hl)

/-- **ordinary comment lines are never counted**, also when interleaved in a continued statement -/
theorem structural_comment (s : FSt) (l : List Char) (hs : AtCode s) (hl : isCommentLine l = true) :
    (procLine s l).2.blank = true :=
  blank_of_onlySp _ (comment_onlySp l s {} hs onlySp_empty hl)

/-- **directive-sentinel lines are always counted** — from every state a line can start in
(top level, continuation, or inside an unterminated character context) -/
theorem structural_sentinel (s : FSt) (l : List Char) (hs : AtCode s ∨ AtLit s) (hl : isSentinelLine l = true) :
    (procLine s l).2.blank = false := by
  apply blank_of_hasVis
  rcases hs with hs | hs
  · exact sentinel_vis_atCode l s {} hs hl
  · exact sentinel_vis_atLit l s {} hs hl

/-- the hypotheses of the three theorems are satisfiable -/
example : AtCode {} ∧ AtCode ⟨[.cfs, .top], .run, [], []⟩ ∧ AtLit ⟨[.sq, .top], .run, [], []⟩ ∧
    isBlankLine "   ".toList = true ∧ isCommentLine "  ! don't $".toList = true ∧
    isSentinelLine " !dir$ ivdep".toList = true ∧ isSentinelLine "!$omp do".toList = true := by
  refine ⟨⟨rfl, Or.inl rfl⟩, ⟨rfl, Or.inr rfl⟩, ⟨rfl, Or.inr rfl⟩, ?_⟩
  decide

/-- the same inside a run of `fortran_file_source`: the physical lines of a comment line are not
among the counted lines, those of a sentinel line are -/
theorem structural_in_run (cls : List CL) (lls : List LL) (h : fPass cls = .ok lls)
    (hn : (cls.flatMap (·.lines)).Nodup) (i : Nat) (hi : i < cls.length) :
    (isCommentLine cls[i].text = true → AtCode (stateAt {} (cls.map (·.text)) i) →
      ∀ x ∈ cls[i].lines, x ∉ countedOf lls) ∧
    (isSentinelLine cls[i].text = true →
      (AtCode (stateAt {} (cls.map (·.text)) i) ∨ AtLit (stateAt {} (cls.map (·.text)) i)) →
      ∀ x ∈ cls[i].lines, x ∈ countedOf lls) := by
  have hc := (structural_counted_eq_flags cls).1 lls h
  have hi' : i < (cls.map (·.text)).length := by simpa using hi
  have hg := flagsFrom_get (cls.map (·.text)) {} i hi'
  simp only [List.getElem_map] at hg
  constructor
  · intro hcm hs x hx
    rw [hc]
    refine select_not_mem _ cls i hi x hn ?_ hx
    rw [hg, not_dir_of_comment _ hcm, structural_comment _ _ hs hcm]; rfl
  · intro hsn hs x hx
    rw [hc]
    refine select_mem _ cls i hi x ?_ hx
    rw [hg, not_dir_of_sentinel _ hsn, structural_sentinel _ _ hs hsn]; rfl

/-- hypotheses of `structural_in_run` are satisfiable: line 2 is a comment inside a continued
statement, line 3 a sentinel -/
def exRun : List CL :=
  [⟨[1], "x = 1 + &".toList⟩, ⟨[2], " ! note".toList⟩, ⟨[3], "!$omp x".toList⟩, ⟨[4], " & 2".toList⟩]

example :
    (fPass exRun).toOption = some [⟨[1, 3, 4], "x = 1 + !$omp x 2".toList, false⟩] ∧
    (exRun.flatMap (·.lines)).Nodup ∧
    isCommentLine (exRun[1]'(by decide)).text = true ∧ isSentinelLine (exRun[2]'(by decide)).text = true ∧
    (stateAt {} (exRun.map (·.text)) 1).stack = [.cfs, .top] ∧
    (stateAt {} (exRun.map (·.text)) 2).stack = [.cfs, .top] := by decide

/-! ## counted lines = reference -/

/-- **counted lines = reference (text level, full)**: for every text the reference accepts,
`FileParser`'s line source (`c_file_source(directives_only=True)` feeding `fortran_file_source`)
does not raise, and every physical line outside finding class F-C17-1 is counted iff the
reference counts it; with no F-C17-1 line the counted lines are exactly the reference's. -/
theorem lines_eq_ref (text : String) (r : List (Bool × Bool)) (h : refText text = some r) :
    ∃ lls bs, fortranSource text = .ok lls ∧ agree bs r ∧ countedOf lls = numberedFrom 0 bs ∧
      ((∀ x ∈ r, x.2 = false) → countedOf lls = countedLines r) := by
  unfold refText at h
  simp only at h
  split at h
  · rename_i hok
    have hlok := lineOK_of_textOK _ hok
    have hphys : ∀ p ∈ splitLines text, LineOK p.1 := by
      intro p hp
      apply hlok
      rw [← splitLines_fst]
      exact List.mem_map_of_mem hp
    have hd := dLoop_ok (splitLines text) 0 hphys
    rw [splitLines_fst] at hd
    obtain ⟨bs, a1, a2, a3⟩ := run_eq_ref (textLines text) 0 {} .code r init_rlF rfl hlok h
    obtain ⟨lls, hl⟩ := fLoop_ok (cpass 0 (textLines text)) {} {} [] (stack_of_rlF_code _ a3)
    have hc := (fLoop_counted _ {} {} [] lls hl wf_empty (by simp)).1
    simp only [List.nil_append] at hc
    refine ⟨lls, bs, ?_, a1, by rw [hc, a2], fun hk => ?_⟩
    · unfold fortranSource dPass; rw [hd]; exact hl
    · rw [hc, a2, agree_noK bs r a1 hk]; rfl
  · cases h

/-- the hypothesis is satisfiable by a non-trivial text (trailing comment, sentinel, preprocessor
lines, continuation with interleaved blank and comment lines, a literal holding `!`, `&` and a
doubled quote that is continued inside the literal) -/
example :
    refText "x = 1 ! c\n!$omp do\n#ifdef A\ny = 'a!&''b&\n\n  ! c\n  &c' // &\n  z\n#endif\n" =
      some [(true, false), (true, false), (true, false), (true, false), (false, false), (false, false),
            (true, false), (true, false), (true, false)] := by decide

/-- the same one level down, for *every* list of C-pass logical lines (also those that stem from
`\\`-spliced physical lines, which the text-level reference excludes): if the reference accepts
their cleaned texts, `fortran_file_source` does not raise and every logical line outside
F-C17-1 has its physical lines counted iff the reference counts it. -/
theorem lines_eq_ref_logical (cls : List CL) (r : List (Bool × Bool))
    (hshape : ∀ cl ∈ cls, isDirText cl.text = isDirectiveLine cl.text)
    (href : refLines .code (cls.map (·.text)) = some r) :
    ∃ lls bs, fPass cls = .ok lls ∧ countedOf lls = select bs cls ∧ agree bs r ∧
      ((∀ x ∈ r, x.2 = false) → countedOf lls = select (r.map (·.1)) cls) := by
  have hd : ∀ t ∈ cls.map (·.text), isDirText t = isDirectiveLine t := by
    intro t ht
    simp only [List.mem_map] at ht
    obtain ⟨cl, hcl, rfl⟩ := ht
    exact hshape cl hcl
  obtain ⟨ha, hf⟩ := flags_eq_ref (cls.map (·.text)) {} .code r init_rlF hd href
  obtain ⟨lls, hl⟩ := fLoop_ok cls {} {} [] (stack_of_rlF_code _ hf)
  have hc := (structural_counted_eq_flags cls).1 lls hl
  refine ⟨lls, _, hl, hc, ha, fun hk => ?_⟩
  rw [hc, agree_noK _ r ha hk]

/-- the hypotheses are satisfiable by a non-trivial input: statement with trailing comment,
sentinel, continuation with interleaved comment and leading `&`, a literal holding `!`, `&`, a
doubled quote, continued inside the literal, and preprocessor lines -/
def exRef : List CL :=
  [⟨[1], "x = 1 ! c".toList⟩, ⟨[2], "!$omp do".toList⟩, ⟨[3], "#ifdef A".toList⟩,
   ⟨[4], "y = 'a!&''b&".toList⟩, ⟨[5], " ! c".toList⟩, ⟨[6], " &c' // &".toList⟩, ⟨[7], " z".toList⟩,
   ⟨[8], "#endif".toList⟩]

example :
    (∀ cl ∈ exRef, isDirText cl.text = isDirectiveLine cl.text) ∧
    refLines .code (exRef.map (·.text)) =
      some [(true, false), (true, false), (true, false), (true, false), (false, false), (true, false),
            (true, false), (true, false)] := by decide

/-! ## recorded finding F-C17-1 -/

def witnessF1 : String := "x = 'a&\n& &\n&b'\n"

/-- the finding class is real: the reference accepts the witness, marks line 2 as F-C17-1 and
counts it (its blank is part of the character literal); the model of the code does not. -/
theorem finding_F_C17_1 :
    (refText witnessF1).map countedLines = some [1, 2, 3] ∧
    (refText witnessF1).map kLines = some [2] ∧
    (fortranSource witnessF1).toOption.map countedOf = some [1, 3] := by decide

/-- … whereas the same line with leading blanks is counted (so the classifier is narrow) -/
theorem finding_F_C17_1_leading_blank :
    (fortranSource "x = 'a&\n   & &\n&b'\n").toOption.map countedOf = some [1, 2, 3] := by decide

/-! ## preprocessor conditionals select lines as in C -/

/-- **Preprocessor conditionals in a Fortran source select lines as in C.**  `analyseFortran` is what
driver op `fortran_cond` returns as `model`: `fortran_file_source` + `FileParser`'s grouping +
`DirectiveParser` (`fortranPNodes`), then the ONE language-independent model of C01
(`PP.analyseNodes`: `SourceTree.insert` as `Cond.build`, `ParserState.associate` as `Cond.model`,
`Platform.define` keeping the first definition).  `referenceFortran` (op's `spec`) runs the flat
conditional-stack machine of ISO C 6.10.1 with C's `#define` on the same node list.  For EVERY Fortran
text and EVERY `-D` list: whenever the reference reports no structural diagnostic (stray
`#elif/#else/#endif`, `#elif` after `#else`), no unterminated `#if` and no macro redefinition, the
model returns exactly the reference's per-node attribution (kind, physical lines, selected or not) —
or fails with exactly the reference's expression/directive failure. -/
theorem conditionals_as_C (text : String) (defs : List String) (r : PP.RefResult)
    (h : referenceFortran text defs = .ok r)
    (hb : r.bad = false) (hu : r.unterminated = false) (hd : r.diag = false) :
    analyseFortran text defs = match r.err with | none => .ok r.rows | some e => .error e := by
  unfold referenceFortran at h
  unfold analyseFortran
  cases hp : fortranPNodes text with
  | error e => simp [hp, bind, Except.bind] at h
  | ok nodes =>
    simp only [hp, bind, Except.bind] at h ⊢
    exact C01.analyseNodes_eq_reference nodes defs r h hb hu hd

/-- … hence the same physical lines are selected -/
theorem conditionals_as_C_lines (text : String) (defs : List String) (r : PP.RefResult)
    (h : referenceFortran text defs = .ok r)
    (hb : r.bad = false) (hu : r.unterminated = false) (hd : r.diag = false) (he : r.err = none) :
    (analyseFortran text defs).toOption.map attributedLines = some (attributedLines r.rows) := by
  rw [conditionals_as_C text defs r h hb hu hd, he]; rfl

/-! ## language selection -/

/-- in the code's current extension table `.f90` and `.F90` (and nothing else) are free-form
Fortran; in particular the fixed-form extensions are not -/
theorem ext_free_form :
    (CbiVerif.Gen.languageExts.filter fun e => e.2.contains ".f90" || e.2.contains ".F90").map (·.1)
      = ["fortran-free"] ∧
    (CbiVerif.Gen.languageExts.find? fun e => e.1 == "fortran-free").map (·.2) = some [".f90", ".F90"] := by
  decide

end CbiVerif.C17

/-! Non-vacuity of `conditionals_as_C`: its hypotheses hold on a concrete Fortran text with nested
`#ifdef/#else/#endif`, `#elif`, `#define` on one path, a continued statement with an interleaved
comment, a character literal holding `!`, a sentinel and an ordinary comment.  The macro expander and the
expression evaluator of the executed model are the total definitions `MX.cbiExpand` / `Eval.cbiEval`
(`PP.condValue`), so this is a kernel-checked statement (it was a `#guard` while `runExpand` was a
`partial def`); the harness observes the same on every generated program. -/
namespace CbiVerif.C17
open CbiVerif.Fortran CbiVerif.PP in
example :
    (let text := "m1 = 1\n#ifdef A\nm2 = 'a!b' &\n  ! c\n  & // 'c'\n#ifdef B\nm3 = 3\n#else\n#define C 1\n!$omp do\nm4 = 4\n#endif\n#elif defined(B)\nm5 = 5\n#else\n! only a comment\nm6 = 6\n#endif\n#if C == 1\nm7 = 7\n#endif\n"
     match referenceFortran text ["A=1"], analyseFortran text ["A=1"], referenceFortran text ["B"] with
     | .ok r, .ok rows, .ok r2 =>
       !r.bad && !r.unterminated && !r.diag && r.err.isNone && rows == r.rows &&
       (rows.filter (fun x => x.1 == .code)).map (fun x => (x.2.1, x.2.2)) ==
         [([1], true), ([3, 5], true), ([7], false), ([10, 11], true), ([14], false), ([17], false), ([20], true)] &&
       attributedLines rows == [1, 2, 3, 5, 6, 8, 9, 10, 11, 12, 13, 15, 18, 19, 20, 21] &&
       attributedLines r2.rows == [1, 2, 13, 14, 15, 18, 19, 21]
     | _, _, _ => false) = true := by
  decide +kernel

-- the hypotheses matter: an unterminated `#ifdef` is reported by the reference
open CbiVerif.Fortran in
example :
    (match referenceFortran "#ifdef A\nx = 1\n" [] with
     | .ok r => r.unterminated && !r.bad
     | _ => false) = true := by
  decide +kernel
end CbiVerif.C17
