import CbiVerif.PP.Expand
/-! The design-phase port of `MacroExpander.expand` (monadic, a stack of `ExpanderHelper`s, `no_expand` list, rescanning by
splice), written with `partial def` and therefore opaque to the kernel.

NOTHING that a property theorem talks about and nothing in the analysis pipeline depends on this file any more: the
end-to-end models (`PP/Analyse.lean`, `PP/Find.lean`, `Model/FindInc.lean`, `Model/Exclude.lean`, …) run the total step
machine `MX.cbiExpand` through `PP.runExpandT` (`Model/ExpandPP.lean`).  The port is kept for ONE purpose: the three-way
cross-check of driver op `c03` (field `old`, asked for by `harness/props/c03.py` on every tenth case): old port vs total
model vs implementation.  Only `Drv/C03.lean` imports it. -/
namespace CbiVerif.PP.Old
open CbiVerif.PP

/-- repair of finding D44: only punctuators / operators delimit the arguments of a call (same as `MX.dtext`) -/
def dtextOld (t : Tok) : String := if t.kind == .punct || t.kind == .op then t.text else ""

structure Helper where
  toks : List (Option Tok)
  pos : Nat
  pre : Bool
deriving Repr, Inhabited

def Helper.eol (h : Helper) : Bool := h.pos ≥ h.toks.length

structure XState where
  stack : List Helper        -- head = parser_stack[-1]
  noExp : List (Option String)   -- head = no_expand[-1]; `none` = Python's None (outermost stream, argument pre-expansion)
deriving Repr, Inhabited

inductive Sig | endOfParse | overflow | err (e : Err)
deriving Repr, Inhabited

abbrev XM := ExceptT Sig (StateM XState)

def maxLevel : Nat := 200

def filterSome (l : List (Option Tok)) : List Tok := l.filterMap id

/-- pop(): splice the exhausted top stream into the one below, the read position ends up behind the spliced tokens -/
def xpop : XM Unit := do
  let st ← get
  match st.stack with
  | [] => throw (.err .index)
  | [_] => throw .endOfParse
  | top :: below :: rest =>
    if top.pre then throw .endOfParse
    let start := filterSome (below.toks.take below.pos)
    let newToks := (start ++ filterSome top.toks ++ filterSome (below.toks.drop below.pos)).map some
    set ({ stack := { below with toks := newToks, pos := start.length + (filterSome top.toks).length } :: rest, noExp := st.noExp.tail } : XState)

/-- pop while the top stream is exhausted -/
def popWhileEol : Nat → XM Unit
  | 0 => pure ()
  | fuel + 1 => do
    let st ← get
    match st.stack with
    | [] => throw (.err .index)
    | top :: _ => if top.eol then do xpop; popWhileEol fuel else pure ()

def overflowCheck : XM Unit := do
  let st ← get
  if st.stack.length ≥ maxLevel then throw .overflow

def xpush (toks : List Tok) (ident : String) : XM Unit := do
  modify fun st => { stack := ⟨toks.map some, 0, false⟩ :: st.stack, noExp := some ident :: st.noExp }
  overflowCheck

def topHelper : XM Helper := do
  match (← get).stack with
  | [] => throw (.err .index)
  | h :: _ => pure h

def setTop (h : Helper) : XM Unit := modify fun st => { st with stack := h :: st.stack.tail }

def peekTokPop : XM Tok := do
  popWhileEol 100000
  let h ← topHelper
  match h.toks[h.pos]? with
  | some (some t) => pure t
  | _ => throw (.err .type_)       -- peeked a hole / nothing

def advanceTok : XM Unit := do
  popWhileEol 100000
  let h ← topHelper
  setTop { h with pos := h.pos + 1 }

def consumeTok : XM Tok := do
  popWhileEol 100000
  let h ← topHelper
  match h.toks[h.pos]? with
  | some (some t) => setTop { h with toks := h.toks.set h.pos none, pos := h.pos + 1 }; pure t
  | some none => setTop { h with pos := h.pos + 1 }; throw (.err .type_)
  | none => throw (.err .index)

def replaceTok (t : Tok) : XM Unit := do
  popWhileEol 100000
  let h ← topHelper
  if h.pos < h.toks.length then setTop { h with toks := h.toks.set h.pos (some t), pos := h.pos + 1 }
  else throw (.err .index)

/-- peek_tok(): look down the stack without popping -/
def peekTok : XM (Option Tok) := do
  let st ← get
  let rec go : List Helper → Bool → Option Tok
    | [], _ => none
    | h :: rest, _ =>
      if h.eol then (if rest.isEmpty || h.pre then none else go rest false)
      else match h.toks[h.pos]? with | some (some t) => some t | _ => none
  pure (go st.stack false)

def backUp : XM Unit := do
  let h ← topHelper
  setTop { h with pos := h.pos - 1 }

def isDefined (tbl : Table) (n : String) : String := if (tbl.get n).isSome then "1" else "0"

mutual
/-- the `while True` loop of expand() -/
partial def expandLoop (tbl : Table) : XM Unit := do
  let ctok ← peekTokPop
  if ctok.kind != .ident then
    advanceTok
    expandLoop tbl
  else
    let _ ← consumeTok
    if ctok.text == "defined" then
      let tok ← peekTok
      match tok with
      | none => throw (.err .type_)        -- None.token → AttributeError
      | some tok =>
        let ident ← (if tok.text == "(" then do
            let _ ← consumeTok
            let ident ← consumeTok
            let paren ← peekTok
            match paren with
            | none => throw (.err .type_)
            | some p => if p.text != ")" then throw (.err (.parse "Expected ')'")) else pure ident
          else pure tok : XM Tok)
        if ident.kind != .ident then throw (.err (.parse "Expected identifier after 'defined'"))
        replaceTok ⟨.num, isDefined tbl ident.text, ident.pw, true⟩
        expandLoop tbl
    else
      let st ← get
      if !ctok.expandable || st.noExp.contains (some ctok.text) then
        backUp
        replaceTok { ctok with expandable := false }
        expandLoop tbl
      else
        match tbl.get ctok.text with
        | none =>
          backUp; replaceTok ctok; expandLoop tbl
        | some m =>
          match m.args with
          | some _ =>
            let paren ← peekTok
            if (paren.map dtextOld) != some "(" then
              backUp; replaceTok ctok; expandLoop tbl
            else
              let _ ← consumeTok
              let args ← collectArgs (if m.variadic then some ((m.args.getD []).length - 1) else none) [] [] 1
              let mut pre : List Arg := []
              let mut i := 0
              for a in args do
                if (if m.variadic && i ≥ m.needsExp.length then m.needsExp.getLast?.getD true else (i ≥ m.needsExp.length || m.needsExp[i]!)) then
                  let e ← expandCall tbl a true
                  pre := pre ++ [⟨a, some e⟩]
                else
                  pre := pre ++ [⟨a, none⟩]
                i := i + 1
              let repl ← (match m.replaceFn pre with
                | .ok r => pure r
                | .error e => throw (.err e) : XM (List Tok))
              let repl := match repl with | f :: r => { f with pw := ctok.pw } :: r | [] => []
              xpush repl m.name
              expandLoop tbl
          | none =>
            let repl := match m.replacement with | f :: r => { f with pw := ctok.pw } :: r | [] => []
            xpush repl m.name
            expandLoop tbl

partial def collectArgs (vk : Option Nat) (args : List (List Tok)) (cur : List Tok) (depth : Nat) : XM (List (List Tok)) := do
  let tok ← consumeTok
  -- `vk`: for a variadic macro, the number of commas that separate (trailing arguments and their commas are one argument)
  if dtextOld tok == "," && depth == 1 && (match vk with | some k => decide (args.length < k) | none => true) then collectArgs vk (args ++ [cur]) [] depth
  else if dtextOld tok == "(" then collectArgs vk args (cur ++ [tok]) (depth + 1)
  else if dtextOld tok == ")" then
    if depth == 1 then pure (args ++ [cur]) else collectArgs vk args (cur ++ [tok]) (depth - 1)
  else collectArgs vk args (cur ++ [tok]) depth

/-- expand(tokens, ident, pre_expand) -/
partial def expandCall (tbl : Table) (toks : List Tok) (pre : Bool) : XM (List Tok) := do
  overflowCheck
  if toks.isEmpty then return toks
  modify fun st => { stack := ⟨toks.map some, 0, pre⟩ :: st.stack, noExp := none :: st.noExp }
  try
    expandLoop tbl
    return []     -- unreachable: the loop only ends by a signal
  catch
    | .endOfParse => do
      let st ← get
      match st.stack with
      | [] => throw (.err .index)
      | top :: rest =>
        set ({ stack := rest, noExp := st.noExp.tail } : XState)
        return filterSome top.toks
    | .overflow => do
      set ({ stack := [], noExp := [] } : XState)
      return [⟨.num, "0", false, true⟩]
    | e => throw e
end

def runExpand (tbl : Table) (toks : List Tok) : XResult :=
  match (expandCall tbl toks false).run.run ⟨[], []⟩ with
  | (.ok ts, _) => .ok ts
  | (.error (.err e), _) => .error e
  | (.error .overflow, _) => .sig "overflow"
  | (.error .endOfParse, _) => .sig "endOfParse"

end CbiVerif.PP.Old
