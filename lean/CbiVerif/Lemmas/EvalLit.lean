import CbiVerif.Model.EvalBridge
/-! C02 lemmas: `term()`'s conversion of integer constants (regex split, base selection,
    `int(digits, base)`, suffix table) on the spelling of every syntactically valid constant
    (`CExpr.Lit`: any base, any digit string, any of the 23 suffix spellings), by induction on the digits. -/
namespace CbiVerif.EvalLit
open CbiVerif.Eval CbiVerif.CExpr CbiVerif.EvalBridge

theorem digitVal_char : ∀ (v : Fin 16) (up : Bool), digitVal (Digit.char ⟨v, up⟩) = v.val := by decide
theorem digit_not_suf : ∀ (v : Fin 16) (up : Bool), isSufChar (Digit.char ⟨v, up⟩) = false := by decide
theorem digit_char_small : ∀ (v : Fin 16) (up : Bool), v.val < 10 →
    ((Digit.char ⟨v, up⟩ == 'x') = false ∧ (Digit.char ⟨v, up⟩ == 'X') = false ∧
     (Digit.char ⟨v, up⟩ == 'b') = false ∧ (Digit.char ⟨v, up⟩ == 'B') = false ∧
     ((Digit.char ⟨v, up⟩ == '0') = decide (v.val = 0))) := by decide
theorem suffix_lookup (s : Suffix) : suffixUnsigned? s.chars = some s.isUnsigned := by
  obtain ⟨a, b, c⟩ := s
  cases a <;> cases b <;> cases c <;> rfl
theorem suffix_take (s : Suffix) : s.chars.takeWhile (fun c => !isSufChar c) = [] := by
  obtain ⟨a, b, c⟩ := s
  cases a <;> cases b <;> cases c <;> rfl
theorem suffix_drop (s : Suffix) : s.chars.dropWhile (fun c => !isSufChar c) = s.chars := by
  obtain ⟨a, b, c⟩ := s
  cases a <;> cases b <;> cases c <;> rfl

/-- `int(digits, base)` on spelled digits -/
theorem parseDigits_go (b : Nat) (ds : List Digit) (h : ∀ d ∈ ds, d.val.val < b) (acc : Nat) :
    (ds.map Digit.char).foldl (fun acc c => match acc with
      | none => none
      | some n => if digitVal c < b then some (n * b + digitVal c) else none) (some acc)
    = some (ds.foldl (fun acc d => acc * b + d.val.val) acc) := by
  induction ds generalizing acc with
  | nil => rfl
  | cons d r ih =>
    have hd : d.val.val < b := h d (by simp)
    obtain ⟨v, up⟩ := d
    simp only [List.map_cons, List.foldl_cons, digitVal_char, hd, if_true]
    exact ih (fun d hd' => h d (by simp [hd'])) _

theorem parseDigits_spell (b : Nat) (ds : List Digit) (h : ∀ d ∈ ds, d.val.val < b) :
    parseDigits b (ds.map Digit.char) = some (ds.foldl (fun acc d => acc * b + d.val.val) 0) :=
  parseDigits_go b ds h 0

theorem valid_digits (l : Lit) (hv : l.valid = true) : ∀ d ∈ l.digits, d.val.val < l.base.radix := by
  simp only [Lit.valid, Bool.and_eq_true, List.all_eq_true, decide_eq_true_eq] at hv
  exact hv.1

theorem parseBody_spell (l : Lit) (hv : l.valid = true) :
    parseBody (l.prefixChars ++ l.digits.map Digit.char) = some l.value := by
  have hd := valid_digits l hv
  obtain ⟨base, pu, ds, suf⟩ := l
  simp only [Lit.valid, Bool.and_eq_true] at hv
  obtain ⟨_, hv2⟩ := hv
  cases base
  · -- decimal
    simp only [Lit.prefixChars, List.nil_append, Lit.value, Base.radix] at hd ⊢
    match ds, hv2, hd with
    | d :: r, hv2, hd =>
      obtain ⟨v, up⟩ := d
      have hlt : v.val < 10 := hd ⟨v, up⟩ (by simp)
      have hnz : v.val ≠ 0 := by simpa using hv2
      have hc := digit_char_small v up hlt
      simp only [List.map_cons, parseBody, hc.2.2.2.2, hnz, decide_false, Bool.false_eq_true, if_false, digitVal_char, hlt, if_true]
      exact parseDigits_spell 10 (⟨v, up⟩ :: r) hd
  · -- octal
    simp only [Lit.prefixChars, Lit.value, Base.radix] at hd ⊢
    match ds, hd with
    | [], _ => rfl
    | d :: r, hd =>
      obtain ⟨v, up⟩ := d
      have hlt : v.val < 8 := hd ⟨v, up⟩ (by simp)
      have hc := digit_char_small v up (by omega)
      simp only [List.cons_append, List.nil_append, List.map_cons, parseBody, beq_self_eq_true, if_true, hc.1, hc.2.1, hc.2.2.1, hc.2.2.2.1,
        Bool.or_self, Bool.false_eq_true, if_false]
      exact parseDigits_spell 8 (⟨v, up⟩ :: r) hd
  · -- hex
    simp only [Lit.prefixChars, Lit.value, Base.radix] at hd ⊢
    have hne : (ds.map Digit.char).isEmpty = false := by
      cases ds <;> simp_all
    cases pu <;>
      simp only [List.cons_append, List.nil_append, parseBody, beq_self_eq_true, if_true, Bool.false_eq_true, if_false, Bool.or_true, Bool.true_or, hne] <;>
      exact parseDigits_spell 16 ds hd
  · -- binary
    simp only [Lit.prefixChars, Lit.value, Base.radix] at hd ⊢
    have hne : (ds.map Digit.char).isEmpty = false := by
      cases ds <;> simp_all
    have h1 : (('b' : Char) == 'x') = false := by decide
    have h2 : (('b' : Char) == 'X') = false := by decide
    have h3 : (('B' : Char) == 'x') = false := by decide
    have h4 : (('B' : Char) == 'X') = false := by decide
    cases pu <;>
      simp only [List.cons_append, List.nil_append, parseBody, beq_self_eq_true, if_true, Bool.false_eq_true, if_false, Bool.or_true, Bool.true_or,
        Bool.or_self, h1, h2, h3, h4, hne] <;>
      exact parseDigits_spell 2 ds hd

theorem takeWhile_body (l : Lit) :
    (l.prefixChars ++ l.digits.map Digit.char ++ l.suffix.chars).takeWhile (fun c => !isSufChar c)
      = l.prefixChars ++ l.digits.map Digit.char := by
  have hall : ∀ c ∈ l.prefixChars ++ l.digits.map Digit.char, (!isSufChar c) = true := by
    intro c hc
    rw [List.mem_append] at hc
    rcases hc with hc | hc
    · obtain ⟨base, pu, ds, suf⟩ := l
      cases base <;> cases pu <;> simp [Lit.prefixChars] at hc <;> (try rcases hc with rfl | rfl) <;> (try subst hc) <;> decide
    · rw [List.mem_map] at hc
      obtain ⟨⟨v, up⟩, _, rfl⟩ := hc
      simp [digit_not_suf]
  rw [List.takeWhile_append_of_pos hall, suffix_take, List.append_nil]

theorem dropWhile_body (l : Lit) :
    (l.prefixChars ++ l.digits.map Digit.char ++ l.suffix.chars).dropWhile (fun c => !isSufChar c)
      = l.suffix.chars := by
  have hall : ∀ c ∈ l.prefixChars ++ l.digits.map Digit.char, (!isSufChar c) = true := by
    intro c hc
    rw [List.mem_append] at hc
    rcases hc with hc | hc
    · obtain ⟨base, pu, ds, suf⟩ := l
      cases base <;> cases pu <;> simp [Lit.prefixChars] at hc <;> (try rcases hc with rfl | rfl) <;> (try subst hc) <;> decide
    · rw [List.mem_map] at hc
      obtain ⟨⟨v, up⟩, _, rfl⟩ := hc
      simp [digit_not_suf]
  rw [List.dropWhile_append_of_pos hall, suffix_drop]

/-- what the evaluator's `term()` computes for the spelling of any syntactically valid integer constant -/
theorem literal_model (l : Lit) (hv : l.valid = true) :
    Eval.literal l.spell =
      (if l.suffix.isUnsigned then (if (l.value : Int) < two64 then .ok ⟨true, l.value⟩ else .error eOverflow)
       else (if (l.value : Int) < two63 then .ok ⟨false, l.value⟩ else .error eOverflow)) := by
  simp only [Eval.literal, Lit.spell, String.toList_ofList, literalL, Lit.chars, takeWhile_body, dropWhile_body,
    parseBody_spell l hv, suffix_lookup]

/-- D8 class on one constant: no `u` suffix and a value above INTMAX_MAX -/
def bigUnsuffixed (l : Lit) : Bool := !l.suffix.isUnsigned && decide ((l.value : Int) > intMax)

theorem mval_ofNat_unsigned (n : Nat) (h : n ≤ uintMax) : mval ⟨true, BitVec.ofNat 64 n⟩ = ⟨true, (n : Int)⟩ := by
  simp only [mval, if_true, BitVec.toNat_ofNat]
  congr 1
  have : n % 2 ^ 64 = n := Nat.mod_eq_of_lt (by simp [uintMax] at h; omega)
  rw [this]
theorem mval_ofNat_signed (n : Nat) (h : (n : Int) ≤ intMax) : mval ⟨false, BitVec.ofNat 64 n⟩ = ⟨false, (n : Int)⟩ := by
  simp only [mval, Bool.false_eq_true, if_false]
  congr 1
  rw [BitVec.toInt_eq_toNat_cond, BitVec.toNat_ofNat]
  simp only [intMax] at h
  have : n % 2 ^ 64 = n := Nat.mod_eq_of_lt (by omega)
  rw [this]
  split <;> omega

theorem literal_value (l : Lit) (hv : l.valid = true) (v : CExpr.Val) (hc : cLiteral l = some v)
    (hk : bigUnsuffixed l = false) : Eval.literal l.spell = .ok (mval v) := by
  rw [literal_model l hv]
  simp only [cLiteral] at hc
  simp only [bigUnsuffixed] at hk
  cases hu : l.suffix.isUnsigned
  · simp only [hu, Bool.false_eq_true, if_false, Bool.not_false, Bool.true_and, decide_eq_false_iff_not, Int.not_lt] at hc hk ⊢
    have hle : (l.value : Int) ≤ intMax := by omega
    simp only [hle, if_true, Option.some.injEq] at hc
    subst hc
    have : (l.value : Int) < two63 := by simp only [intMax, two63] at hle ⊢; omega
    simp only [this, if_true, mval_ofNat_signed _ hle]
  · simp only [hu, if_true] at hc ⊢
    split at hc
    · rename_i hle
      simp only [Option.some.injEq] at hc
      subst hc
      have : (l.value : Int) < two64 := by simp only [uintMax, two64] at hle ⊢; omega
      simp only [this, if_true, mval_ofNat_unsigned _ hle]
    · simp at hc

/-- D8: a constant without `u` that C makes unsigned is an `OverflowError` in the evaluator -/
theorem literal_big (l : Lit) (hv : l.valid = true) (hk : bigUnsuffixed l = true) :
    Eval.literal l.spell = .error eOverflow := by
  rw [literal_model l hv]
  simp only [bigUnsuffixed, Bool.and_eq_true, Bool.not_eq_true', decide_eq_true_eq] at hk
  have : ¬ (l.value : Int) < two63 := by simp only [intMax, two63] at hk ⊢; omega
  simp only [hk.1, Bool.false_eq_true, if_false, this]
end CbiVerif.EvalLit
