import Lean.Data.Json
import CbiVerif.Drv.Eval
import CbiVerif.Model.EvalText
/-! driver ops for C02, text level (the definitions of `Model/LexLayout.lean`, which `Props/C02Text.lean` is about).

`layoutsep` {ast} → { toks:[spelling…], sep:[bool…], cglue:[bool…], lexok:[bool…] }
    source tokens of the tree (`EvalBridge.renderSrc`), and for every neighbouring pair `LexLayout.separable` / `cGlue`
`layoutx` {ast, lead:"…", gaps:["…",…]} →
    { text,                       -- LexLayout.layout w (renderSrc ast)
      admissible, c_admissible,   -- LexLayout.admissible / cAdmissible
      lexok_all, no_defined,      -- hypotheses of `lexer_reads_layout` / `text_main_partial` that concern the text
      flagged:[[kind,text,pw]…],  -- LexLayout.flagged w (renderSrc ast): what `lexer_reads_layout` says the lexer returns
      lex_match }                 -- PP.tokenize text == flagged  (an executed instance of the theorem)
-/
open Lean CbiVerif.PP
namespace CbiVerif.Drv.EvalLayout
open CbiVerif.CExpr CbiVerif.EvalBridge CbiVerif.LexLayout CbiVerif.Drv.Eval

def kindName : TKind → String
  | .num => "num" | .chr => "chr" | .str => "str" | .ident => "ident" | .op => "op" | .punct => "punct" | .unknown => "unknown"

def pairs (f : Tok → Tok → Bool) : List Tok → List Json
  | t :: t2 :: ts => Json.bool (f t t2) :: pairs f (t2 :: ts)
  | _ => []

def astOf (j : Json) : CExpr.Ast :=
  match j.getObjVal? "ast" with
  | .ok aj => decAst aj
  | _ => .ident "?"

def handleSep (j : Json) : Json :=
  let ts := renderSrc (astOf j)
  Json.mkObj [("toks", Json.arr (ts.map fun t => Json.str (String.ofList (CbiVerif.LexRT.spellChars t))).toArray),
              ("sep", Json.arr (pairs separable ts).toArray),
              ("cglue", Json.arr (pairs cGlue ts).toArray),
              ("lexok", Json.arr (ts.map fun t => Json.bool (CbiVerif.LexRT.lexOK t)).toArray)]

def tokJson (t : Tok) : Json := Json.arr #[Json.str (kindName t.kind), Json.str t.text, Json.bool t.pw]

def handleLayout (j : Json) : Json :=
  let ts := renderSrc (astOf j)
  let gaps := ((j.getObjValAs? (Array String) "gaps").toOption.getD #[]).toList.map String.toList
  let w : Layout := ⟨(str j "lead").toList, gaps⟩
  let text := layout w ts
  let fl := flagged w ts
  Json.mkObj [("text", text), ("admissible", admissible w ts), ("c_admissible", cAdmissible w ts),
              ("lexok_all", ts.all CbiVerif.LexRT.lexOK), ("no_defined", noDefined (astOf j)),
              ("flagged", Json.arr (fl.map tokJson).toArray),
              ("lex_match", decide (tokenize text = fl))]

def handlers : List (String × (Json → Json)) := [("layoutsep", handleSep), ("layoutx", handleLayout)]

end CbiVerif.Drv.EvalLayout
