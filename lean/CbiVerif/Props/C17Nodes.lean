import CbiVerif.Props.C17
import CbiVerif.Lemmas.FGroups
import CbiVerif.Spec.FortranNodes
/-!
# C17 — the NODES of a free-form Fortran file (the Fortran analogue of `C05.nodes_of_ok`)

`C17.lines_eq_ref` says which physical lines are counted; `nodes_eq_ref` says how `FileParser` groups them: one node per
directive line, one per maximal run of counted lines between directive lines (`Spec/FortranNodes.lean`; a `#` line whose first
token is `##` is counted text, not a directive: `Fortran.isPasteLine`, `Lemmas/FPaste.lean`), every node holding at least one line.
The proof follows the reference run line by line (`Lemmas/FGroups.lean`).  Before the repair of F-C17-2 the statement needed the
hypothesis "no continuation line whose `#` opens the text of a statement that began with lone `&` lines": the code classified a
logical line by the first character of its JOINED buffer; since the repair text assembled from statement lines is never a
directive (`F_C17_2_fixed`).
-/
namespace CbiVerif.C17
open CbiVerif CbiVerif.Fortran

/-- **C17.nodes_eq_ref.**  For every text the reference scanner accepts, with no line of finding class F-C17-1:
    `fortran_file_source` does not raise and the node list `FileParser` builds from it is the
    specification's — every preprocessor directive line is a node of its own, maximal runs of counted lines between directive
    lines form the code nodes (so a continued statement, its interleaved comment lines left out, is never cut and never read
    as a directive), and `num_lines = len(lines) ≥ 1` for every node. -/
theorem nodes_eq_ref (text : String) (r : List (Bool × Bool)) (h : refText text = some r)
    (hk : ∀ x ∈ r, x.2 = false) :
    ∃ lls, fortranSource text = .ok lls ∧
      (group lls).map (fun nd => (nd.isDir, nd.lines)) = refNodes text ∧
      ∀ nd ∈ group lls, nd.numLines = nd.lines.length ∧ 1 ≤ nd.numLines := by
  obtain ⟨lls, h1, h2⟩ := groups_eq_ref text r h hk
  refine ⟨lls, h1, h2, fun nd hnd => ?_⟩
  have hn := (structural_nodes lls).2 nd hnd
  refine ⟨hn, ?_⟩
  have hmem : nview nd ∈ refNodes text := by rw [← h2]; exact List.mem_map_of_mem hnd
  have hne : nd.lines ≠ [] := refNodes_nonempty text _ hmem
  rw [hn]
  cases hl : nd.lines with
  | nil => exact absurd hl hne
  | cons _ _ => simp

/-- the hypotheses are satisfiable by a non-trivial text: trailing comment, sentinel, `#ifdef/#else/#endif`, a statement
    continued over a blank and a comment line inside a character literal, a statement that BEGINS with a lone `&` line (F2018
    forbids it, the reference accepts it) and a `#` as statement text on a continuation line;
    and the conclusion is not trivial: three directive nodes, three code nodes, lines 5, 6 and 12 in no node -/
example :
    (let text := "x = 1 ! c\n!$omp do\n#ifdef A\ny = 'a!&''b&\n\n  ! c\n  &c' // &\n  z\n#else\n&\n  & w = 2 + &\n  ! note\n  & #3\n#endif\n"
     (refText text).map (fun r => r.all fun x => !x.2) = some true ∧
     refNodes text = [(false, [1, 2]), (true, [3]), (false, [4, 7, 8]), (true, [9]), (false, [11, 13]), (true, [14])] ∧
     (fortranSource text).toOption.map (fun lls => (group lls).map fun nd => (nd.isDir, nd.lines)) = some (refNodes text)) := by
  decide

/-- `#` lines whose first token is `##` (the paste operator) are counted like every `#` line but are NOT directives: inside the
    reference's `WF` — specification and code (after the repair of F-C05-3, `FileParser.is_directive`) put
    them into the run of counted lines around them -/
example :
    (let text := "x = 1\n## a\ny = 2\n  ## b\n#define A\nz = 3\n# # c\n"
     (refText text).map (fun r => r.all fun x => !x.2) = some true ∧
     refNodes text = [(false, [1, 2, 3, 4]), (true, [5]), (false, [6]), (true, [7])] ∧
     (fortranSource text).toOption.map (fun lls => (group lls).map fun nd => (nd.isDir, nd.lines)) = some (refNodes text)) := by
  decide

/-! ## repaired finding F-C17-2 -/

def witnessF2 : String := "x = 1\n&\n&#define A\ny = 2\n"

/-- **F_C17_2_fixed.**  The former finding class F-C17-2 — a continuation line whose `#` opens the text of a statement that
    began with lines holding only `&` was read as a preprocessor directive (three nodes, `#define A` taking effect), because
    `one_space_line.category()` looks at the first character of the joined buffer — is repaired: on the former witness the
    model of the repaired code counts lines 1, 3 and 4 as ONE code node, as the reference groups them (line 3 is a continuation
    line, its `#` is statement text, `gfortran -cpp -E` leaves it alone); likewise with leading blanks, an interleaved comment
    and a further continuation. -/
theorem F_C17_2_fixed :
    (refText witnessF2).map countedLines = some [1, 3, 4] ∧ (refText witnessF2).map kLines = some [] ∧
    refNodes witnessF2 = [(false, [1, 3, 4])] ∧
    (fortranSource witnessF2).toOption.map (fun lls => (group lls).map fun nd => (nd.isDir, nd.lines))
      = some [(false, [1, 3, 4])] ∧
    (fortranSource "& ! c\n  ! note\n& &\n  & #undef A &\n  & 1\n#define A\n").toOption.map
        (fun lls => (group lls).map fun nd => (nd.isDir, nd.lines))
      = some [(false, [4, 5]), (true, [6])] := by decide

end CbiVerif.C17
