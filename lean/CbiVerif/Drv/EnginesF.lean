import Lean.Data.Json
import CbiVerif.Drv.Include
import CbiVerif.Model.EnginesAgreeF
/-! driver op for C04 (engine tie with `-include` files): `engines_f` — same request as `engines`; evaluates both engines on
the request and the hypotheses / conclusion of `C04.engines_agree_forced_partial` (`Engines.EngOKF`, `Engines.bothOk`,
`Engines.agree`). -/
open Lean
namespace CbiVerif.Drv.EnginesF
open CbiVerif.PP CbiVerif.Inc CbiVerif.Drv.Include CbiVerif.Engines

def handle (j : Json) : Json :=
  let files : FSMap := match j.getObjVal? "files" with
    | .ok (Json.obj kvs) => kvs.toList.map fun (k, v) => (k, jstr v)
    | _ => []
  let links := (arrOf j "links").map fun l => (jstr (jnth l 0), jstr (jnth l 1))
  let fs : FS := { files := files, links := links }
  let config : List (String × List Entry) := (arrOf j "config").map fun pj =>
    (getS pj "name", (arrOf pj "entries").map fun e =>
      ({ file := getS e "file", defines := strs e "defines", includePaths := strs e "include_paths",
         includeFiles := strs e "include_files" } : Entry))
  let fuel := (j.getObjValAs? Nat "fuel").toOption.getD 64
  let n := (j.getObjValAs? Nat "n").toOption.getD CbiVerif.Exclude.defaultFuel
  let cb := strs j "codebase"
  let x := runExclude fs config n
  let i := find fs cb config fuel
  let nForced : Nat := (config.flatMap fun pe => pe.2.map fun e => e.includeFiles.length).foldl (· + ·) 0
  Json.mkObj [("eng_okf", EngOKF fs config), ("eng_ok", EngOK fs config), ("both_ok", bothOkOf x i), ("agree", agreeOf x i),
    ("x_exc", match x.err with | some e => Json.str (toString (repr e)) | none => Json.null),
    ("i_exc", match i.err with | some e => Json.str (toString (repr e)) | none => Json.null),
    ("x_triples", (triples x.assoc).length), ("i_triples", (triples i.assoc).length),
    ("has_forced", hasForced config), ("all_c", CbiVerif.FindInst.AllC fs.files),
    ("n_forced", nForced)]

def handlers : List (String × (Json → Json)) := [("engines_f", handle)]

end CbiVerif.Drv.EnginesF
