import CbiVerif.Model.Shlex
import CbiVerif.Spec.ShellQuote
/-! C11 helper lemmas: `shlex.split` undoes `shlex.join`, by induction on characters. -/
set_option linter.unusedSimpArgs false
namespace CbiVerif.ShlexLemmas
open CbiVerif.Shlex CbiVerif.ShellQuote

/-- a safe character is not white space, not a quote and not the escape character -/
theorem safe_plain (c : Char) (h : isSafe c = true) : isWs c = false ∧ c ≠ '\'' ∧ c ≠ '"' ∧ c ≠ '\\' := by
  have n1 : c ≠ ' ' := by intro e; subst e; revert h; decide
  have n2 : c ≠ '\t' := by intro e; subst e; revert h; decide
  have n3 : c ≠ '\r' := by intro e; subst e; revert h; decide
  have n4 : c ≠ '\n' := by intro e; subst e; revert h; decide
  have n5 : c ≠ '\'' := by intro e; subst e; revert h; decide
  have n6 : c ≠ '"' := by intro e; subst e; revert h; decide
  have n7 : c ≠ '\\' := by intro e; subst e; revert h; decide
  refine ⟨?_, n5, n6, n7⟩
  simp [isWs, n1, n2, n3, n4]

theorem go_safe_word : ∀ (w tok : List Char) (acc : List (List Char)) (rest : List Char),
    w.all isSafe = true → go .word tok acc (w ++ rest) = go .word (tok ++ w) acc rest
  | [], tok, acc, rest, _ => by simp
  | c :: cs, tok, acc, rest, h => by
    simp only [List.all_cons, Bool.and_eq_true] at h
    obtain ⟨hw, n5, n6, n7⟩ := safe_plain c h.1
    simp only [List.cons_append, go, hw, n5, n6, n7, if_false, Bool.false_eq_true]
    rw [go_safe_word cs (tok ++ [c]) acc rest h.2]
    simp

theorem go_quoteBody : ∀ (s tok : List Char) (acc : List (List Char)) (rest : List Char),
    go .sq tok acc (quoteBody s ++ '\'' :: rest) = go .word (tok ++ s) acc rest
  | [], tok, acc, rest => by simp [quoteBody, go]
  | c :: cs, tok, acc, rest => by
    by_cases hc : c = '\''
    · subst hc
      simp only [quoteBody, if_true, List.cons_append]
      have e1 : ('"' : Char) ≠ '\'' := by decide
      have e2 : ('\'' : Char) ≠ '"' := by decide
      have e3 : ('\'' : Char) ≠ '\\' := by decide
      have w1 : isWs '"' = false := by decide
      have w2 : isWs '\'' = false := by decide
      simp only [go, if_true, e1, e2, e3, w1, w2, if_false, Bool.false_eq_true]
      rw [go_quoteBody cs (tok ++ ['\'']) acc rest]
      simp
    · simp only [quoteBody, hc, if_false, List.cons_append, go]
      rw [go_quoteBody cs (tok ++ [c]) acc rest]
      simp

/-- reading one quoted argument from the between-tokens state puts the argument into the token -/
theorem go_quote (a : List Char) (acc : List (List Char)) (rest : List Char) :
    go .ws [] acc (shellQuote a ++ rest) = go .word a acc rest := by
  unfold shellQuote
  cases a with
  | nil =>
    have w2 : isWs '\'' = false := by decide
    have e3 : ('\'' : Char) ≠ '\\' := by decide
    simp [go, w2, e3]
  | cons c cs =>
    simp only [List.isEmpty_cons, Bool.false_eq_true, if_false]
    by_cases hs : (c :: cs).all isSafe = true
    · simp only [hs, if_true]
      have hs' := hs
      simp only [List.all_cons, Bool.and_eq_true] at hs'
      obtain ⟨hw, n5, n6, n7⟩ := safe_plain c hs'.1
      simp only [List.cons_append, go, hw, n5, n6, n7, if_false, Bool.false_eq_true]
      rw [go_safe_word cs [c] acc rest hs'.2]
      simp
    · simp only [hs, if_false, Bool.false_eq_true]
      have w2 : isWs '\'' = false := by decide
      have e3 : ('\'' : Char) ≠ '\\' := by decide
      simp only [List.cons_append, List.append_assoc, List.singleton_append, go, w2, e3, if_false, if_true,
        Bool.false_eq_true, List.nil_append]
      rw [go_quoteBody (c :: cs) [] acc rest]
      simp

theorem go_join : ∀ (argv acc : List (List Char)), go .ws [] acc (shellJoin argv) = .ok (acc ++ argv)
  | [], acc => by simp [shellJoin, go]
  | [a], acc => by
    have := go_quote a acc []
    simp only [List.append_nil] at this
    simp [shellJoin, this, go]
  | a :: b :: rest, acc => by
    have w : isWs ' ' = true := by decide
    have ih := go_join (b :: rest) (acc ++ [a])
    rw [shellJoin, go_quote a acc _]
    · simp only [go, w, if_true]
      rw [ih]
      simp
    · simp

theorem split_ok : splitOK = true := by decide

end CbiVerif.ShlexLemmas
