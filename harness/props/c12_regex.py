"""C12 — tie of the Lean regex / template / split models (Model/Regex.lean, Model/Compilers.lean) to CPython.

`_ExtendMatchAction` evaluates `re.findall(pattern, value)`, `_StoreSplitAction` `value.split(sep)`, both
`string.Template(format).substitute(value=v)`.  The C12 model computes these itself; this module compares the
Lean definitions (driver ops `re_findall`, `py_template`, `py_split`) with CPython on generated inputs:

* every pattern of the shipped `*.toml` files and of the C12 configuration generator x generated option values,
* random patterns of the supported fragment (literals, `.`, classes / ranges, `\\d \\w \\s \\D \\W \\S`, escaped
  punctuation, capturing / non-capturing groups, alternation, greedy `* + ?`, `$`) x random and pattern-derived
  strings; patterns outside the fragment must be answered `unsupported` (counted, never compared),
* templates over `$value`, `${value}`, `$$`, other names, malformed `$`; separators incl. `None` and `""`.

A disagreement is a correspondence break of the model (never a violation by itself).  The documented meaning of
the shipped value rules (nvcc architecture flags, icx `-fsycl-targets`) is checked against the implementation
in `stream_shipped` (a property oracle: disagreement = violation with a replayable command line).
"""
from __future__ import annotations

import re
import string
import warnings

LIT = "absmctx_019-,=: "
VALUE_TOKENS = ["sm_", "compute_", "80", "7", "90a", ",", "=", "arch", "code", "spir64", "_gen", "x1", "t2", " ", "-",
                "a", "b", "c", "ab", "\n", "_", "[", "]", ".", "$", "sm", "0", "::", "\t"]
CLASSES = ["[a-z]", "[0-9]", "[a-z0-9_]", "[^,]", "[a-z0-9_-]", "[^a-c ]", "[,:=]", "[\\d_]", "[\\w-]", "[^\\s,]", "[.$]", "[-a]",
           "[a\\-c]", "[A-Za-z]", "[\\]x]", "[^\\W_]", "[\\D]", "[a-a]", "[+*?]"]
ESCAPES = ["\\d", "\\w", "\\s", "\\D", "\\W", "\\S", "\\.", "\\-", "\\$", "\\\\", "\\(", "\\[", "\\n", "\\t", "\\_", "\\,", "\\ ", "\\+"]
OUTSIDE = ["^a", "a{2}", "a*?", "a+?", "\\bsm", "(?i)a", "(a)\\1", "(?=a)b", "(?P<n>a)", "a{1,3}", "[]a]", "[[a]", "a**", "(a*)*",
           "(a|)+", "(?:a?)*", "*a", "a|*", "a)", "(a", "[a", "a\\", "\\A", "a\\Z", "x*+", "[z-a]", "[\\d-x]", "\\8", "\\q", "a]", "}", "a++",
           "$*", "(?#c)a", "(?:)+", "()*", "($)?", "\\0", "[\\b]"]


def esc_lit(c):
    return "\\" + c if c in ".^$*+?{}[]\\|()" else c


def gen_atom(rng, depth, quant=True):
    x = rng.random()
    if x < 0.42:
        return esc_lit(rng.choice(LIT))
    if x < 0.50:
        return "."
    if x < 0.64:
        return rng.choice(CLASSES)
    if x < 0.76:
        return rng.choice(ESCAPES)
    if x < 0.80:
        return rng.choice(["sm_", "compute_", "spir64", "arch=", "code="])
    if depth <= 0:
        return esc_lit(rng.choice(LIT))
    inner = gen_alt(rng, depth - 1, quant)
    return ("(" if rng.random() < 0.6 else "(?:") + inner + ")"


def gen_seq(rng, depth, quant=True):
    """star height <= 1 (a quantified group contains no quantifier): nested quantifiers back-track exponentially
    in CPython and in the model alike, which would only measure patience"""
    out = []
    for _ in range(rng.choice([0, 1, 1, 2, 2, 3, 4])):
        q = rng.random() if quant else 1.0
        a = gen_atom(rng, depth, quant and q >= 0.46)
        if len(a) > 1 and a[0] not in "([\\":
            out.append(a)  # a multi-character literal takes no quantifier as a whole
            continue
        if q < 0.16:
            a += "*"
        elif q < 0.34:
            a += "+"
        elif q < 0.46:
            a += "?"
        out.append(a)
    return "".join(out)


def gen_alt(rng, depth, quant=True):
    n = rng.choice([1, 1, 1, 2, 2, 3])
    return "|".join(gen_seq(rng, depth, quant) for _ in range(n))


def gen_pattern(rng):
    p = gen_alt(rng, rng.choice([0, 1, 1, 2, 2, 3]))
    if rng.random() < 0.08:
        p += "$"
    return p


def literals_of(p):
    """chunks of plain text in a pattern (to build values that are likely to match)"""
    return [t for t in re.split(r"[\\()\[\]|*+?.$^{}]|\?:", p) if t]


def gen_value(rng, p=None):
    toks = list(VALUE_TOKENS)
    if p:
        toks += literals_of(p) * 3
    n = rng.choice([0, 1, 2, 3, 4, 5, 6, 8])
    v = "".join(rng.choice(toks) for _ in range(n))
    if rng.random() < 0.1:
        v += "\n"
    if p and re.search(r"\)[*+]", p):
        v = v[:14]  # a quantified group with ambiguous alternatives back-tracks exponentially in the length
    return v


def py_findall(p, v):
    with warnings.catch_warnings():
        warnings.simplefilter("ignore")
        try:
            ms = re.findall(p, v)
        except re.error as e:
            return {"error": str(e)}
    return {"ok": [[m] if isinstance(m, str) else list(m) for m in ms]}


def py_template(fmt, v):
    if not fmt:
        return {"ok": v}
    try:
        return {"ok": string.Template(fmt).substitute(value=v)}
    except KeyError:
        return {"exc": "KeyError"}
    except ValueError:
        return {"exc": "ValueError"}


def py_split(sep, v):
    try:
        return {"ok": v.split(sep)}
    except ValueError:
        return {"exc": "ValueError"}


def shipped_patterns(builtin, flag_pattern):
    pats = []
    for f in builtin:
        for d in f.get("compiler", {}).values():
            for r in d.get("parser", []):
                if "pattern" in r and r["pattern"] not in pats:
                    pats.append(r["pattern"])
    for p in flag_pattern.values():
        if p not in pats:
            pats.append(p)
    return pats


ARCH_PARTS = ["sm_70", "sm_80", "compute_80", "sm_90", "sm_", "compute_", "sm", "compute", "sm_9a", "sm_89,", "arch=", "code=", ",", "[", "]",
              "lto_80", "csm_70", "ssm_75", "sm__80", "80", "compute_sm_86", "sm_compute_75", "s", "c", "co", "_", "sm_0", "compute_075", " "]


def gen_option_value(rng, values):
    x = rng.random()
    if x < 0.3:
        return rng.choice(values)
    if x < 0.55:  # a list of architecture names, as in --gpu-code=sm_70,sm_80,... / -gencode arch=..,code=[..]
        names = ["sm_70", "sm_75", "sm_80", "sm_89", "sm_90", "compute_70", "compute_80", "compute_90", "sm_60", "lto_80", "native"]
        body = ",".join(rng.choice(names) for _ in range(rng.randint(1, 6)))
        return body if rng.random() < 0.7 else "arch=" + rng.choice(names) + ",code=[" + body + "]"
    return "".join(rng.choice(ARCH_PARTS) for _ in range(rng.choice([1, 2, 2, 3, 4, 6])))


def stream_findall(ctx, drv, rng, builtin, flag_pattern, values, n_random, n_shipped):
    """Lean `Regex.findall` == `re.findall` (and `unsupported` exactly outside the fragment's reach)"""
    cases = []
    for p in shipped_patterns(builtin, flag_pattern):
        for _ in range(n_shipped):
            cases.append((p, gen_option_value(rng, values), "shipped"))
    for _ in range(n_random):
        p = gen_pattern(rng)
        for _ in range(3):
            cases.append((p, gen_value(rng, p), "random"))
    for p in OUTSIDE:
        cases.append((p, gen_value(rng, p), "outside"))
    stats = ctx.extra.setdefault("regex", {"compared": 0, "with_matches": 0, "unsupported": 0, "unsupported_valid_python": 0,
                                           "patterns": 0, "with_groups": 0, "empty_matches": 0})
    stats["patterns"] += len({c[0] for c in cases})
    for k in range(0, len(cases), 400):
        chunk = cases[k:k + 400]
        rep = drv.ask({"op": "re_findall", "cases": [[p, v] for p, v, _ in chunk]})["results"]
        for (p, v, kind), m in zip(chunk, rep):
            py = py_findall(p, v)
            ctx.count(key=f"regex:{kind}")
            if "unsupported" in m:
                stats["unsupported"] += 1
                if "ok" in py:
                    stats["unsupported_valid_python"] += 1
                if kind == "shipped":
                    # not an alarm (the table path takes over), but it must be visible
                    ctx.extra.setdefault("regex_shipped_unsupported", [])
                    if p not in ctx.extra["regex_shipped_unsupported"]:
                        ctx.extra["regex_shipped_unsupported"].append(p)
                continue
            if kind == "outside":
                ctx.corr_break("c12.regex_fragment", {"stream": "regex", "pattern": p, "value": v}, "outside the documented fragment", m)
                continue
            stats["compared"] += 1
            if py.get("ok"):
                stats["with_matches"] += 1
                ctx.nontrivial.add("re:" + p + "\0" + v)
                if any(x == [""] or (len(x) > 1 and False) for x in py["ok"]):
                    stats["empty_matches"] += 1
            if m.get("groups", 0) > 0:
                stats["with_groups"] += 1
            if py.get("ok") != m["ok"]:
                ctx.corr_break("c12.findall", {"stream": "regex", "pattern": p, "value": v}, py, m)


def py_at(p, v):
    """the match CPython prefers at every position of `v` (`pattern.match(v, j)`): [length, [groups]] or None"""
    with warnings.catch_warnings():
        warnings.simplefilter("ignore")
        try:
            rx = re.compile(p)
        except re.error as e:
            return {"error": str(e)}
    out = []
    for j in range(len(v) + 1):
        m = rx.match(v, j)
        out.append(None if m is None else [m.end() - j, [m.group(i + 1) or "" for i in range(rx.groups)]])
    return {"ok": out, "groups": rx.groups}


def gen_arch_list(rng, lo=1, hi=12):
    """the shape of `nvArchs_comma_list` / `nvcc_passes_comma_list`: a comma-joined list of sm_<digits> / compute_<digits>;
    returns (value, digit strings)"""
    ds = [rng.choice(["70", "75", "80", "89", "90", "60", "100", "0", "075", "8", "9000", "86"]) for _ in range(rng.randint(lo, hi))]
    return ",".join(rng.choice(["sm_", "sm_", "compute_"]) + d for d in ds), ds


def stream_spec(ctx, drv, rng, builtin, flag_pattern, values, n_random, n_shipped):
    """the priority SPECIFICATION (Spec/RegexPrio.lean: `allMatches` listed without back-tracking, `firstMatch`, `specFindall`)
    against CPython: the preferred match (length and groups) at every position of the value, and `findall`.
    Props/C12RegexComplete.lean proves the matcher equal to this specification on every parsed pattern; this stream ties
    the specification itself to `re`.  Also measures the share of generated patterns inside the fragment of the theorems."""
    cases = []
    for p in shipped_patterns(builtin, flag_pattern):
        for _ in range(n_shipped):
            cases.append((p, gen_option_value(rng, values)[:24], "shipped"))
        for _ in range(max(2, n_shipped // 4)):
            cases.append((p, gen_arch_list(rng, 1, 5)[0], "shipped"))
    for _ in range(n_random):
        p = gen_pattern(rng)
        for _ in range(2):
            v = gen_value(rng, p)
            # the specification lists ALL matches (no pruning): keep ambiguous repetitions short
            cases.append((p, v[:8] if re.search(r"\)[*+]", p) else v[:16], "random"))
    for _ in range(max(10, n_random // 10)):  # metacharacter-free patterns: the shape of `parse_literal` / `findall_literal`
        p = "".join(rng.choice("absm_019-,=: x") for _ in range(rng.randint(1, 4)))
        cases.append((p, gen_value(rng, p), "literal"))
    st = ctx.extra.setdefault("regex_spec", {"cases": 0, "compared": 0, "positions_compared": 0, "positions_with_match": 0,
                                             "findall_with_matches": 0, "patterns_generated": 0, "patterns_parsed": 0,
                                             "patterns_in_fragment": 0, "patterns_literal": 0, "fragment_share_of_generated": None,
                                             "fragment_share_of_parsed": None})
    seen = {}
    for k in range(0, len(cases), 300):
        chunk = cases[k:k + 300]
        rep = drv.ask({"op": "re_spec", "cases": [[p, v] for p, v, _ in chunk]})["results"]
        for (p, v, kind), m in zip(chunk, rep):
            st["cases"] += 1
            ctx.count(key=f"regex_spec:{kind}")
            if "unsupported" in m:
                seen.setdefault(p, (False, False, False))
                continue
            seen[p] = (True, bool(m["fragment"]), bool(m["literal"]))
            if not m["fragment"]:
                # `parse_in_fragment` is a theorem: the driver contradicting it means the build is inconsistent
                ctx.corr_break("c12.regex_fragment_theorem", {"stream": "regex_spec", "pattern": p, "value": v}, "parsed => inFragment", m)
            if kind == "literal" and not m["literal"]:
                ctx.corr_break("c12.regex_literal", {"stream": "regex_spec", "pattern": p, "value": v}, "metacharacter-free", m)
            py = py_at(p, v)
            fa = py_findall(p, v)
            if "ok" not in py or "ok" not in fa:
                ctx.corr_break("c12.regex_spec", {"stream": "regex_spec", "pattern": p, "value": v}, py, m)
                continue
            st["compared"] += 1
            st["positions_compared"] += len(py["ok"])
            st["positions_with_match"] += sum(1 for x in py["ok"] if x is not None)
            if fa["ok"]:
                st["findall_with_matches"] += 1
                ctx.nontrivial.add("respec:" + p + "\0" + v)
            if py["groups"] != m["groups"] or py["ok"] != m["at"]:
                ctx.corr_break("c12.regex_spec_first_match", {"stream": "regex_spec", "pattern": p, "value": v}, py, {"groups": m["groups"], "at": m["at"]})
            elif fa["ok"] != m["findall"]:
                ctx.corr_break("c12.regex_spec_findall", {"stream": "regex_spec", "pattern": p, "value": v}, fa, m["findall"])
    st["patterns_generated"] += len(seen)
    st["patterns_parsed"] += sum(1 for x in seen.values() if x[0])
    st["patterns_in_fragment"] += sum(1 for x in seen.values() if x[0] and x[1])
    st["patterns_literal"] += sum(1 for x in seen.values() if x[0] and x[2])
    if st["patterns_generated"]:
        st["fragment_share_of_generated"] = round(st["patterns_in_fragment"] / st["patterns_generated"], 4)
    if st["patterns_parsed"]:
        st["fragment_share_of_parsed"] = round(st["patterns_in_fragment"] / st["patterns_parsed"], 4)


TEMPLATES = [None, "", "$value", "sm_$value", "sycl-$value", "${value}", "${value}_s", "p-$value", "$$", "$$$value", "$$value", "a$$b${value}c$value",
             "$value$value", "$valuex", "${value}x", "$value-x", "$value.x", "$other", "${other}", "$", "a$", "${value", "${}", "$1", "${1a}",
             "$ value", "$Value", "$_value", "${value }", "$value$", "$$$", "plain", "$VALUE", "${value}${other}", "$other$", "$-", "x${value}$$y"]


def stream_template(ctx, drv, rng, n):
    cases = []
    for t in TEMPLATES:
        for v in ["", "80", "spir64_gen", "$value", "a b", "$", "x$y"]:
            cases.append((t, v))
    parts = ["$", "$$", "value", "${", "}", "{", "a", "_", "1", "-", "other", "$value", "${value}", " "]
    for _ in range(n):
        t = "".join(rng.choice(parts) for _ in range(rng.randint(1, 5)))
        cases.append((t, rng.choice(["80", "", "x_y", "$", "a,b"])))
    rep = drv.ask({"op": "py_template", "cases": [[t, v] for t, v in cases]})["results"]
    st = ctx.extra.setdefault("template", {"compared": 0, "errors": 0})
    for (t, v), m in zip(cases, rep):
        py = py_template(t, v)
        ctx.count(key="template")
        st["compared"] += 1
        if "exc" in py:
            st["errors"] += 1
        if py != m:
            ctx.corr_break("c12.template", {"stream": "template", "format": t, "value": v}, py, m)


def stream_split(ctx, drv, rng, n):
    cases = []
    seps = [None, ",", ":", "", ", ", "ab", "aa", " "]
    for _ in range(n):
        sep = rng.choice(seps)
        toks = ["a", "b", ",", ":", " ", "\t", "\n", "spir64", "aa", "ab", "", ", ", "\x0b", "\x1c", "x"]
        v = "".join(rng.choice(toks) for _ in range(rng.randint(0, 7)))
        cases.append((sep, v))
    rep = drv.ask({"op": "py_split", "cases": [[s, v] for s, v in cases]})["results"]
    st = ctx.extra.setdefault("split", {"compared": 0})
    for (s, v), m in zip(cases, rep):
        py = py_split(s, v)
        ctx.count(key="split")
        st["compared"] += 1
        if py != m:
            ctx.corr_break("c12.split", {"stream": "split", "sep": s, "value": v}, py, m)
