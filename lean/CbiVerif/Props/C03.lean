import CbiVerif.Lemmas.MacroObjTop
import CbiVerif.Lemmas.MacroBackstop
import CbiVerif.Lemmas.MacroDefined
import CbiVerif.Lemmas.MacroDefine
import CbiVerif.Lemmas.MacroObjSpec
import CbiVerif.Lemmas.MacroPlainCheck
import CbiVerif.Spec.Prosser
import CbiVerif.Props.C03FunLike
import CbiVerif.Props.C03FunConf
import CbiVerif.Props.C03Strcat
/-! # C03 — macro definition and expansion conform to the C standard

Model `M` = `CbiVerif.MX.cbiExpand` (the step machine the driver executes), spec `S` = `CbiVerif.Spec.Prosser.prosser`.

* `Full` — the full-strength statement (kept visible; it is still **false** for the code: `full_fails` in `Props/C03Stringify.lean`, by the remaining
  finding D42; `D42_witness` (same file), `D12_witness_small` pin the findings that are still open, each is replayed on the real code by the
  harness);
* repaired findings, now positive statements: `D9_fixed`, `D9_chain_fixed`, `D10_fixed` (`#`: white space, character constants,
  escapes; details in `Props/C03Stringify.lean`), `D11_fixed` (+ `D11_regression`: what the machine
  did before the repair), `D35_fixed`, `D36_fixed`, `D37_fixed`, `D44_fixed`, `literals_not_substituted`, `D40_fixed`, `D41_fixed`, `argument_tokens_not_substituted`;
* `object_like_partial` (model = recursive reference `E` started with nothing disabled), `object_like_conforms_partial` (model =
  `Spec.Prosser` itself on object-like tables without `##`/`defined`; macros named `None` included), `terminates_objlike_partial`,
  `no_backstop_objlike` — proved part of `Full`/termination;
* `backstop` — every table: never more than `max_level` nested streams; `backstop_result` — what the backstop returns;
* `defined_operator_plain/_paren`, `defined_never_expands` — every table;
* `cmdline_define_equiv_*` — `-DNAME`, `-DNAME=v`, `-D'NAME(args)=v'` ≡ the `#define` line (token lists).

Function-like macros without `#` / `##` / variadic parameters: `Props/C03FunLike.lean` (`funlike_partial`: model = recursive
reference `Ref` on the decidable fragment `fitsb`; `terminates_funlike_partial`, `no_backstop_funlike`; `FunLikeFull` = what
remains open) and `Props/C03FunConf.lean` (`funlike_conforms_partial`, `funlike_simple_conforms_partial`: model = `Spec.Prosser` itself
where calls have exact arity and call arguments hold no macro name; `ref_vs_prosser_witness`: why not on all of `fitsb`;
`D44_fixed` below: literals spelled `,` `(` `)` in calls).

Macros with `#` / `##`: `Props/C03Strcat.lean` (`strcat_partial`: model = the recursive reference `RefS` built on the model of
`MacroFunction.replace`; `StrcatConformsFull` = what remains open against the specification).

Not proved (covered by correspondence + Prosser spec + gcc oracle only): `#`, `##` against the specification, variadic parameters; function-like calls
completed by tokens outside the token list that holds the macro name; the function-like reference against `Spec.Prosser` for
calls whose arguments hold macro names;
termination outside the proved fragments (the model is total by fuel, the real code is observed under a time limit). -/
namespace CbiVerif.C03
open CbiVerif.PP CbiVerif.MX

/-! ## the full statement -/

/-- **C03 at full strength**: whenever the specification (Prosser's algorithm = ISO C 6.10.3) assigns a token sequence to
    (command-line definitions, `#define` lines, text), the model of CBI's expander returns the same spellings. -/
def Full : Prop :=
  ∀ (cmd defs : List String) (text : String) (out : List CbiVerif.Spec.Prosser.T),
    CbiVerif.Spec.Prosser.prosser (cmd.map CbiVerif.Spec.Prosser.cmdlineToDefine ++ defs) text = .ok out →
    expandText cmd defs text = .ok (out.map (·.text))

/-- the nesting limit the code documents ("cpp has been implemented to handle 200") -/
theorem maxLevel_documented : CbiVerif.Gen.maxLevel = 200 := by decide

/-! ## object-like tables (any size, self- and mutually recursive definitions included) -/

/-- **object-like fragment of `Full`** (model side): for every table of object-like macros (`TblOK`: no parameters, keyed by
    their own name, no `defined` in bodies) with `|tbl| + 2 < max_level` and every text without `defined`, the stack machine
    returns exactly the recursive hide-set expansion `E` with nesting budget `|tbl| + 1`, started with no name disabled —
    no error, no backstop, fuel not exhausted. -/
theorem object_like_partial (tbl : Table) (ts : List Tok) (hT : TblOK tbl) (hnd : NoDef ts)
    (hsz : tbl.length + 2 < CbiVerif.Gen.maxLevel) :
    cbiExpand tbl ts = .ok (E tbl (tbl.length + 1) [] ts) := by
  unfold cbiExpand
  exact expandWith_obj realCfg tbl hT ts hnd hsz (fuelFor tbl ts) (by unfold fuelFor; omega)

/-- the hypotheses are satisfiable by a self- and mutually-recursive table; the result is the C standard's -/
example :
    let tbl : Table := [("AA", ⟨"AA", none, false, false, [], [⟨.ident, "BB", false, true⟩]⟩),
                        ("BB", ⟨"BB", none, false, false, [], [⟨.ident, "AA", false, true⟩, ⟨.ident, "CC", true, true⟩]⟩),
                        ("CC", ⟨"CC", none, false, false, [], [⟨.ident, "AA", false, true⟩, ⟨.ident, "CC", true, true⟩]⟩)]
    TblOK tbl ∧ NoDef [⟨.ident, "AA", false, true⟩] ∧ tbl.length + 2 < CbiVerif.Gen.maxLevel ∧
      (match cbiExpand tbl [⟨.ident, "AA", false, true⟩] with | .ok r => r.map (·.text) | _ => []) = ["AA", "AA", "CC"] := by
  refine ⟨tblOK_of_check _ (by decide +kernel), noDef_of_check _ (by decide +kernel), by decide, by decide +kernel⟩

/-- **object-like fragment of `Full`, against the specification itself**: for every table of object-like macros whose
    replacement lists contain no `##` and no `defined`, every such text, `|tbl| + 2 < max_level`, and as long as the
    specification's own fuel covers the expansion, the model of CBI's expander and Prosser's hide-set algorithm
    (`Spec.Prosser.expand`) produce the same spellings — self- and mutually recursive definitions included, and (finding D35
    being repaired) macros and identifiers named `None` included. -/
theorem object_like_conforms_partial (tbl : Table) (ts : List Tok) (hT : PlainTbl tbl) (hts : ∀ t ∈ ts, PlainTok t) (hnd : NoDef ts)
    (hsz : tbl.length + 2 < CbiVerif.Gen.maxLevel)
    (hfuel : ts.length * Cb (bodyMax tbl) (tbl.length + 1) < CbiVerif.Spec.Prosser.defaultFuel) :
    ∃ r out, cbiExpand tbl ts = .ok r ∧
      CbiVerif.Spec.Prosser.prosserToks (specTable tbl) (ts.map (toSpec [])) = .ok out ∧
      r.map spellTok = out.map (·.text) := by
  obtain ⟨out, ho, he⟩ := E_eq_prosser tbl hT ts hts hfuel
  exact ⟨_, out, object_like_partial tbl ts hT.ok hnd hsz, ho, he.symm⟩

/-- the hypotheses hold for the C standard's own example of mutual recursion (C11 6.10.3.4) -/
example :
    let tbl : Table := [("AA", ⟨"AA", none, false, false, [], [⟨.ident, "BB", false, true⟩]⟩),
                        ("BB", ⟨"BB", none, false, false, [], [⟨.ident, "AA", false, true⟩, ⟨.ident, "CC", true, true⟩]⟩),
                        ("CC", ⟨"CC", none, false, false, [], [⟨.ident, "AA", false, true⟩, ⟨.ident, "CC", true, true⟩]⟩)]
    let ts : List Tok := [⟨.ident, "AA", false, true⟩]
    plainTblb tbl = true ∧ ts.all plainTokb = true ∧ ts.length * Cb (bodyMax tbl) (tbl.length + 1) < CbiVerif.Spec.Prosser.defaultFuel := by
  decide +kernel

/-- … and for a table that defines and uses a macro named `None` (excluded before the repair of D35) -/
example :
    let tbl : Table := [("None", ⟨"None", none, false, false, [], [⟨.num, "1", false, true⟩, ⟨.ident, "None", true, true⟩]⟩)]
    let ts : List Tok := [⟨.ident, "None", false, true⟩]
    plainTblb tbl = true ∧ ts.all plainTokb = true ∧ ts.length * Cb (bodyMax tbl) (tbl.length + 1) < CbiVerif.Spec.Prosser.defaultFuel ∧
      (match cbiExpand tbl ts with | .ok r => r.map (·.text) | _ => []) = ["1", "None"] := by
  decide +kernel

/-- **termination (object-like)**: the fuel `fuelFor tbl ts` granted by `cbiExpand` suffices -/
theorem terminates_objlike_partial (tbl : Table) (ts : List Tok) (hT : TblOK tbl) (hnd : NoDef ts)
    (hsz : tbl.length + 2 < CbiVerif.Gen.maxLevel) : cbiExpand tbl ts ≠ .fuel := by
  rw [object_like_partial tbl ts hT hnd hsz]; exact fun h => XR.noConfusion h

/-- **no backstop (object-like)**: the run with nesting limit `|tbl| + 3` gives the same result as the real limit: the
    200-level backstop plays no role for object-like tables with `|tbl| + 2 < max_level` -/
theorem no_backstop_objlike (tbl : Table) (ts : List Tok) (hT : TblOK tbl) (hnd : NoDef ts)
    (hsz : tbl.length + 2 < CbiVerif.Gen.maxLevel) :
    cbiExpand tbl ts = expandWith { lim := tbl.length + 3 } tbl (fuelFor tbl ts) ts := by
  rw [object_like_partial tbl ts hT hnd hsz]
  exact (expandWith_obj { lim := tbl.length + 3 } tbl hT ts hnd (by simp) (fuelFor tbl ts)
    (by unfold fuelFor; omega)).symm

/-! ## every table: the backstop -/

/-- **backstop**: for *every* table (function-like macros, `#`, `##`, recursion of any kind) and every text, no state
    reachable by the loop has more than `max_level` nested token streams -/
theorem backstop (tbl : Table) (ts : List Tok) (k : Nat) (s : MS)
    (h : runK realCfg tbl k (initState ts) = some s) : s.stack.length ≤ CbiVerif.Gen.maxLevel := by
  have h0 : (initState ts).stack.length ≤ realCfg.lim := by
    simp only [initState, List.length_cons, List.length_nil, realCfg]; rw [maxLevel_documented]; omega
  exact runK_inv realCfg tbl k _ s h0 h

/-- **what the backstop returns** (finding D12): when an enabled object-like macro name is met while `max_level - 1` streams
    are already nested (no suspended argument pre-expansion), the whole expansion is replaced by the single token `0` -/
theorem backstop_result (c : Cfg) (tbl : Table) (P R : List (Option Tok)) (t : Tok) (m : Macro) (pr : Bool) (S : List MX.Helper)
    (D : NoExp) (n : Nat)
    (hk : t.kind = .ident) (hd : t.text ≠ "defined") (he : t.expandable = true) (hD : D.contains (some t.text) = false)
    (hm : tbl.get t.text = some m) (ho : m.args = none) (hdeep : S.length + 2 ≥ c.lim) :
    run c tbl (n + 2) ⟨⟨P ++ some t :: R, P.length, pr⟩ :: S, D, [], none⟩ = .ok [zeroTok] := by
  have hnl : ¬ (P.length ≥ (P ++ some t :: R).length) := by simp
  have hk' : (t.kind != TKind.ident) = false := by simp [hk]
  have hd' : (t.text == "defined") = false := by simpa using hd
  have h1 : step c tbl ⟨⟨P ++ some t :: R, P.length, pr⟩ :: S, D, [], none⟩ = .cont (overflowState []) := by
    simp only [step, hnl, if_false, getElem?_mid, hk', Bool.false_eq_true, hd', he, Bool.not_true, hD, Bool.or_self, hm, ho,
      hdeep, if_true]
  have h2 : step c tbl (overflowState []) = .done [zeroTok] := by simp [step, overflowState]
  have e : n + 2 = (n + 1) + 1 := by omega
  rw [e]; simp only [run, h1, h2]

example : ∃ (c : Cfg) (tbl : Table) (t : Tok) (m : Macro) (S : List MX.Helper),
    t.kind = .ident ∧ t.text ≠ "defined" ∧ t.expandable = true ∧ tbl.get t.text = some m ∧ m.args = none ∧ S.length + 2 ≥ c.lim :=
  ⟨⟨2, true⟩, [("A", ⟨"A", none, false, false, [], []⟩)], ⟨.ident, "A", false, true⟩, ⟨"A", none, false, false, [], []⟩, [],
    rfl, by decide, rfl, rfl, rfl, by decide⟩

/-! ## `defined` -/

/-- **`defined X`**: for every table, every context (prefix, rest of the stream, lower streams, disabled names, suspended
    calls) one iteration replaces the two tokens by the number `1`/`0` read from the table and moves past it: `X` is consumed,
    never looked up for expansion -/
theorem defined_operator_plain (c : Cfg) (tbl : Table) (P R : List (Option Tok)) (S : List MX.Helper) (D : NoExp) (F : List Frame)
    (pr : Bool) (dt x : Tok) (hd : dt.kind = .ident) (hdt : dt.text = "defined") (hx : x.kind = .ident) (hxp : x.text ≠ "(") :
    step c tbl ⟨⟨P ++ some dt :: some x :: R, P.length, pr⟩ :: S, D, F, none⟩
      = .cont ⟨⟨P ++ none :: some (numTok (if (tbl.get x.text).isSome then "1" else "0") x.pw) :: R, P.length + 2, pr⟩ :: S, D, F, none⟩ :=
  step_defined_plain c tbl P R S D F pr dt x hd hdt hx hxp

/-- **`defined ( X )`** -/
theorem defined_operator_paren (c : Cfg) (tbl : Table) (P R : List (Option Tok)) (S : List MX.Helper) (D : NoExp) (F : List Frame)
    (pr : Bool) (dt lp x rp : Tok) (hd : dt.kind = .ident) (hdt : dt.text = "defined") (hlp : lp.text = "(") (hx : x.kind = .ident)
    (hrp : rp.text = ")") :
    step c tbl ⟨⟨P ++ some dt :: some lp :: some x :: some rp :: R, P.length, pr⟩ :: S, D, F, none⟩
      = .cont ⟨⟨P ++ none :: none :: none :: some (numTok (if (tbl.get x.text).isSome then "1" else "0") x.pw) :: R, P.length + 4, pr⟩ :: S, D, F, none⟩ :=
  step_defined_paren c tbl P R S D F pr dt lp x rp hd hdt hlp hx hrp

/-- top-level corollary: `#if defined X` never expands `X`, whatever `X` is defined as (object-like, function-like,
    recursive, …): the result is the single number token -/
theorem defined_never_expands (tbl : Table) (dt x : Tok) (hd : dt.kind = .ident) (hdt : dt.text = "defined") (hx : x.kind = .ident)
    (hxp : x.text ≠ "(") :
    cbiExpand tbl [dt, x] = .ok [numTok (if (tbl.get x.text).isSome then "1" else "0") x.pw] := by
  have h1 := defined_operator_plain realCfg tbl [] [] [] [none] [] false dt x hd hdt hx hxp
  simp only [List.nil_append, List.length_nil, Nat.zero_add] at h1
  have h2 : step realCfg tbl ⟨[⟨[none, some (numTok (if (tbl.get x.text).isSome then "1" else "0") x.pw)], 2, false⟩], [none], [], none⟩
      = .cont ⟨[], [], [], some [numTok (if (tbl.get x.text).isSome then "1" else "0") x.pw]⟩ := by
    simp [step, eopState, MX.filterSome]
  have h3 : step realCfg tbl ⟨[], [], [], some [numTok (if (tbl.get x.text).isSome then "1" else "0") x.pw]⟩
      = .done [numTok (if (tbl.get x.text).isSome then "1" else "0") x.pw] := by simp [step]
  have hl : realCfg.lim ≠ 0 := by simp only [realCfg]; rw [maxLevel_documented]; decide
  unfold cbiExpand expandWith
  simp only [hl, if_false, List.isEmpty_cons, Bool.false_eq_true]
  have h3steps : run realCfg tbl 3 (initState [dt, x]) = .ok [numTok (if (tbl.get x.text).isSome then "1" else "0") x.pw] := by
    simp only [run, initState, List.map_cons, List.map_nil, h1, h2, h3]
  exact run_mono_fuel realCfg tbl 3 _ _ h3steps _ (by unfold fuelFor; omega)

example : ∃ dt x : Tok, dt.kind = .ident ∧ dt.text = "defined" ∧ x.kind = .ident ∧ x.text ≠ "(" :=
  ⟨⟨.ident, "defined", false, true⟩, ⟨.ident, "X", true, true⟩, rfl, rfl, rfl, by decide⟩

/-! ## command-line definitions ≡ `#define` lines (token lists; both go through `macroDefinition` and `makeMacro`) -/

/-- `-DNAME` ≡ `#define NAME 1` -/
theorem cmdline_define_equiv_flag (nm : Tok) (hn : nm.kind = .ident) (w w' : Bool) :
    macroFromDefinitionToks [nm] = defineFromToks [hashTok, defineTok, { nm with pw := w }, { oneTok with pw := w' }] := by
  have hn' : ({ nm with pw := w } : Tok).kind = .ident := hn
  rw [defineFromToks_eq, macroDefinition_obj _ _ _ hn' (by simp [oneTok])]
  simp only [macroFromDefinitionToks, macroDefinition_single nm hn]
  exact (makeMacro_pw nm.text none oneTok [] w').symm

/-- `-DNAME=` ≡ `#define NAME` (empty replacement list) -/
theorem cmdline_define_equiv_empty (nm : Tok) (hn : nm.kind = .ident) (w : Bool) :
    macroFromDefinitionToks [nm, eqTok] = defineFromToks [hashTok, defineTok, { nm with pw := w }] := by
  have hn' : ({ nm with pw := w } : Tok).kind = .ident := hn
  rw [defineFromToks_eq, macroDefinition_single _ hn']
  have h := macroDefinition_obj nm eqTok [] hn (by simp [eqTok])
  simp only [macroFromDefinitionToks, h]
  simp [eqTok]

/-- `-DNAME=v` ≡ `#define NAME v` for every non-empty token list `v` (white space before `v` is irrelevant) -/
theorem cmdline_define_equiv_value (nm b : Tok) (bs : List Tok) (hn : nm.kind = .ident) (w : Bool) :
    macroFromDefinitionToks (nm :: eqTok :: b :: bs)
      = defineFromToks (hashTok :: defineTok :: { nm with pw := w } :: { b with pw := true } :: bs) := by
  have hn' : ({ nm with pw := w } : Tok).kind = .ident := hn
  rw [defineFromToks_eq, macroDefinition_obj _ _ _ hn' (by simp)]
  simp only [macroFromDefinitionToks, macroDefinition_obj nm eqTok (b :: bs) hn (by simp [eqTok])]
  simp only [eqTok, beq_self_eq_true, Bool.and_self, if_true]
  exact (makeMacro_pw nm.text none b bs true).symm

/-- `-D'NAME(args)=v'` ≡ `#define NAME(args) v`: `A` = the tokens between the parentheses, accepted by the parameter-list
    parser as `args` whatever follows the closing parenthesis -/
theorem cmdline_define_equiv_function (nm b : Tok) (A bs : List Tok) (args : List String) (hn : nm.kind = .ident) (w : Bool)
    (hA : ∀ r, parseArgList (A ++ rparenTok :: r) = (args, rparenTok :: r)) :
    macroFromDefinitionToks (nm :: lparenTok :: (A ++ rparenTok :: eqTok :: b :: bs))
      = defineFromToks (hashTok :: defineTok :: { nm with pw := w } :: lparenTok :: (A ++ rparenTok :: { b with pw := true } :: bs)) := by
  have hn' : ({ nm with pw := w } : Tok).kind = .ident := hn
  rw [defineFromToks_eq, macroDefinition_fun _ A args _ hn' (hA _)]
  simp only [macroFromDefinitionToks, macroDefinition_fun nm A args _ hn (hA _)]
  simp only [eqTok, beq_self_eq_true, Bool.and_self, if_true]
  exact (makeMacro_pw nm.text (some args) b bs true).symm

/-- `-D'NAME(args)'` ≡ `#define NAME(args) 1` -/
theorem cmdline_define_equiv_function_flag (nm : Tok) (A : List Tok) (args : List String) (hn : nm.kind = .ident) (w w' : Bool)
    (hA : ∀ r, parseArgList (A ++ rparenTok :: r) = (args, rparenTok :: r)) :
    macroFromDefinitionToks (nm :: lparenTok :: (A ++ [rparenTok]))
      = defineFromToks (hashTok :: defineTok :: { nm with pw := w } :: lparenTok :: (A ++ [rparenTok, { oneTok with pw := w' }])) := by
  have hn' : ({ nm with pw := w } : Tok).kind = .ident := hn
  have e : A ++ [rparenTok, { oneTok with pw := w' }] = A ++ rparenTok :: [{ oneTok with pw := w' }] := by simp
  rw [defineFromToks_eq, e, macroDefinition_fun _ A args _ hn' (hA _)]
  simp only [macroFromDefinitionToks, macroDefinition_fun nm A args _ hn (hA _)]
  exact (makeMacro_pw nm.text (some args) oneTok [] w').symm

/-- the parameter-list hypothesis holds, e.g., for `x, y` -/
example : ∀ r, parseArgList ([⟨.ident, "x", false, true⟩, ⟨.punct, ",", false, true⟩, ⟨.ident, "y", true, true⟩] ++ rparenTok :: r)
    = (["x", "y"], rparenTok :: r) := by
  have e1 : ("x".endsWith "...") = false := by decide +kernel
  have e2 : ("y".endsWith "...") = false := by decide +kernel
  intro r
  rcases r with _ | ⟨b, _ | ⟨c, r⟩⟩ <;> simp [parseArgList, parseArg, parseArgList.go, rparenTok, e1, e2]

/-- on concrete texts (lexer included): the three forms of the property text -/
example : (defineCmdline "NAME").toOption.map (·.replacement) = (defineLine "#define NAME 1").toOption.map (·.replacement) := by
  decide +kernel
example : (defineCmdline "F(x,y)=x+y*2").toOption.map (fun m => (m.name, m.args, m.needsExp, m.replacement))
    = (defineLine "#define F(x,y) x+y*2").toOption.map (fun m => (m.name, m.args, m.needsExp, m.replacement)) := by
  decide +kernel

/-! ## findings: repaired ones as positive statements (model = spec on the former witnesses), open ones as witnesses of
   model ≠ spec (each is replayed on the real code by the harness) -/

open CbiVerif.Spec.Prosser in
/-- spellings the specification assigns (`none` = outside well-formedness) -/
def specText (defs : List String) (text : String) : Option (List String) :=
  match prosser defs text with
  | .ok out => some (out.map (·.text))
  | .error _ => none

/-- D9 (repaired): an empty argument as an operand of `##` is a placemarker -/
theorem D9_fixed : expandText [] ["CAT(a,b) a##b"] "CAT(x,) CAT(,y) CAT(,) CAT(x,y)" = .ok ["x", "y", "xy"] ∧
    specText ["CAT(a,b) a##b"] "CAT(x,) CAT(,y) CAT(,) CAT(x,y)" = some ["x", "y", "xy"] := by
  decide +kernel

/-- D9 (repaired), chains: two empty operands give a placemarker, which is the left operand of the next `##` — not the token in
    front of the chain -/
theorem D9_chain_fixed : expandText [] ["CAT3(a,b,c) q a##b##c"] "CAT3(,,z) CAT3(x,,z) CAT3(,,)" = .ok ["q", "z", "q", "xz", "q"] ∧
    specText ["CAT3(a,b,c) q a##b##c"] "CAT3(,,z) CAT3(x,,z) CAT3(,,)" = some ["q", "z", "q", "xz", "q"] := by
  decide +kernel

/-- D10 (repaired): `#` deletes white space before the first and after the last token of the argument and keeps the quotes of
    a character constant (C11 6.10.3.2p2); the general statements are in `Props/C03Stringify.lean` -/
theorem D10_fixed : expandText [] ["STR(x) #x"] "STR( a ) STR('a')" = .ok ["\"a\"", "\"'a'\""] ∧
    specText ["STR(x) #x"] "STR( a ) STR('a')" = some ["\"a\"", "\"'a'\""] := by
  decide +kernel

/-- D11 (repaired): `f(a) a*g`, `g(a) f(a)`: the call `g(9)` is completed by the tokens that follow `f(2)` -/
theorem D11_fixed : expandText [] ["f(a) a*g", "g(a) f(a)"] "f(2)(9)" = .ok ["2", "*", "9", "*", "g"] ∧
    specText ["f(a) a*g", "g(a) f(a)"] "f(2)(9)" = some ["2", "*", "9", "*", "g"] := by
  decide +kernel

/-- what D11 was: the same machine with `splice` leaving the read position before the spliced-in tokens (`adv := false`)
    swallows the replacement's own tokens and expands `f(2)(9)` to nothing -/
theorem D11_regression :
    (match buildTable [] ["f(a) a*g", "g(a) f(a)"] with
     | .ok tbl => (match expandWith { lim := CbiVerif.Gen.maxLevel, adv := false } tbl 1000 (tokenize "f(2)(9)") with
        | .ok r => some (r.map spellTok) | _ => none)
     | .error _ => none) = some [] := by
  decide +kernel

/-- D35 (repaired): a macro named `None` is an ordinary macro (the general statement is `object_like_conforms_partial`, which no
    longer excludes the name) -/
theorem D35_fixed : expandText ["None=1"] [] "None" = .ok ["1"] ∧ specText ["None 1"] "None" = some ["1"] := by
  decide +kernel

/-- D36 (repaired): a variadic macro that does not name its variadic parameter can be called -/
theorem D36_fixed : expandText [] ["V(...) 1"] "V(2) V() V(1,2)" = .ok ["1", "1", "1"] ∧
    specText ["V(...) 1"] "V(2) V() V(1,2)" = some ["1", "1", "1"] := by
  decide +kernel

/-- D43 (repaired): the arguments beyond the named parameters of a variadic macro belong to `__VA_ARGS__`: when the
    replacement list does not use it they are not macro-expanded, so a call in them that could not be expanded (`H()` for a
    two-parameter `H`) does no harm, exactly as for an unused named parameter -/
theorem D43_fixed : expandText [] ["V(x,...) x", "H(a,b) 1"] "V(2, 3, H())" = .ok ["2"] ∧
    specText ["V(x,...) x", "H(a,b) 1"] "V(2, 3, H())" = some ["2"] := by
  decide +kernel

/-- D44 (repaired): only punctuators delimit the arguments of a call; a string or character literal spelled `,` `(` `)` is an
    ordinary argument token (the general statement is `funlike_conforms_partial`, whose token condition `CTok` no longer
    excludes such literals) -/
theorem D44_fixed : expandText [] ["F(x,y) x+y"] "F(\",\",2) F(\"(\",2) F(')',2)" = .ok ["\",\"", "+", "2", "\"(\"", "+", "2", "')'", "+", "2"] ∧
    specText ["F(x,y) x+y"] "F(\",\",2) F(\"(\",2) F(')',2)" = some ["\",\"", "+", "2", "\"(\"", "+", "2", "')'", "+", "2"] := by
  decide +kernel

/-- D37 (repaired): a string literal whose content is a parameter name is not a parameter -/
theorem D37_fixed : expandText [] ["F(x) \"x\" x"] "F(1)" = .ok ["\"x\"", "1"] ∧ specText ["F(x) \"x\" x"] "F(1)" = some ["\"x\"", "1"] := by
  decide +kernel

/-- D37 (repaired), for every parameter list and every argument list: the final substitution loop copies a token that is not
    an identifier, whatever its text -/
theorem literals_not_substituted (params : List String) (ia : List Arg) (t : Tok) (b : Bool) (rest : List (Tok × Bool)) (h : t.kind ≠ .ident) :
    substArgs params ia ((t, b) :: rest) = (match substArgs params ia rest with | .ok r => .ok (t :: r) | .error x => .error x) := by
  have hk : (t.kind == TKind.ident) = false := by simpa using h
  simp only [substArgs, paramIdx, hk, Bool.false_eq_true, if_false, ite_self]
  cases substArgs params ia rest <;> rfl

/-- D41 (repaired), for every parameter list and every argument list: a token that `#`/`##` produced from the arguments
    (marked `is_arg`) is copied by the final substitution loop even if it is spelled like a parameter -/
theorem argument_tokens_not_substituted (params : List String) (ia : List Arg) (t : Tok) (rest : List (Tok × Bool)) :
    substArgs params ia ((t, true) :: rest) = (match substArgs params ia rest with | .ok r => .ok (t :: r) | .error x => .error x) := by
  simp only [substArgs, if_true]
  cases substArgs params ia rest <;> rfl

/-- D41 (repaired) on the former witness -/
theorem D41_fixed : expandText [] ["F(x,y) 1 ## y x"] "F(2, _ x)" = .ok ["1_", "x", "2"] ∧
    specText ["F(x,y) 1 ## y x"] "F(2, _ x)" = some ["1_", "x", "2"] := by
  decide +kernel

/-- D40 (repaired): an argument that is only the operand of `#` is not macro-expanded, so a call inside it is not evaluated -/
theorem D40_fixed : expandText [] ["S(x, y) #y", "T(a, b) a b"] "S(1, T(2))" = .ok ["\"T(2)\""] ∧
    specText ["S(x, y) #y", "T(a, b) a b"] "S(1, T(2))" = some ["\"T(2)\""] := by
  decide +kernel

example : ∃ t : Tok, t.kind ≠ .ident ∧ t.text = "x" := ⟨⟨.str, "x", false, true⟩, by decide, rfl⟩

/-- D12 on a small instance of the same machine: with nesting limit 3 the chain `A → B → C → 7` is cut to `0`
    (the harness replays the 200-level instance on the real code; `backstop_result` is the general statement) -/
theorem D12_witness_small :
    (match buildTable [] ["A B", "B C", "C 7"] with
     | .ok tbl => (match expandWith { lim := 3 } tbl 1000 (tokenize "A") with
        | .ok r => some (r.map spellTok) | _ => none)
     | .error _ => none) = some ["0"] ∧ specText ["A B", "B C", "C 7"] "A" = some ["7"] := by
  decide +kernel

end CbiVerif.C03
