import Lean.Data.Json
import CbiVerif.Model.FindFold
import CbiVerif.Model.FindInst
import CbiVerif.Model.FindCache
/-! driver op for C08: `c08find` — `FindInst.findI` (model), `FindInst.specI` (stateless union),
optionally the state-threading run of the same C-family instance (`FindInst.findPP`, field `pp`), and `FindCache.findC`
(`cached`: the total model with the explicit shared parse cache, the subject of Part 3 of
`Props/C08.lean`) with its mixing log and the evaluated conclusion of `find_cached_eq_findG_partial`. -/
open Lean CbiVerif.PP CbiVerif.FindFold CbiVerif.FindInst
namespace CbiVerif.Drv.C08

def kindStr (k : NKind) : String := ((toString (repr k)).splitOn ".").getLast!

def warnJson (w : Warn) : Json := match w with
  | .userInclude f l n => Json.arr #[Json.str "user", Json.str f, (l : Nat), Json.str n]
  | .sysInclude f l n => Json.arr #[Json.str "system", Json.str f, (l : Nat), Json.str n]

/-- per file, per node: kind, physical lines, platforms (sorted) -/
def filesJson (fs : FSMap) (plats : String → Nat → List String) : Json :=
  Json.mkObj <| fs.filterMap fun (f, _) =>
    let st := ({} : PState).insertFile fs f
    match st.err, st.trees with
    | none, [(_, (nodes, _))] =>
      some (f, Json.arr (nodes.toList.zipIdx.map fun (n, i) =>
        Json.arr #[Json.str (kindStr n.kind), Json.arr (n.lines.map fun (x : Nat) => (x : Json)).toArray,
                   Json.arr ((plats f i).map Json.str).toArray]).toArray)
    | _, _ => none

def resultJson (fs : FSMap) (r : Except Err (Acc NodeKey Warn)) : Json :=
  match r with
  | .error e => Json.mkObj [("exc", toString (repr e))]
  | .ok a =>
    Json.mkObj [("ok", filesJson fs fun f i => platformsOfKey a.pairs (f, i)),
                ("warns", Json.arr (a.warns.map warnJson).toArray),
                ("npairs", (a.pairs.length : Nat))]

/-- field `pp`: the state-threading run of the C-family instance (`FindInst.findPP`) -/
def ppJson (fs : FSMap) (r : Except Err (Acc NodeKey Warn)) : Json :=
  match r with
  | .error e => Json.mkObj [("exc", toString (repr e))]
  | .ok a =>
    Json.mkObj [("ok", filesJson fs fun f i => platformsOfKey a.pairs (f, i)),
                ("warns", Json.arr (a.warns.map warnJson).toArray)]

def clsName : CbiVerif.Exclude.LClass → String
  | .c => "c" | .fortran => "fortran" | .asm => "asm"

/-- per cached file, per node: kind, physical lines, platforms (sorted) -/
def cacheJson (c : CbiVerif.Exclude.Cache) (plats : String → Nat → List String) : Json :=
  Json.mkObj <| c.map fun (f, _, (nodes, _)) =>
    (f, Json.arr (nodes.toList.zipIdx.map fun (n, i) =>
      Json.arr #[Json.str (kindStr n.kind), Json.arr (n.lines.map fun (x : Nat) => (x : Json)).toArray,
                 Json.arr ((plats f i).map Json.str).toArray]).toArray)

def accEq (a b : Except Err (Acc NodeKey Warn)) : Bool :=
  match a, b with
  | .ok x, .ok y => x.pairs == y.pairs && x.warns == y.warns
  | .error e, .error f => e == f
  | _, _ => false

/-- `FindCache.findC` with the semantics `FindCache.semC files` -/
def cachedJson (files : FSMap) (fuel : Nat) (codebase : List String) (cfg : Config Entry)
    (withEq : Bool := false) : List (String × Json) :=
  let S := CbiVerif.FindCache.semC files
  let r := CbiVerif.FindCache.findC S fuel codebase cfg
  let mixed := CbiVerif.FindCache.mixLog S fuel codebase cfg
  let ref := CbiVerif.FindCache.findRefG S fuel codebase cfg
  let cache := CbiVerif.FindCache.finalCache S fuel codebase cfg
  let res : Json := match r with
    | .error e => Json.mkObj [("exc", toString (repr e))]
    | .ok a =>
      Json.mkObj [("ok", cacheJson cache fun f i => platformsOfKey a.pairs (f, i)),
                  ("warns", Json.arr (a.warns.map warnJson).toArray),
                  ("npairs", (a.pairs.length : Nat)),
                  ("classes", Json.mkObj (cache.map fun (f, cl, _) => (f, Json.str (clsName cl))))]
  [("cached", res),
   ("mixed", Json.arr (mixed.map fun m =>
      Json.arr #[Json.str m.file, Json.str (clsName m.used),
                 match m.ref with | some rc => Json.str (clsName rc) | none => Json.null]).toArray),
   ("cached_eq_ref", accEq r ref),
   ("ref_exc", match ref with | .error e => Json.str (toString (repr e)) | .ok _ => Json.null)] ++
  -- hypothesis `ClassOK` and conclusion of `C08.findI_eq_cached_engine_partial`, evaluated (fuel = the model's)
  (if withEq then [("class_ok", Json.bool (ClassOK files codebase cfg)),
                   ("model_eq_cached", Json.bool (accEq (findIN fuel files codebase cfg) r))]
   else [])

def handle (j : Json) : Json :=
  let files : FSMap := match j.getObjVal? "files" with
    | .ok (Json.obj kvs) => kvs.toList.map fun (k, v) => (k, v.getStr?.toOption.getD "")
    | _ => []
  let codebase := ((j.getObjValAs? (Array String) "codebase").toOption.getD #[]).toList
  let cfgArr := (j.getObjValAs? (Array Json) "config").toOption.getD #[]
  let strs (e : Json) (k : String) : List String := ((e.getObjValAs? (Array String) k).toOption.getD #[]).toList
  let config : Config Entry := cfgArr.toList.map fun pj =>
    ((pj.getObjValAs? String "name").toOption.getD "",
     ((pj.getObjValAs? (Array Json) "entries").toOption.getD #[]).toList.map fun e =>
       ({ file := (e.getObjValAs? String "file").toOption.getD "", defines := strs e "defines",
          includePaths := strs e "include_paths", includeFiles := strs e "include_files" } : Entry))
  let X := strs j "select"
  let cfg := select X config
  let withPP := (j.getObjValAs? Bool "pp").toOption.getD false
  let withCached := (j.getObjValAs? Bool "cached").toOption.getD true
  let fuel := (j.getObjValAs? Nat "fuel").toOption.getD CbiVerif.Exclude.defaultFuel
  -- `lite`: only the cached total model (used for the single-command mixing logs)
  if (j.getObjValAs? Bool "lite").toOption.getD false then Json.mkObj (cachedJson files fuel codebase cfg) else
  Json.mkObj ([("model", resultJson files (findI files codebase cfg)),
               ("spec", resultJson files (specI files codebase cfg)),
               ("platforms", Json.arr (cfg.map fun pe => Json.str pe.1).toArray)] ++
              (if withPP then [("pp", ppJson files (findPP fuel files codebase cfg))] else []) ++
              (if withCached then cachedJson files fuel codebase cfg true else []))

def handlers : List (String × (Json → Json)) := [("c08find", handle)]

end CbiVerif.Drv.C08
