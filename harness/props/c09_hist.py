"""C09 — history stream: ONE `CodeBase` object is asked many questions while the world changes.

The property speaks about what a path NAMES ("an existing regular file ... under a code-base directory") and about what an
enumeration yields ("exactly the member files"); both are statements about the file system and the working directory AT THE
MOMENT OF THE QUESTION.  The other C09 streams build a fresh object per tree and ask everything from one directory, once.
Here a single object lives through a generated history

    q       `spelling in cb`            (every spelling kind of fstree.spellings; earlier spellings are asked again)
    cd      os.chdir                    (relative spellings now name something else)
    relink  a symbolic link re-pointed  (spellings through it now name something else)
    mk/rm   a regular file created / a file or link removed
    iter    an enumeration: complete / abandoned after the first element (`next(iter(cb))`) / left by `break` after k /
            nested inside itself / two generators advanced in lock step (`zip(cb, cb)`)

and after EVERY step the answer is judged against the property evaluated on the current state: by definition in Python
(os.stat for "names an existing regular file", os.path.realpath for its location, the extension lists of language.py,
`git check-ignore --no-index` for the patterns) and by the Lean model (driver op `codebase_gi`, stateless: current file
system description, current cwd) as correspondence check.  The code-base directories are the ones resolved when the object
was made (directories are never removed or replaced, so they stay canonical).

A case is generated while the mutations are carried out on a scratch tree; it is then evaluated (and replayed) on a tree
rebuilt from the initial entries, so a stored case reproduces exactly.
"""
from __future__ import annotations

import os
import shutil
from pathlib import Path

from harness.gen import fstree

ITER_MODES = ["full", "first", "break", "nested", "zip", "full", "first"]


def _C():
    from harness.props import c09

    return c09


# --------------------------------------------------------------------------
# generation (on a real scratch tree, mutated as the history is drawn)
# --------------------------------------------------------------------------
def gen_history_case(rng, base):
    C = _C()
    fstree.gen_tree(rng, base, loops=False)
    entries = fstree.scan(base)
    files0 = [r for r, k, t in entries if k == "f" and r.startswith("t/")]
    real_dirs = ["t"] + [r for r, k, t in entries if k == "d" and r.startswith("t/")]
    # make sure there is something to re-point: a file link and a directory link below t (same shapes as gen_tree's)
    if files0 and not any(k == "l" and fstree.os_resolve(os.path.join(base, r))[0] == "file" for r, k, t in entries):
        tgt = rng.choice(files0)
        d = rng.choice(real_dirs)
        ln = os.path.join(base, d, rng.choice(["l_", "ln "]) + rng.choice([os.path.basename(tgt), "k.c", "k.h"]))
        if not os.path.lexists(ln):
            os.symlink(os.path.relpath(os.path.join(base, tgt), os.path.join(base, d)), ln)
    if len(real_dirs) > 1 and rng.random() < 0.5 and not any(
            k == "l" and fstree.os_resolve(os.path.join(base, r))[0] == "dir" for r, k, t in entries):
        d, tgt = rng.choice(real_dirs), rng.choice(real_dirs)
        ln = os.path.join(base, d, rng.choice(["dl", "d l"]))
        if not os.path.lexists(ln):
            os.symlink(os.path.relpath(os.path.join(base, tgt), os.path.join(base, d)), ln)
    entries0 = fstree.scan(base)
    all_dirs = [""] + [r for r, k, t in entries0 if k == "d"]
    cwd_rel = rng.choice(["", "t", "out"] + real_dirs)
    cwd = os.path.join(base, cwd_rel) if cwd_rel else base
    aliases = fstree.dir_aliases(base, entries0)
    subdirs = fstree.real_subdirs(base, entries0)
    # --- roots (never overlapping here: equal / nested / linked directories are the business of the `nested` stream)
    r = rng.random()
    if r < 0.6 or len(real_dirs) < 2:
        root_rels = ["t"]
    elif r < 0.75:
        root_rels = [rng.choice(real_dirs[1:])]
    else:
        cands = [(a, b) for a in real_dirs for b in real_dirs
                 if a != b and not (b + "/").startswith(a + "/") and not (a + "/").startswith(b + "/")]
        root_rels = list(rng.choice(cands)) if cands else ["t"]
    roots = []
    for rr in root_rels:
        sp = rng.choice(fstree.spellings(rng, base, os.path.join(base, rr), cwd, aliases, subdirs, n=2))
        roots.append(sp if sp else ".")
    relfiles, reldirs = [], []
    for rr in dict.fromkeys(root_rels):
        relfiles += [e[len(rr) + 1:] for e, k, t in entries0 if k == "f" and e.startswith(rr + "/")]
        reldirs += [e[len(rr) + 1:] for e, k, t in entries0 if k == "d" and e.startswith(rr + "/")]
    pats = fstree.gen_patterns(rng, relfiles, reldirs, n=(1, 4)) if rng.random() < 0.6 else []

    steps, asked = [], []
    st = {"cwd": cwd}

    def snap():
        e = fstree.scan(base)
        return e, fstree.dir_aliases(base, e), fstree.real_subdirs(base, e)

    def q(sp):
        if sp == "":
            sp = "."
        steps.append({"op": "q", "p": sp, "path": rng.random() < 0.3})
        if sp not in asked:
            asked.append(sp)

    def ask_target(full, n=2):
        e, al, sd = snap()
        sps = fstree.spellings(rng, base, full, st["cwd"], al, sd, n=2)
        for sp in rng.sample(sps, min(n, len(sps))):
            q(sp)

    def ask_new(n):
        e, al, sd = snap()
        tg = [os.path.join(base, r_) for r_, k, t in e if k != "d" or rng.random() < 0.3]
        rng.shuffle(tg)
        tg = tg[:n]
        if rng.random() < 0.4:
            tg.append(os.path.join(base, rng.choice(real_dirs), rng.choice(["nope.c", "a.c", "k.h"])))
        for full in tg:
            ask_target(full, n=rng.randint(1, 2))

    def reask(pred, n):
        c = [s for s in asked if pred(s)]
        rng.shuffle(c)
        for s in c[:n]:
            q(s)

    def mentions(name):
        return lambda s: name in s.split("/")

    ask_new(rng.randint(2, 5))
    for _ in range(rng.randint(3, 7)):
        r = rng.random()
        e, al, sd = snap()
        if r < 0.27:
            to = rng.choice([d for d in all_dirs if (os.path.join(base, d) if d else base) != st["cwd"]])
            steps.append({"op": "cd", "to": to})
            st["cwd"] = os.path.join(base, to) if to else base
            reask(lambda s: not s.startswith("/"), 6)
            ask_new(rng.randint(1, 3))
        elif r < 0.45:
            links = [(r_, t) for r_, k, t in e if k == "l"]
            if not links:
                continue
            ln, old = rng.choice(links)
            full = os.path.join(base, ln)
            kind, real = fstree.os_resolve(full)
            if rng.random() < 0.8:  # asked before it is re-pointed
                if kind == "dir":
                    inside = [x for x in os.listdir(full)]
                    if inside:
                        nm = rng.choice(sorted(inside))
                        q(full + "/" + nm)
                        q(os.path.relpath(full, st["cwd"]) + "/" + nm)
                else:
                    q(full)
                    q(os.path.relpath(full, st["cwd"]))
            if rng.random() < 0.3:
                steps.append({"op": "iter", "mode": "full", "k": 0})
            physf = [r_ for r_, k, t in e if k == "f"]
            physd = [r_ for r_, k, t in e if k == "d"]
            c = rng.random()
            if kind == "dir":
                tgt = rng.choice(physd) if c < 0.8 or not physf else rng.choice(physf) if c < 0.9 else None
            else:
                tgt = rng.choice(physf) if c < 0.8 and physf else rng.choice(physd) if c < 0.9 else None
            if tgt is None:
                text = rng.choice(["nowhere.c", "../nowhere/x.c"])
            elif rng.random() < 0.3:
                text = os.path.join(base, tgt)
            else:
                text = os.path.relpath(os.path.join(base, tgt), os.path.dirname(full))
            if text == old:
                continue
            os.unlink(full)
            os.symlink(text, full)
            steps.append({"op": "relink", "link": ln, "target": C.unsub_base(text, base)})
            reask(mentions(os.path.basename(ln)), 6)
            if fstree.os_resolve(full)[0] != "dir":
                q(full)
            ask_new(rng.randint(0, 2))
        elif r < 0.56:
            d = rng.choice(real_dirs if rng.random() < 0.85 else ["out"])
            physf = [r_ for r_, k, t in e if k == "f" and r_.startswith("t/")]
            c = rng.random()
            if c < 0.5 and physf:
                nm = os.path.basename(rng.choice(physf))
            elif c < 0.75:
                nm = rng.choice(["nope.c", "a.c", "k.h"])
            else:
                nm = rng.choice(fstree.STEMS) + rng.choice(fstree.SRC_EXT)
            rel = d + "/" + nm
            full = os.path.join(base, rel)
            if os.path.lexists(full):
                continue
            if rng.random() < 0.5:  # asked while it does not exist
                ask_target(full, n=2)
            with open(full, "w") as f:
                f.write("int v;\n")
            steps.append({"op": "mk", "p": rel})
            reask(mentions(nm), 4)
            ask_target(full, n=2)
        elif r < 0.63:
            c = [r_ for r_, k, t in e if k in ("f", "l") and r_.startswith("t/")]
            if not c:
                continue
            rel = rng.choice(c)
            full = os.path.join(base, rel)
            if rng.random() < 0.6:
                ask_target(full, n=2)
            os.unlink(full)
            steps.append({"op": "rm", "p": rel})
            reask(mentions(os.path.basename(rel)), 4)
            q(full)
        elif r < 0.92:
            steps.append({"op": "iter", "mode": rng.choice(ITER_MODES), "k": rng.randint(1, 3)})
            if rng.random() < 0.5:
                steps.append({"op": "iter", "mode": rng.choice(["full", "full", "nested", "zip"]), "k": 0})
        else:
            ask_new(rng.randint(1, 3))
    if rng.random() < 0.5:
        steps.append({"op": "iter", "mode": "full", "k": 0})
    for s in steps:
        if s["op"] == "q":
            s["p"] = C.unsub_base(s["p"], base)
    return {
        "entries": [[r_, k, C.unsub_base(t, base) if t else t] for r_, k, t in entries0],
        "cwd": cwd_rel, "roots": [C.unsub_base(x, base) for x in roots], "patterns": pats,
        "history": steps, "stream": "history",
        # spellings through a link to `../..` contain the name of the scratch directory itself: a replay uses the same name
        "base_name": os.path.basename(base),
    }


# --------------------------------------------------------------------------
# evaluation
# --------------------------------------------------------------------------
def _enumerate(cb, mode, k):
    """Carry out one enumeration shape.  Returns a list of (label, complete?, wanted length or None, list of yielded paths)."""
    if mode == "full":
        return [("list(cb)", True, None, list(cb))]
    if mode == "first":
        it = iter(cb)
        x = next(it, None)
        del it
        return [("next(iter(cb))", False, 1, [] if x is None else [x])]
    if mode == "break":
        got = []
        for x in cb:
            got.append(x)
            if len(got) >= k:
                break
        return [(f"for x in cb: ... break after {k}", False, k, got)]
    if mode == "nested":
        outer, res = [], []
        for a in cb:
            if len(outer) < 2:
                res.append((f"list(cb) inside the {len(outer) + 1}. round of `for a in cb`", True, None, list(cb)))
            outer.append(a)
        return res + [("the outer `for a in cb` around nested enumerations", True, None, outer)]
    if mode == "zip":
        a, b = [], []
        ia, ib = iter(cb), iter(cb)
        while True:
            x = next(ia, None)
            y = next(ib, None)
            if x is None and y is None:
                break
            if x is not None:
                a.append(x)
            if y is not None:
                b.append(y)
        return [("first of two generators advanced alternately", True, None, a),
                ("second of two generators advanced alternately", True, None, b)]
    raise ValueError(mode)


def eval_history(ctx, drv, env, base, desc, origin):
    C = _C()
    case = dict(desc, origin=origin)
    out = {"origin": origin, "steps": []}
    roots = [C.sub_base(x, base) for x in desc["roots"]]
    pats = list(desc["patterns"])
    steps = desc["history"]
    cwd = os.path.join(base, desc["cwd"]) if desc["cwd"] else base
    old = os.getcwd()
    os.chdir(cwd)
    try:
        rroots = []
        for r in roots:
            kind, real = fstree.os_resolve(r)
            if kind == "loop":
                return out
            rroots.append(os.path.realpath(r))
        if isinstance(fstree.pathspec_ignored(pats, "x"), str):
            # a list pathspec rejects: class E is the business of the other streams; here the offending lines are left out
            pats = [p for p in pats if not isinstance(fstree.pathspec_ignored([p], "x"), str)]
            case = dict(case, patterns=pats)
        try:
            cb = env.cbmod.CodeBase(*roots, exclude_patterns=pats)
        except Exception as e:  # noqa
            ctx.violation(f"CodeBase({roots!r}) raises {type(e).__name__}: {e}", case)
            return out
        if sorted(cb.directories) != sorted(rroots):
            ctx.violation(f"CodeBase.directories {cb.directories} != resolved roots {rroots}", case)
            return out

        git_cache = {}     # (R, rel) -> ignored by git
        known_dis = set()  # (R, rel) on which pathspec is not git (recorded classes; nothing is judged on them)
        classified = set()

        class S:  # the state the property is evaluated on; recomputed after every change of the file system
            pass

        def refresh():
            S.entries = fstree.scan(base)
            S.fsd = fstree.fs_description(base, S.entries)
            phys = [os.path.join(base, r) for r, k, t in S.entries if k == "f"]
            for R in dict.fromkeys(rroots):
                if not os.path.isdir(R):
                    continue
                rels = [f[len(R) + 1:] for f in phys if f.startswith(R + "/")]
                new = [rel for rel in rels if (R, rel) not in git_cache]
                if new:
                    g = env.git.ignored(R, pats, new) if pats else set()
                    for rel in new:
                        git_cache[(R, rel)] = rel in g
                        p = fstree.pathspec_ignored(pats, rel)
                        if p != (rel in g):
                            known_dis.add((R, rel))
                            if len(classified) < 1:
                                classified.add((R, rel))
                                cls, info = fstree.classify_gitignore(env.git, R, pats, rel)
                                ctx.classify(dict(case, gitignore=info),
                                             f"pathspec {'ignores' if p else 'keeps'} {rel!r} but git {'ignores' if rel in g else 'keeps'} it; "
                                             f"minimal pattern list {info['core']!r}", C.gi_classifiers(cls))
            S.dis_abs = set(R + "/" + rel for R, rel in known_dis)
            spec_iter, skip, escaping = set(), False, False
            for R in dict.fromkeys(rroots):
                if not os.path.isdir(R):
                    continue
                for r, k, t in S.entries:
                    full = os.path.join(base, r)
                    if not full.startswith(R + "/"):
                        continue
                    kind, real = fstree.os_resolve(full)
                    if k == "l" and kind in ("enoent", "enotdir") and os.path.lexists(os.path.realpath(full)):
                        escaping = True
                    if k in ("f", "l") and kind == "file":
                        m, sk = member_real(real)
                        skip = skip or sk
                        if m:
                            spec_iter.add(full)
            S.spec_iter, S.skip_iter, S.escaping = sorted(spec_iter), skip, escaping

        def member_real(real):
            if fstree.suffix_of(os.path.basename(real)) not in env.exts:
                return False, False
            for R in rroots:
                if real.startswith(R + "/"):
                    rel = real[len(R) + 1:]
                    if (R, rel) not in git_cache:   # a file that scan() did not list cannot be resolved to
                        g = env.git.ignored(R, pats, [rel]) if pats else set()
                        git_cache[(R, rel)] = rel in g
                        if fstree.pathspec_ignored(pats, rel) != (rel in g):
                            known_dis.add((R, rel))
                    return not git_cache[(R, rel)], (R, rel) in known_dis
            return False, False

        refresh()
        first_answer = {}   # spelling -> (step, specified answer) of its first asking
        changes = []        # the state changes so far, for the report
        phase = {"cwd": os.getcwd(), "fsd": S.fsd, "q": [], "iters": []}
        n_viol = [0]
        partial_before = [False]
        last_full = [None]

        def flush():
            """the Lean model on the state of the phase that ends: membership of every spelling asked, the enumeration"""
            if drv is not None and (phase["q"] or phase["iters"]):
                rep = drv.ask({"op": "codebase_gi", "fs": phase["fsd"], "cwd": phase["cwd"], "roots": rroots, "patterns": pats,
                               "catchLoop": env.catch_loop, "fuel": C.FUEL, "queries": [x[1] for x in phase["q"]]})
                ctx.count(key="history:model-phase")
                if rep.get("roots") != rroots:
                    ctx.corr_break("codebase_gi.history.roots", case, rroots, rep.get("roots"))
                else:
                    for (i, sp, got, skip), mq in zip(phase["q"], rep["queries"]):
                        m = "EXC:RuntimeError" if mq["contains"] == "loop" else mq["contains"]
                        out["steps"][i]["model"] = m
                        if m != got and not skip:
                            ctx.corr_break("codebase_gi.history.contains", dict(case, step=i), got, mq)
                    mi = rep["iter"]
                    mi = "EXC:RuntimeError" if mi == "loop" else sorted(mi)
                    for i, lst in phase["iters"]:
                        out["steps"][i]["model"] = mi
                        if mi != lst and not known_dis:
                            ctx.corr_break("codebase_gi.history.iter", dict(case, step=i), lst, mi)
            phase.update(cwd=os.getcwd(), fsd=S.fsd, q=[], iters=[])

        def hist(i):
            return f"[history step {i}, one CodeBase object] "

        def ctxt():
            return ((f"; since the object was made: {', '.join(changes[-4:])}" if changes else "")
                    + f"; object = CodeBase({roots!r}, exclude_patterns={pats!r})")

        for i, s in enumerate(steps):
            if n_viol[0] >= 2:
                break
            op = s["op"]
            rec = {"step": i, "op": dict(s)}
            out["steps"].append(rec)
            if op == "cd":
                flush()
                to = os.path.join(base, s["to"]) if s["to"] else base
                os.chdir(to)
                changes.append(f"chdir to {s['to'] or '.'!r} at step {i}")
                ctx.count(key="history:cd")
                phase["cwd"] = os.getcwd()
                continue
            if op in ("relink", "mk", "rm"):
                flush()
                full = os.path.join(base, s["link"] if op == "relink" else s["p"])
                if op == "relink":
                    os.unlink(full)
                    os.symlink(C.sub_base(s["target"], base), full)
                    changes.append(f"link {s['link']!r} re-pointed to {s['target']!r} at step {i}")
                elif op == "mk":
                    with open(full, "w") as f:
                        f.write("int v;\n")
                    changes.append(f"file {s['p']!r} created at step {i}")
                else:
                    os.unlink(full)
                    changes.append(f"{s['p']!r} removed at step {i}")
                ctx.count(key="history:" + op)
                refresh()
                phase["fsd"] = S.fsd
                continue
            if op == "q":
                sp = C.sub_base(s["p"], base)
                got = C.impl_contains(cb, sp, as_path=s.get("path", False))
                kind, real = fstree.os_resolve(sp)
                want, skip = member_real(real) if kind == "file" else (False, False)
                rec.update(implementation=got, spec=want, names=kind)
                again = sp in first_answer
                ctx.count(key=f"history:q:{'asked-again' if again else 'first-time'}:{'member' if want else 'non-member'}")
                if again and first_answer[sp][1] != want:
                    ctx.nontrivial.add(("hist-flip", origin, i))
                first_answer.setdefault(sp, (i, want))
                phase["q"].append((i, sp, got, skip or os.path.realpath(sp) in S.dis_abs))
                if skip or got == want:
                    continue
                j, w0 = first_answer[sp]
                what = (hist(i) + f"{sp!r} in cb [cwd {os.getcwd()}] is {got}, the property says {want} (the OS resolves the spelling to: "
                        f"{kind}{' ' + real if real else ''})" + (f"; the same spelling was first asked at step {j}, where the property said {w0}" if j != i else "")
                        + ctxt())
                r_ = ctx.classify(dict(case, step=i), what, [
                    ("D18", lambda c, got=got, kind=kind: got == "EXC:RuntimeError" and kind == "loop"),
                    ("F-C09-K", lambda c, got=got, kind=kind, sp=sp: got is True and kind in ("enoent", "enotdir")
                     and os.path.lexists(os.path.realpath(sp))),
                ])
                n_viol[0] += r_ == "violation"
                continue
            if op == "iter":
                mode, k = s["mode"], s.get("k", 0)
                try:
                    with C.time_limit(C.ITER_LIMIT):
                        res = _enumerate(cb, mode, k)
                except C.IterTimeout:
                    res = [(mode, True, None, f"EXC:no result within {C.ITER_LIMIT} s")]
                except RuntimeError as e:
                    res = [(mode, True, None, "EXC:RuntimeError" if "Symlink loop" in str(e) else "EXC:" + str(e)[:60])]
                except Exception as e:  # noqa
                    res = [(mode, True, None, "EXC:" + type(e).__name__)]
                ctx.count(key="history:iter:" + mode + (":after-partial" if partial_before[0] else ""))
                if len(S.spec_iter) >= 2 and (partial_before[0] or (last_full[0] is not None and last_full[0] != S.spec_iter)):
                    ctx.nontrivial.add(("hist-iter", origin, i))
                rec.update(implementation=[{"what": lb, "yielded": sorted(l) if isinstance(l, list) else l} for lb, c_, n_, l in res],
                           spec=S.spec_iter)
                for lb, complete, nwant, lst in res:
                    if complete and isinstance(lst, list):
                        phase["iters"].append((i, sorted(lst)))
                    if S.skip_iter:
                        ctx.count(key="history:iter-not-judged(pathspec-vs-git class on a file)")
                        continue
                    spec = S.spec_iter
                    if isinstance(lst, str):
                        bad = True
                    elif complete:
                        bad = sorted(lst) != spec
                    else:
                        surplus = [x for x in lst if x not in spec]
                        bad = bool(surplus) or len(set(lst)) != len(lst) or len(lst) != min(nwant, len(spec))
                    if not bad:
                        continue
                    what = (hist(i) + f"{lb} yields {sorted(lst) if isinstance(lst, list) else lst}; the members at this moment are {spec}"
                            + ("" if complete else f" (an enumeration left after {nwant} must have yielded {min(nwant, len(spec))} distinct member(s))")
                            + ctxt())
                    r_ = ctx.classify(dict(case, step=i), what, [
                        ("F-C09-K", lambda c, lst=lst, spec=spec, complete=complete, nwant=nwant: S.escaping and isinstance(lst, list)
                         and len(set(lst)) == len(lst)
                         and (set(spec) <= set(lst) if complete else len(lst) == min(nwant, len(set(spec) | set(lst))))
                         and all(os.path.islink(x) and fstree.os_resolve(x)[0] in ("enoent", "enotdir") for x in set(lst) - set(spec))),
                    ])
                    n_viol[0] += r_ == "violation"
                if mode in ("first", "break", "nested", "zip"):
                    partial_before[0] = True
                if mode == "full":
                    last_full[0] = S.spec_iter
        flush()
        ctx.sample({"stream": "history", "roots": case["roots"], "patterns": pats, "cwd": case["cwd"],
                    "history": " ".join(s["op"] if s["op"] != "iter" else "iter:" + s["mode"] for s in steps)[:300]}, cap=8)
    finally:
        os.chdir(old)
    return out


def run_stream(ctx, drv, env, scr, n):
    C = _C()
    for i in range(n):
        if len(ctx.violations) >= 20:
            break
        base = os.path.join(scr, f"h{i}")
        os.makedirs(base)
        desc = gen_history_case(ctx.rng, base)
        shutil.rmtree(base)
        os.makedirs(base)
        C.rebuild(base, desc["entries"])
        eval_history(ctx, drv, env, base, desc, f"history#{i}")
        shutil.rmtree(base, ignore_errors=True)
