import CbiVerif.Lemmas.EnginesAgreeVisit
/-! Helper lemmas for `Props/C04Engines.lean`, part 6: every label of the tree `Cond.build` returns is one of the labels
that were inserted (invariant of the zipper model of `SourceTree.insert`), for every label list — well nested or not. -/
namespace CbiVerif.Engines
open CbiVerif.PP CbiVerif.Cond

theorem lblsTs_append (a b : List Tree) : lblsTs (a ++ b) = lblsTs a ++ lblsTs b := by
  induction a with
  | nil => simp [lblsTs]
  | cons t a ih => simp [lblsTs, ih]

/-- all labels held by a zipper -/
def zlbls (z : Zip) : List Lbl := lblsTs z.rootKids ++ z.spine.flatMap (fun f => f.lbl :: lblsTs f.kids)

theorem mem_up (z : Zip) (x : Lbl) (h : x ∈ zlbls z.up) : x ∈ zlbls z := by
  unfold Zip.up at h
  split at h
  · exact h
  · rename_i f hs
    simp only [zlbls, hs, lblsTs_append, lblsTs, lblsT, Frame.close, List.flatMap_nil, List.append_nil, List.mem_append,
      List.mem_cons, List.flatMap_cons] at h ⊢
    rcases h with h | h | h
    · exact .inl h
    · exact .inr (.inl h)
    · exact .inr (.inr h)
  · rename_i f g rest hs
    simp only [zlbls, hs, lblsTs_append, lblsTs, lblsT, Frame.close, List.append_nil, List.mem_append,
      List.mem_cons, List.flatMap_cons] at h ⊢
    rcases h with h | (h | (h | h | h)) | h
    · exact .inl h
    · exact .inr (.inr (.inl (.inl h)))
    · exact .inr (.inr (.inl (.inr h)))
    · exact .inr (.inl (.inl h))
    · exact .inr (.inl (.inr h))
    · exact .inr (.inr (.inr h))

theorem mem_walk (n : Nat) (z : Zip) (x : Lbl) (h : x ∈ zlbls (z.walk n)) : x ∈ zlbls z := by
  induction n generalizing z with
  | zero => exact h
  | succ n ih =>
    unfold Zip.walk at h
    split at h
    · exact h
    · split at h
      · exact h
      · exact mem_up z x (ih _ h)

theorem mem_push (z : Zip) (l x : Lbl) (h : x ∈ zlbls (z.push l)) : x = l ∨ x ∈ zlbls z := by
  simp only [zlbls, Zip.push, lblsTs, List.flatMap_cons, List.mem_append, List.mem_cons, List.append_nil] at h ⊢
  rcases h with h | (h | h) | h
  · exact .inr (.inl h)
  · exact .inl h
  · simp at h
  · exact .inr (.inr h)

theorem mem_insert (z : Zip) (l x : Lbl) (h : x ∈ zlbls (z.insert l)) : x = l ∨ x ∈ zlbls z := by
  unfold Zip.insert at h
  split at h
  · exact .inr h
  · split at h
    · exact mem_push z l x h
    · rename_i f rest hs
      split at h
      · split at h
        · exact mem_push z l x h
        · rcases mem_push _ l x h with h | h
          · exact .inl h
          · exact .inr (mem_up z x h)
      · split at h
        · simp only [] at h
          split at h
          · exact .inr h
          · rcases mem_push _ l x h with h | h
            · exact .inl h
            · exact .inr (mem_walk _ z x (mem_up _ x h))
        · split at h
          · exact mem_push z l x h
          · rcases mem_push _ l x h with h | h
            · exact .inl h
            · exact .inr (mem_up z x h)

theorem mem_insertAll (ls : List Lbl) (z : Zip) (x : Lbl) (h : x ∈ zlbls (insertAll z ls)) : x ∈ ls ∨ x ∈ zlbls z := by
  induction ls generalizing z with
  | nil => exact .inr h
  | cons l ls ih =>
    simp only [insertAll, List.foldl_cons] at h
    rcases ih (z.insert l) h with h | h
    · exact .inl (List.mem_cons_of_mem _ h)
    · rcases mem_insert z l x h with h | h
      · exact .inl (by rw [h]; exact List.mem_cons_self)
      · exact .inr h

theorem mem_closeAll (n : Nat) (z : Zip) (x : Lbl) (h : x ∈ lblsTs (z.closeAll n)) : x ∈ zlbls z := by
  induction n generalizing z with
  | zero => exact List.mem_append.mpr (.inl h)
  | succ n ih =>
    unfold Zip.closeAll at h
    split at h
    · exact List.mem_append.mpr (.inl h)
    · exact mem_up z x (ih _ h)

theorem build_lbls (ls : List Lbl) (ts : List Tree) (h : build ls = some ts) : ∀ x ∈ lblsTs ts, x ∈ ls := by
  intro x hx
  unfold build at h
  simp only [] at h
  split at h
  · simp at h
  · simp only [Option.some.injEq] at h
    subst h
    rcases mem_insertAll ls Zip.empty x (mem_closeAll _ _ x hx) with h | h
    · exact h
    · simp [zlbls, Zip.empty, lblsTs] at h

theorem treesOK : TreesOK := fun nodes ts h => build_lbls (labels nodes) ts h

end CbiVerif.Engines
