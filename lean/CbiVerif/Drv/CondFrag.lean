import Lean.Data.Json
import CbiVerif.Drv.Eval
import CbiVerif.Model.CondFragment
import CbiVerif.Lemmas.LexSource
import CbiVerif.Lemmas.MacroDefinedList
import CbiVerif.Lemmas.MacroDefine
/-! driver op for C02 / C01, text → lexer → expander → evaluator with `defined` and object-like macros
(`Props/C02Defined.lean`; the imported `Lemmas` files are core Lean only and hold the decidable predicates
`LexSource.lexable`, `MX.tblOKb`, `MX.defOK` the theorems use).

`condfrag` {ast (SOURCE tree: macro names are `ident` leaves), sub:[[name, ast]…], defs:[…], lead:"…", gaps:["…",…]} →
  { text,                              -- LexLayout.layout w (renderSrc ast)
    table_ok,                          -- the definitions were accepted
    obj_ok, size_ok,                   -- MX.tblOKb tbl, |tbl| + 2 < max_level        (hT, hsz)
    grammatical, consts_ok, big_unsuffixed,   -- of CondFrag.substA sub ast            (hg, hc, hk8)
    lexable, leaves_ok, admissible, c_admissible,    --                               (hl, hleaf, hw)
    n_defined, n_macro_leaves, sub_empty,
    spec : {v,u} | null,               -- CExpr.cEval (envOf tbl) (substA sub ast)      (hv)
    def_ok,                            -- MX.defOK (tokenize text)
    cond : bool | {exc},               -- PP.condValue tbl (tokenize text)
    in_objmacro, in_defined,           -- all hypotheses of cond_objmacro_partial / cond_defined_partial (any table) hold
    instance_ok }                      -- in_objmacro ∨ in_defined → cond == truth of spec   (an executed instance of the theorems)
-/
open Lean CbiVerif.PP
namespace CbiVerif.Drv.CondFrag
open CbiVerif.CExpr CbiVerif.EvalBridge CbiVerif.LexLayout CbiVerif.Drv.Eval CbiVerif.CondFrag

def subOf (j : Json) : Sub :=
  (arr j "sub").filterMap fun e =>
    match e with
    | Json.arr a => match a[0]?, a[1]? with
      | some n, some b => some (n.getStr?.toOption.getD "", decAst b)
      | _, _ => none
    | _ => none

def countDefd : CExpr.Ast → Nat
  | .defd _ _ => 1
  | .lit _ | .chr _ | .ident _ => 0
  | .paren a => countDefd a
  | .un _ a => countDefd a
  | .bin _ l r => countDefd l + countDefd r
  | .tern c t e => countDefd c + countDefd t + countDefd e

def handle (j : Json) : Json :=
  let a : CExpr.Ast := match j.getObjVal? "ast" with | .ok aj => decAst aj | _ => .ident "?"
  let s := subOf j
  let defs := ((j.getObjValAs? (Array String) "defs").toOption.getD #[]).toList
  let gaps := ((j.getObjValAs? (Array String) "gaps").toOption.getD #[]).toList.map String.toList
  let w : Layout := ⟨(str j "lead").toList, gaps⟩
  let ts := renderSrc a
  let text := layout w ts
  match CbiVerif.MX.buildTable defs [] with
  | .error e => Json.mkObj [("text", text), ("table_ok", false), ("exc", ppErrName e)]
  | .ok tbl =>
    let a' := substA s a
    let objOK := CbiVerif.MX.tblOKb tbl
    let sizeOK := decide (tbl.length + 2 < CbiVerif.Gen.maxLevel)
    let lexable := CbiVerif.LexSource.lexable a
    let leaves := identLeaves a
    let leavesOK := leaves.all (leafOK tbl s)
    let adm := admissible w ts
    let spec := cEval (envOf tbl) a'
    let cond := condValue tbl (tokenize text)
    let inObj := inFragment objOK CbiVerif.Gen.maxLevel tbl s a && lexable && adm && spec.isSome
    -- hypotheses of `cond_defined_partial`: ANY table; no identifier leaf names a macro or is spelled `defined`
    let inDef := s.isEmpty && a.grammatical && a.constsOK && !usesBigUnsuffixed a && lexable && adm && spec.isSome &&
      leaves.all (fun n => n != "defined" && (tbl.get n).isNone)
    let inst := match spec with
      | some v => !(inObj || inDef) || (match cond with | .ok b => b == v.truth | .error _ => false)
      | none => true
    Json.mkObj [("text", text), ("table_ok", true), ("obj_ok", objOK), ("size_ok", sizeOK),
      ("grammatical", a'.grammatical), ("consts_ok", a'.constsOK), ("big_unsuffixed", usesBigUnsuffixed a'),
      ("lexable", lexable), ("leaves_ok", leavesOK), ("admissible", adm), ("c_admissible", cAdmissible w ts),
      ("n_defined", countDefd a), ("n_macro_leaves", (leaves.filter fun n => (tbl.get n).isSome).length),
      ("sub_empty", s.isEmpty),
      ("spec", match spec with | some v => valJson v.unsigned v.toInt | none => Json.null),
      ("def_ok", CbiVerif.MX.defOK (tokenize text)),
      ("cond", match cond with | .ok b => Json.bool b | .error e => Json.mkObj [("exc", ppErrName e)]),
      ("in_objmacro", inObj), ("in_defined", inDef), ("instance_ok", inst)]

def handlers : List (String × (Json → Json)) := [("condfrag", handle)]

end CbiVerif.Drv.CondFrag
