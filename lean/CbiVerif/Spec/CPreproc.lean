/-! # C01 specification: the conditional-inclusion machine of ISO C 6.10.1

Written from the property text and the C standard, not from the code: a *flat*
machine over the list of line groups of a translation unit, with a stack of
conditional frames.  No tree, no visitor.

* a code line / non-conditional directive is attributed (= "not skipped") and takes
  effect iff the current group is active;
* `#if` in an active group is attributed and evaluated; in a skipped group it only
  opens a dead frame (nothing inside is evaluated or attributed);
* `#elif/#else/#endif` of a chain that is *reached* (its `#if` was in an active group)
  are attributed; an `#elif` is evaluated **only if no earlier group of its chain was
  taken** (6.10.1p6: directives in skipped groups are processed only to keep track of
  nesting — gcc and clang do not evaluate such an `#elif`);
* structural diagnostics (`bad`): `#elif/#else/#endif` without `#if`, `#elif/#else`
  after `#else`; an unterminated `#if` is `stack ≠ []` at the end.  Programs with a
  diagnostic are outside the property's well-formedness condition.

The meaning of expressions and directives is a parameter (`Sem Env`): C01 is about
*which* lines are reached and in which order effects happen; C02/C03 are about what
an expression evaluates to.  `MWorld` instantiates `Env` with a macro table, a sticky
failure flag and the redefinition diagnostic of 6.10.3p2.
Core Lean only. -/
namespace CbiVerif.Cond

inductive Kind | code | ifk | elifk | elsek | endk | other
deriving DecidableEq, Repr, Inhabited

/-- A line group of the file: an identifier (position in the node list), its kind, and an
abstract payload (which expression / which directive). -/
structure Lbl where
  id : Nat
  kind : Kind
  pay : Nat
deriving DecidableEq, Repr, Inhabited

/-- Meaning of the payloads over a world state `Env`.
`evalIf` returns the truth value of a controlling expression and the world after
evaluating it (a failure is a flag inside the world); `exec` is the effect of a
non-conditional directive. -/
structure Sem (Env : Type) where
  evalIf : Env → Nat → Bool × Env
  exec : Env → Nat → Env

structure CFrame where
  parentActive : Bool     -- the group containing the `#if` is being processed
  taken : Bool            -- some group of this chain has been selected already
  active : Bool           -- the current group of this chain is being processed
  seenElse : Bool         -- `#else` has occurred in this chain
deriving DecidableEq, Repr

structure RState (Env : Type) where
  σ : Env
  stack : List CFrame := []
  out : List Nat := []       -- ids of the line groups that are not skipped / belong to a reached chain
  bad : Bool := false        -- structural diagnostic

variable {Env : Type}

def RState.active (r : RState Env) : Bool :=
  match r.stack with
  | [] => true
  | f :: _ => f.active

def refStep (M : Sem Env) (r : RState Env) (l : Lbl) : RState Env :=
  match l.kind with
  | .code => if r.active then { r with out := r.out ++ [l.id] } else r
  | .other => if r.active then { r with out := r.out ++ [l.id], σ := M.exec r.σ l.pay } else r
  | .ifk =>
    if r.active then
      let a := M.evalIf r.σ l.pay
      { r with σ := a.2, out := r.out ++ [l.id], stack := ⟨true, a.1, a.1, false⟩ :: r.stack }
    else { r with stack := ⟨false, true, false, false⟩ :: r.stack }
  | .elifk =>
    match r.stack with
    | [] => { r with bad := true }                            -- #elif without #if
    | f :: fs =>
      if f.seenElse then { r with bad := true }               -- #elif after #else
      else if !f.parentActive then r
      else if f.taken then { r with out := r.out ++ [l.id], stack := { f with active := false } :: fs }
      else
        let a := M.evalIf r.σ l.pay
        { r with σ := a.2, out := r.out ++ [l.id], stack := ⟨true, a.1, a.1, false⟩ :: fs }
  | .elsek =>
    match r.stack with
    | [] => { r with bad := true }                            -- #else without #if
    | f :: fs =>
      if f.seenElse then { r with bad := true }               -- #else after #else
      else if !f.parentActive then { r with stack := { f with seenElse := true } :: fs }
      else { r with out := r.out ++ [l.id], stack := ⟨true, true, !f.taken, true⟩ :: fs }
  | .endk =>
    match r.stack with
    | [] => { r with bad := true }                            -- #endif without #if
    | f :: fs =>
      if f.parentActive then { r with out := r.out ++ [l.id], stack := fs } else { r with stack := fs }

def refRun (M : Sem Env) (r : RState Env) (ls : List Lbl) : RState Env := ls.foldl (refStep M) r

/-- the reference run of a whole translation unit from world `σ` -/
def reference (M : Sem Env) (σ : Env) (ls : List Lbl) : RState Env := refRun M { σ := σ } ls

/-- no structural diagnostic: every conditional directive matched, every `#if` closed -/
def RState.wellNested (r : RState Env) : Bool := !r.bad && r.stack.isEmpty

/-! ## Macro worlds: `#define` / `#undef` in source order -/

/-- macro table (association list, at most one entry per name), sticky failure, and the
"redefined with a different replacement list" diagnostic of C 6.10.3p2 (gcc warns). -/
structure MWorld (B E : Type) where
  tbl : List (String × B) := []
  err : Option E := none
  diag : Bool := false

def lookup {B : Type} (t : List (String × B)) (n : String) : Option B := (t.find? (·.1 == n)).map (·.2)

/-- what a non-conditional directive does -/
inductive Act (B E : Type) | define (n : String) (b : B) | undef (n : String) | fail (e : E) | nop

/-- decoding of payloads: the directive a payload stands for, and the value of a controlling
expression under a macro table -/
structure Lang (B E : Type) where
  act : Nat → Act B E
  cond : List (String × B) → Nat → Except E Bool

variable {B E : Type}

/-- evaluation of a controlling expression: a failure is recorded and is sticky -/
def MWorld.evalIf (L : Lang B E) (w : MWorld B E) (p : Nat) : Bool × MWorld B E :=
  match w.err with
  | some _ => (false, w)
  | none =>
    match L.cond w.tbl p with
    | .ok b => (b, w)
    | .error e => (false, { w with err := some e })

/-- C semantics of `#define`: the new definition replaces the old one; replacing it by a
*different* body is the constraint violation gcc warns about (`diag`); an identical
redefinition is permitted and changes nothing. -/
def MWorld.defineC [DecidableEq B] (w : MWorld B E) (n : String) (b : B) : MWorld B E :=
  match lookup w.tbl n with
  | none => { w with tbl := w.tbl ++ [(n, b)] }
  | some b' =>
    if b' = b then w
    else { w with tbl := w.tbl.map (fun e => if e.1 == n then (n, b) else e), diag := true }

def MWorld.undef (w : MWorld B E) (n : String) : MWorld B E := { w with tbl := w.tbl.filter (·.1 != n) }

def MWorld.execC [DecidableEq B] (L : Lang B E) (w : MWorld B E) (p : Nat) : MWorld B E :=
  match w.err with
  | some _ => w
  | none =>
    match L.act p with
    | .define n b => w.defineC n b
    | .undef n => w.undef n
    | .fail e => { w with err := some e }
    | .nop => w

/-- the reference meaning of payloads -/
def semC [DecidableEq B] (L : Lang B E) : Sem (MWorld B E) := ⟨MWorld.evalIf L, MWorld.execC L⟩

end CbiVerif.Cond
