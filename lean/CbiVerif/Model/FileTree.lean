import CbiVerif.Model.Setmap
/-!
C06 — model of `report.FileTree` (`insert`, `_print`, `write_to`) and of `report.files`.

The tree is generic in the figure type `V` carried by the nodes (`V := Setmap` with
`vadd := SM.merge` in the executed instance) so that the invariants can be proved once for every
additive measure of the figure.

`FileTree.insert(filename, setmap)`, for the path components `d₁ … dₙ f` below the root:
the root and every `dᵢ` accumulate `setmap` unless *the file* is a symlink; a component that does
not exist yet is created (a directory node with an empty setmap, the file node with `setmap`);
an existing name is re-used.  Children are kept in insertion order (a Python dict).
Core Lean only.
-/
namespace CbiVerif.FTm

inductive T (V : Type) where
  | file (name : String) (link : Bool) (v : V)
  | dir (name : String) (v : V) (kids : List (T V))
deriving Repr

variable {V : Type}

def T.name : T V → String
  | .file n _ _ => n
  | .dir n _ _ => n

def T.val : T V → V
  | .file _ _ v => v
  | .dir _ v _ => v

/-- `parent.setmap[ps] += setmap[ps]` (unless the inserted file is a symlink), then descend -/
def bump (vadd : V → V → V) (x : V) (link : Bool) (g : List (T V) → List (T V)) : T V → T V
  | .file n l v => .file n l v
  | .dir n v ks => .dir n (if link then v else vadd v x) (g ks)

/-- the loop of `FileTree.insert` below one node's children, by recursion on the remaining components -/
def insertKids (vadd : V → V → V) (zero : V) (x : V) (link : Bool) : List String → List (T V) → List (T V)
  | [], kids => kids
  | [f], kids => if kids.any (·.name == f) then kids else kids ++ [.file f link x]
  | d :: rest, kids =>
    if kids.any (·.name == d) then
      kids.map (fun k => if k.name == d then bump vadd x link (insertKids vadd zero x link rest) k else k)
    else kids ++ [bump vadd x link (insertKids vadd zero x link rest) (.dir d zero [])]

/-- `FileTree.insert`: the root accumulates too -/
def insertRoot (vadd : V → V → V) (zero : V) (x : V) (link : Bool) (path : List String) : T V → T V :=
  bump vadd x link (insertKids vadd zero x link path)

/-- one insertion request -/
structure Ins (V : Type) where
  path : List String
  link : Bool
  v : V

/-- `FileTree(rootdir)` followed by a sequence of `insert`s -/
def build (vadd : V → V → V) (zero : V) (root : String) (ins : List (Ins V)) : T V :=
  ins.foldl (fun t i => insertRoot vadd zero i.v i.link i.path t) (.dir root zero [])

/-! ### printing (`_print`, plain i.e. non-tty connectors) -/

structure Row (V : Type) where
  depth : Nat
  /-- `prefix + connector + stub` -/
  text : String
  name : String
  isDir : Bool
  link : Bool
  v : V
deriving Repr

/-- `if levels and depth > levels: return []` — note that `levels = 0` hides nothing -/
def hidden (levels : Option Nat) (depth : Nat) : Bool :=
  match levels with
  | none => false
  | some l => l != 0 && decide (depth > l)

def nextPrefix (pre conn : String) : String :=
  if conn == "" then "" else if conn == "\\" then pre ++ "  " else pre ++ "| "

mutual
def printNode (levels : Option Nat) (depth : Nat) (pre conn : String) (isRoot : Bool) : T V → List (Row V)
  | .file n l v =>
    if hidden levels depth then [] else [⟨depth, pre ++ conn ++ "--", n, false, l, v⟩]
  | .dir n v ks =>
    if hidden levels depth then []
    else ⟨depth, pre ++ conn ++ (if isRoot then "o" else "-o"), n, true, false, v⟩
          :: printKids levels (depth + 1) (nextPrefix pre conn) ks
def printKids (levels : Option Nat) (depth : Nat) (pre : String) : List (T V) → List (Row V)
  | [] => []
  | k :: ks => printNode levels depth pre (if ks.isEmpty then "\\" else "|") false k
                ++ printKids levels depth pre ks
end

/-- `write_to`: the rows of the whole tree -/
def print (levels : Option Nat) (t : T V) : List (Row V) := printNode levels 0 "" "" true t

/-! ### `report.files` -/
open CbiVerif.SM

abbrev FileTree := T Setmap

/-- the loop of `report.files`: per-file setmap, `--prune` skips files no platform uses, then `insert` -/
def filesTree (root : String) (prune : Bool) (fs : List FileRec) : FileTree :=
  fs.foldl (fun t f =>
    let sm := fileSetmap f
    if prune && !anyPlatform sm then t else insertRoot merge [] sm f.link f.path t) (.dir root [] [])

/-- the figures `_meta_str` prints for a node, given the root's setmap -/
structure Figures where
  /-- one entry per platform of the root (sorted): is it used by this node -/
  letters : List Bool
  sloc : Nat
  coverage : Option Rat
  avgCoverage : Option Rat

def sortStrings (l : List String) : List String := l.mergeSort (fun a b => decide (a ≤ b))

/-- `sorted(root.platforms)` (also the legend) -/
def legend (rootSm : Setmap) : List String := sortStrings (CbiVerif.Metrics.platformsOf rootSm)

def figures (rootSm sm : Setmap) : Figures :=
  let rp := CbiVerif.Metrics.platformsOf rootSm
  { letters := (legend rootSm).map fun p => (CbiVerif.Metrics.platformsOf sm).contains p
    sloc := total sm
    coverage := CbiVerif.Metrics.coverage sm rp
    avgCoverage := CbiVerif.Metrics.averageCoverage sm rp }

end CbiVerif.FTm
