import CbiVerif.Lemmas.MacroObjSpec
import CbiVerif.Lemmas.LexRoundtrip
/-! # C03, `#`: `PP.stringify` (model of `Lexer.stringify`) against `Spec.Prosser.stringize` (C11 6.10.3.2p2)

Two independent components are compared:
* the spelling between the quotes (`PP.sanitized` per token and the blank rule against `escapeLit` and the blank rule of the
  specification): `specBody_eq`;
* the two lexers on the text `"` + body + `"` (`PP.lexString` against `Spec.Prosser.lexQuoted`): `lexString_of_lexQuoted`.
-/
namespace CbiVerif.MX.StrSpec
open CbiVerif.PP CbiVerif.MX
open CbiVerif.Spec.Prosser (T K)

/-- escaping of `"` and `\` (what `escapeLit` does, on characters) -/
def esc (cs : List Char) : List Char := cs.flatMap fun c => if c == '\\' || c == '"' then ['\\', c] else [c]

/-- the text of a string-literal token as `Lexer.string_constant` makes it: every `"` in it is the second half of a pair `\"`
    (in the pairing order of the lexer) -/
def strTextOk : List Char → Bool
  | [] => true
  | '\\' :: '"' :: r => strTextOk r
  | '"' :: _ => false
  | _ :: r => strTextOk r

theorem esc_cons (c : Char) (r : List Char) : esc (c :: r) = (if c == '\\' || c == '"' then ['\\', c] else [c]) ++ esc r := by
  simp [esc]

theorem esc_append (a b : List Char) : esc (a ++ b) = esc a ++ esc b := by simp [esc]

theorem bs2 : "\\\\".toList = ['\\', '\\'] := by decide
theorem bs3 : "\\\\\\\"".toList = ['\\', '\\', '\\', '"'] := by decide
theorem bsq : "\\\"".toList = ['\\', '"'] := by decide
theorem q1 : "\"".toList = ['"'] := by decide
theorem sq1 : "'".toList = ['\''] := by decide

theorem sanitized_go (fuel : Nat) : ∀ (cs : List Char) (acc : String), cs.length < fuel → strTextOk cs = true →
    (sanitized.go fuel cs acc).toList = acc.toList ++ esc cs := by
  induction fuel with
  | zero => intro cs acc h; omega
  | succ f ih =>
    intro cs acc hlen hok
    match cs, hlen, hok with
    | [], _, _ => simp [sanitized.go, esc]
    | c :: r, hlen, hok =>
      by_cases hb : c = '\\'
      · subst hb
        match r, hlen, hok with
        | [], _, _ =>
          rw [sanitized.go, ih [] _ (by simp at hlen ⊢; omega) rfl]
          · simp [esc, String.toList_append, bs2]
          · intro r h; simp at h
        | c2 :: r2, hlen, hok =>
          by_cases hq : c2 = '"'
          · subst hq
            rw [sanitized.go, ih r2 _ (by simp at hlen ⊢; omega) (by simpa [strTextOk] using hok), esc_cons, esc_cons]
            simp [String.toList_append, bs3]
          · have hok' : strTextOk (c2 :: r2) = true := by
              rw [strTextOk] at hok
              · exact hok
              all_goals (intros; simp_all)
            rw [sanitized.go, ih (c2 :: r2) _ (by simp at hlen ⊢; omega) hok', esc_cons ('\\')]
            · simp [String.toList_append, bs2]
            · intro r h; simp at h; exact hq h.1
      · have hq : c ≠ '"' := by
          intro h; subst h; simp [strTextOk] at hok
        have hok' : strTextOk r = true := by
          rw [strTextOk] at hok
          · exact hok
          all_goals (intros; simp_all)
        rw [sanitized.go, ih r _ (by simp at hlen ⊢; omega) hok', esc_cons]
        · simp [hb, hq, String.toList_push]
        all_goals (intros; simp_all)

/-- the class of tokens the statement is about: a string literal's text pairs every `"` with a preceding `\` (what
    `Lexer.string_constant` produces); every other kind is unrestricted -/
def tokOk (t : Tok) : Bool := t.kind != .str || strTextOk t.text.toList

/-- what `Spec.Prosser.stringize` appends for one token -/
def specPiece (t : T) : String :=
  if t.kind == .str || t.kind == .chr then CbiVerif.Spec.Prosser.escapeLit t.text else t.text

theorem escapeLit_toList (s : String) : (CbiVerif.Spec.Prosser.escapeLit s).toList = esc s.toList := by
  simp [CbiVerif.Spec.Prosser.escapeLit, esc]

/-- **one token**: `sanitized_str` of the code = the spelling with `"` and `\` escaped inside literals -/
theorem sanitized_spec (t : Tok) (h : tokOk t = true) : sanitized t = specPiece (toSpec [] t) := by
  obtain ⟨k, s, w, x⟩ := t
  apply String.toList_inj.mp
  cases k
  case str =>
    have hs : strTextOk s.toList = true := by simpa [tokOk] using h
    simp only [sanitized, specPiece, toSpec, kindOf, spellTok, beq_self_eq_true, Bool.true_or, if_true, escapeLit_toList,
      String.toList_append, bsq, q1]
    rw [sanitized_go _ _ _ (by have := @String.length_toList s; omega) hs]
    simp [esc]
  case chr =>
    simp [sanitized, specPiece, toSpec, kindOf, spellTok, escapeLit_toList, String.toList_append, sq1, esc]
  all_goals rfl

theorem fold_spec : ∀ (r : List Tok) (acc : String), (∀ t ∈ r, tokOk t = true) →
    r.foldl (fun acc p => acc ++ (if p.pw then " " else "") ++ sanitized p) acc
      = CbiVerif.Spec.Prosser.stringize.go (r.map (toSpec [])) false acc := by
  intro r
  induction r with
  | nil => intro acc _; rfl
  | cons p r ih =>
    intro acc h
    simp only [List.foldl_cons, List.map_cons, CbiVerif.Spec.Prosser.stringize.go]
    rw [ih _ (fun t ht => h t (List.mem_cons_of_mem _ ht)), sanitized_spec p (h p (List.mem_cons_self ..))]
    rfl

/-- the text `Lexer.stringify` puts between the quotes (`C03.strBody`) -/
def bodyOf : List Tok → String
  | [] => ""
  | f :: r => r.foldl (fun acc p => acc ++ (if p.pw then " " else "") ++ sanitized p) (sanitized f)

/-- **the spelling between the quotes**: model (`strBody`, i.e. `Lexer.stringify` before it lexes) = specification -/
theorem specBody_eq (ts : List Tok) (h : ∀ t ∈ ts, tokOk t = true) :
    CbiVerif.Spec.Prosser.stringize.go (ts.map (toSpec [])) true "" =
      bodyOf ts := by
  cases ts with
  | nil => rfl
  | cons f r =>
    simp only [List.map_cons, CbiVerif.Spec.Prosser.stringize.go, bodyOf]
    rw [fold_spec r _ (fun t ht => h t (List.mem_cons_of_mem _ ht)), sanitized_spec f (h f (List.mem_cons_self ..))]
    simp [specPiece]

/-- the class of arguments the `#` statements are about: every string-literal token has a text `Lexer.string_constant` can produce
    (each `"` in it is escaped).  Every token the lexer makes is in it (`tokenize_tokOk`).  (Before the repair of finding D45 a second
    clause excluded spellings that end in a backslash.) -/
def StrArgOk (ts : List Tok) : Prop := ∀ t ∈ ts, tokOk t = true

instance (ts : List Tok) : Decidable (StrArgOk ts) := by unfold StrArgOk; exact inferInstance

/-! ## the two lexers on `"` + body + `"` -/
open CbiVerif.Spec.Prosser (lexQuoted lexOne)

theorem lexQuoted_go_nil (f : Nat) (acc : List Char) : lexQuoted.go '"' f acc [] = none := by
  cases f <;> rfl

/-- one step of `Lexer.string_constant` on a backslash followed by a character: an escape pair (repair of finding D45) -/
theorem lexString_go_bs (g : Nat) (acc : List Char) (c2 : Char) (r2 : List Char) :
    lexString.go (g + 1) acc ('\\' :: c2 :: r2) = lexString.go g (acc ++ ['\\', c2]) r2 := by
  rw [lexString.go]

theorem lexString_go_plain' (g : Nat) (acc : List Char) :
    lexString.go (g + 1) acc ['\\'] = lexString.go g (acc ++ ['\\']) [] := by
  rw [lexString.go]
  all_goals (intros; simp_all)

/-- one step on a character that is neither `"` nor a backslash -/
theorem lexString_go_plain (g : Nat) (acc : List Char) (c : Char) (r : List Char) (h1 : c ≠ '"') (h2 : c ≠ '\\') :
    lexString.go (g + 1) acc (c :: r) = lexString.go g (acc ++ [c]) r := by
  rw [lexString.go]
  all_goals (intros; simp_all)

/-- **the lexers agree on a complete string literal**: if `lexQuoted` (specification, C11 6.4.5: `\` + any character is an escape
    pair) reads all of `s` as the rest of a string literal, so does `Lexer.string_constant` (as repaired for finding D45), with the
    same characters. -/
theorem lexString_of_lexQuoted (f : Nat) : ∀ (s acc acc' t : List Char), lexQuoted.go '"' f acc s = some (t, []) →
    ∀ f', s.length < f' →
    ∃ m, t = acc ++ m ++ ['"'] ∧ lexString.go f' acc' s = some (acc' ++ m, []) := by
  induction f with
  | zero => intro s acc acc' t h; simp [lexQuoted.go] at h
  | succ f ih =>
    intro s acc acc' t h f' hf'
    match s, h, hf' with
    | [], h, _ => simp [lexQuoted.go] at h
    | c :: r, h, hf' =>
      obtain ⟨g, rfl⟩ : ∃ g, f' = g + 1 := ⟨f' - 1, by simp at hf'; omega⟩
      by_cases hq : c = '"'
      · subst hq
        simp [lexQuoted.go] at h
        obtain ⟨rfl, rfl⟩ := h
        exact ⟨[], by simp, by rw [lexString.go]; simp⟩
      · by_cases hb : c = '\\'
        · subst hb
          match r, h, hf' with
          | [], h, _ => simp [lexQuoted.go] at h
          | c2 :: r2, h, hf' =>
            have h' : lexQuoted.go '"' f (acc ++ ['\\', c2]) r2 = some (t, []) := by
              simpa [lexQuoted.go] using h
            obtain ⟨m, hm, hgo⟩ := ih r2 _ (acc' ++ ['\\', c2]) t h' g (by simp at hf'; omega)
            refine ⟨['\\', c2] ++ m, by simp [hm], ?_⟩
            rw [lexString_go_bs]; simpa using hgo
        · have h' : lexQuoted.go '"' f (acc ++ [c]) r = some (t, []) := by
            simp only [lexQuoted.go] at h
            split at h
            · simp_all
            · split at h
              · simp_all
              · split at h
                · cases h
                · exact h
          rw [lexString_go_plain g acc' c r hq hb]
          obtain ⟨m, hm, hgo⟩ := ih r _ (acc' ++ [c]) t h' g (by simp at hf'; omega)
          exact ⟨[c] ++ m, by simp [hm], by simpa using hgo⟩

/-! ## `MacroFunction.replace` on replacement lists with `#` and without `##`, against `Spec.Prosser.subst` -/
open CbiVerif.Spec.Prosser (subst pidx isP setWs stringize Unspec)

/-- forget the hide set -/
def er (t : T) : T := { t with hs := [] }

/-- tokens of a replacement list with `#` but without `##`: no token is spelled `##`; the spelling `#` belongs to an operator or
    punctuator token (finding D42 is the other case) -/
def hashBodyTok (t : Tok) : Bool := t.text != "##" && (t.text != "#" || kindOf t.kind == .punct)

theorem pidx_toSpec (params : List String) (hs : List String) (t : Tok) :
    pidx (some params) (toSpec hs t) = paramIdx params t := by
  obtain ⟨k, s, w, x⟩ := t
  cases k <;> simp [pidx, paramIdx, toSpec, kindOf, spellTok]

theorem isP_hash (hs : List String) (t : Tok) (h : hashBodyTok t = true) : isP (toSpec hs t) "#" = (t.text == "#") := by
  obtain ⟨k, s, w, x⟩ := t
  cases k <;> simp_all [isP, toSpec, kindOf, spellTok, hashBodyTok]
  all_goals (have h1 : (K.chr == K.punct) = false := by decide
             have h2 : (K.str == K.punct) = false := by decide
             simp [h1, h2, h.2])

theorem isP_cat (hs : List String) (t : Tok) (h : hashBodyTok t = true) : isP (toSpec hs t) "##" = false := by
  obtain ⟨k, s, w, x⟩ := t
  cases k <;> simp_all [isP, toSpec, kindOf, spellTok, hashBodyTok]

theorem substArgs_append (params : List String) (ia : List Arg) : ∀ (a b : List (Tok × Bool)),
    substArgs params ia (a ++ b) =
      (match substArgs params ia a with
       | .ok ra => (match substArgs params ia b with | .ok rb => .ok (ra ++ rb) | .error x => .error x)
       | .error x => .error x) := by
  intro a b
  induction a with
  | nil => simp only [List.nil_append, substArgs]; cases substArgs params ia b <;> rfl
  | cons hd a ih =>
    obtain ⟨tk, f⟩ := hd
    simp only [List.cons_append, substArgs, ih]
    cases (if f = true then none else paramIdx params tk) with
    | none =>
      simp only []
      cases substArgs params ia a <;> simp only []
      cases substArgs params ia b <;> simp
    | some i =>
      simp only []
      cases ia[i]? with
      | none => rfl
      | some ar =>
        simp only []
        cases ar.exp with
        | none => rfl
        | some e =>
          simp only []
          cases substArgs params ia a <;> simp only []
          cases substArgs params ia b <;> simp

theorem substArgs_snoc_ok (params : List String) (ia : List Arg) (res : List (Tok × Bool)) (x : Tok × Bool) (r' : List Tok)
    (h : substArgs params ia (res ++ [x]) = .ok r') :
    ∃ r0 y, substArgs params ia res = .ok r0 ∧ substArgs params ia [x] = .ok y ∧ r' = r0 ++ y := by
  rw [substArgs_append] at h
  cases h1 : substArgs params ia res with
  | error e => simp [h1] at h
  | ok r0 =>
    cases h2 : substArgs params ia [x] with
    | error e => simp [h1, h2] at h
    | ok y => simp [h1, h2] at h; exact ⟨r0, y, rfl, rfl, h.symm⟩

theorem setWs_fixpw (eS : List T) (e : List Tok) (w : Bool) (h : eS.map er = e.map (toSpec [])) :
    (setWs eS w).map er = (fixpw e w).map (toSpec []) := by
  cases eS <;> cases e <;> simp_all [setWs, fixpw, er, toSpec]
  rfl

theorem args_getD (ia : List Arg) (args : List (List T)) (hargs : args = ia.map (fun a => a.raw.map (toSpec [])))
    (i : Nat) (a : Arg) (ha : ia[i]? = some a) : args.getD i [] = a.raw.map (toSpec []) := by
  subst hargs
  simp [List.getD, List.getElem?_map, ha]

/-- **`replace` = `subst`, replacement lists with `#` and without `##`** (generalised over the accumulators): the `#` pass of
    `MacroFunction.replace` followed by its substitution loop yields, token by token, what the single pass of the specification
    yields (kinds, spellings, white-space flags; hide sets are assigned by the caller) -/
theorem hash_conf_aux (ex : List T → Except Unspec (List T)) (params : List String) (ia : List Arg) (args : List (List T))
    (hargs : args = ia.map (fun a => a.raw.map (toSpec [])))
    (hex : ∀ (i : Nat) (a : Arg) (e : List Tok), ia[i]? = some a → a.exp = some e →
      ∃ eS, ex (a.raw.map (toSpec [])) = .ok eS ∧ eS.map er = e.map (toSpec []))
    (hstr : ∀ (i : Nat) (a : Arg) (st : T), ia[i]? = some a → stringize (a.raw.map (toSpec [])) = .ok st →
      ∃ t, stringify a.raw = some t ∧ toSpec [] t = st)
    (fuel : Nat) : ∀ (body : List Tok) (res : List (Tok × Bool)) (lc pmw : Bool) (os : List T) (fuelS : Nat)
      (res' : List (Tok × Bool)) (r : List Tok) (out : List T),
    (∀ t ∈ body, hashBodyTok t = true) → body.length < fuel → body.length < fuelS →
    strcatPass params ia fuel body res lc false pmw = .ok res' →
    substArgs params ia res' = .ok r →
    subst ex (some params) args fuelS (body.map (toSpec [])) os false = .ok out →
    ∃ r0 rb ob, substArgs params ia res = .ok r0 ∧ r = r0 ++ rb ∧ out = os ++ ob ∧ ob.map er = rb.map (toSpec []) := by
  induction fuel with
  | zero => intro body res lc pmw os fuelS res' r out _ h; omega
  | succ f ih =>
    intro body res lc pmw os fuelS res' r out hb hl hlS hm hsub hs
    obtain ⟨g, rfl⟩ : ∃ g, fuelS = g + 1 := ⟨fuelS - 1, by omega⟩
    match body, hb, hl, hlS, hm, hs with
    | [], _, _, _, hm, hs =>
      simp only [strcatPass] at hm
      simp only [List.map_nil, subst] at hs
      cases hm; cases hs
      exact ⟨r, [], [], hsub, by simp, by simp, rfl⟩
    | tok :: rest, hb, hl, hlS, hm, hs =>
      have htok := hb tok (List.mem_cons_self ..)
      have hrest : ∀ t ∈ rest, hashBodyTok t = true := fun t ht => hb t (List.mem_cons_of_mem _ ht)
      have h2 : (tok.text == "##") = false := by
        simp [hashBodyTok] at htok; simp [htok.1]
      have hP2 := isP_cat [] tok htok
      have hP1 := isP_hash [] tok htok
      by_cases h1 : tok.text = "#"
      · have h1' : (tok.text == "#") = true := by simp [h1]
        match rest, hrest, hl, hlS, hm, hs with
        | [], _, _, _, hm, _ => simp [strcatPass, h2, h1'] at hm
        | nx :: rest2, hrest, hl, hlS, hm, hs =>
          simp only [strcatPass, h2, h1', Bool.false_eq_true, if_false, if_true] at hm
          cases hp : paramIdx params nx with
          | none => simp [hp] at hm
          | some i =>
            simp only [hp] at hm
            cases ha : ia[i]? with
            | none => simp [ha] at hm
            | some a =>
              simp only [ha] at hm
              cases hst : stringify a.raw with
              | none => simp [hst] at hm
              | some t =>
                simp only [hst] at hm
                simp only [List.map_cons, subst, Option.isSome_some, Bool.true_and, hP1, h1', if_true, pidx_toSpec, hp,
                  Option.map_some, args_getD ia args hargs i a ha] at hs
                cases hz : stringize (a.raw.map (toSpec [])) with
                | error e => simp [hz] at hs
                | ok st =>
                  simp only [hz] at hs
                  obtain ⟨t2, ht2, hts⟩ := hstr i a st ha hz
                  rw [hst] at ht2; cases ht2
                  obtain ⟨r0', rb', ob', hx1, hx2, hx3, hx4⟩ := ih rest2 _ true pmw _ g res' r out
                    (fun t ht => hrest t (List.mem_cons_of_mem _ ht))
                    (by simp at hl ⊢; omega) (by simp at hlS ⊢; omega) hm hsub hs
                  obtain ⟨r0, y, hy1, hy2, hy3⟩ := substArgs_snoc_ok params ia res _ r0' hx1
                  simp [substArgs] at hy2
                  subst hy2 hy3 hts
                  refine ⟨r0, { t with pw := tok.pw } :: rb', { toSpec [] t with ws := (toSpec [] tok).ws } :: ob', hy1,
                    by simp [hx2], by simp [hx3], ?_⟩
                  simp [hx4, er, toSpec, spellTok]
      · have h1' : (tok.text == "#") = false := by simp [h1]
        simp only [strcatPass, h2, h1', Bool.false_eq_true, if_false] at hm
        have hnext : (((rest.map (toSpec [])).head?.map (isP · "##")).getD false) = false := by
          cases rest with
          | nil => rfl
          | cons n _ => simp [isP_cat [] n (hrest n (List.mem_cons_self ..))]
        simp only [List.map_cons, subst, Option.isSome_some, Bool.true_and, hP1, h1', Bool.false_eq_true, if_false, hP2,
          pidx_toSpec, hnext] at hs
        cases hp : paramIdx params tok with
        | none =>
          simp only [hp] at hs
          obtain ⟨r0', rb', ob', hx1, hx2, hx3, hx4⟩ := ih rest _ false pmw _ g res' r out hrest
            (by simp at hl ⊢; omega) (by simp at hlS ⊢; omega) hm hsub hs
          obtain ⟨r0, y, hy1, hy2, hy3⟩ := substArgs_snoc_ok params ia res _ r0' hx1
          simp [substArgs, hp] at hy2
          subst hy2 hy3
          exact ⟨r0, tok :: rb', toSpec [] tok :: ob', hy1, by simp [hx2], by simp [hx3], by simp [hx4, er, toSpec]⟩
        | some i =>
          simp only [hp] at hs
          cases hxe : ex (args.getD i []) with
          | error e => rw [hxe] at hs; exact absurd hs (by simp)
          | ok eS =>
            simp only [hxe] at hs
            obtain ⟨r0', rb', ob', hx1, hx2, hx3, hx4⟩ := ih rest _ false pmw _ g res' r out hrest
              (by simp at hl ⊢; omega) (by simp at hlS ⊢; omega) hm hsub hs
            obtain ⟨r0, y, hy1, hy2, hy3⟩ := substArgs_snoc_ok params ia res _ r0' hx1
            simp only [substArgs, Bool.false_eq_true, if_false, hp] at hy2
            cases ha : ia[i]? with
            | none => simp [ha] at hy2
            | some a =>
              simp only [ha] at hy2
              cases hae : a.exp with
              | none => simp [hae] at hy2
              | some e =>
                simp only [hae, Except.ok.injEq] at hy2
                obtain ⟨eS2, he1, he2⟩ := hex i a e ha hae
                rw [args_getD ia args hargs i a ha, he1] at hxe
                cases hxe
                subst hy2 hy3
                refine ⟨r0, fixpw e tok.pw ++ rb', setWs eS (toSpec [] tok).ws ++ ob', hy1, by simp [hx2], by simp [hx3], ?_⟩
                rw [List.map_append, List.map_append, hx4]
                congr 1
                exact setWs_fixpw eS e tok.pw he2

/-- what `MacroFunction.replace` needs to return at all on a replacement list without `##`: every `#` is followed by a parameter
    (C11 6.10.3.2p1, a constraint), every parameter has its argument, and a parameter used outside `#` comes with its
    pre-expansion (the expander provides it: `arg_needs_expansion`) -/
def replaceReady (params : List String) (ia : List Arg) : Nat → List Tok → Bool
  | 0, _ => true
  | _ + 1, [] => true
  | n + 1, t :: rest =>
    if t.text == "#" then
      match rest with
      | p :: r2 => (match paramIdx params p with | some i => ia[i]?.isSome | none => false) && replaceReady params ia n r2
      | [] => false
    else
      (match paramIdx params t with | some i => (ia[i]?.bind (·.exp)).isSome | none => true) && replaceReady params ia n rest

/-- **`replace` returns whenever `subst` does** (replacement lists with `#`, without `##`, generalised over the accumulators) -/
theorem hash_ready_aux (ex : List T → Except Unspec (List T)) (params : List String) (ia : List Arg) (args : List (List T))
    (hargs : args = ia.map (fun a => a.raw.map (toSpec [])))
    (hstr : ∀ (i : Nat) (a : Arg) (st : T), ia[i]? = some a → stringize (a.raw.map (toSpec [])) = .ok st →
      ∃ t, stringify a.raw = some t ∧ toSpec [] t = st)
    (fuel : Nat) : ∀ (body : List Tok) (res : List (Tok × Bool)) (lc pmw : Bool) (os : List T) (fuelS n : Nat) (out : List T),
    (∀ t ∈ body, hashBodyTok t = true) → body.length < fuel → body.length < fuelS → body.length < n →
    replaceReady params ia n body = true →
    subst ex (some params) args fuelS (body.map (toSpec [])) os false = .ok out →
    ∃ add rb, strcatPass params ia fuel body res lc false pmw = .ok (res ++ add) ∧ substArgs params ia add = .ok rb := by
  induction fuel with
  | zero => intro body res lc pmw os fuelS n out _ h; omega
  | succ f ih =>
    intro body res lc pmw os fuelS n out hb hl hlS hn hr hs
    obtain ⟨g, rfl⟩ : ∃ g, fuelS = g + 1 := ⟨fuelS - 1, by omega⟩
    obtain ⟨k, rfl⟩ : ∃ k, n = k + 1 := ⟨n - 1, by omega⟩
    match body, hb, hl, hlS, hn, hr, hs with
    | [], _, _, _, _, _, _ => exact ⟨[], [], by simp [strcatPass], by simp [substArgs]⟩
    | tok :: rest, hb, hl, hlS, hn, hr, hs =>
      have htok := hb tok (List.mem_cons_self ..)
      have hrest : ∀ t ∈ rest, hashBodyTok t = true := fun t ht => hb t (List.mem_cons_of_mem _ ht)
      have h2 : (tok.text == "##") = false := by
        simp [hashBodyTok] at htok; simp [htok.1]
      have hP2 := isP_cat [] tok htok
      have hP1 := isP_hash [] tok htok
      by_cases h1 : tok.text = "#"
      · have h1' : (tok.text == "#") = true := by simp [h1]
        match rest, hrest, hl, hlS, hn, hr, hs with
        | [], _, _, _, _, hr, _ => simp [replaceReady, h1'] at hr
        | nx :: rest2, hrest, hl, hlS, hn, hr, hs =>
          simp only [replaceReady, h1', if_true, Bool.and_eq_true] at hr
          obtain ⟨hr1, hr2⟩ := hr
          cases hp : paramIdx params nx with
          | none => simp [hp] at hr1
          | some i =>
            simp only [hp] at hr1
            cases ha : ia[i]? with
            | none => simp [ha] at hr1
            | some a =>
              simp only [List.map_cons, subst, Option.isSome_some, Bool.true_and, hP1, h1', if_true, pidx_toSpec, hp,
                Option.map_some, args_getD ia args hargs i a ha] at hs
              cases hz : stringize (a.raw.map (toSpec [])) with
              | error e => simp [hz] at hs
              | ok st =>
                simp only [hz] at hs
                obtain ⟨t, ht, _⟩ := hstr i a st ha hz
                obtain ⟨add', rb', hx1, hx2⟩ := ih rest2 (res ++ [({ t with pw := tok.pw }, true)]) true pmw _ g k out
                  (fun t ht => hrest t (List.mem_cons_of_mem _ ht))
                  (by simp at hl ⊢; omega) (by simp at hlS ⊢; omega) (by simp at hn ⊢; omega) hr2 hs
                refine ⟨({ t with pw := tok.pw }, true) :: add', { t with pw := tok.pw } :: rb', ?_, ?_⟩
                · simp only [strcatPass, h2, h1', Bool.false_eq_true, if_false, if_true, hp, ha, ht]
                  rw [hx1]; simp
                · simp [substArgs, hx2]
      · have h1' : (tok.text == "#") = false := by simp [h1]
        simp only [replaceReady, h1', Bool.false_eq_true, if_false, Bool.and_eq_true] at hr
        obtain ⟨hr1, hr2⟩ := hr
        have hnext : (((rest.map (toSpec [])).head?.map (isP · "##")).getD false) = false := by
          cases rest with
          | nil => rfl
          | cons n _ => simp [isP_cat [] n (hrest n (List.mem_cons_self ..))]
        simp only [List.map_cons, subst, Option.isSome_some, Bool.true_and, hP1, h1', Bool.false_eq_true, if_false, hP2,
          pidx_toSpec, hnext] at hs
        have hstep : strcatPass params ia (f + 1) (tok :: rest) res lc false pmw
            = strcatPass params ia f rest (res ++ [(tok, false)]) false false pmw := by
          simp only [strcatPass, h2, h1', Bool.false_eq_true, if_false]
        cases hp : paramIdx params tok with
        | none =>
          simp only [hp] at hs
          obtain ⟨add', rb', hx1, hx2⟩ := ih rest (res ++ [(tok, false)]) false pmw _ g k out hrest
            (by simp at hl ⊢; omega) (by simp at hlS ⊢; omega) (by simp at hn ⊢; omega) hr2 hs
          exact ⟨(tok, false) :: add', tok :: rb', by rw [hstep, hx1]; simp, by simp [substArgs, hp, hx2]⟩
        | some i =>
          simp only [hp] at hs hr1
          cases hxe : ex (args.getD i []) with
          | error e => rw [hxe] at hs; exact absurd hs (by simp)
          | ok eS =>
            simp only [hxe] at hs
            obtain ⟨add', rb', hx1, hx2⟩ := ih rest (res ++ [(tok, false)]) false pmw _ g k out hrest
              (by simp at hl ⊢; omega) (by simp at hlS ⊢; omega) (by simp at hn ⊢; omega) hr2 hs
            cases ha : ia[i]? with
            | none => simp [ha] at hr1
            | some a =>
              cases hae : a.exp with
              | none => simp [ha, hae] at hr1
              | some e =>
                exact ⟨(tok, false) :: add', fixpw e tok.pw ++ rb', by rw [hstep, hx1]; simp,
                  by simp [substArgs, hp, ha, hae, hx2]⟩

/-! ## every token the lexer makes is in the class `tokOk` -/

theorem strTextOk_cons_plain (c : Char) (m : List Char) (h1 : c ≠ '"') (h2 : c ≠ '\\') : strTextOk (c :: m) = strTextOk m := by
  rw [strTextOk]
  all_goals (intros; simp_all)

theorem strTextOk_cons_bs (d : Char) (m : List Char) (h1 : d ≠ '"') : strTextOk ('\\' :: d :: m) = strTextOk (d :: m) := by
  rw [strTextOk]
  all_goals (intros; simp_all)

/-- what `Lexer.string_constant` collects is a text of the class `strTextOk` -/
theorem lexString_go_ok (fuel : Nat) : ∀ (acc s t r : List Char), lexString.go fuel acc s = some (t, r) →
    ∃ m, t = acc ++ m ∧ strTextOk m = true ∧ m.head? ≠ some '"' ∧ s = m ++ '"' :: r := by
  induction fuel with
  | zero => intro acc s t r h; simp [lexString.go] at h
  | succ f ih =>
    intro acc s t r h
    match s, h with
    | [], h => simp [lexString.go] at h
    | c :: rest, h =>
      by_cases hq : c = '"'
      · subst hq
        rw [lexString.go] at h
        simp at h
        obtain ⟨rfl, rfl⟩ := h
        exact ⟨[], by simp, rfl, by simp, rfl⟩
      · by_cases hb : c = '\\'
        · subst hb
          match rest, h with
          | [], h =>
            rw [lexString_go_plain' f acc] at h
            rw [show lexString.go f (acc ++ ['\\']) [] = none from by cases f <;> rfl] at h
            cases h
          | d :: rest2, h =>
            rw [lexString_go_bs f acc d rest2] at h
            obtain ⟨m, h1, h2, h3, h4⟩ := ih _ _ _ _ h
            refine ⟨'\\' :: d :: m, by simp [h1], ?_, by simp, by simp [h4]⟩
            by_cases hd : d = '"'
            · subst hd; simpa [strTextOk] using h2
            · rw [strTextOk_cons_bs d m hd]
              by_cases hd2 : d = '\\'
              · subst hd2
                match m, h2, h3 with
                | [], _, _ => rfl
                | e :: m2, h2, h3 =>
                  have he : e ≠ '"' := by intro he; subst he; simp at h3
                  rw [strTextOk_cons_bs e m2 he]
                  exact h2
              · rw [strTextOk_cons_plain d m hd hd2]; exact h2
        · rw [lexString_go_plain f acc c rest hq hb] at h
          obtain ⟨m, h1, h2, h3, h4⟩ := ih _ _ _ _ h
          exact ⟨c :: m, by simp [h1], by rw [strTextOk_cons_plain c m hq hb]; exact h2, by simpa using hq, by simp [h4]⟩

theorem tokenizeOne_tokOk (s : List Char) (pw : Bool) (t : Tok) (r : List Char) (h : tokenizeOne s pw = some (t, r)) :
    tokOk t = true := by
  unfold tokenizeOne at h
  split at h
  · cases h; rfl
  · split at h
    · cases h; rfl
    · split at h
      · rename_i chars r' hs
        cases h
        have hgo : strTextOk chars = true := by
          unfold lexString at hs
          split at hs
          · obtain ⟨m, h1, h2, _⟩ := lexString_go_ok _ _ _ _ _ hs
            simp only [List.nil_append] at h1
            subst h1; exact h2
          · cases hs
        simp [tokOk, String.toList_ofList, hgo]
      · split at h
        · cases h; rfl
        · split at h
          · cases h; rfl
          · split at h
            · cases h; rfl
            · cases h

theorem tokenize_go_tokOk (fuel : Nat) : ∀ (s : List Char) (pw : Bool) (acc : List Tok), (∀ t ∈ acc, tokOk t = true) →
    ∀ t ∈ tokenize.go fuel s pw acc, tokOk t = true := by
  induction fuel with
  | zero => intro s pw acc h; simpa [tokenize.go] using h
  | succ f ih =>
    intro s pw acc h
    simp only [tokenize.go]
    split
    · exact h
    · split
      · rename_i t rest ht
        apply ih
        intro x hx
        rcases List.mem_append.mp hx with hx | hx
        · exact h x hx
        · simp at hx; subst hx; exact tokenizeOne_tokOk _ _ _ _ ht
      · apply ih
        intro x hx
        rcases List.mem_append.mp hx with hx | hx
        · exact h x hx
        · simp at hx; subst hx; rfl

/-- **every token of `Lexer.tokenize` is in the class** -/
theorem tokenize_tokOk (text : String) : ∀ t ∈ tokenize text, tokOk t = true :=
  tokenize_go_tokOk _ _ _ _ (by simp)

end CbiVerif.MX.StrSpec
