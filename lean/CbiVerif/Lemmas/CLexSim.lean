import CbiVerif.Model.CClean
import CbiVerif.Spec.CLexRef
/-! # C05: per-character and per-line simulation between `c_cleaner` and the reference scanner

The per-character obligation is a finite decidable table over
(directive base?) × (reference mode) × (buffer blank?) × (lexical class), closed by kernel
`decide`; it is lifted by induction to lines of any length. -/
namespace CbiVerif.CLexSim
open CbiVerif.CClean CbiVerif.CLexRef

/-- the reference scanner's view of a lexical class of the cleaner -/
def _root_.CbiVerif.CClean.Cls.kind : Cls → Kind
  | .slash => .slash | .star => .star | .dq => .dq | .sq => .sq | .bslash => .bslash
  | .hash => .other | .space => .white | .ws => .white | .other => .other

/-- a buffer action with the class of the appended character -/
inductive REmit | sp | ns (k : Cls)
deriving DecidableEq, Repr

def render (k : Cls) : Emit → REmit
  | .sp => .sp | .cur => .ns k | .slash => .ns .slash

def _root_.CbiVerif.CClean.Cls.isWhite : Cls → Bool | .space => true | .ws => true | _ => false

def REmit.visible : REmit → Bool | .ns k => !k.isWhite | .sp => false
def REmit.litWs : REmit → Bool | .ns k => k.isWhite | .sp => false

/-- what the reference lets survive of a kept character of class `k` read in mode `m` -/
def keepEmit (m : DMode) (k : Cls) : REmit := if k.isWhite && !m.inLiteral then .sp else .ns k

def refEmits (m : DMode) (k : Cls) (o : DOut) : List REmit :=
  (if o.pend then [.ns .slash] else []) ++ (if o.space then [.sp] else []) ++ (if o.keep then [keepEmit m k] else [])

/-- the cleaner stack corresponding to reference mode `w` over base `[top]` / `[dir, top]`;
    in mode `sqSl` the cleaner holds back the `/` (state FOUND_SLASH above SINGLE_QUOTATION) -/
def absStack (d : Bool) (w : DMode) : Stack :=
  let b : Stack := if d then [.dir, .top] else [.top]
  match w with
  | .code => b
  | .slash => .slash :: b
  | .dq => .dq :: b
  | .dqEsc => .esc :: .dq :: b
  | .sq0 => .sq :: b
  | .sqN => .sq :: b
  | .sqSl => .slash :: .sq :: b
  | .sqEsc => .esc :: .sq :: b
  | .lineC => .lineC :: b
  | .blockC => .blockC :: b
  | .blockStar => .blockStar :: .blockC :: b

/-- the `/` the cleaner still owes in mode `sqSl` -/
def holdL (w : DMode) : List REmit := if w == .sqSl then [.ns .slash] else []

/-- the per-character obligation -/
def stepOK (d : Bool) (w : DMode) (blank : Bool) (k : Cls) : Bool :=
  match dstep w (k.kind) with
  | none => true
  | some o =>
    let r := step (absStack d w) blank k
    [false, true].any fun d' =>
      r.1 == absStack d' o.mode && (holdL w ++ refEmits w k o == r.2.map (render k) ++ holdL o.mode)

def allW : List DMode := [.code, .slash, .dq, .dqEsc, .sq0, .sqN, .sqSl, .sqEsc, .lineC, .blockC, .blockStar]
def allC : List Cls := [.slash, .star, .dq, .sq, .bslash, .hash, .space, .ws, .other]
def allB : List Bool := [false, true]

theorem stepOK_all : (allB.all fun d => allW.all fun w => allB.all fun bl => allC.all fun c =>
    stepOK d w bl c) = true := by decide

theorem stepOK_each (d : Bool) (w : DMode) (blank : Bool) (c : Cls) : stepOK d w blank c = true := by
  have h := stepOK_all
  simp only [List.all_eq_true] at h
  exact h d (by cases d <;> simp [allB]) w (by cases w <;> simp [allW])
    blank (by cases blank <;> simp [allB]) c (by cases c <;> simp [allC])

theorem step_sim (d : Bool) (w : DMode) (blank : Bool) (k : Cls) (o : DOut)
    (ho : dstep w (k.kind) = some o) :
    ∃ d', (step (absStack d w) blank k).1 = absStack d' o.mode ∧
      holdL w ++ refEmits w k o = (step (absStack d w) blank k).2.map (render k) ++ holdL o.mode := by
  have h := stepOK_each d w blank k
  simp only [stepOK, ho, List.any_cons, List.any_nil, Bool.or_false, Bool.or_eq_true, Bool.and_eq_true,
    beq_iff_eq] at h
  rcases h with h | h
  · exact ⟨false, h.1, h.2⟩
  · exact ⟨true, h.1, h.2⟩

/-! ## the newline -/

/-- the reference at an unspliced newline: next mode, what survives, whether the logical line ends -/
def refNewline : DMode → Option (DMode × List REmit × Bool)
  | .code => some (.code, [], true)
  | .slash => some (.code, [.ns .slash], true)
  | .lineC => some (.code, [.sp], true)
  | .blockC => some (.blockC, [], false)
  | .blockStar => some (.blockC, [], false)
  | _ => none

def newlineOK (d : Bool) (w : DMode) : Bool :=
  match refNewline w with
  | none => true
  | some (m', es, ends) =>
    let st := absStack d w
    if st.head? != some Mode.blockC then
      (logicalNewline st).1 == absStack (d && m' == .blockC) m' &&
      (logicalNewline st).2.map (render .other) == es &&
      (((logicalNewline st).1.head? != some Mode.blockC) == ends)
    else m' == w && es == [] && ends == false

theorem newlineOK_all : (allB.all fun d => allW.all fun w => newlineOK d w) = true := by decide

theorem newlineOK_each (d : Bool) (w : DMode) : newlineOK d w = true := by
  have h := newlineOK_all
  simp only [List.all_eq_true] at h
  exact h d (by cases d <;> simp [allB]) w (by cases w <;> simp [allW])


/-! ## class-level view of `one_space_line` -/

structure CBuf where
  parts : List Cls := []
  trailing : Bool := false
deriving Repr, DecidableEq

def CBuf.add (b : CBuf) : REmit → CBuf
  | .sp => if b.trailing then b else ⟨b.parts ++ [.space], true⟩
  | .ns k => ⟨b.parts ++ [k], false⟩

def CBuf.addAll (b : CBuf) (es : List REmit) : CBuf := es.foldl CBuf.add b

def _root_.CbiVerif.CClean.Buf.toC (b : Buf) : CBuf := ⟨b.parts.map (·.1), b.trailing⟩

theorem toC_add (p : PChar) (b : Buf) (e : Emit) : (Buf.add p b e).toC = b.toC.add (render p.1 e) := by
  cases e with
  | sp =>
    cases ht : b.trailing <;> simp [Buf.add, render, CBuf.add, Buf.toC, ht, spacePart]
  | cur => simp [Buf.add, render, CBuf.add, Buf.toC]
  | slash => simp [Buf.add, render, CBuf.add, Buf.toC, slashPart]

theorem toC_addAll (p : PChar) (es : List Emit) : ∀ b : Buf, (b.addAll p es).toC = b.toC.addAll (es.map (render p.1)) := by
  induction es with
  | nil => intro b; rfl
  | cons e es ih =>
    intro b
    simp only [Buf.addAll, List.foldl_cons, List.map_cons, CBuf.addAll] at ih ⊢
    rw [ih, toC_add]

theorem CBuf.addAll_append (b : CBuf) (xs ys : List REmit) : b.addAll (xs ++ ys) = (b.addAll xs).addAll ys := by
  simp [CBuf.addAll, List.foldl_append]

theorem toC_empty : ({} : Buf).toC = {} := rfl

theorem category_toC (b : Buf) : b.category = catOf b.toC.parts := rfl

/-! ## lifting to the characters of a line -/

/-- the reference scanner over the classes of a run of characters: final mode and what survives -/
def refChars : DMode → List Cls → Option (DMode × List REmit)
  | w, [] => some (w, [])
  | w, k :: ks =>
    match dstep w k.kind with
    | none => none
    | some o =>
      match refChars o.mode ks with
      | none => none
      | some (w', es) => some (w', refEmits w k o ++ es)

theorem chars_sim (ps : List PChar) : ∀ (d : Bool) (w : DMode) (b : Buf) (w' : DMode) (es : List REmit),
    refChars w (ps.map (·.1)) = some (w', es) →
    ∃ d' ms, (procChars (absStack d w) b ps).1 = absStack d' w' ∧
      (procChars (absStack d w) b ps).2.toC = b.toC.addAll ms ∧ holdL w ++ es = ms ++ holdL w' := by
  induction ps with
  | nil =>
    intro d w b w' es h
    simp only [List.map_nil, refChars, Option.some.injEq, Prod.mk.injEq] at h
    obtain ⟨rfl, rfl⟩ := h
    exact ⟨d, [], rfl, rfl, by simp⟩
  | cons p ps ih =>
    intro d w b w' es h
    simp only [List.map_cons, refChars] at h
    cases ho : dstep w p.1.kind with
    | none => simp [ho] at h
    | some o =>
      simp only [ho] at h
      cases hr : refChars o.mode (ps.map (·.1)) with
      | none => simp [hr] at h
      | some r =>
        obtain ⟨w2, es2⟩ := r
        simp only [hr, Option.some.injEq, Prod.mk.injEq] at h
        obtain ⟨rfl, rfl⟩ := h
        obtain ⟨d1, hs1, hs2⟩ := step_sim d w b.blank p.1 o ho
        obtain ⟨d', ms, h1, h2, h3⟩ := ih d1 o.mode (b.addAll p (step (absStack d w) b.blank p.1).2) w2 es2 hr
        refine ⟨d', (step (absStack d w) b.blank p.1).2.map (render p.1) ++ ms, ?_, ?_, ?_⟩
        · simp only [procChars]; rw [hs1]; exact h1
        · simp only [procChars]; rw [hs1, h2, toC_addAll, CBuf.addAll_append]
        · rw [← List.append_assoc, hs2, List.append_assoc, h3, List.append_assoc]

/-! ## one physical line -/

/-- the reference over one physical line: final mode, what survives on it, whether the logical line ends -/
def refLine (w : DMode) (ks : List Cls) (continued : Bool) : Option (DMode × List REmit × Bool) :=
  match refChars w ks with
  | none => none
  | some (w1, es) =>
    if continued then some (w1, es, false)
    else
      match refNewline w1 with
      | none => none
      | some (w2, es2, ends) => some (w2, es ++ es2, ends)

theorem holdL_nil_of_refNewline {w : DMode} {r} (h : refNewline w = some r) : holdL w = [] := by
  cases w <;> simp [refNewline] at h <;> rfl

/-- **One physical line**: from related states with no `/` owed at either end, the cleaner ends in the
    related state, its buffer for this line is the one-space normalisation of what the reference
    lets survive on the line, and it ends the logical line iff the reference does. -/
theorem line_sim (d : Bool) (w w' : DMode) (l : PLine) (es : List REmit) (ends : Bool)
    (h : refLine w (l.chars.map (·.1)) l.continued = some (w', es, ends))
    (hw : holdL w = []) (hw' : holdL w' = []) :
    ∃ d', (procLine (absStack d w) l).1 = absStack d' w' ∧
      (procLine (absStack d w) l).2.1.toC = ({} : CBuf).addAll es ∧ (procLine (absStack d w) l).2.2 = ends ∧
      (ends = true → d' = false) := by
  unfold refLine at h
  cases hr : refChars w (l.chars.map (·.1)) with
  | none => simp [hr] at h
  | some r =>
    obtain ⟨w1, es1⟩ := r
    simp only [hr] at h
    obtain ⟨d1, ms, h1, h2, h3⟩ := chars_sim l.chars d w {} w1 es1 hr
    rw [hw, List.nil_append] at h3
    cases hc : l.continued with
    | true =>
      simp only [hc, if_true, Option.some.injEq, Prod.mk.injEq] at h
      obtain ⟨rfl, rfl, rfl⟩ := h
      rw [hw', List.append_nil] at h3
      subst h3
      refine ⟨d1, ?_, ?_, ?_, by simp⟩ <;> simp [procLine, hc, h1, h2, toC_empty]
    | false =>
      simp only [hc, Bool.false_eq_true, if_false] at h
      cases hn : refNewline w1 with
      | none => simp [hn] at h
      | some r2 =>
        obtain ⟨w2, es2, ends2⟩ := r2
        simp only [hn, Option.some.injEq, Prod.mk.injEq] at h
        obtain ⟨rfl, rfl, rfl⟩ := h
        rw [holdL_nil_of_refNewline hn, List.append_nil] at h3
        subst h3
        have hnl := newlineOK_each d1 w1
        simp only [newlineOK, hn] at hnl
        simp only [procLine, hc, Bool.not_false, Bool.true_and, h1]
        by_cases hcond : ((absStack d1 w1).head? != some Mode.blockC) = true
        · simp only [hcond, if_true, Bool.and_eq_true, beq_iff_eq] at hnl ⊢
          obtain ⟨⟨hst, hem⟩, hends⟩ := hnl
          refine ⟨_, hst, ?_, ?_, ?_⟩
          · rw [toC_addAll, h2, toC_empty, CBuf.addAll_append]
            have : (logicalNewline (absStack d1 w1)).2.map (render spacePart.1) = es2 := by
              rw [← hem]
              apply List.map_congr_left
              intro e he
              cases e with
              | sp => rfl
              | slash => rfl
              | cur =>
                exfalso
                revert he
                cases d1 <;> cases w1 <;> simp [absStack, logicalNewline]
            rw [this]
          · exact hends
          · intro he
            subst he
            have : w2 = DMode.code := by
              revert hn; cases w1 <;> simp [refNewline] <;> intro h _ <;> exact h.symm
            simp [this]
        · simp only [hcond, Bool.false_eq_true, if_false, Bool.and_eq_true, beq_iff_eq] at hnl ⊢
          obtain ⟨⟨rfl, rfl⟩, rfl⟩ := hnl
          exact ⟨d1, rfl, by rw [h2, toC_empty, List.append_nil], rfl, by simp⟩

end CbiVerif.CLexSim
