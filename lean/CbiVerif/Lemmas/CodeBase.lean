import CbiVerif.Lemmas.FS
import CbiVerif.Lemmas.WalkRoots
import Mathlib.Data.List.Nodup
/-! Helper lemmas for C09 / C15: `CodeBase.__contains__`, `__iter__` over the file-system model. -/
namespace CbiVerif.CB
open CbiVerif.Path CbiVerif.FS

/-- the fuel exceeds the length of every physical path (so fuel only runs out on a link loop) -/
def bigFuel (fs : FS) (n : Nat) : Prop := ∀ e ∈ keys fs, e.length + 2 ≤ n

/-- `start` of a physical directory is a physical directory -/
theorem dirPath_start (fs : FS) (cwd : Comps) (p : P) (h : dirPath fs cwd = true) : dirPath fs (start cwd p) = true :=
  start_dirPath fs cwd p h

/-- **key lemma**: for a spelling the OS resolves to `c`, `__contains__` is a function of `c` alone -/
theorem contains_of_namei (cfg : Cfg) (fs : FS) (n : Nat) (roots : List Comps) (cwd : Comps) (p : P) (c : Comps)
    (hcwd : dirPath fs cwd = true) (h : namei fs n (start cwd p) p.comps = .ok c) (hn : c.length + 2 ≤ n) :
    contains cfg fs n roots cwd p = .ok (isFileE (lstat fs c) && accepted cfg roots c) := by
  have hr := namei_realpath_ok fs n _ _ c h
  have hcan := namei_canon fs n _ _ c (dirPath_start fs cwd p hcwd) h
  have hst : stat fs n c = lstat fs c := by
    unfold stat; rw [namei_of_canon fs c n hcan hn]
  unfold contains
  rw [hr]
  simp only [hst]
  rcases canon_cases fs c hcan with hk | hk <;> rw [hk] <;> simp [isFileE]

/-- a spelling that runs into a link loop: `RuntimeError` (or `False` once D18 is repaired) -/
theorem contains_of_loop (cfg : Cfg) (fs : FS) (n : Nat) (roots : List Comps) (cwd : Comps) (p : P)
    (h : namei fs n (start cwd p) p.comps = .loop) :
    contains cfg fs n roots cwd p = if cfg.catchLoop then .ok false else .error .symlinkLoop := by
  unfold contains
  rw [namei_realpath_loop fs n _ _ h]

/-- membership of a canonical path, asked with that path -/
theorem contains_canon (cfg : Cfg) (fs : FS) (n : Nat) (roots : List Comps) (c : Comps)
    (hc : canon fs c = true) (hn : c.length + 2 ≤ n) :
    contains cfg fs n roots [] ⟨true, c⟩ = .ok (isFileE (lstat fs c) && accepted cfg roots c) :=
  contains_of_namei cfg fs n roots [] ⟨true, c⟩ c (dirPath_nil fs) (namei_of_canon fs c n hc hn) hn

/-- what `rglob` yields: an entry strictly below a directory root whose parent is reached through real directories -/
theorem mem_rglob (fs : FS) (root x : Comps) :
    x ∈ rglob fs root ↔
      isDirE (lstat fs root) = true ∧ x ∈ keys fs ∧ root <+: x ∧ root.length < x.length ∧
      allFrom fs isDirE root (x.drop root.length).dropLast = true := by
  unfold rglob
  split
  · rename_i hd
    simp only [List.mem_filter, Bool.and_eq_true, decide_eq_true_eq, List.isPrefixOf_iff_prefix, hd, true_and]
    constructor
    · rintro ⟨h1, ⟨h2, h3⟩, h4⟩; exact ⟨h1, h2, h3, h4⟩
    · rintro ⟨h1, h2, h3, h4⟩; exact ⟨h1, ⟨h2, h3⟩, h4⟩
  · rename_i hd
    simp [hd]

/-- in a well-formed file system the parent of an enumerated entry is a physical directory -/
theorem rglob_parent (fs : FS) (hwf : wf fs = true) (root x : Comps) (hx : x ∈ rglob fs root) :
    dirPath fs x.dropLast = true ∧ x ≠ [] ∧ name x ≠ ".." := by
  have hk := ((mem_rglob fs root x).mp hx).2.1
  have := wf_parent_dirPath fs hwf x hk
  exact ⟨this.1, wf_key_ne_nil fs hwf x hk, this.2⟩

/-! ## the membership specification (unfolded form of `C09.memberSpec`) -/

/-- the property's membership test on a physical path (`C09.memberSpec` is this, by `Iff.rfl`) -/
def isMember (cfg : Cfg) (fs : FS) (roots : List Comps) (c : Comps) : Prop :=
  lstat fs c = some .file ∧
  CbiVerif.Gen.sourceExts.contains (suffix (name c)) = true ∧
  ∃ root, roots.find? (fun d => d.isPrefixOf c) = some root ∧ cfg.ignored (c.drop root.length) = false

theorem accepted_iff (cfg : Cfg) (fs : FS) (roots : List Comps) (c : Comps) :
    (isFileE (lstat fs c) && accepted cfg roots c) = true ↔ isMember cfg fs roots c := by
  unfold isMember accepted recognised isRelativeTo relativeTo
  rw [Bool.and_eq_true, Bool.and_eq_true, isFileE_iff]
  constructor
  · rintro ⟨h1, h2, h3⟩
    refine ⟨h1, h2, ?_⟩
    cases hf : roots.find? (fun d => d.isPrefixOf c) with
    | none => simp [hf] at h3
    | some root => simp only [hf] at h3; exact ⟨root, rfl, by simpa using h3⟩
  · rintro ⟨h1, h2, root, hf, hi⟩
    refine ⟨h1, h2, ?_⟩
    simp [hf, hi]

/-- `C09.member_iff` in terms of `isMember` -/
theorem contains_true_iff (cfg : Cfg) (fs : FS) (n : Nat) (roots : List Comps) (cwd : Comps) (p : P) (c : Comps)
    (hcwd : dirPath fs cwd = true) (h : namei fs n (start cwd p) p.comps = .ok c) (hn : c.length + 2 ≤ n) :
    contains cfg fs n roots cwd p = .ok true ↔ isMember cfg fs roots c := by
  rw [contains_of_namei cfg fs n roots cwd p c hcwd h hn, ← accepted_iff]
  constructor
  · intro h; injection h
  · intro h; rw [h]

/-- what an affirmative answer of `__contains__` means in terms of the two walks -/
theorem contains_true_inv (cfg : Cfg) (fs : FS) (n : Nat) (roots : List Comps) (cwd : Comps) (p : P)
    (h : contains cfg fs n roots cwd p = .ok true) :
    ∃ r e, realpath fs n (start cwd p) p.comps = .ok r ∧ stat fs n r = some e ∧ e ≠ .dir ∧
      accepted cfg roots r = true := by
  unfold contains at h
  cases hr : realpath fs n (start cwd p) p.comps with
  | ok r =>
    simp only [hr] at h
    cases hs : stat fs n r with
    | none => simp [hs] at h
    | some e =>
      cases e with
      | dir => simp [hs] at h
      | file =>
        simp only [hs] at h
        exact ⟨r, .file, rfl, hs, by simp, by injection h⟩
      | link t =>
        simp only [hs] at h
        exact ⟨r, .link t, rfl, hs, by simp, by injection h⟩
  | enoent => simp only [hr] at h; split at h <;> simp at h
  | enotdir => simp only [hr] at h; split at h <;> simp at h
  | loop => simp only [hr] at h; split at h <;> simp at h

/-- the `realpath` of a member spelling is itself a member spelling: `path.resolve() in codebase` -/
theorem contains_resolve (cfg : Cfg) (fs : FS) (n : Nat) (roots : List Comps) (x : Comps)
    (hfuel : bigFuel fs n) (h : contains cfg fs n roots [] ⟨true, x⟩ = .ok true) :
    ∃ r, resolve fs n [] ⟨true, x⟩ = .ok r ∧ contains cfg fs n roots [] ⟨true, r⟩ = .ok true := by
  obtain ⟨r, e, hr, hs, hed, hacc⟩ := contains_true_inv cfg fs n roots [] ⟨true, x⟩ h
  have hs0 : start [] (⟨true, x⟩ : P) = [] := rfl
  simp only [hs0] at hr
  have hlf : linkFree fs r = true := realpath_linkFree fs n [] x r (linkFree_nil fs) hr
  -- `stat` succeeded, so the OS walk of `r` ends, and it ends at `r`
  have hlr : lstat fs r = some e := by
    unfold stat at hs
    cases hn : namei fs n [] r with
    | ok c' =>
      simp only [hn] at hs
      have := namei_linkFree_id fs r [] c' n hlf hn
      simp only [List.nil_append] at this
      rw [← this]; exact hs
    | enoent => simp [hn] at hs
    | enotdir => simp [hn] at hs
    | loop => simp [hn] at hs
  have hn1 : 1 ≤ n := by
    cases n with
    | zero => simp [realpath] at hr
    | succ k => omega
  have hlen : r.length + 1 ≤ n := by
    by_cases hne : r = []
    · subst hne; simpa using hn1
    · have := hfuel r (lstat_mem_keys fs r e hne hlr); omega
  have hrr : realpath fs n [] r = .ok r := realpath_of_linkFree fs r n hlf hlen
  refine ⟨r, ?_, ?_⟩
  · unfold resolve; simp only [hs0, hr]
  · unfold contains
    have hs1 : start [] (⟨true, r⟩ : P) = [] := rfl
    simp only [hs1, hrr, hs]
    cases e with
    | dir => exact absurd rfl hed
    | file => simp only [hacc]
    | link t => simp only [hacc]

/-! ## enumeration -/

theorem iter_ok (cfg : Cfg) (fs : FS) (n : Nat) (roots l : List Comps) (h : iter cfg fs n roots = .ok l) :
    l = (candidates fs roots).filter (fun x => isTrue (contains cfg fs n roots [] ⟨true, x⟩)) := by
  unfold iter at h
  simp only at h
  split at h
  · cases h
  · injection h with h; exact h.symm

theorem isTrue_iff (r : Except Err Bool) : isTrue r = true ↔ r = .ok true := by
  cases r with
  | error e => simp [isTrue]
  | ok b => cases b <;> simp [isTrue]

theorem mem_iter (cfg : Cfg) (fs : FS) (n : Nat) (roots l : List Comps) (h : iter cfg fs n roots = .ok l) (x : Comps) :
    x ∈ l ↔ (∃ root ∈ walkRoots roots, x ∈ rglob fs root) ∧ contains cfg fs n roots [] ⟨true, x⟩ = .ok true := by
  rw [iter_ok cfg fs n roots l h, List.mem_filter, isTrue_iff]
  unfold candidates
  rw [List.mem_flatMap]

theorem dirPath_isDir (fs : FS) (c : Comps) (h : dirPath fs c = true) : isDirE (lstat fs c) = true := by
  rcases eq_nil_or_snoc c with rfl | ⟨d, nm, rfl⟩
  · rw [lstat_nil]; rfl
  · rw [dirPath_snoc] at h; simp only [Bool.and_eq_true] at h; exact h.2.2

/-- every member's canonical path is enumerated, unless it is itself listed as a code-base "directory"
(`rglob` of a regular file yields nothing, while `is_relative_to` holds for the path itself) -/
theorem iter_complete' (cfg : Cfg) (fs : FS) (n : Nat) (roots l : List Comps) (c : Comps)
    (hwf : wf fs = true) (hfuel : bigFuel fs n) (h : iter cfg fs n roots = .ok l)
    (hcr : c ∉ roots)
    (hc : isMember cfg fs roots c) : c ∈ l := by
  obtain ⟨hfile, hext, root₀, hfind, hign⟩ := hc
  have hmem₀ : root₀ ∈ roots := List.mem_of_find?_eq_some hfind
  have hpre₀ : root₀ <+: c := List.isPrefixOf_iff_prefix.mp (List.find?_some (p := fun (d : Comps) => d.isPrefixOf c) hfind)
  -- the directory that is walked: the outermost listed directory around `root₀`
  obtain ⟨root, hwalk, hwr⟩ := exists_walkRoot' roots root₀ hmem₀
  have hmem : root ∈ roots := walkRoots_subset roots root hwalk
  have hpre : root <+: c := hwr.trans hpre₀
  have hne : c ≠ [] := by
    intro hE; subst hE; rw [lstat_nil] at hfile; cases hfile
  have hkey : c ∈ keys fs := lstat_mem_keys fs c _ hne hfile
  have hcan : canon fs c = true := wf_canon fs hwf c (Or.inr hfile)
  have hrc : root ≠ c := by
    intro hE; subst hE; exact hcr hmem
  obtain ⟨t, rfl⟩ := hpre
  have ht : t ≠ [] := by
    intro hE; subst hE; exact hrc (by simp)
  have hpar : dirPath fs (root ++ t).dropLast = true := (wf_parent_dirPath fs hwf _ hkey).1
  rw [List.dropLast_append_of_ne_nil ht] at hpar
  unfold dirPath at hpar
  rw [allFrom_append, Bool.and_eq_true, List.nil_append] at hpar
  have hin : root ++ t ∈ rglob fs root := by
    rw [mem_rglob]
    refine ⟨dirPath_isDir fs root hpar.1, hkey, List.prefix_append _ _, ?_, ?_⟩
    · have : 0 < t.length := List.length_pos_iff.mpr ht
      simp only [List.length_append]; omega
    · rw [List.drop_left]; exact hpar.2
  rw [mem_iter cfg fs n roots l h]
  refine ⟨⟨root, hwalk, hin⟩, ?_⟩
  rw [contains_canon cfg fs n roots _ hcan (hfuel _ hkey)]
  have : (isFileE (lstat fs (root ++ t)) && accepted cfg roots (root ++ t)) = true :=
    (accepted_iff cfg fs roots _).mpr ⟨hfile, hext, root₀, hfind, hign⟩
  rw [this]

theorem rglob_nodup (fs : FS) (hwf : wf fs = true) (root : Comps) : (rglob fs root).Nodup := by
  unfold rglob
  split
  · exact List.Nodup.filter _ (wf_keys_nodup fs hwf)
  · exact List.nodup_nil

/-- no entry is a candidate twice, whatever directories are listed (the walked ones never overlap) -/
theorem candidates_nodup (fs : FS) (hwf : wf fs = true) (roots : List Comps) : (candidates fs roots).Nodup := by
  unfold candidates
  rw [List.nodup_flatMap]
  refine ⟨fun r _ => rglob_nodup fs hwf r, ?_⟩
  refine List.Pairwise.imp ?_ (walkRoots_pairwise roots)
  intro a b hab x hxa hxb
  have ha := ((mem_rglob fs a x).mp hxa).2.2.1
  have hb := ((mem_rglob fs b x).mp hxb).2.2.1
  rcases List.prefix_or_prefix_of_prefix ha hb with hp | hp
  · exact hab.1 hp
  · exact hab.2 hp

theorem iter_nodup' (cfg : Cfg) (fs : FS) (n : Nat) (roots l : List Comps)
    (hwf : wf fs = true) (h : iter cfg fs n roots = .ok l) : l.Nodup := by
  rw [iter_ok cfg fs n roots l h]
  exact List.Nodup.filter _ (candidates_nodup fs hwf roots)

/-- the candidates of the unrepaired enumeration are free of repetitions only when the listed directories do not overlap -/
theorem candidatesUnrepaired_nodup (fs : FS) (hwf : wf fs = true) (roots : List Comps)
    (hroots : roots.Pairwise (fun a b => ¬ a <+: b ∧ ¬ b <+: a)) : (candidatesUnrepaired fs roots).Nodup := by
  unfold candidatesUnrepaired
  rw [List.nodup_flatMap]
  refine ⟨fun r _ => rglob_nodup fs hwf r, ?_⟩
  refine List.Pairwise.imp ?_ hroots
  intro a b hab x hxa hxb
  have ha := ((mem_rglob fs a x).mp hxa).2.2.1
  have hb := ((mem_rglob fs b x).mp hxb).2.2.1
  rcases List.prefix_or_prefix_of_prefix ha hb with hp | hp
  · exact hab.1 hp
  · exact hab.2 hp

/-- an entry below a listed directory is below the walked directory around it (well-formed file system: the
parents of an entry are real directories all the way up) -/
theorem rglob_outer (fs : FS) (hwf : wf fs = true) (w r x : Comps) (hwr : w <+: r) (hx : x ∈ rglob fs r) :
    x ∈ rglob fs w := by
  obtain ⟨_, hkey, hrx, hlen, _⟩ := (mem_rglob fs r x).mp hx
  have hwx : w <+: x := hwr.trans hrx
  have hwl : w.length < x.length := Nat.lt_of_le_of_lt hwr.length_le hlen
  obtain ⟨t, rfl⟩ := hwx
  have ht : t ≠ [] := by
    intro hE; subst hE; simp at hwl
  have hpar : dirPath fs (w ++ t).dropLast = true := (wf_parent_dirPath fs hwf _ hkey).1
  rw [List.dropLast_append_of_ne_nil ht] at hpar
  unfold dirPath at hpar
  rw [allFrom_append, Bool.and_eq_true, List.nil_append] at hpar
  rw [mem_rglob]
  refine ⟨dirPath_isDir fs w hpar.1, hkey, List.prefix_append _ _, hwl, ?_⟩
  rw [List.drop_left]; exact hpar.2

/-- the repair removes repetitions and nothing else: the same entries are candidates -/
theorem mem_candidates_iff (fs : FS) (hwf : wf fs = true) (roots : List Comps) (x : Comps) :
    x ∈ candidates fs roots ↔ x ∈ candidatesUnrepaired fs roots := by
  unfold candidates candidatesUnrepaired
  rw [List.mem_flatMap, List.mem_flatMap]
  constructor
  · rintro ⟨w, hw, hx⟩; exact ⟨w, walkRoots_subset roots w hw, hx⟩
  · rintro ⟨r, hr, hx⟩
    obtain ⟨w, hw, hwr⟩ := exists_walkRoot' roots r hr
    exact ⟨w, hw, rglob_outer fs hwf w r x hwr hx⟩

/-- the candidates are the same, up to order, for every order of the listed directories -/
theorem candidates_perm (fs : FS) (r₁ r₂ : List Comps) (h : r₁.Perm r₂) :
    (candidates fs r₁).Perm (candidates fs r₂) := by
  unfold candidates
  exact (walkRoots_perm r₁ r₂ h).flatMap_right _

/-- an enumerated path is the canonical path of a member, or a symbolic link that resolves to a member,
or a link whose text the OS does not resolve although `realpath` arrives at something that exists -/
theorem iter_cases (cfg : Cfg) (fs : FS) (n : Nat) (roots l : List Comps) (x : Comps)
    (hwf : wf fs = true) (hfuel : bigFuel fs n) (h : iter cfg fs n roots = .ok l) (hx : x ∈ l) :
    (lstat fs x = some .file ∧ isMember cfg fs roots x) ∨
    (∃ t c, lstat fs x = some (.link t) ∧ namei fs n [] x = .ok c ∧ isMember cfg fs roots c) ∨
    (∃ t, lstat fs x = some (.link t) ∧
      (namei fs n [] x = .enoent ∨ namei fs n [] x = .enotdir) ∧
      ∃ r, realpath fs n [] x = .ok r ∧ stat fs n r ≠ none) := by
  obtain ⟨⟨root, _, hxr⟩, hct⟩ := (mem_iter cfg fs n roots l h x).mp hx
  have hkey : x ∈ keys fs := ((mem_rglob fs root x).mp hxr).2.1
  obtain ⟨hpar, hne, hnm⟩ := rglob_parent fs hwf root x hxr
  have hxn : x.length + 2 ≤ n := hfuel x hkey
  obtain ⟨e, he⟩ := mem_keys_lstat fs x hkey hne
  cases e with
  | file =>
    left
    have hcan := wf_canon fs hwf x (Or.inr he)
    rw [contains_canon cfg fs n roots x hcan hxn] at hct
    refine ⟨he, (accepted_iff cfg fs roots x).mp ?_⟩
    injection hct
  | dir =>
    exfalso
    have hcan := wf_canon fs hwf x (Or.inl he)
    rw [contains_canon cfg fs n roots x hcan hxn, he] at hct
    simp [isFileE] at hct
  | link t =>
    right
    have hs0 : start [] (⟨true, x⟩ : P) = [] := rfl
    cases hn : namei fs n [] x with
    | ok c =>
      left
      have hcan := namei_canon fs n [] x c (dirPath_nil fs) hn
      have hcn : c.length + 2 ≤ n := by
        by_cases hc0 : c = []
        · subst hc0; simp only [List.length_nil]; omega
        · rcases canon_cases fs c hcan with hk | hk
          · exact hfuel c (lstat_mem_keys fs c _ hc0 hk)
          · exact hfuel c (lstat_mem_keys fs c _ hc0 hk)
      have := (contains_true_iff cfg fs n roots [] ⟨true, x⟩ c (dirPath_nil fs) (by rw [hs0]; exact hn) hcn).mp hct
      exact ⟨t, c, he, rfl, this⟩
    | loop =>
      exfalso
      rw [contains_of_loop cfg fs n roots [] ⟨true, x⟩ (by rw [hs0]; exact hn)] at hct
      split at hct <;> simp at hct
    | enoent =>
      right
      obtain ⟨r, e, hr, hs, _, _⟩ := contains_true_inv cfg fs n roots [] ⟨true, x⟩ hct
      exact ⟨t, he, Or.inl rfl, r, hr, by rw [hs]; simp⟩
    | enotdir =>
      right
      obtain ⟨r, e, hr, hs, _, _⟩ := contains_true_inv cfg fs n roots [] ⟨true, x⟩ hct
      exact ⟨t, he, Or.inr rfl, r, hr, by rw [hs]; simp⟩

/-- an enumerated symbolic link is skipped by `get_setmap`; so `skipped` and `is_symlink` agree on the enumeration -/
theorem skipped_eq_isSymlink (cfg : Cfg) (fs : FS) (n : Nat) (roots l : List Comps) (x : Comps)
    (hfuel : bigFuel fs n) (h : iter cfg fs n roots = .ok l) (hx : x ∈ l) :
    skipped cfg fs n roots x = isSymlink fs x := by
  have hct := ((mem_iter cfg fs n roots l h x).mp hx).2
  obtain ⟨r, hr, hcr⟩ := contains_resolve cfg fs n roots x hfuel hct
  unfold skipped
  rw [hr]
  simp only [hcr, isTrue, Bool.and_true]

/-! ## the parse cache -/

theorem insertFile_inv (fs : FS) (n : Nat) (cwd : Comps) (hcwd : linkFree fs cwd = true) (cache : List Comps) (p : P)
    (hnd : cache.Nodup) (hlf : ∀ k ∈ cache, linkFree fs k = true) :
    (insertFile fs n cwd cache p).Nodup ∧ (∀ k ∈ insertFile fs n cwd cache p, linkFree fs k = true) ∧
    (∀ k ∈ cache, k ∈ insertFile fs n cwd cache p) ∧
    (∀ c, realpath fs n (start cwd p) p.comps = .ok c → c ∈ insertFile fs n cwd cache p) := by
  unfold insertFile
  cases hr : realpath fs n (start cwd p) p.comps with
  | ok r =>
    simp only
    have hrl := realpath_linkFree fs n _ _ r (start_linkFree fs cwd p hcwd) hr
    by_cases hin : r ∈ cache
    · have hc : cache.contains r = true := by simpa using hin
      simp only [hc, if_true]
      refine ⟨hnd, hlf, fun k hk => hk, ?_⟩
      intro c hc'; injection hc' with hc'; subst hc'; exact hin
    · have hc : cache.contains r = false := by simpa using hin
      simp only [hc, Bool.false_eq_true, if_false]
      refine ⟨?_, ?_, ?_, ?_⟩
      · rw [List.nodup_append]
        refine ⟨hnd, List.nodup_singleton r, ?_⟩
        intro a ha b hb hab
        simp only [List.mem_singleton] at hb
        subst hb; subst hab; exact hin ha
      · intro k hk
        rcases List.mem_append.mp hk with hk | hk
        · exact hlf k hk
        · simp only [List.mem_singleton] at hk; subst hk; exact hrl
      · intro k hk; exact List.mem_append_left _ hk
      · intro c hc'; injection hc' with hc'; subst hc'; simp
  | enoent => simp only; exact ⟨hnd, hlf, fun k hk => hk, fun c hc => by cases hc⟩
  | enotdir => simp only; exact ⟨hnd, hlf, fun k hk => hk, fun c hc => by cases hc⟩
  | loop => simp only; exact ⟨hnd, hlf, fun k hk => hk, fun c hc => by cases hc⟩

theorem insertFiles_inv (fs : FS) (n : Nat) (cwd : Comps) (hcwd : linkFree fs cwd = true) :
    ∀ (ps : List P) (cache : List Comps), cache.Nodup → (∀ k ∈ cache, linkFree fs k = true) →
    (insertFiles fs n cwd cache ps).Nodup ∧ (∀ k ∈ insertFiles fs n cwd cache ps, linkFree fs k = true) ∧
    (∀ k ∈ cache, k ∈ insertFiles fs n cwd cache ps) ∧
    (∀ p ∈ ps, ∀ c, realpath fs n (start cwd p) p.comps = .ok c → c ∈ insertFiles fs n cwd cache ps) := by
  intro ps
  induction ps with
  | nil =>
    intro cache hnd hlf
    exact ⟨hnd, hlf, fun k hk => hk, fun p hp => by cases hp⟩
  | cons p ps ih =>
    intro cache hnd hlf
    obtain ⟨h1, h2, h3, h4⟩ := insertFile_inv fs n cwd hcwd cache p hnd hlf
    obtain ⟨i1, i2, i3, i4⟩ := ih (insertFile fs n cwd cache p) h1 h2
    have hunf : insertFiles fs n cwd cache (p :: ps) = insertFiles fs n cwd (insertFile fs n cwd cache p) ps := rfl
    rw [hunf]
    refine ⟨i1, i2, fun k hk => i3 k (h3 k hk), ?_⟩
    intro q hq c hc
    rcases List.mem_cons.mp hq with hq | hq
    · subst hq; exact i3 c (h4 c hc)
    · exact i4 q hq c hc

end CbiVerif.CB
