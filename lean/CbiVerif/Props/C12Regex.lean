import CbiVerif.Lemmas.CompilersRe
import CbiVerif.Lemmas.Compilers
import CbiVerif.Generated.Compilers
/-!
# C12 — the regular-expression matching of `_ExtendMatchAction` inside the model

`Model/Regex.lean` is the matcher the native driver executes for `re.findall(pattern, value)`
(`Model/CompilersRe.lean: findallFor / computeFor / emulateRe`).  Termination is by construction: every function
of the matcher, the scan and the parser is defined by structural recursion (on the expression, on the text, or
on an explicit fuel bounded by the text length) — there is no `partial`, no well-founded recursion.

Proved here:
* soundness of the back-tracking matcher with respect to the declarative language `Regex.Match` (`Spec/Regex.lean`);
* the `findall` scan reports matches of that language that lie inside the text, in order, without overlap;
* a metacharacter-free pattern finds exactly the leftmost non-overlapping occurrences (`findall_literal`);
* the closed form of the shipped nvcc architecture pattern on EVERY value (`nvcc_findall_closed_form`), its values
  on option values of the documented shapes, and that the regenerated built-in table still carries that rule.

Not proved HERE: completeness / priority-exactness of the matcher for arbitrary expressions (`MatcherComplete` below)
— proved in `Props/C12RegexComplete.lean` (`matcher_complete`, `matcher_priority_exact_partial`, `findallStr_eq_spec`);
the pattern parser is tied to CPython by differential testing (`parse_literal`, `parse_roundtrip_partial`,
`parse_in_fragment` there; for the shipped pattern `nvcc_pattern_parses` is a kernel evaluation).
-/
namespace CbiVerif.C12
open CbiVerif.Regex CbiVerif.Compilers CbiVerif.Gen.Compilers

/-! ## soundness -/

/-- every match attempt that succeeds reports a match of the language of the expression (and, after an empty
    match at the same place, a non-empty one) -/
theorem matcher_sound (r : Re) (adv : Bool) (s s' : List Char) (caps : Caps) (h : matchAt r adv s = some (s', caps)) :
    Match r s s' ∧ (∃ w, s = w ++ s') ∧ (adv = true → s'.length ≠ s.length) :=
  ⟨(matchAt_sound r adv s s' caps h).1, (matchAt_sound r adv s s' caps h).1.suffix, (matchAt_sound r adv s s' caps h).2⟩

/-- the general form, for any continuation: a success of `matchRe` factors through a match of the language -/
theorem matchRe_factors {R : Type} (r : Re) (s : List Char) (caps : Caps) (k : Cont R) (x : R)
    (h : matchRe r s caps k = some x) : ∃ s' caps', Match r s s' ∧ k s' caps' = some x :=
  matchRe_sound r s caps k x h

example : matchAt (.seq (.chr 'a') (.star (.chr 'b'))) false "abbc".toList = some (['c'], []) := by decide

/-- every match reported by `findall` lies inside the text, is the text at its position, and is a match of the
    language of the expression -/
theorem findall_hits_sound (r : Re) (s : List Char) (h : Hit) (hh : h ∈ hits r s) :
    h.start + h.text.length ≤ s.length ∧ h.text = (s.drop h.start).take h.text.length ∧
      Match r (s.drop h.start) (s.drop (h.start + h.text.length)) := by
  obtain ⟨k, h1, h2, h3, h4⟩ := scan_sound r _ 0 s false h hh
  have : h.start = k := by omega
  rw [this]; exact ⟨h2, h3, h4⟩

/-- the matches are reported left to right and do not overlap -/
theorem findall_hits_ordered (r : Re) (s : List Char) :
    List.Pairwise (fun a b : Hit => a.start + a.text.length ≤ b.start) (hits r s) :=
  scan_ordered r _ 0 s false

example : (hits (.plus (.cls false [.digit])) "a12b345".toList).map (fun h => (h.start, String.ofList h.text)) =
    [(1, "12"), (4, "345")] := by decide

/-- the matcher finds a match whenever the language has one at that position.  Proved for every expression in
    `Props/C12RegexComplete.lean` (`matcher_complete`); instances proved here: `findall_literal`, `nvcc_findall_closed_form`. -/
def MatcherComplete : Prop :=
  ∀ (r : Re) (s s' : List Char), Match r s s' → (matchAt r false s).isSome = true

/-! ## literal patterns -/

/-- a metacharacter-free, non-empty pattern `p`: `findall` reports exactly the occurrences of `p` found by the
    leftmost, non-overlapping scan (`scanWith` with "the text starts with `p`"), each as the text `p` -/
theorem findall_literal (p : List Char) (hp : p ≠ []) (s : List Char) :
    hits (lit p) s = scanWith (fun t => (stripPrefix p t).map fun rest => (rest, [])) (2 * s.length + 3) 0 s :=
  scan_congr (lit p) _ (fun adv t => matchAt_lit p hp adv t) _ 0 s false

theorem findall_literal_fields (p : List Char) (hp : p ≠ []) (s : List Char) :
    findall (lit p) 0 s =
      (scanWith (fun t => (stripPrefix p t).map fun rest => (rest, [])) (2 * s.length + 3) 0 s).map fun h => [h.text] := by
  simp only [findall, findall_literal p hp s]; rfl

example : ("ab".toList ≠ []) ∧ (hits (lit "ab".toList) "abxababab".toList).map (fun h => (h.start, String.ofList h.text)) =
    [(0, "ab"), (3, "ab"), (5, "ab"), (7, "ab")] := by decide
/-- overlapping candidates: `aa` in `aaaaa` is found at 0 and 2 only -/
example : (hits (lit "aa".toList) "aaaaa".toList).map (·.start) = [0, 2] := by decide
/-- the parser maps a metacharacter-free pattern to `lit` -/
example : parse "sm_80" = .ok (lit "sm_80".toList, 0) := by decide

/-! ## the shipped nvcc architecture rule: `pattern = '(?:sm_|compute_)(\d+)'`, `format = "sm_$value"` -/

def nvccPattern : String := "(?:sm_|compute_)(\\d+)"

theorem nvcc_pattern_parses : parse nvccPattern = .ok (nvRe, 1) := by decide

/-- one match attempt with the shipped pattern, at every text: an architecture name `sm_N` / `compute_N` -/
theorem nvcc_match_closed_form (adv : Bool) (s : List Char) :
    matchAt nvRe adv s = (nvAt s).map fun (dr : List Char × List Char) => (dr.2, [(1, dr.1)]) :=
  matchAt_nv adv s

/-- `re.findall('(?:sm_|compute_)(\d+)', v)` for EVERY value `v`: the architecture numbers named in `v`, left to
    right (`nvArchs`: the leftmost non-overlapping scan for `sm_`/`compute_` followed by a non-empty digit run) -/
theorem nvcc_findall_closed_form (v : String) :
    findallFor nvccPattern v = some ((nvArchs v.toList).map String.ofList) := by
  have hscan := scan_congr nvRe _ (fun adv t => matchAt_nv adv t) (2 * v.toList.length + 3) 0 v.toList false
  simp only [findallFor, nvcc_pattern_parses, findall, hits, hscan, nvArchs, List.map_map]
  simp only [Nat.le_refl, if_true]
  congr 1

/-- shapes of documented option values -/
theorem nvAt_sm (d rest : List Char) (c : Char) (d' : List Char) (hd : d = c :: d') (hdig : d.all Char.isDigit = true)
    (hrest : match rest with | [] => True | x :: _ => x.isDigit = false) :
    nvAt ("sm_".toList ++ d ++ rest) = some (d, rest) ∧ nvAt ("compute_".toList ++ d ++ rest) = some (d, rest) := by
  have hall : ∀ x ∈ d, x.isDigit = true := by simpa using hdig
  have htw : (d ++ rest).takeWhile Char.isDigit = d ∧ (d ++ rest).dropWhile Char.isDigit = rest := by
    clear hd
    induction d with
    | nil =>
      cases rest with
      | nil => simp
      | cons x t => simp only at hrest; simp [hrest]
    | cons a t ih =>
      have ha : a.isDigit = true := hall a (by simp)
      have hall' : ∀ x ∈ t, x.isDigit = true := fun x hx => hall x (by simp [hx])
      have := ih (by simpa using hall') hall'
      simp [ha, this.1, this.2]
  have hc : c.isDigit = true := hall c (by simp [hd])
  have hda : digitsAt (d ++ rest) = some (d, rest) := by
    have e : d ++ rest = c :: (d' ++ rest) := by simp [hd]
    simp only [digitsAt]
    rw [e] at htw ⊢
    simp only [hc, if_true, htw.1, htw.2]
  constructor
  · simp only [nvAt, List.append_assoc]
    have : stripPrefix "sm_".toList ("sm_".toList ++ (d ++ rest)) = some (d ++ rest) := by
      simp [stripPrefix]
    simp only [this, hda]
  · simp only [nvAt, List.append_assoc]
    have h1 : stripPrefix "sm_".toList ("compute_".toList ++ (d ++ rest)) = none := by
      simp [stripPrefix]
    have h2 : stripPrefix "compute_".toList ("compute_".toList ++ (d ++ rest)) = some (d ++ rest) := by
      simp [stripPrefix]
    simp only [h1, h2, hda]

example : nvAt "sm_80,sm_70".toList = some ("80".toList, ",sm_70".toList) := by decide

/-- no architecture name starts with a character other than `s` / `c` -/
theorem nvAt_other (c : Char) (t : List Char) (h1 : c ≠ 's') (h2 : c ≠ 'c') : nvAt (c :: t) = none := by
  have e1 : (c == 's') = false := by simpa using h1
  have e2 : (c == 'c') = false := by simpa using h2
  simp [nvAt, stripPrefix, e1, e2]

example : findallFor nvccPattern "sm_80" = some ["80"] := by decide
example : findallFor nvccPattern "arch=compute_80,code=sm_80" = some ["80", "80"] := by decide
example : findallFor nvccPattern "arch=compute_80,code=[sm_80,sm_90]" = some ["80", "80", "90"] := by decide
example : findallFor nvccPattern "sm_,compute,lto_80,sm_9a" = some ["9"] := by decide
example : findallFor nvccPattern "native" = some [] := by decide

/-- the regenerated built-in table still carries the rule the closed form is about (an edit of the shipped
    pattern breaks this proof: the check then reports it and looks for a command line that shows the difference) -/
theorem builtin_nvcc_rule :
    (match resolve (loadCompilers builtinFiles .absent).1 "nvcc" with
      | .found c => ["--gpu-architecture"].map fun f => (patternOf c.parser f)
      | _ => []) = [some nvccPattern] := by decide

/-- hence, for every value `v` of nvcc's architecture flags, the model computes the closed form -/
theorem builtin_nvcc_computes (c : Compiler) (hc : resolve (loadCompilers builtinFiles .absent).1 "nvcc" = .found c) (v : String) :
    computeFor c.parser "--gpu-architecture" v = some ((nvArchs v.toList).map String.ofList) := by
  have h := builtin_nvcc_rule
  rw [hc] at h
  have hp : patternOf c.parser "--gpu-architecture" = some nvccPattern := by simpa using h
  simp only [computeFor, hp, nvcc_findall_closed_form]

example : ∃ c, resolve (loadCompilers builtinFiles .absent).1 "nvcc" = .found c := by
  cases h : resolve (loadCompilers builtinFiles .absent).1 "nvcc" with
  | found c => exact ⟨c, rfl⟩
  | notRecognized => exact absurd h (by decide)
  | loop => exact absurd h (by decide)
  | unknownTarget a => have : (match resolve (loadCompilers builtinFiles .absent).1 "nvcc" with | .found _ => true | _ => false) = true := by decide
                       rw [h] at this; exact absurd this (by simp)

/-! ## patterns outside the fragment are refused, never guessed -/
example : (parse "^sm_(\\d+)").toOption = none ∧ (parse "a{2}").toOption = none ∧ (parse "a*?").toOption = none ∧
    (parse "(a*)*").toOption = none ∧ (parse "\\bsm").toOption = none ∧ (parse "(a)\\1").toOption = none ∧
    (parse "(?i)a").toOption = none := by decide

/-! ## Python's `findall` conventions on small cases (kernel evaluations) -/
example : findallStr "a*" "baac" = .ok [[""], ["aa"], [""], [""]] := by decide
example : findallStr "(a)|b" "ab" = .ok [["a"], [""]] := by decide
example : findallStr "(\\w+)=(\\d+)" "x=1,yy=22" = .ok [["x", "1"], ["yy", "22"]] := by decide
example : findallStr "[a-z]+\\d*" "sm_80,x1" = .ok [["sm"], ["x1"]] := by decide
example : findallStr "a$" "aa\n" = .ok [["a"]] := by decide

end CbiVerif.C12
