import CbiVerif.Props.C11Full
import CbiVerif.Lemmas.ArgvExtras
/-! # C11 (full parser) — the extras list and `namespace.file` are exactly the unrecognised arguments / operands

`C11Full.ExtrasAreExactlyUnrecognised` (the full statement left open in `Props/C11Full.lean`) is proved here:
`extras_are_exactly_unrecognised`.  The proof goes through

* `ArgvExtras.link_single` — per argument in flag position of a command line without recorded shapes, the class
  the parser model gives it (`Argparse.classify`, the class inside the token of `ArgparseFull.tokenize`) and the
  shape the reference reading gives it (`Unrecognised.shape`) say the same (`ArgvExtras.Link`);
* `ArgvExtras.sweep_scanU` — the one-pass form of the full model (`ArgvSweep.sweep`, proved equal to the index
  loop in `Lemmas/ArgvSweep.lean`) and `Unrecognised.scanU` stay in step;
* `C11Full.main_full` — the full model does not abort on a tame command line.

The objects are the ones the driver executes (`ArgparseFull.fullModel`, op `c11full`; `Unrecognised.leftover`,
the `leftover` oracle of `harness/props/c11.py`). -/
namespace CbiVerif.C11Extras
open CbiVerif.Argparse CbiVerif.ArgparseFull CbiVerif.Extract CbiVerif.ArgvLemmas CbiVerif.C11Full

/-- the per-argument link, in words a reader can check against `Unrecognised.shape`: an argument in flag position
that is not a separate-form flag and has none of the recorded shapes is, for the parser model,
a positional exactly when the reference reading calls it an operand, an unknown option string exactly when the
reference calls it unrecognised, a bare `-O`/`-g`/`-c` exactly when …, and so on (`ArgvExtras.Link`). -/
theorem classification_is_reference_shape (a : List Char) (h1 : takesValue a = false) (h2 : tagsOf1 a = []) :
    ArgvExtras.Link (classify table a) (Unrecognised.shape a) false := by
  rw [table_eq]; exact ArgvExtras.link_single a h1 h2

example : takesValue "-Wall".toList = false ∧ tagsOf1 "-Wall".toList = [] ∧
    classify table "-Wall".toList = .unknown ∧ Unrecognised.shape "-Wall".toList = .unknownOpt ∧
    classify table "-1.5".toList = .positional ∧ Unrecognised.shape "-1.5".toList = .operand ∧
    classify table "-x y".toList = .positional ∧ Unrecognised.shape "-x y".toList = .operand := by decide

/-- **extras_are_exactly_unrecognised** — on every tame command line the full parser model does not abort, its
extras list is exactly the unrecognised arguments and its `file` exactly the first run of operands, as the
reference reading `Unrecognised.leftover` lists them, in command-line order. -/
theorem extras_are_exactly_unrecognised : ExtrasAreExactlyUnrecognised := by
  intro argv h
  obtain ⟨r, hr, _⟩ := main_full argv h
  refine ⟨r, hr, ?_⟩
  -- the up-front pass succeeds, since the model does not abort
  have hp : parseFull table argv = .ok r := by
    have := hr
    unfold fullModel at this
    rw [settings_ok] at this
    simpa using this
  cases ht : tokenize table argv with
  | error e => simp [parseFull, ht] at hp
  | ok toks =>
    have hsw := extras_are_exactly_unrecognised_partial argv toks ht
    rw [hr] at hsw
    rw [table_eq] at ht
    exact ArgvExtras.sweep_scanU argv .idle .none false ⟨{}, .pending, []⟩ .pending {} toks r
      ArgvExtras.WR.idle h ArgvExtras.FR.pending rfl ht hsw.symm

/-- the same, as one equation about the two observable lists -/
theorem extras_and_file_eq (argv : Argv) (h : Tame argv) :
    (fullModel argv).map (fun r => (r.file, r.extras)) =
      .ok ((Unrecognised.leftover argv).file, (Unrecognised.leftover argv).extras) := by
  obtain ⟨r, hr, he, hf⟩ := extras_are_exactly_unrecognised argv h
  rw [hr]; simp [Except.map, he, hf]

/-- non-vacuity, and what both sides are on a realistic line -/
example :
    let argv : Argv := ["a.c".toList, "-".toList, "-O2".toList, "-Wall".toList, "-DA=1".toList, "-U".toList, "A".toList,
      "-MF".toList, "x.d".toList, "-c".toList, "main.c".toList, "-o".toList, "out.o".toList, "b.c".toList, "-1".toList,
      "--weird x".toList, "-g".toList, "-fPIC".toList]
    Tame argv ∧
    (Unrecognised.leftover argv).file = ["a.c".toList, "-".toList] ∧
    (Unrecognised.leftover argv).extras =
      ["-Wall".toList, "-MF".toList, "x.d".toList, "b.c".toList, "-1".toList, "--weird x".toList, "-fPIC".toList] := by
  decide

/-- the hypothesis is needed: with `--` (class D23) the parser's extras differ from the reference reading -/
example :
    let argv : Argv := ["x.c".toList, "-DA".toList, "--".toList, "-DB".toList]
    ¬ Tame argv ∧ (fullModel argv).map (fun r => r.extras) ≠ .ok (Unrecognised.leftover argv).extras := by
  decide

/-! ### a tame command line does not end, and no prefix that the property reads as complete ends, inside a
flag/value pair -/

/-- **tame_waits_for_no_value** — after a tame command line no option is waiting for its required argument
(the hypothesis `waitsForValue xs = false` of `positionals_never_disturb` holds for every tame prefix). -/
theorem tame_waits_for_no_value (xs : Argv) (h : Tame xs) : waitsForValue xs = false := by
  have hrun := run_eq_scan xs .idle none false {} .idle h
  have h0 : toCfg {} = ({} : Cfg) := rfl
  rw [h0] at hrun
  have happ := ArgvPositional.run_append T xs [] .idle {}
  rw [List.append_nil, hrun] at happ
  unfold waitsForValue
  rw [table_eq]
  cases hs : stateAfter T .idle {} xs with
  | error e => rfl
  | ok q =>
    obtain ⟨p, c⟩ := q
    rw [hs] at happ
    cases p <;> simp [run, finish] at happ <;> rfl

example : Tame ["-DA".toList, "-o".toList, "x".toList] ∧ waitsForValue ["-DA".toList, "-o".toList, "x".toList] = false ∧
    ¬ Tame ["-DA".toList, "-o".toList] ∧ waitsForValue ["-DA".toList, "-o".toList] = true := by decide

/-- hence: into a tame command line positionals may be inserted **at its end or after any tame prefix** without
changing the four value lists -/
theorem positionals_after_tame_prefix (xs ps ys : Argv) (hps : ∀ p ∈ ps, plainPositional p = true) (h : Tame xs) :
    (fullModel (xs ++ ps ++ ys)).map FResult.cfg = (fullModel (xs ++ ys)).map FResult.cfg :=
  positionals_never_disturb xs ps ys hps (tame_waits_for_no_value xs h)

end CbiVerif.C11Extras
