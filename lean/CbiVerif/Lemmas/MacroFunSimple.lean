import CbiVerif.Lemmas.MacroFunSim
import CbiVerif.Lemmas.MacroFunCongr
/-! # C03, function-like fragment, the *syntactic* sub-fragment "simple"

`SimpleTbl`: function-like macros without `#` / `##` / variadic parameters, keyed by their own name, and no replacement list
contains `defined` or the name of a function-like macro.  `simpleText`: every function-like macro name in the text is followed,
in the text, either by a complete call with enough arguments whose arguments contain no macro name and no `defined`, or by a
token other than `(` (not a call).

For such inputs the dynamic conditions of the general theorem hold with nesting budget `|tbl| + 1`, and the iteration bound is
the closed form `|ts| * Cb (bodyMax tbl) (|tbl| + 1)` that `fuelFor` grants (`simple_fits`). -/
namespace CbiVerif.MX
open CbiVerif.PP

/-- a token that macro expansion leaves alone: not `defined`, not the name of a macro -/
def Inert (tbl : Table) (t : Tok) : Prop := t.text ≠ "defined" ∧ (t.kind = .ident → tbl.get t.text = none)

/-- a token that is not `defined` and not the name of a function-like macro -/
def ObjTok (tbl : Table) (t : Tok) : Prop := t.text ≠ "defined" ∧ (t.kind = .ident → ∀ m, tbl.get t.text = some m → m.args = none)

theorem Inert.obj {tbl : Table} {t : Tok} (h : Inert tbl t) : ObjTok tbl t :=
  ⟨h.1, fun hk m hm => by rw [h.2 hk] at hm; cases hm⟩

structure SimpleTbl (tbl : Table) : Prop where
  funTbl : FunTbl tbl
  named : ∀ n m, tbl.get n = some m → m.name = n
  bodies : ∀ n m, tbl.get n = some m → ∀ t ∈ m.replacement, ObjTok tbl t

def inertb (tbl : Table) (t : Tok) : Bool := t.text != "defined" && (t.kind != .ident || (tbl.get t.text).isNone)

def objTokb (tbl : Table) (t : Tok) : Bool :=
  t.text != "defined" && (t.kind != .ident || match tbl.get t.text with | some m => m.args.isNone | none => true)

theorem inert_of_check (tbl : Table) (t : Tok) (h : inertb tbl t = true) : Inert tbl t := by
  simp only [inertb, Bool.and_eq_true, Bool.or_eq_true, bne_iff_ne, ne_eq, Option.isNone_iff_eq_none] at h
  refine ⟨h.1, fun hk => ?_⟩
  rcases h.2 with h2 | h2
  · exact absurd hk h2
  · exact h2

theorem objTok_of_check (tbl : Table) (t : Tok) (h : objTokb tbl t = true) : ObjTok tbl t := by
  simp only [objTokb, Bool.and_eq_true, Bool.or_eq_true, bne_iff_ne, ne_eq] at h
  refine ⟨h.1, fun hk m hm => ?_⟩
  rcases h.2 with h2 | h2
  · exact absurd hk h2
  · simpa [hm] using h2

/-- the text side of the simple fragment (inner scan; the `Nat` bounds the length) -/
def simpleScan (tbl : Table) : Nat → List Tok → Bool
  | 0, ts => ts.isEmpty
  | _ + 1, [] => true
  | n + 1, t :: ts =>
    t.text != "defined" &&
    (if t.kind != .ident then simpleScan tbl n ts
     else
       match tbl.get t.text with
       | none => simpleScan tbl n ts
       | some m =>
         match m.args with
         | none => simpleScan tbl n ts
         | some ps =>
           t.expandable &&
           (match callOf ts with
            | none => (match ts with | x :: _ => dtext x != "(" | [] => false) && simpleScan tbl n ts
            | some (args, rest) =>
              decide (ps.length ≤ args.length) && args.all (fun a => a.all (inertb tbl)) && simpleScan tbl n rest))

/-- **the simple fragment, text side** -/
def simpleText (tbl : Table) (ts : List Tok) : Bool := simpleScan tbl ts.length ts

def simpleTblb (tbl : Table) : Bool :=
  funTblb tbl && tbl.all (fun e => e.2.name == e.1) && tbl.all (fun e => e.2.replacement.all (objTokb tbl))

theorem get_mem (tbl : Table) (n : String) (m : Macro) (h : tbl.get n = some m) : ∃ e ∈ tbl, e.2 = m ∧ e.1 = n := by
  unfold Table.get at h
  cases hf : tbl.find? (·.1 == n) with
  | none => simp [hf] at h
  | some e =>
    have hmem := List.mem_of_find?_eq_some hf
    have hp := List.find?_some hf
    simp [hf] at h
    exact ⟨e, hmem, h, by simpa using hp⟩

theorem simpleTbl_of_check (tbl : Table) (h : simpleTblb tbl = true) : SimpleTbl tbl := by
  simp only [simpleTblb, Bool.and_eq_true] at h
  obtain ⟨⟨h1, h2⟩, h3⟩ := h
  refine ⟨funTbl_of_check tbl h1, ?_, ?_⟩
  · intro n m hm
    obtain ⟨e, he, rfl, rfl⟩ := get_mem tbl n m hm
    simpa using (List.all_eq_true.mp h2) e he
  · intro n m hm t ht
    obtain ⟨e, he, rfl, rfl⟩ := get_mem tbl n m hm
    exact objTok_of_check tbl t ((List.all_eq_true.mp ((List.all_eq_true.mp h3) e he)) t ht)

/-! ## inert lists: the scan copies them (painting disabled names), one iteration per token -/
theorem paint_inert (tbl : Table) (t : Tok) (h : Inert tbl t) : Inert tbl (paint t) := h

theorem inert_scan (tbl : Table) (ex : NoExp → List Tok → List Tok) (fit : NoExp → List Tok → Bool) (cost : NoExp → List Tok → Nat) :
    ∀ (n : Nat) (D : NoExp) (ts : List Tok), ts.length ≤ n → (∀ t ∈ ts, Inert tbl t) →
      scanFit tbl ex fit n D ts = true ∧ scanCost tbl ex cost n D ts = ts.length ∧
      (scanRef tbl ex n D ts).length = ts.length ∧ ∀ t ∈ scanRef tbl ex n D ts, Inert tbl t := by
  intro n
  induction n with
  | zero =>
    intro D ts hn _
    have : ts = [] := by cases ts with | nil => rfl | cons a as => simp at hn
    subst this
    simp [scanFit, scanCost, scanRef]
  | succ n ih =>
    intro D ts hn hin
    cases ts with
    | nil => simp [scanFit, scanCost, scanRef]
    | cons a as =>
      have hn' : as.length ≤ n := by simp at hn; omega
      obtain ⟨i1, i2, i3, i4⟩ := ih D as hn' (fun t ht => hin t (by simp [ht]))
      have ha := hin a (by simp)
      have hd : (a.text != "defined") = true := by simpa using ha.1
      simp only [scanFit, scanCost, scanRef, hd, Bool.true_and]
      by_cases hk : (a.kind != TKind.ident) = true
      · simp only [hk, if_true, List.length_cons, i1, i2, i3, List.mem_cons]
        refine ⟨trivial, by omega, trivial, ?_⟩
        rintro t (rfl | ht)
        · exact ha
        · exact i4 t ht
      · have hki : a.kind = .ident := by simpa using hk
        have hk' : (a.kind != TKind.ident) = false := by simpa using hk
        have hm := ha.2 hki
        simp only [hk', Bool.false_eq_true, if_false, hm]
        by_cases hq : (!a.expandable || D.contains (some a.text)) = true
        · simp only [hq, if_true, List.length_cons, i1, i2, i3, List.mem_cons]
          refine ⟨trivial, by omega, trivial, ?_⟩
          rintro t (rfl | ht)
          · exact paint_inert tbl a ha
          · exact i4 t ht
        · have hq' : (!a.expandable || D.contains (some a.text)) = false := by simpa using hq
          simp only [hq', Bool.false_eq_true, if_false, List.length_cons, i1, i2, i3, List.mem_cons]
          refine ⟨trivial, by omega, trivial, ?_⟩
          rintro t (rfl | ht)
          · exact ha
          · exact i4 t ht

theorem inert_ref (tbl : Table) (d : Nat) (D : NoExp) (ts : List Tok) (h : ∀ t ∈ ts, Inert tbl t) :
    fitsb tbl (d + 1) D ts = true ∧ cost tbl (d + 1) D ts = ts.length ∧
    (Ref tbl (d + 1) D ts).length = ts.length ∧ ∀ t ∈ Ref tbl (d + 1) D ts, Inert tbl t := by
  simp only [fitsb, cost, Ref]
  exact inert_scan tbl _ _ _ ts.length D ts (Nat.le_refl _) h

/-! ## substitution keeps token properties that do not depend on `prev_white`, and its length is bounded -/
theorem all_fixpw (P : Tok → Prop) (hP : ∀ t pw, P t → P { t with pw := pw }) (r : List Tok) (pw : Bool) (h : ∀ t ∈ r, P t) :
    ∀ t ∈ fixpw r pw, P t := by
  cases r with
  | nil => simp [fixpw]
  | cons f rest =>
    intro t ht
    simp only [fixpw, List.mem_cons] at ht
    rcases ht with rfl | ht
    · exact hP f pw (h f (by simp))
    · exact h t (by simp [ht])

theorem getD_nil_or_mem (l : List (List Tok)) (i : Nat) : l.getD i [] = [] ∨ l.getD i [] ∈ l := by
  rw [List.getD_eq_getElem?_getD]
  cases h : l[i]? with
  | none => left; rfl
  | some e => right; exact List.mem_of_getElem? h

theorem all_substRef (P : Tok → Prop) (hP : ∀ t pw, P t → P { t with pw := pw }) (ps : List String) (eargs : List (List Tok)) :
    ∀ (repl : List Tok), (∀ t ∈ repl, P t) → (∀ e ∈ eargs, ∀ t ∈ e, P t) → ∀ t ∈ substRef ps eargs repl, P t := by
  intro repl
  induction repl with
  | nil => intro _ _ t ht; simp [substRef] at ht
  | cons tok r ih =>
    intro h1 h2 t ht
    have ihr := ih (fun x hx => h1 x (by simp [hx])) h2
    simp only [substRef] at ht
    cases hp : paramIdx ps tok with
    | none =>
      simp only [hp, List.mem_cons] at ht
      rcases ht with rfl | ht
      · exact h1 t (by simp)
      · exact ihr t ht
    | some i =>
      simp only [hp, List.mem_append] at ht
      rcases ht with ht | ht
      · refine all_fixpw P hP _ _ ?_ t ht
        rcases getD_nil_or_mem eargs i with h0 | hmem
        · rw [h0]; intro x hx; simp at hx
        · exact h2 _ hmem
      · exact ihr t ht

theorem substRef_length (ps : List String) (eargs : List (List Tok)) (c : Nat) (hc : 1 ≤ c) (he : ∀ e ∈ eargs, e.length ≤ c) :
    ∀ (repl : List Tok), (substRef ps eargs repl).length ≤ repl.length * c := by
  intro repl
  induction repl with
  | nil => simp [substRef]
  | cons tok r ih =>
    have hmul : (r.length + 1) * c = r.length * c + c := Nat.succ_mul _ _
    simp only [substRef, List.length_cons]
    cases hp : paramIdx ps tok with
    | none => simp only [List.length_cons]; omega
    | some i =>
      simp only [List.length_append, fixpw_length]
      have : (eargs.getD i []).length ≤ c := by
        rcases getD_nil_or_mem eargs i with h0 | hmem
        · rw [h0]; simp
        · exact he _ hmem
      omega

/-! ## the size of a call -/
def sumLen (l : List (List Tok)) : Nat := (l.map (·.length + 1)).sum

theorem sumLen_append (a b : List (List Tok)) : sumLen (a ++ b) = sumLen a + sumLen b := by
  simp [sumLen, List.sum_append]

theorem sumLen_snoc (a : List (List Tok)) (cur : List Tok) : sumLen (a ++ [cur]) = sumLen a + cur.length + 1 := by
  simp [sumLen, List.sum_append]; omega

theorem splitArgs_sum : ∀ (r : List Tok) (args : List (List Tok)) (cur : List Tok) (depth : Nat) (args' : List (List Tok))
    (rest : List Tok), splitArgs r args cur depth = some (args', rest) →
    sumLen args' + rest.length = sumLen args + cur.length + r.length := by
  intro r
  induction r with
  | nil => intro args cur depth args' rest h; simp [splitArgs] at h
  | cons tok r ih =>
    intro args cur depth args' rest h
    simp only [splitArgs] at h
    simp only [List.length_cons]
    split at h
    · have := ih _ _ _ _ _ h
      rw [sumLen_snoc] at this
      simp only [List.length_nil] at this
      omega
    · split at h
      · have := ih _ _ _ _ _ h
        simp only [List.length_append, List.length_cons, List.length_nil] at this; omega
      · split at h
        · split at h
          · simp only [Option.some.injEq, Prod.mk.injEq] at h
            obtain ⟨rfl, rfl⟩ := h
            rw [sumLen_snoc]
            omega
          · have := ih _ _ _ _ _ h
            simp only [List.length_append, List.length_cons, List.length_nil] at this; omega
        · have := ih _ _ _ _ _ h
          simp only [List.length_append, List.length_cons, List.length_nil] at this; omega

theorem mem_sumLen (l : List (List Tok)) (a : List Tok) (h : a ∈ l) : a.length + 1 ≤ sumLen l := by
  induction l with
  | nil => simp at h
  | cons x xs ih =>
    simp only [sumLen, List.map_cons, List.sum_cons] at ih ⊢
    rcases List.mem_cons.mp h with rfl | h
    · omega
    · have := ih h; omega

theorem sum_le_twice (l : List (List Tok)) (f : List Tok → Nat) (h : ∀ a ∈ l, f a ≤ a.length + 2) :
    (l.map f).sum ≤ 2 * sumLen l := by
  induction l with
  | nil => simp [sumLen]
  | cons x xs ih =>
    have h1 := h x (by simp)
    have h2 := ih (fun a ha => h a (by simp [ha]))
    simp only [sumLen, List.map_cons, List.sum_cons] at h2 ⊢
    omega

/-! ## lists without function-like macro names: the object-like bound carries over -/
theorem obj_fits (tbl : Table) (hT : SimpleTbl tbl) (B : Nat) (hB : BodiesLe tbl B) : ∀ (d : Nat) (D : NoExp) (ts : List Tok),
    free D (keys tbl) < d → (∀ t ∈ ts, ObjTok tbl t) →
    fitsb tbl d D ts = true ∧ cost tbl d D ts ≤ ts.length * Cb B d := by
  intro d
  induction d with
  | zero => intro D ts h; omega
  | succ d ihd =>
    intro D ts hfree hts
    simp only [fitsb, cost]
    suffices hs : ∀ (n : Nat) (ts : List Tok), ts.length ≤ n → (∀ t ∈ ts, ObjTok tbl t) →
        scanFit tbl (Ref tbl d) (fitsb tbl d) n D ts = true ∧
        scanCost tbl (Ref tbl d) (cost tbl d) n D ts ≤ ts.length * Cb B (d + 1) from hs ts.length ts (Nat.le_refl _) hts
    intro n
    induction n with
    | zero =>
      intro ts hn _
      have : ts = [] := by cases ts with | nil => rfl | cons a as => simp at hn
      subst this
      simp [scanFit, scanCost]
    | succ n ih =>
      intro ts hn hts
      cases ts with
      | nil => simp [scanFit, scanCost]
      | cons a as =>
        have hn' : as.length ≤ n := by simp at hn; omega
        obtain ⟨i1, i2⟩ := ih as hn' (fun t ht => hts t (by simp [ht]))
        have ha := hts a (by simp)
        have hdef : (a.text != "defined") = true := by simpa using ha.1
        have hC := Cb_pos B (d + 1)
        have hmul : (as.length + 1) * Cb B (d + 1) = as.length * Cb B (d + 1) + Cb B (d + 1) := Nat.succ_mul _ _
        simp only [scanFit, scanCost, hdef, Bool.true_and, List.length_cons]
        by_cases hk : (a.kind != TKind.ident) = true
        · simp only [hk, if_true, i1]; exact ⟨trivial, by omega⟩
        · have hki : a.kind = .ident := by simpa using hk
          have hk' : (a.kind != TKind.ident) = false := by simpa using hk
          simp only [hk', Bool.false_eq_true, if_false]
          by_cases hq : (!a.expandable || D.contains (some a.text)) = true
          · simp only [hq, if_true, i1]; exact ⟨trivial, by omega⟩
          · have hq' : (!a.expandable || D.contains (some a.text)) = false := by simpa using hq
            simp only [hq', Bool.false_eq_true, if_false]
            cases hm : tbl.get a.text with
            | none => simp only [i1]; exact ⟨trivial, by omega⟩
            | some m =>
              have hobj := ha.2 hki m hm
              have hname := hT.named _ _ hm
              have hmem := get_mem_keys tbl _ _ hm
              have hD : D.contains (some a.text) = false := by
                simp only [Bool.or_eq_false_iff] at hq'; exact hq'.2
              have hlt := free_cons_lt a.text D (keys tbl) hmem hD
              have hbody : ∀ t ∈ fixpw m.replacement a.pw, ObjTok tbl t :=
                all_fixpw (ObjTok tbl) (fun _ _ h => h) _ _ (hT.bodies _ _ hm)
              obtain ⟨b1, b2⟩ := ihd (some m.name :: D) (fixpw m.replacement a.pw) (by rw [hname]; omega) hbody
              rw [fixpw_length] at b2
              have hb3 : m.replacement.length * Cb B d ≤ B * Cb B d := Nat.mul_le_mul_right _ (hB _ _ hm)
              have hCb : Cb B (d + 1) = B * Cb B d + B * Lb B d + 3 := rfl
              simp only [hobj, b1, i1, Bool.and_self]
              exact ⟨trivial, by omega⟩

/-- **simple texts**: the dynamic fragment condition holds and the closed-form iteration bound covers the reference's -/
theorem simple_scan (tbl : Table) (hT : SimpleTbl tbl) (B : Nat) (hB : BodiesLe tbl B) (d : Nat) (D : NoExp)
    (hD : ∀ x, D.contains (some x) = false) (hfree : free D (keys tbl) ≤ d) :
    ∀ (n : Nat) (ts : List Tok), ts.length ≤ n → simpleScan tbl n ts = true →
      scanFit tbl (Ref tbl d) (fitsb tbl d) n D ts = true ∧
      scanCost tbl (Ref tbl d) (cost tbl d) n D ts ≤ ts.length * Cb B (d + 1) := by
  intro n
  induction n with
  | zero =>
    intro ts hn _
    have : ts = [] := by cases ts with | nil => rfl | cons a as => simp at hn
    subst this
    simp [scanFit, scanCost]
  | succ n ih =>
    intro ts hn hs
    cases ts with
    | nil => simp [scanFit, scanCost]
    | cons a as =>
      have hn' : as.length ≤ n := by simp at hn; omega
      simp only [simpleScan, Bool.and_eq_true] at hs
      obtain ⟨hdef, hs⟩ := hs
      have hC := Cb_pos B (d + 1)
      have hmul : (as.length + 1) * Cb B (d + 1) = as.length * Cb B (d + 1) + Cb B (d + 1) := Nat.succ_mul _ _
      simp only [scanFit, scanCost, hdef, Bool.true_and, List.length_cons]
      by_cases hk : (a.kind != TKind.ident) = true
      · rw [if_pos hk] at hs
        obtain ⟨i1, i2⟩ := ih as hn' hs
        simp only [hk, if_true, i1]; exact ⟨trivial, by omega⟩
      · have hki : a.kind = .ident := by simpa using hk
        have hk' : (a.kind != TKind.ident) = false := by simpa using hk
        rw [if_neg hk] at hs
        simp only [hk', Bool.false_eq_true, if_false]
        by_cases hq : (!a.expandable || D.contains (some a.text)) = true
        · -- an unexpandable (already painted) token: only object-like names and non-macros can be here
          simp only [hq, if_true]
          have hexp : a.expandable = false := by
            rw [hD a.text] at hq; simpa using hq
          cases hm : tbl.get a.text with
          | none =>
            simp only [hm] at hs
            obtain ⟨i1, i2⟩ := ih as hn' hs
            simp only [i1]; exact ⟨trivial, by omega⟩
          | some m =>
            simp only [hm] at hs
            cases hargs : m.args with
            | none =>
              simp only [hargs] at hs
              obtain ⟨i1, i2⟩ := ih as hn' hs
              simp only [i1]; exact ⟨trivial, by omega⟩
            | some ps => simp [hargs, hexp] at hs
        · have hq' : (!a.expandable || D.contains (some a.text)) = false := by simpa using hq
          simp only [hq', Bool.false_eq_true, if_false]
          cases hm : tbl.get a.text with
          | none =>
            simp only [hm] at hs
            obtain ⟨i1, i2⟩ := ih as hn' hs
            simp only [i1]; exact ⟨trivial, by omega⟩
          | some m =>
            simp only [hm] at hs
            have hname := hT.named _ _ hm
            have hmem := get_mem_keys tbl _ _ hm
            have hlt := free_cons_lt a.text D (keys tbl) hmem (hD _)
            have hfree' : free (some m.name :: D) (keys tbl) < d := by rw [hname]; omega
            have hCb : Cb B (d + 1) = B * Cb B d + B * Lb B d + 3 := rfl
            cases hargs : m.args with
            | none =>
              simp only [hargs] at hs
              obtain ⟨i1, i2⟩ := ih as hn' hs
              have hbody : ∀ t ∈ fixpw m.replacement a.pw, ObjTok tbl t :=
                all_fixpw (ObjTok tbl) (fun _ _ h => h) _ _ (hT.bodies _ _ hm)
              obtain ⟨b1, b2⟩ := obj_fits tbl hT B hB d (some m.name :: D) (fixpw m.replacement a.pw) hfree' hbody
              rw [fixpw_length] at b2
              have hb3 : m.replacement.length * Cb B d ≤ B * Cb B d := Nat.mul_le_mul_right _ (hB _ _ hm)
              simp only [hargs, b1, i1, Bool.and_self]
              exact ⟨trivial, by omega⟩
            | some ps =>
              simp only [hargs, Bool.and_eq_true] at hs
              obtain ⟨_, hs⟩ := hs
              cases hcall : callOf as with
              | none =>
                simp only [hcall, Bool.and_eq_true] at hs
                obtain ⟨hx, hsr⟩ := hs
                obtain ⟨i1, i2⟩ := ih as hn' hsr
                simp only [hargs, i1, Bool.and_true]
                exact ⟨hx, by omega⟩
              | some ar =>
                obtain ⟨args, rest⟩ := ar
                simp only [hcall, Bool.and_eq_true, decide_eq_true_eq, List.all_eq_true] at hs
                obtain ⟨⟨harity, hinert⟩, hsr⟩ := hs
                have hrl := callOf_length as args rest hcall
                obtain ⟨i1, i2⟩ := ih rest (by omega) hsr
                obtain ⟨d', rfl⟩ : ∃ d', d = d' + 1 := ⟨d - 1, by omega⟩
                -- arguments
                have hargI : ∀ x ∈ args, ∀ t ∈ x, Inert tbl t := fun x hx t ht => inert_of_check tbl t (hinert x hx t ht)
                have hA := fun x hx => inert_ref tbl d' (none :: D) x (hargI x hx)
                -- size of the call
                have hsum : sumLen args + rest.length + 1 = as.length := by
                  cases as with
                  | nil => simp [callOf] at hcall
                  | cons lp r =>
                    simp only [callOf] at hcall
                    split at hcall
                    · have := splitArgs_sum _ _ _ _ _ _ hcall
                      simp only [sumLen, List.map_nil, List.sum_nil, List.length_nil, List.length_cons] at this ⊢
                      omega
                    · cases hcall
                let c := sumLen args
                have hc1 : 1 ≤ c := by
                  cases args with
                  | nil => simp at harity; cases as with
                    | nil => simp [callOf] at hcall
                    | cons lp r =>
                      simp only [callOf] at hcall
                      split at hcall
                      · exfalso
                        -- `splitArgs` never returns an empty argument list
                        have := splitArgs_sum _ _ _ _ _ _ hcall
                        have h2 := splitArgs_length _ _ _ _ _ _ hcall
                        simp only [sumLen, List.map_nil, List.sum_nil, List.length_nil] at this
                        omega
                      · cases hcall
                  | cons x xs => simp only [c, sumLen, List.map_cons, List.sum_cons]; omega
                -- the substituted replacement list
                have hbodyTok : ∀ t ∈ fixpw (substRef ps (args.map (Ref tbl (d' + 1) (none :: D))) m.replacement) a.pw, ObjTok tbl t := by
                  apply all_fixpw (ObjTok tbl) (fun _ _ h => h)
                  apply all_substRef (ObjTok tbl) (fun _ _ h => h) ps _ _ (hT.bodies _ _ hm)
                  intro e he t ht
                  obtain ⟨x, hx, rfl⟩ := List.mem_map.mp he
                  exact ((hA x hx).2.2.2 t ht).obj
                obtain ⟨b1, b2⟩ := obj_fits tbl hT B hB (d' + 1) (some m.name :: D) _ hfree' hbodyTok
                have hlen : (fixpw (substRef ps (args.map (Ref tbl (d' + 1) (none :: D))) m.replacement) a.pw).length ≤ B * c := by
                  rw [fixpw_length]
                  refine Nat.le_trans (substRef_length ps _ c hc1 ?_ m.replacement) (Nat.mul_le_mul_right _ (hB _ _ hm))
                  intro e he
                  obtain ⟨x, hx, rfl⟩ := List.mem_map.mp he
                  rw [(hA x hx).2.2.1]
                  have := mem_sumLen args x hx
                  omega
                have hb3 : (fixpw (substRef ps (args.map (Ref tbl (d' + 1) (none :: D))) m.replacement) a.pw).length * Cb B (d' + 1)
                    ≤ c * (B * Cb B (d' + 1)) := by
                  have := Nat.mul_le_mul_right (Cb B (d' + 1)) hlen
                  rw [Nat.mul_assoc, Nat.mul_left_comm] at this
                  exact this
                have hargsum : (args.map fun x => cost tbl (d' + 1) (none :: D) x + 2).sum ≤ 2 * c :=
                  sum_le_twice args _ (fun x hx => by rw [(hA x hx).2.1]; omega)
                have hfitargs : (args.all (fitsb tbl (d' + 1) (none :: D))) = true :=
                  List.all_eq_true.mpr (fun x hx => (hA x hx).1)
                simp only [hargs, decide_eq_true harity, hfitargs, b1, i1, Bool.and_self]
                refine ⟨trivial, ?_⟩
                -- arithmetic
                have e1 : (as.length + 1) * Cb B (d' + 1 + 1) = (c + 2) * Cb B (d' + 1 + 1) + rest.length * Cb B (d' + 1 + 1) := by
                  rw [← Nat.add_mul]; congr 1; omega
                have e2 : (c + 2) * Cb B (d' + 1 + 1) = c * (B * Cb B (d' + 1)) + c * (B * Lb B (d' + 1)) + c * 3 + 2 * Cb B (d' + 1 + 1) := by
                  rw [Nat.add_mul, hCb, Nat.mul_add, Nat.mul_add]
                omega

/-- **the simple fragment is inside the general one**, with nesting budget `|tbl| + 1` and the iteration bound of `fuelFor` -/
theorem simple_fits (tbl : Table) (hT : SimpleTbl tbl) (ts : List Tok) (h : simpleText tbl ts = true) :
    fitsb tbl (tbl.length + 1) [] ts = true ∧
    cost tbl (tbl.length + 1) [] ts ≤ ts.length * Cb (bodyMax tbl) (tbl.length + 1) := by
  simp only [fitsb, cost]
  have hfree : free [] (keys tbl) ≤ tbl.length := by
    have := free_le_length [] (keys tbl)
    have hk : (keys tbl).length = tbl.length := by simp [keys]
    omega
  exact simple_scan tbl hT (bodyMax tbl) (bodiesLe_bodyMax tbl) tbl.length [] (by intro x; simp) hfree ts.length ts (Nat.le_refl _) h

end CbiVerif.MX
