import CbiVerif.Lemmas.EvalLit
/-! C02 lemmas: `_character_value` (model `PP.characterValue`) on the spelling of every character constant of the
    specification (`CExpr.CharLit`: plain, simple escape, `\ooo`, `\xh…`) is the C value `cChar`. -/
namespace CbiVerif.EvalChar
open CbiVerif.PP CbiVerif.Eval CbiVerif.CExpr CbiVerif.EvalBridge

/-- the code's table of simple escapes is the standard's (6.4.4.4) -/
theorem simple_eq (c : Char) : simpleEscapeCode c = simpleEscape c := by
  unfold simpleEscapeCode simpleEscape
  split <;> first | rfl | (split <;> first | rfl | contradiction)

theorem simple_lt (c : Char) (n : Nat) (h : simpleEscape c = some n) : n < 128 := by
  unfold simpleEscape at h
  split at h <;> simp at h <;> omega

def octChar (d : Fin 8) : Char := Char.ofNat (48 + d.val)

theorem oct_facts : ∀ d : Fin 8, isOctDigit (octChar d) = true ∧ escDigit (octChar d) = d.val ∧
    simpleEscapeCode (octChar d) = none ∧ (octChar d == 'x') = false := by decide
theorem hex_facts : ∀ (v : Fin 16) (up : Bool), isHexDigit (Digit.char ⟨v, up⟩) = true ∧
    escDigit (Digit.char ⟨v, up⟩) = v.val := by decide

theorem escNumber_go {α : Type} (f : α → Char) (val : α → Nat) (h : ∀ a, escDigit (f a) = val a) (b : Nat)
    (ds : List α) (acc : Nat) :
    (ds.map f).foldl (fun n c => n * b + escDigit c) acc = ds.foldl (fun n d => n * b + val d) acc := by
  induction ds generalizing acc with
  | nil => rfl
  | cons d r ih => simp only [List.map_cons, List.foldl_cons, h]; exact ih _

theorem escNumber_oct (ds : List (Fin 8)) :
    escNumber 8 (ds.map octChar) = ds.foldl (fun acc d => acc * 8 + d.val) 0 :=
  escNumber_go octChar (fun d => d.val) (fun d => (oct_facts d).2.1) 8 ds 0
theorem escNumber_hex (ds : List Digit) :
    escNumber 16 (ds.map Digit.char) = ds.foldl (fun acc d => acc * 16 + d.val.val) 0 :=
  escNumber_go Digit.char (fun d => d.val.val) (fun d => by obtain ⟨v, u⟩ := d; exact (hex_facts v u).2) 16 ds 0

theorem all_oct (ds : List (Fin 8)) : (ds.map octChar).all isOctDigit = true := by
  induction ds with
  | nil => rfl
  | cons d r ih => simp [(oct_facts d).1, ih]
theorem all_hex (ds : List Digit) : (ds.map Digit.char).all isHexDigit = true := by
  induction ds with
  | nil => rfl
  | cons d r ih => obtain ⟨v, u⟩ := d; simp [(hex_facts v u).1, ih]

theorem chars_octal (ds : List (Fin 8)) : (CharLit.octal ds).chars = '\\' :: ds.map octChar := rfl

/-- the signed-char value of a code -/
def signedChar (n : Nat) : Int := if n ≥ 128 then (n : Int) - 256 else (n : Int)

/-- `_character_value` on the spelling of a character constant with code `n` -/
theorem characterValue_code (c : CharLit) (n : Nat) (h : c.code = some n) :
    characterValue c.chars = .ok (signedChar n) ∧ n ≤ 255 := by
  cases c with
  | plain ch =>
    simp only [CharLit.code] at h
    split at h
    · rename_i hr
      simp only [Option.some.injEq] at h; subst h
      simp only [Bool.and_eq_true, decide_eq_true_eq] at hr
      have h127 : ch.toNat < 127 := hr.1.1.2
      have : ¬ ch.toNat ≥ 128 := by omega
      refine ⟨?_, by omega⟩
      simp only [CharLit.chars, characterValue, signedChar, this, if_false]
    · simp at h
  | simple ch =>
    simp only [CharLit.code] at h
    have hlt := simple_lt ch n h
    have : ¬ n ≥ 128 := by omega
    have h255 : ¬ n > 255 := by omega
    refine ⟨?_, by omega⟩
    simp only [CharLit.chars, characterValue, escapeCode, List.isEmpty_nil, simple_eq, h, Option.isSome_some,
      Bool.and_self, if_true, h255, if_false, signedChar, this]
  | octal ds =>
    simp only [CharLit.code] at h
    split at h
    · rename_i hr
      simp only [Option.some.injEq] at h
      simp only [Bool.and_eq_true, decide_eq_true_eq] at hr
      obtain ⟨⟨h1, h3⟩, h255⟩ := hr
      match ds, h1, h3, h255, h with
      | d :: r, h1, h3, h255, h =>
        have hl : (r.map octChar).length ≤ 2 := by simp at h3 ⊢; omega
        have hn : escNumber 8 (octChar d :: r.map octChar) = n := by
          rw [← h, ← escNumber_oct (d :: r)]; rfl
        have h255' : ¬ n > 255 := by rw [← h]; omega
        refine ⟨?_, by rw [← h]; exact h255⟩
        rw [chars_octal]
        simp only [List.map_cons, characterValue, escapeCode, (oct_facts d).2.2.1, Option.isSome_none, Bool.and_false,
          Bool.false_eq_true, if_false, (oct_facts d).1, hl, decide_true, all_oct, Bool.and_self, if_true, hn, h255',
          signedChar]
    · simp at h
  | hex ds =>
    simp only [CharLit.code] at h
    split at h
    · rename_i hr
      simp only [Option.some.injEq] at h
      simp only [Bool.and_eq_true, decide_eq_true_eq] at hr
      obtain ⟨h1, h255⟩ := hr
      have hne : (ds.map Digit.char).isEmpty = false := by
        cases ds with
        | nil => simp at h1
        | cons _ _ => rfl
      have hn : escNumber 16 (ds.map Digit.char) = n := by rw [← h, escNumber_hex]
      have h255' : ¬ n > 255 := by rw [← h]; omega
      refine ⟨?_, by rw [← h]; exact h255⟩
      have hx : isOctDigit 'x' = false := by decide
      have hs : simpleEscapeCode 'x' = none := by decide
      simp only [CharLit.chars, characterValue, escapeCode, hne, Bool.false_and, Bool.false_eq_true, if_false, hx,
        beq_self_eq_true, Bool.not_false, all_hex, Bool.and_self, if_true, hn, h255', signedChar]
    · simp at h

theorem mval_signedChar (n : Nat) (h : n ≤ 255) :
    mval ⟨false, BitVec.ofInt 64 (signedChar n)⟩ = ⟨false, signedChar n⟩ := by
  simp only [mval, Bool.false_eq_true, if_false]
  congr 1
  simp only [BitVec.toInt_ofInt, Int.bmod, signedChar]
  split <;> omega

/-- every character constant that has a C value: `term()` computes exactly that value (type `int`: signed) -/
theorem chr_spec (c : CharLit) (v : CExpr.Val) (h : cChar c = some v) :
    characterValue c.chars = .ok (mval v).v ∧ chrVal c = mval v := by
  simp only [cChar, Option.map_eq_some_iff] at h
  obtain ⟨n, hn, rfl⟩ := h
  obtain ⟨hv, h255⟩ := characterValue_code c n hn
  have hm := mval_signedChar n h255
  simp only [signedChar] at hm hv
  rw [hm]
  exact ⟨hv, by simp only [chrVal, hv]⟩

/-- the signedness of the leaf's value is `int`, whatever the constant -/
theorem chrVal_unsigned (c : CharLit) : (chrVal c).unsigned = false := by
  unfold chrVal
  cases characterValue c.chars <;> rfl

end CbiVerif.EvalChar
