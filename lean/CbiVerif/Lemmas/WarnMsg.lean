import CbiVerif.Lemmas.Warn
import CbiVerif.Model.WarnMsgDir
/-! Helper lemmas for the C18 message layer: rendering of templates, substring search across pieces, the
segment form of the search (cut at characters foreign to the pattern). -/
namespace CbiVerif.WarnMsg
open CbiVerif.Warn CbiVerif.WarnTmpl

/-! ## templates -/
theorem renderT_append (a b : List Piece) (e : Event) : renderT (a ++ b) e = renderT a e ++ renderT b e := by
  simp [renderT, List.flatMap_append]

theorem renderT_cons (p : Piece) (t : List Piece) (e : Event) : renderT (p :: t) e = pieceText e p ++ renderT t e := by
  simp [renderT, List.flatMap_cons]

theorem padLeft_zero (l : List Char) : padLeft 0 l = l := by simp [padLeft]

/-- `sub` occurs as a block of consecutive pieces (same recursion as `containsSub`) -/
def hasInfix (sub : List Piece) : List Piece → Bool
  | [] => sub.isEmpty
  | x :: xs => sub.isPrefixOf (x :: xs) || hasInfix sub xs

theorem hasInfix_split (sub t : List Piece) (h : hasInfix sub t = true) : ∃ a b, t = a ++ sub ++ b := by
  induction t with
  | nil =>
    simp [hasInfix] at h
    exact ⟨[], [], by simp [h]⟩
  | cons x xs ih =>
    simp only [hasInfix, Bool.or_eq_true] at h
    rcases h with h | h
    · rw [List.isPrefixOf_iff_prefix] at h
      obtain ⟨b, hb⟩ := h
      exact ⟨[], b, by simp [hb]⟩
    · obtain ⟨a, b, hab⟩ := ih h
      exact ⟨x :: a, b, by simp [hab]⟩

/-- a block of consecutive pieces of the template is found, rendered, in the rendered message -/
theorem contains_rendered_infix (sub t : List Piece) (e : Event) (h : hasInfix sub t = true) :
    containsSub (renderT t e) (renderT sub e) = true := by
  obtain ⟨a, b, hab⟩ := hasInfix_split sub t h
  rw [hab, renderT_append, renderT_append]
  exact containsSub_mid _ _ _

/-- … and so is any part of the rendered block -/
theorem contains_part (msg x p y : List Char) (h : containsSub msg (x ++ p ++ y) = true) : containsSub msg p = true := by
  induction msg with
  | nil =>
    simp only [containsSub, List.isEmpty_iff] at h
    have : p = [] := by
      have h1 : (x ++ p ++ y).length = 0 := by rw [h]; rfl
      simp only [List.length_append] at h1
      exact List.length_eq_zero_iff.mp (by omega)
    subst this; simp [containsSub]
  | cons c cs ih =>
    simp only [containsSub, Bool.or_eq_true] at h
    rcases h with h | h
    · rw [List.isPrefixOf_iff_prefix] at h
      obtain ⟨r, hr⟩ := h
      rw [← hr]
      have : x ++ p ++ y ++ r = x ++ p ++ (y ++ r) := by simp
      rw [this]
      exact containsSub_mid _ _ _
    · simp only [containsSub, Bool.or_eq_true]
      exact Or.inr (ih h)

theorem contains_self (p : List Char) : containsSub p p = true := by
  simpa using containsSub_of_prefix p []

/-- a single placeholder of the template is found in the message -/
theorem contains_arg (a : Arg) (t : List Piece) (e : Event) (h : hasInfix [.arg a 0] t = true) :
    containsSub (renderT t e) (argText e a) = true := by
  have := contains_rendered_infix [.arg a 0] t e h
  simpa [renderT, pieceText, padLeft_zero] using this

/-! ### the literal text around a placeholder -/
/-- the literal just before / just after the first occurrence of `{a}` -/
def litBefore (a : Arg) : List Piece → String
  | .lit s :: .arg b w :: t => if b = a ∧ w = 0 then s else litBefore a (.arg b w :: t)
  | _ :: t => litBefore a t
  | [] => ""
def litAfter (a : Arg) : List Piece → String
  | .arg b w :: .lit s :: t => if b = a ∧ w = 0 then s else litAfter a (.lit s :: t)
  | _ :: t => litAfter a t
  | [] => ""

/-- the requested name stands in quotes -/
theorem contains_quoted (t : List Piece) (e : Event) (x y : String)
    (h : hasInfix [.lit x, .arg .name 0, .lit y] t = true)
    (hx : x.toList.getLast? = some '\'') (hy : y.toList.head? = some '\'') :
    containsSub (renderT t e) ('\'' :: e.name.toList ++ ['\'']) = true := by
  have h1 := contains_rendered_infix _ t e h
  obtain ⟨x', hx'⟩ := List.getLast?_eq_some_iff.mp hx
  obtain ⟨y', hy'⟩ := List.head?_eq_some_iff.mp hy
  have h2 : renderT [.lit x, .arg .name 0, .lit y] e = x' ++ ('\'' :: e.name.toList ++ ['\'']) ++ y' := by
    simp [renderT, pieceText, padLeft_zero, argText, hx', hy']
  rw [h2] at h1
  exact contains_part _ _ _ _ h1

/-- the message begins `file:line:` -/
def startsFileLine : List Piece → Bool
  | .arg .file 0 :: .lit a :: .arg .line 0 :: .lit b :: _ => a == ":" && b.toList.head? == some ':'
  | _ => false

theorem starts_file_line (t : List Piece) (e : Event) (h : startsFileLine t = true) :
    (e.file.toList ++ ':' :: natL e.line ++ [':']).isPrefixOf (renderT t e) = true := by
  unfold startsFileLine at h
  split at h
  · rename_i a b rest
    simp only [Bool.and_eq_true, beq_iff_eq] at h
    obtain ⟨ha, hb⟩ := h
    obtain ⟨b', hb'⟩ := List.head?_eq_some_iff.mp hb
    rw [List.isPrefixOf_iff_prefix]
    refine ⟨b' ++ renderT rest e, ?_⟩
    simp [renderT_cons, pieceText, padLeft_zero, argText, ha, hb']
  · simp at h

/-- the message begins `file:line:col:` -/
def startsFileLineCol : List Piece → Bool
  | .arg .file 0 :: .lit a :: .arg .line 0 :: .lit b :: .arg .col 0 :: .lit c :: _ =>
    a == ":" && b == ":" && c.toList.head? == some ':'
  | _ => false

theorem starts_file_line_col (t : List Piece) (e : Event) (h : startsFileLineCol t = true) :
    (e.file.toList ++ ':' :: natL e.line ++ ':' :: natL e.col ++ [':']).isPrefixOf (renderT t e) = true := by
  unfold startsFileLineCol at h
  split at h
  · rename_i a b c rest
    simp only [Bool.and_eq_true, beq_iff_eq] at h
    obtain ⟨⟨ha, hb⟩, hc⟩ := h
    obtain ⟨c', hc'⟩ := List.head?_eq_some_iff.mp hc
    rw [List.isPrefixOf_iff_prefix]
    refine ⟨c' ++ renderT rest e, ?_⟩
    simp [renderT_cons, pieceText, padLeft_zero, argText, ha, hb, hc']
  · simp at h

/-! ### parts of literals -/
theorem containsSub_exists (m p : List Char) (h : containsSub m p = true) : ∃ x y, m = x ++ p ++ y := by
  induction m with
  | nil =>
    simp only [containsSub, List.isEmpty_iff] at h
    exact ⟨[], [], by simp [h]⟩
  | cons c cs ih =>
    simp only [containsSub, Bool.or_eq_true] at h
    rcases h with h | h
    · rw [List.isPrefixOf_iff_prefix] at h
      obtain ⟨r, hr⟩ := h
      exact ⟨[], r, by simp [hr]⟩
    · obtain ⟨x, y, hxy⟩ := ih h
      exact ⟨c :: x, y, by simp [hxy]⟩

theorem contains_trans (msg m p : List Char) (h1 : containsSub msg m = true) (h2 : containsSub m p = true) :
    containsSub msg p = true := by
  obtain ⟨x, y, hxy⟩ := containsSub_exists m p h2
  rw [hxy] at h1
  exact contains_part _ _ _ _ h1

/-- a phrase inside a literal of the template is inside the message -/
theorem contains_in_lit (t : List Piece) (e : Event) (s : String) (p : List Char)
    (h : hasInfix [.lit s] t = true) (hp : containsSub s.toList p = true) : containsSub (renderT t e) p = true := by
  have h1 := contains_rendered_infix [.lit s] t e h
  have h2 : renderT [.lit s] e = s.toList := by simp [renderT, pieceText]
  rw [h2] at h1
  exact contains_trans _ _ _ h1 hp

/-- `…tail{name}`: the tail of the literal before the name, followed by the name, is in the message -/
theorem contains_tail_name (t : List Piece) (e : Event) (s : String) (d : List Char)
    (h : hasInfix [.lit s, .arg .name 0] t = true) (hd : d.isSuffixOf s.toList = true) :
    containsSub (renderT t e) (d ++ e.name.toList) = true := by
  have h1 := contains_rendered_infix _ t e h
  rw [List.isSuffixOf_iff_suffix] at hd
  obtain ⟨s', hs'⟩ := hd
  have h2 : renderT [.lit s, .arg .name 0] e = s' ++ (d ++ e.name.toList) ++ [] := by
    simp [renderT, pieceText, padLeft_zero, argText, ← hs']
  rw [h2] at h1
  exact contains_part _ _ _ _ h1

/-- the message begins `file:0:` (the line is the literal 0) -/
def startsFileZero : List Piece → Bool
  | .arg .file 0 :: .lit a :: _ => [':', '0', ':'].isPrefixOf a.toList
  | _ => false

theorem starts_file_zero (t : List Piece) (e : Event) (h : startsFileZero t = true) :
    (e.file.toList ++ ':' :: natL 0 ++ [':']).isPrefixOf (renderT t e) = true := by
  unfold startsFileZero at h
  split at h
  · rename_i a rest
    rw [List.isPrefixOf_iff_prefix] at h
    obtain ⟨a', ha'⟩ := h
    rw [List.isPrefixOf_iff_prefix]
    refine ⟨a' ++ renderT rest e, ?_⟩
    have : natL 0 = ['0'] := by decide
    simp [renderT_cons, pieceText, padLeft_zero, argText, this, ← ha']
  · simp at h

/-! ## searching across a character the pattern does not contain -/
theorem isPrefixOf_append_foreign (p a b : List Char) (c : Char) (hc : c ∉ p) :
    p.isPrefixOf (a ++ c :: b) = p.isPrefixOf a := by
  induction p generalizing a with
  | nil => simp
  | cons x p' ih =>
    have hx : x ≠ c := fun h => hc (by simp [h])
    have hc' : c ∉ p' := fun h => hc (by simp [h])
    cases a with
    | nil => simp [List.isPrefixOf, hx]
    | cons y a' => simp [List.isPrefixOf, ih a' hc']

/-- an occurrence of `p` cannot cover a character that is not in `p` -/
theorem containsSub_split (p a b : List Char) (c : Char) (hp : p ≠ []) (hc : c ∉ p) :
    containsSub (a ++ c :: b) p = (containsSub a p || containsSub b p) := by
  have hE : p.isEmpty = false := by cases p <;> simp_all
  induction a with
  | nil =>
    have := isPrefixOf_append_foreign p [] b c hc
    simp only [List.nil_append] at this
    simp only [List.nil_append, containsSub, this, hE]
    cases p with
    | nil => exact absurd rfl hp
    | cons x p' => simp [List.isPrefixOf]
  | cons y a' ih =>
    have := isPrefixOf_append_foreign p (y :: a') b c hc
    simp only [List.cons_append] at this
    simp only [List.cons_append, containsSub, this, ih, Bool.or_assoc]

theorem flat_append (a b : List Atom) : flat (a ++ b) = flat a ++ flat b := by simp [flat, List.flatMap_append]
theorem flat_cons (x : Atom) (a : List Atom) : flat (x :: a) = x.text ++ flat a := by simp [flat, List.flatMap_cons]
theorem flat_map_c (l : List Char) : flat (l.map Atom.c) = l := by
  induction l with
  | nil => rfl
  | cons x xs ih => simp [flat_cons, Atom.text, ih]

theorem flat_pieceAtoms (e : Event) (pc : Piece) : flat (pieceAtoms e pc) = pieceText e pc := by
  cases pc with
  | lit s => simp [pieceAtoms, pieceText, flat_map_c]
  | arg a w =>
    cases a <;> first
      | (simp only [pieceAtoms, pieceText]; exact flat_map_c _)
      | simp [pieceAtoms, pieceText, Atom.text, flat]

theorem flat_atoms (t : List Piece) (e : Event) : flat (atoms t e) = renderT t e := by
  induction t with
  | nil => rfl
  | cons pc t ih =>
    have : atoms (pc :: t) e = pieceAtoms e pc ++ atoms t e := by simp [atoms, List.flatMap_cons]
    rw [this, flat_append, ih, renderT_cons, flat_pieceAtoms]

/-- the search over the whole text is the search in the segments -/
theorem segs_spec (p : List Char) (hp : p ≠ []) (as : List Atom) (cur : List Char) (hf : Bool) :
    containsSub (cur ++ flat as) p = (segs p as cur hf).any (fun s => containsSub s.2 p) := by
  induction as generalizing cur hf with
  | nil => simp [segs, flat]
  | cons a as ih =>
    cases a with
    | f txt =>
      simp only [segs, flat_cons, Atom.text]
      rw [← List.append_assoc]
      exact ih _ _
    | c ch =>
      simp only [segs, flat_cons, Atom.text]
      by_cases hin : p.contains ch = true
      · simp only [hin, if_true]
        rw [← ih (cur ++ [ch]) hf]
        simp
      · simp only [hin, Bool.false_eq_true, if_false, List.any_cons]
        have hc : ch ∉ p := by simpa using hin
        have := containsSub_split p cur (flat as) ch hp hc
        simp only [List.singleton_append]
        rw [this, ← ih [] false]
        simp

theorem any_of_free (l : List (Bool × List Char)) (p : List Char)
    (h : (l.all fun s => !s.1 || !containsSub s.2 p) = true) :
    (l.any fun s => containsSub s.2 p) = (l.any fun s => !s.1 && containsSub s.2 p) := by
  induction l with
  | nil => rfl
  | cons s l ih =>
    simp only [List.all_cons, Bool.and_eq_true] at h
    simp only [List.any_cons, ih h.2]
    congr 1
    have := h.1
    revert this
    cases s.1 <;> cases containsSub s.2 p <;> simp

/-- under the side condition, whether the phrase occurs is decided by the fixed text of the message -/
theorem search_eq_literalHit (p : String) (hp : p.toList ≠ []) (e : Event) (h : fieldsFree p e = true) :
    containsSub (renderX e) p.toList = literalHit p e := by
  have h1 := segs_spec p.toList hp (atoms (template e.kind) e) [] false
  simp only [List.nil_append, flat_atoms] at h1
  unfold renderX
  rw [h1]
  exact any_of_free _ _ h

/-! ### the fixed text does not depend on the field values -/
inductive SameShape : List Atom → List Atom → Prop
  | nil : SameShape [] []
  | c (ch : Char) {a b : List Atom} : SameShape a b → SameShape (.c ch :: a) (.c ch :: b)
  | f (x y : List Char) {a b : List Atom} : SameShape a b → SameShape (.f x :: a) (.f y :: b)

theorem SameShape.refl_c (l : List Char) {a b : List Atom} (h : SameShape a b) :
    SameShape (l.map Atom.c ++ a) (l.map Atom.c ++ b) := by
  induction l with
  | nil => simpa using h
  | cons x xs ih => exact SameShape.c x ih

theorem sameShape_atoms (t : List Piece) (e e' : Event) (hk : e.kind = e'.kind) : SameShape (atoms t e) (atoms t e') := by
  induction t with
  | nil => exact SameShape.nil
  | cons pc t ih =>
    have h1 : ∀ e, atoms (pc :: t) e = pieceAtoms e pc ++ atoms t e := by intro e; simp [atoms, List.flatMap_cons]
    rw [h1, h1]
    cases pc with
    | lit s => exact SameShape.refl_c _ ih
    | arg a w =>
      cases a <;> first
        | exact SameShape.f _ _ ih
        | (simp only [pieceAtoms, argText, hk]; exact SameShape.refl_c _ ih)

theorem segs_lit_indep (p : List Char) {a b : List Atom} (h : SameShape a b) (cur cur' : List Char) (hf : Bool)
    (hc : hf = true ∨ cur = cur') :
    (segs p a cur hf).filter (fun s => !s.1) = (segs p b cur' hf).filter (fun s => !s.1) := by
  induction h generalizing cur cur' hf with
  | nil =>
    rcases hc with hc | hc
    · simp [segs, hc]
    · simp [segs, hc]
  | c ch _ ih =>
    simp only [segs]
    by_cases hin : p.contains ch = true
    · simp only [hin, if_true]
      apply ih
      rcases hc with hc | hc
      · exact Or.inl hc
      · exact Or.inr (by rw [hc])
    · simp only [hin, Bool.false_eq_true, if_false, List.filter_cons]
      rw [ih [] [] false (Or.inr rfl)]
      rcases hc with hc | hc
      · simp [hc]
      · simp [hc]
  | f x y _ ih =>
    simp only [segs]
    exact ih _ _ true (Or.inl rfl)

theorem literalHit_kind (p : String) (e : Event) : literalHit p e = literalHitK p e.kind := by
  have h := segs_lit_indep p.toList (sameShape_atoms (template e.kind) e { kind := e.kind } rfl) [] [] false (Or.inr rfl)
  have key : ∀ l : List (Bool × List Char), (l.any fun s => !s.1 && containsSub s.2 p.toList) =
      ((l.filter fun s => !s.1).any fun s => containsSub s.2 p.toList) := by
    intro l
    induction l with
    | nil => rfl
    | cons s l ih =>
      simp only [List.any_cons, List.filter_cons, ih]
      cases s.1 <;> simp
  unfold literalHitK literalHit eventSegs
  rw [key, key, h]

/-- a message the meta-warning `"."` counts: some literal of the template has a character other than newline -/
def hasVisibleLit : List Piece → Bool
  | [] => false
  | .lit s :: t => s.toList.any (· != '\n') || hasVisibleLit t
  | _ :: t => hasVisibleLit t

theorem render_visible (t : List Piece) (e : Event) (h : hasVisibleLit t = true) : (renderT t e).any (· != '\n') = true := by
  induction t with
  | nil => simp [hasVisibleLit] at h
  | cons pc t ih =>
    rw [renderT_cons, List.any_append]
    cases pc with
    | lit s =>
      simp only [hasVisibleLit, Bool.or_eq_true] at h
      rcases h with h | h
      · simp only [pieceText, Bool.or_eq_true]; exact Or.inl h
      · simp only [Bool.or_eq_true]; exact Or.inr (ih h)
    | arg a w =>
      simp only [hasVisibleLit] at h
      simp only [Bool.or_eq_true]; exact Or.inr (ih h)

end CbiVerif.WarnMsg
