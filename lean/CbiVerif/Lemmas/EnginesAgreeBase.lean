import CbiVerif.Model.EnginesAgree
import CbiVerif.Lemmas.FindEngines
import CbiVerif.Lemmas.FindInc
/-! Helper lemmas for `Props/C04Engines.lean`, part 1: attribution sets of association lists, the include
look-up of the two engines, the parse step of the two engines, the labels of a built tree. -/
namespace CbiVerif.Engines
open CbiVerif.PP CbiVerif.Exclude CbiVerif.Cond

/-! ## attribution sets -/

theorem has_addAssoc (a : AssocL) (f : String) (i : Nat) (p : String) (f' : String) (i' : Nat) (p' : String) :
    Has (addAssoc a f i p) f' i' p' ↔ Has a f' i' p' ∨ (f' = f ∧ i' = i ∧ p' = p) := by
  unfold addAssoc
  cases hfind : a.find? (fun x => x.1 == (f, i)) with
  | none =>
    simp only [Has, List.mem_append, List.mem_singleton]
    constructor
    · rintro ⟨e, he | he, h1, h2⟩
      · exact .inl ⟨e, he, h1, h2⟩
      · subst he
        simp only [Prod.mk.injEq] at h1
        simp only [List.mem_singleton] at h2
        exact .inr ⟨h1.1.symm, h1.2.symm, h2⟩
    · rintro (⟨e, he, h1, h2⟩ | ⟨rfl, rfl, rfl⟩)
      · exact ⟨e, .inl he, h1, h2⟩
      · exact ⟨((f', i'), [p']), .inr rfl, rfl, by simp⟩
  | some e0 =>
    obtain ⟨k0, ps⟩ := e0
    have hmem := List.mem_of_find?_eq_some hfind
    have hk : k0 = (f, i) := by simpa using List.find?_some hfind
    subst hk
    simp only []
    by_cases hc : ps.contains p = true
    · simp only [hc, if_true]
      constructor
      · exact fun h => .inl h
      · rintro (h | ⟨rfl, rfl, rfl⟩)
        · exact h
        · exact ⟨_, hmem, rfl, by simpa using hc⟩
    · simp only [hc, Bool.false_eq_true, if_false]
      simp only [Has, List.mem_map]
      constructor
      · rintro ⟨e, ⟨e1, he1, rfl⟩, h1, h2⟩
        by_cases hke : (e1.1 == (f, i)) = true
        · simp only [hke, if_true] at h1 h2
          rcases List.mem_append.mp h2 with h2 | h2
          · exact .inl ⟨e1, he1, h1, h2⟩
          · simp only [List.mem_singleton] at h2
            have := (beq_iff_eq.mp hke)
            rw [this] at h1
            simp only [Prod.mk.injEq] at h1
            exact .inr ⟨h1.1.symm, h1.2.symm, h2⟩
        · simp only [hke, Bool.false_eq_true, if_false] at h1 h2
          exact .inl ⟨e1, he1, h1, h2⟩
      · rintro (⟨e, he, h1, h2⟩ | ⟨rfl, rfl, rfl⟩)
        · refine ⟨_, ⟨e, he, rfl⟩, ?_, ?_⟩
          · split <;> exact h1
          · split
            · exact List.mem_append.mpr (.inl h2)
            · exact h2
        · refine ⟨_, ⟨_, hmem, rfl⟩, ?_, ?_⟩
          · simp
          · simp

theorem inc_addAssoc_eq (s : Inc.PState) (f : String) (i : Nat) (p : String) :
    (s.addAssoc f i p).assoc = addAssoc s.assoc f i p := by
  unfold Inc.PState.addAssoc addAssoc
  cases s.assoc.find? (fun x => x.1 == (f, i)) with
  | none => rfl
  | some e =>
    obtain ⟨k, ps⟩ := e
    simp only []
    split <;> rfl

/-- `FileOps.record` of the C04 engine adds exactly the walked nodes under the platform's name -/
theorem has_record (out : List Nat) (s : Inc.PState) (g name : String) (f : String) (i : Nat) (p : String) :
    Has (out.foldl (fun s i => s.addAssoc g i name) s).assoc f i p ↔ Has s.assoc f i p ∨ (f = g ∧ p = name ∧ i ∈ out) := by
  induction out generalizing s with
  | nil => simp
  | cons j out ih =>
    simp only [List.foldl_cons]
    rw [ih, inc_addAssoc_eq, has_addAssoc]
    simp only [List.mem_cons]
    constructor
    · rintro ((h | ⟨h1, h2, h3⟩) | ⟨h1, h2, h3⟩)
      · exact .inl h
      · exact .inr ⟨h1, h3, .inl h2⟩
      · exact .inr ⟨h1, h2, .inr h3⟩
    · rintro (h | ⟨h1, h2, h3 | h3⟩)
      · exact .inl (.inl h)
      · exact .inl (.inr ⟨h1, h3, h2⟩)
      · exact .inr ⟨h1, h2, h3⟩

theorem mem_triples (a : AssocL) (f : String) (i : Nat) (p : String) : (f, i, p) ∈ triples a ↔ Has a f i p := by
  simp only [triples, List.mem_flatMap, List.mem_map, Has]
  constructor
  · rintro ⟨e, he, q, hq, h⟩
    simp only [Prod.mk.injEq] at h
    obtain ⟨h1, h2, rfl⟩ := h
    exact ⟨e, he, by rw [← h1, ← h2], hq⟩
  · rintro ⟨e, he, h1, h2⟩
    exact ⟨e, he, p, h2, by rw [h1]⟩

/-- the driver's comparison decides equality of the attribution sets -/
theorem sameSet_iff (a b : AssocL) :
    sameSet (triples a) (triples b) = true ↔ ∀ f i p, Has a f i p ↔ Has b f i p := by
  simp only [sameSet, Bool.and_eq_true, List.all_eq_true, List.contains_iff_mem]
  constructor
  · rintro ⟨h1, h2⟩ f i p
    rw [← mem_triples, ← mem_triples]
    exact ⟨h1 _, h2 _⟩
  · intro h
    constructor
    · rintro ⟨f, i, p⟩ hx; rw [mem_triples] at hx ⊢; exact (h f i p).mp hx
    · rintro ⟨f, i, p⟩ hx; rw [mem_triples] at hx ⊢; exact (h f i p).mpr hx

/-! ## platforms -/

/-- the `Platform` object of `Model/Exclude.lean` read as the one of `Model/FindInc.lean` (same five fields) -/
def cv (p : PP.Platform) : Inc.Platform := ⟨p.name, p.tbl, p.skip, p.incPaths, p.memo⟩

/-- link-free file systems: `realpath` is the identity -/
theorem realpath_id (fs : Inc.FS) (h : fs.links = []) (p : String) : fs.realpath p = p := by
  simp [Inc.FS.realpath, h, Inc.realpathLoop]

theorem isfile_eq (fs : Inc.FS) (h : fs.links = []) (p : String) : fs.isfile p = (fs.files.get p).isSome := by
  simp [Inc.FS.isfile, realpath_id fs h]

/-- `Platform.find_include_file`: the two engines' memoised look-ups are the same function -/
theorem findInclude_eq (fs : Inc.FS) (h : fs.links = []) (p : PP.Platform) (name dir : String) (sys : Bool) :
    Inc.lookupWith true fs.env p.incPaths p.memo ⟨name, dir, sys⟩ =
      ((p.findInclude fs.files name dir sys).1, (p.findInclude fs.files name dir sys).2.memo) ∧
    (p.findInclude fs.files name dir sys).2 = { p with memo := (p.findInclude fs.files name dir sys).2.memo } := by
  simp only [Inc.lookupWith, if_true, IncMemo.find, IncMemo.findBy, IncMemo.Memo.lookup, IncMemo.Query.key,
    Platform.findInclude]
  cases hm : List.find? (fun x => x.1 == (name, if sys = true then none else some dir)) p.memo with
  | some e => obtain ⟨k, r⟩ := e; simp
  | none =>
    simp only [Option.map_none]
    have : IncMemo.resolveM fs.env p.incPaths ⟨name, dir, sys⟩ =
        List.find? (fun c => (fs.files.get c).isSome)
          (List.map (fun d => normpath (joinPath d name)) ((if sys = true then [] else [dir]) ++ p.incPaths)) := by
      simp only [IncMemo.resolveM, IncludeSearch.resolveIn, IncludeSearch.candidates, Inc.FS.env,
        FindEngines.normpathK_eq, FindEngines.joinPathK_eq]
      congr 1
      funext c
      exact isfile_eq fs h c
    rw [this]
    simp

/-! ## parsing -/

theorem parseAll_get (fs : Inc.FS) (f : String) :
    (Inc.parseAll fs).get f = (fs.files.get f).map Inc.parseOne := by
  unfold Inc.parseAll Inc.ParsedFS.get FSMap.get
  induction fs.files with
  | nil => simp
  | cons x xs ih =>
    simp only [List.map_cons, List.find?_cons]
    cases hx : x.1 == f with
    | true => simp
    | false => simpa using ih

/-- the parse step of the two engines on one text: they fail alike, and on success hold the same node array, the
tree of the one being the conversion of the tree `Cond.build` gives for the label list of the other -/
theorem parse_rel (text : String) :
    (∃ e, parseFile text = .error e ∧ (∃ e1, Inc.parseOne text = .error e1) ∧ ∃ e2, parseText .c text = .error e2) ∨
    (∃ nodes, parseFile text = .ok nodes ∧ build (labels nodes) = none ∧
      (∃ e1, Inc.parseOne text = .error e1) ∧ ∃ e2, parseText .c text = .error e2) ∨
    (∃ nodes ts d, parseFile text = .ok nodes ∧ build (labels nodes) = some ts ∧
      Inc.parseOne text = .ok ⟨nodes.toArray, labels nodes, d⟩ ∧ parseText .c text = .ok (nodes.toArray, toPTrees ts)) := by
  cases hp : parseFile text with
  | error e =>
    left
    exact ⟨e, rfl, ⟨e, by simp [Inc.parseOne, hp, bind, Except.bind]⟩, ⟨e, by simp [parseText, hp, bind, Except.bind]⟩⟩
  | ok nodes =>
    right
    cases hb : build (labels nodes) with
    | none =>
      left
      refine ⟨nodes, rfl, hb, ⟨.type_, ?_⟩, ⟨.type_, ?_⟩⟩
      · simp [Inc.parseOne, hp, bind, Except.bind, buildTree, hb]
      · simp [parseText, hp, bind, Except.bind, buildTree, hb]
    | some ts =>
      right
      refine ⟨nodes, ts, Inc.directivesOfText text, rfl, hb, ?_, ?_⟩
      · simp only [Inc.parseOne, hp, bind, Except.bind, buildTree, hb, pure, Except.pure]
      · simp only [parseText, hp, bind, Except.bind, buildTree, hb, pure, Except.pure]

end CbiVerif.Engines
