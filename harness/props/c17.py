"""C17 — Fortran sources: comment/continuation handling and preprocessor conditionals.

Implementation: codebasin.file_parser.FileParser on temp files `*.f90` / `*.F90`
                (node.lines, node.num_lines), codebasin.file_source.fortran_file_source
                (logical lines: lines, cleaned text, category), codebasin.finder.find
                (per-line attribution for a set of -D definitions).
Model (Lean):   CbiVerif.Fortran (Model/FClean.lean, Model/FSource.lean, Model/FCond.lean), driver ops
                "fortran" {model, spec, wf, k} and "fortran_cond" {model, spec, wf, nodes}
                (model = Fortran.analyseFortran = the C01 model PP.analyseNodes on the Fortran node list).
Spec (Lean):    Spec/FortranRef.lean (free-form reference scanner); Fortran.referenceFortran =
                PP.referenceNodes (the flat ISO C conditional-stack machine of C01) on the same node list.
Independent oracles: a line-oriented Python twin of the reference (below), the same
                program as a C file through the implementation and `gcc -E`,
                `gfortran -cpp -E` (thorough tier).
"""
from __future__ import annotations

import io
import itertools
import json
import os
import re
import subprocess

from harness import core

ALPHABET = "a !&'\"$#\n"
NAMES = ["A", "B", "C"]
K_LINE = re.compile(r"^&[ \t]+&[ \t]*$")  # F-C17-1: no leading blank, only blanks between the two '&'


# --------------------------------------------------------------------------
# implementation adapters
# --------------------------------------------------------------------------
class FastScratch:
    """throw-away directory outside /repo and /verif; on tmpfs when there is one (the check
    writes ~10^5 tiny files: /dev/shm is ~70x faster than the disk-backed /tmp of this machine)"""

    def __enter__(self):
        import tempfile

        base = "/dev/shm" if os.path.isdir("/dev/shm") and os.access("/dev/shm", os.W_OK) else None
        self.d = tempfile.mkdtemp(prefix="cbiverif_c17_", dir=base)
        return self.d

    def __exit__(self, *a):
        import shutil

        shutil.rmtree(self.d, ignore_errors=True)


class Impl:
    def __init__(self, scratch):
        core.import_codebasin()
        from codebasin import file_parser, file_source, preprocessor

        self.fs = file_source
        self.fp = file_parser
        self.pp = preprocessor
        self.d = scratch
        self.n = 0

    def source(self, text):
        """fortran_file_source: logical lines [lines, text, is_directive]"""
        src = self.fs.fortran_file_source(io.StringIO(text))
        out = []
        try:
            while True:
                ll = next(src)
                out.append([list(ll.lines), ll.flushed_line, ll.category == "CPP_DIRECTIVE"])
        except StopIteration:
            return {"ok": out}
        except RuntimeError:
            return {"exc": "RuntimeError"}

    def parse(self, text, ext=".f90"):
        """FileParser(path).parse_file(): nodes [is_directive, lines, num_lines]"""
        path = os.path.join(self.d, "t" + ext)
        with open(path, "w", newline="") as f:
            f.write(text)
        try:
            tree = self.fp.FileParser(path).parse_file()
        except RuntimeError as e:
            return {"exc": "RuntimeError", "msg": str(e)[:80]}
        except Exception as e:  # DirectiveParser errors etc. (other properties)
            return {"exc": type(e).__name__}
        nodes = []
        for n in tree.walk():
            if isinstance(n, self.pp.FileNode):
                continue
            nodes.append([isinstance(n, self.pp.DirectiveNode), list(n.lines), n.num_lines])
        return {"nodes": nodes, "total_sloc": tree.root.total_sloc, "num_lines": tree.root.num_lines}


def counted_of_nodes(nodes):
    return [x for n in nodes for x in n[1]]


# --------------------------------------------------------------------------
# independent line-oriented twin of the reference (blueprint validated in the design phase)
# --------------------------------------------------------------------------
def is_sentinel_at(s, j):
    k = j + 1
    while k < len(s) and s[k].isascii() and s[k].isalpha():
        k += 1
    return k < len(s) and s[k] == "$"


def twin_spec(text):
    """sorted counted line numbers, or None if outside this twin's WF (a subset of the Lean WF)"""
    if "\\" in text or "\r" in text or not text.isascii():
        return None
    lines = text.split("\n")
    if lines and lines[-1] == "":
        lines.pop()
    counted = []
    lit = None
    cont = False
    for n, s in enumerate(lines, 1):
        if any(ch.isspace() and ch != " " for ch in s):
            return None
        if s.lstrip(" ").startswith("#"):
            if cont:
                return None
            if "/*" in s:
                return None
            counted.append(n)
            continue
        i = 0
        text_seen = False
        stripped = s.strip(" ")
        if cont:
            if stripped == "":
                continue
            if stripped.startswith("!"):
                if lit is not None:
                    return None  # (the Lean reference accepts comment lines here; the twin does not)
                if is_sentinel_at(s, s.index("!")):
                    counted.append(n)
                continue
            k = 0
            while k < len(s) and s[k] == " ":
                k += 1
            if k < len(s) and s[k] == "&":
                i = k + 1
                if s[i:].strip(" ") == "":
                    return None
            elif lit is not None:
                return None
        cont = False
        while i < len(s):
            c = s[i]
            if lit is not None:
                if c == lit:
                    lit = None
                    text_seen = True
                elif c == "&" and s[i + 1:].strip(" ") == "":
                    cont = True
                    break
                else:
                    text_seen = True
                i += 1
                continue
            if c == "!":
                if is_sentinel_at(s, i):
                    text_seen = True
                break
            if c in "\"'":
                lit = c
                text_seen = True
            elif c == "&":
                r = s[i + 1:].strip(" ")
                if r == "" or r.startswith("!"):
                    if r.startswith("!") and is_sentinel_at(r, 0):
                        text_seen = True
                    cont = True
                    break
                return None
            elif c != " ":
                text_seen = True
            i += 1
        if lit is not None and not cont:
            return None
        if cont and not text_seen and lit is None:
            return None
        if text_seen:
            counted.append(n)
    if cont or lit is not None:
        return None
    return sorted(counted)


# --------------------------------------------------------------------------
# classification of one text
# --------------------------------------------------------------------------
def f1_classifier(case):
    """F-C17-1, as narrow as possible: every line on which implementation and reference differ is a
    physical line `&<blanks>&` without leading blank, counted by the reference, not by the code."""
    lines = case["text"].split("\n")
    diff = case.get("diff") or []
    if not diff:
        return False
    for n in diff:
        if not (1 <= n <= len(lines)) or not K_LINE.match(lines[n - 1]):
            return False
        if n in case.get("impl_counted", []) or n not in case.get("spec_counted", []):
            return False
    return True


def structural_checks(text, parsed):
    """invariants of the implementation's own output, for every text"""
    bad = []
    nodes = parsed["nodes"]
    counted = counted_of_nodes(nodes)
    nphys = len(text.split("\n")) - (1 if text.endswith("\n") or text == "" else 0)
    if len(set(counted)) != len(counted):
        bad.append(f"a line is counted twice: {counted}")
    if counted != sorted(counted):
        bad.append(f"lines not in increasing order: {counted}")
    if any(x < 1 or x > nphys for x in counted):
        bad.append(f"line out of range 1..{nphys}: {counted}")
    for n in nodes:
        if n[2] != len(n[1]):
            bad.append(f"num_lines {n[2]} != |lines| {len(n[1])} for node lines {n[1]}")
    if parsed["total_sloc"] != len(counted):
        bad.append(f"total_sloc {parsed['total_sloc']} != number of counted lines {len(counted)}")
    if "\\" not in text:
        plines = text.split("\n")
        for i, s in enumerate(plines, 1):
            if s.strip() == "" and i in counted:
                bad.append(f"blank line {i} is counted")
    return bad


def check_text(ctx, drv, impl, text, origin, ext=".f90", want_wf=False, reply=None):
    case = {"text": text, "ext": ext, "origin": origin}
    src = impl.source(text)
    par = impl.parse(text, ext)
    ctx.count(key=origin)
    if reply is None and drv is not None:
        reply = drv.ask({"op": "fortran", "text": text})
    # --- implementation's own invariants (every text)
    if "nodes" in par:
        bad = structural_checks(text, par)
        if "ok" in src:
            c1 = [x for r in src["ok"] for x in r[0]]
            if c1 != counted_of_nodes(par["nodes"]):
                bad.append(f"FileParser lines {counted_of_nodes(par['nodes'])} != fortran_file_source lines {c1}")
        if bad:
            ctx.violation("structural: " + "; ".join(bad[:3]), case)
    elif par["exc"] == "RuntimeError" and "ok" in src:
        ctx.violation(f"FileParser raises RuntimeError ({par.get('msg')}) on a {ext} file that fortran_file_source accepts", case)
    if reply is None:
        return None
    m = reply["model"]
    # --- correspondence: model vs implementation
    mm = {"ok": m["ok"]} if "ok" in m else {"exc": "RuntimeError"}
    if mm != src:
        ctx.corr_break("fortran/source", case, src, mm)
    if "nodes" in par:
        if "nodes" not in m or m["nodes"] != par["nodes"]:
            ctx.corr_break("fortran/nodes", case, par, m.get("nodes", m))
    elif par["exc"] == "RuntimeError" and "ok" in m:
        ctx.corr_break("fortran/nodes", case, par, m["nodes"])
    # --- property oracle: implementation vs reference on well-formed texts
    if reply["wf"]:
        ctx.dist["wf"] += 1
        spec = reply["spec"]
        if "nodes" in par:
            got = counted_of_nodes(par["nodes"])
        elif "ok" in src:
            got = [x for r in src["ok"] for x in r[0]]
        else:
            got = None
        if spec and any(ln.strip() != "" and i not in spec for i, ln in enumerate(text.split("\n"), 1)):
            ctx.nontrivial.add(text)
        if reply["k"]:
            ctx.dist["has_F-C17-1_line"] += 1
        if got is None:
            ctx.violation("the code raises on a well-formed free-form text: " + str(par), case)
        elif got != spec:
            diff = sorted(set(got) ^ set(spec))
            c2 = dict(case, diff=diff, impl_counted=got, spec_counted=spec, k_lines=reply["k"])
            ctx.classify(c2, f"counted lines {got} != reference {spec} (differ on {diff})", [("F-C17-1", f1_classifier)])
        elif "nodes" in par and not reply["k"] and reply.get("spec_nodes") is not None:
            # grouping of the counted lines into nodes (C17.nodes_eq_ref: proved for the model outside F-C17-1)
            groups = [[bool(n[0]), n[1]] for n in par["nodes"]]
            if groups != reply["spec_nodes"]:
                ctx.violation(f"nodes {groups} != groups of the reference {reply['spec_nodes']}", case)
            elif any(n[2] < 1 for n in par["nodes"]):
                ctx.violation(f"a node without lines: {par['nodes']}", case)
        # Lean spec vs its independent twin
        tw = twin_spec(text)
        if tw is not None:
            ctx.dist["twin_wf"] += 1
            if tw != spec:
                ctx.notes.append(f"SPEC-TWIN disagreement on {text!r}: Lean {spec} twin {tw}")
                ctx.violation(f"reference scanner {spec} and its independent twin {tw} disagree", case)
    elif want_wf:
        ctx.dist["generated_not_wf"] += 1
    ctx.sample({"text": text, "wf": reply["wf"], "spec": reply["spec"], "impl": par.get("nodes", par)}, cap=8)
    return reply


def check_many(ctx, drv, impl, items, chunk=4000):
    """items: iterable of (text, origin, ext, want_wf); driver requests are sent in batches"""
    buf = []

    def flush():
        replies = drv.batch([{"op": "fortran", "text": t} for t, _, _, _ in buf]) if drv is not None else [None] * len(buf)
        for (t, o, e, w), r in zip(buf, replies):
            check_text(ctx, drv, impl, t, o, e, w, reply=r)
        buf.clear()

    for it in items:
        buf.append(it)
        if len(buf) >= chunk:
            flush()
    if buf:
        flush()


# --------------------------------------------------------------------------
# grammar generator
# --------------------------------------------------------------------------
def g_literal(rng):
    q = rng.choice("'\"")
    o = '"' if q == "'" else "'"
    pool = ["a", "b c", "!", "&", "//", "!$omp", "#", " ", q + q, o, "x&y", "& !", "it" + q + q + "s", "!x", "$", "&&", " & "]
    return q + "".join(rng.choices(pool, k=rng.randint(0, 4))) + q


def g_comment(rng):
    body = rng.choice(["c", " note", " don't", ' say "x"', " a & b", " & ", "x$y", " $", "!", "! !$omp", " #if", "", " '", "omp",
                       "1$", "a1$ x", "_$", "a_b$x", "2 $", "-$", "a $omp", "1", "$", "(a)$"])
    if is_sentinel_at("!" + body, 0):
        body = " " + body         # (would be a sentinel: make it an ordinary comment)
    return "!" + body


def g_sentinel(rng):
    return rng.choice(["!$omp parallel do", "!$acc loop", "!dir$ ivdep", "!$", "!DEC$ ATTRIBUTES x", "!$omp& private(i)", "!$ x = 1", "!cdir$ z", "!$omp end parallel ! c"])


def g_tokens(rng):
    toks = []
    for _ in range(rng.randint(1, 5)):
        r = rng.random()
        if r < 0.3:
            toks.append(g_literal(rng))
        else:
            toks.append(rng.choice(["x", "=", "1", "+", "call f(", ")", "//", "y(i)", "print *,", ".and.", "2.0e0", "/", "#", "a$b", "%"]))
    return toks


def g_filler(rng, out, in_lit):
    """blank / comment / sentinel lines interleaved in a continuation"""
    for _ in range(rng.choice([0, 0, 0, 1, 1, 2])):
        r = rng.random()
        if r < 0.35:
            out.append(rng.choice(["", " ", "   "]))
        elif r < 0.8 or in_lit:
            out.append(rng.choice(["", " ", "    "]) + g_comment(rng))
        else:
            out.append(rng.choice(["", "  "]) + g_sentinel(rng))


def g_statement(rng, out, marker=None):
    """one statement, possibly continued over several lines (also inside a character literal)"""
    toks = g_tokens(rng)
    if marker:
        toks = [marker, "="] + toks
    elif toks[0] in ("#",):
        toks = ["x"] + toks
    indent = rng.choice(["", "", "  ", "      "])
    cur = indent
    for ti, t in enumerate(toks):
        islit = t[:1] in "'\"" and len(t) >= 2
        if islit and len(t) > 2 and rng.random() < 0.35:
            # continue inside the literal
            inner = t[1:-1]
            cut = rng.randint(0, len(inner))
            a, b = inner[:cut], inner[cut:]
            out.append(cur + t[0] + a + "&" + rng.choice(["", " ", "  "]))
            g_filler(rng, out, True)
            if rng.random() < 0.3:   # a continuation line holding only one blank of the literal
                out.append(rng.choice(["", " ", "   "]) + "& &")
                g_filler(rng, out, True)
            cur = rng.choice(["", " ", "    "]) + "&" + b + t[-1]
        else:
            if cur.strip() in ("", "&") and t.startswith("#"):
                t = "+ " + t          # a '#' first on a line would be a preprocessor line
            cur += ("" if cur.strip() == "" else " ") + t
        if ti + 1 < len(toks) and rng.random() < 0.3:
            tail = rng.choice(["", "", " " + g_comment(rng)])
            out.append(cur + " &" + tail)
            g_filler(rng, out, False)
            cur = rng.choice(["", "  ", "     "]) + rng.choice(["", "&", "& ", "&"])
    if cur.strip() in ("", "&"):
        cur += " z"
    if rng.random() < 0.3:
        cur += " " + g_comment(rng)
    out.append(cur)


def g_cond(rng):
    n, m = rng.choice(NAMES), rng.choice(NAMES)
    return rng.choice([f"defined({n})", f"!defined({n})", f"{n}", f"{n} == 1", f"{n} > 1", f"defined({n}) && {m}",
                       f"defined({n}) || defined({m})", "0", "1", f"{n} + 1 == 2"])


def g_split_statement(rng, out, ids):
    """ONE continued statement whose continuation lines are interleaved with preprocessor directives
    (`#if…/#elif/#else/#endif`, `#define/#undef`): every directive cuts the logical line, so each piece
    is a code node of its own and is selected by the conditional it stands in"""
    ids[0] += 1
    ind = rng.choice(["", "  "])
    amp = lambda: rng.choice(["& ", "&", "& ", ""])            # leading '&' is optional
    tail = lambda: " &" + rng.choice(["", "", " ! c", " !$omp x"])
    n = rng.choice(NAMES)
    out.append(f"{ind}m{ids[0]} = 1" + tail())
    k = rng.random()
    if k < 0.15:
        out.append(f"#define {n} 1" if rng.random() < 0.6 else f"#undef {n}")
    else:
        out.append(rng.choice(["", " "]) + rng.choice([f"#ifdef {n}", f"#ifndef {n}", f"#if {g_cond(rng)}"]))
        out.append(f"{ind}  {amp()}+ 2" + tail())
        if rng.random() < 0.3:
            out.append(rng.choice(["", "   ", " ! c"]))
        if rng.random() < 0.35:
            out.append(f"#elif {g_cond(rng)}")
            out.append(f"{ind}  {amp()}+ 5" + tail())
        if rng.random() < 0.7:
            out.append("#else")
            if rng.random() < 0.8:
                out.append(f"{ind}  {amp()}+ 3" + tail())
        out.append("#endif")
    out.append(f"{ind}  {amp()}+ 4")


def g_block(rng, depth, out, ids, budget, split=0.0):
    for _ in range(rng.randint(1, 4)):
        if budget[0] <= 0:
            return
        budget[0] -= 1
        r = rng.random()
        if split and rng.random() < split:
            g_split_statement(rng, out, ids)
        elif r < 0.45:
            ids[0] += 1
            g_statement(rng, out, marker=f"m{ids[0]}")
        elif r < 0.55:
            out.append(rng.choice(["", " ", "   "]) + g_comment(rng))
        elif r < 0.6:
            out.append(g_sentinel(rng))
        elif r < 0.65:
            out.append(rng.choice(["", "  "]))
        elif r < 0.78:
            n = rng.choice(NAMES)
            out.append(rng.choice(["", "  "]) + (f"#define {n}" + rng.choice(["", " 1", " 2", " 0"]) if rng.random() < 0.7 else f"#undef {n}"))
        elif depth > 0:
            k = rng.random()
            n = rng.choice(NAMES)
            out.append(rng.choice(["", " "]) + (f"#ifdef {n}" if k < 0.25 else f"#ifndef {n}" if k < 0.45 else f"#if {g_cond(rng)}"))
            g_block(rng, depth - 1, out, ids, budget, split)
            for _ in range(rng.choice([0, 0, 1, 2])):
                out.append(f"#elif {g_cond(rng)}")
                g_block(rng, depth - 1, out, ids, budget, split)
            if rng.random() < 0.5:
                out.append("#else")
                g_block(rng, depth - 1, out, ids, budget, split)
            out.append("#endif")


def g_program(rng, depth=2, size=12, split=0.0):
    """split > 0: probability that an item is a continued statement interleaved with directives
    (outside the WF of the line-classification reference; used by the conditional-selection stream)"""
    out, ids = [], [0]
    g_block(rng, depth, out, ids, [size], split)
    if not out:
        out = ["x = 1"]
    return "\n".join(out) + rng.choice(["\n", "\n", ""])


def g_defsets():
    """all define sets over NAMES with values in {undefined, 1, 2}"""
    for combo in itertools.product([None, "1", "2"], repeat=len(NAMES)):
        yield [f"{n}={v}" for n, v in zip(NAMES, combo) if v is not None]


def mutate_text(rng, text):
    chars = list(text)
    for _ in range(rng.randint(1, 3)):
        op = rng.random()
        pos = rng.randint(0, len(chars))
        if op < 0.4 and chars:
            del chars[min(pos, len(chars) - 1)]
        elif op < 0.8:
            chars.insert(pos, rng.choice("&!'\" $#\n\\a/*"))
        elif chars:
            chars[min(pos, len(chars) - 1)] = rng.choice("&!'\" $#\n")
    return "".join(chars)


# --------------------------------------------------------------------------
# conditional selection
# --------------------------------------------------------------------------
KIND = {
    "CodeNode": "code", "IfNode": "ifk", "ElIfNode": "elifk", "ElseNode": "elsek", "EndIfNode": "endk",
    "DefineNode": "define", "UndefNode": "undef", "IncludeNode": "include", "PragmaNode": "pragma",
    "UnrecognizedDirectiveNode": "unrecognized",
}
# Lean error constructor -> Python exception classes it stands for
ERRMAP = {
    "index": {"IndexError"}, "type_": {"AttributeError", "TypeError"}, "parse": {"ParseError"},
    "runtime": {"RuntimeError"}, "overflow": {"OverflowError"},
}


def err_matches(lean_exc, py_exc):
    tag = str(lean_exc).split("Err.")[-1].split(" ")[0]
    return tag not in ERRMAP or py_exc in ERRMAP[tag]


def impl_attribution(path, root, defs):
    from codebasin import CodeBase, finder

    cb = CodeBase(root)
    cfg = {"P": [{"file": path, "defines": list(defs), "include_paths": [], "include_files": []}]}
    st = finder.find(root, cb, cfg, summarize_only=False)
    return st


def lines_of_state(st, path):
    from codebasin.preprocessor import CodeNode

    tree = st.get_tree(path)
    m = st.get_map(path)
    used = []
    for n in tree.walk():
        if isinstance(n, CodeNode) and m[n]:
            used.extend(n.lines)
    return sorted(used)


def impl_rows(path, root, defsets):
    """per define set {'ok': [[kind, lines, attributed], …]} | {'exc': class name}: ONE finder.find with
    one platform per define set (as a user would configure it); if that raises, each set on its own"""
    from codebasin import CodeBase, finder
    from codebasin.preprocessor import CodeNode

    def one(sets):
        cfg = {f"p{i}": [{"file": path, "defines": list(d), "include_paths": [], "include_files": []}] for i, d in sets}
        st = finder.find(root, CodeBase(root), cfg, summarize_only=False)
        tree, m = st.get_tree(path), st.get_map(path)
        nodes = [n for n in tree.walk() if isinstance(n, CodeNode)]
        return {i: {"ok": [[KIND.get(type(n).__name__, type(n).__name__), list(n.lines), f"p{i}" in m[n]] for n in nodes]}
                for i, _ in sets}

    sets = list(enumerate(defsets))
    try:
        r = one(sets)
    except Exception:  # noqa
        r = {}
        for i, d in sets:
            try:
                r.update(one([(i, d)]))
            except Exception as e:  # noqa
                r[i] = {"exc": type(e).__name__}
    return [r[i] for i, _ in sets]


def rows_lines(rows):
    return sorted(x for _, ls, a in rows if a for x in ls)


def c_twin(text, code_lines):
    """the same program as a C file: directive lines verbatim, every line the implementation counts
    as Fortran code becomes a C declaration `int Ln;`, every other line is empty (line numbers are
    preserved) — isolates conditional selection from line classification"""
    if "\\" in text or "/*" in text:
        return None
    tw = set(code_lines)
    out = []
    for i, s in enumerate(text.split("\n"), 1):
        if s.lstrip(" ").startswith("#"):
            out.append(s)
        elif i in tw:
            out.append(f"int L{i};")
        else:
            out.append("")
    return "\n".join(out)


def external_selected(cmd, text, defs, pat):
    r = subprocess.run(cmd + [f"-D{d}" for d in defs] + ["-"], input=text, capture_output=True, text=True)
    if r.returncode != 0 or r.stderr.strip():
        return None
    return sorted(set(int(x) for x in re.findall(pat, r.stdout)))


def check_cond(ctx, drv, text, scratch, thorough, defsets=None, origin="cond"):
    """per-node attribution of a Fortran program for all define sets: implementation vs model
    (Fortran.analyseFortran = tree builder + visitor of C01 on the Fortran node list) vs spec
    (Fortran.referenceFortran = flat ISO C machine on the same node list) vs the C twin (implementation
    on a .c file, gcc -E) vs gfortran -cpp -E"""
    ext = ctx.rng.choice([".f90", ".F90"])
    fpath = os.path.join(scratch, "prog" + ext)
    with open(fpath, "w") as f:
        f.write(text)
    try:
        core.import_codebasin()
        from codebasin import file_parser, preprocessor
        tree0 = file_parser.FileParser(fpath).parse_file()
        code_lines = [x for n in tree0.walk() if isinstance(n, preprocessor.CodeNode)
                      and not isinstance(n, preprocessor.DirectiveNode) for x in n.lines]
        twin = c_twin(text, code_lines)
    except Exception:  # noqa
        twin = None
    cpath = os.path.join(scratch, "prog_twin.c")
    if twin is not None:
        with open(cpath, "w") as f:
            f.write(twin)
    markers = {}
    for i, s in enumerate(text.split("\n"), 1):
        mm = re.match(r"\s*(m\d+) =", s)
        if mm:
            markers[mm.group(1)] = i
    defsets = list(g_defsets()) if defsets is None else list(defsets)
    gots = impl_rows(fpath, scratch, defsets)
    gots_c = impl_rows(cpath, scratch, defsets) if twin is not None else [None] * len(defsets)
    reps = drv.batch([{"op": "fortran_cond", "text": text, "defs": d} for d in defsets]) if drv is not None else [None] * len(defsets)
    for defs, g, g_c, rep in zip(defsets, gots, gots_c, reps):
        case = {"text": text, "defs": defs, "ext": ext, "origin": origin}
        ctx.count(key=origin)
        got = rows_lines(g["ok"]) if "ok" in g else None
        if rep is not None:
            model, spec = rep["model"], rep["spec"]
            # ---- correspondence: model vs implementation, node by node (kind, lines, attributed)
            if "ok" in model:
                same = "ok" in g and g["ok"] == model["ok"]
            else:
                same = "exc" in g and err_matches(model.get("exc"), g["exc"])
            if not same:
                ctx.corr_break("fortran_cond", case, g, model)
            # ---- property: implementation vs the flat C machine, when that accepts the unit silently
            if rep["wf"] and not spec.get("c23"):
                ctx.dist["cond_wf"] += 1
                if spec.get("err") is not None:
                    ctx.dist["cond_wf_expr_failure"] += 1      # (malformed reached expression: correspondence only)
                elif "exc" in g:
                    ctx.violation(f"-D{defs}: analysis fails with {g['exc']} on a Fortran unit whose conditionals the reference "
                                  "preprocessor accepts without diagnostics", case)
                else:
                    sel = [a for k, _, a in spec["rows"] if k == "code"]
                    if any(sel) and not all(sel):
                        ctx.nontrivial.add(text + "|" + ",".join(defs))
                    # per-line attribution (a difference in node shape only is a correspondence break, see above)
                    unsel = sorted(x for _, ls, a in g["ok"] if not a for x in ls)
                    unsel_spec = sorted(x for _, ls, a in spec["rows"] if not a for x in ls)
                    if got != sorted(spec["lines"]) or unsel != unsel_spec:
                        diff = [(a, b) for a, b in zip(g["ok"], spec["rows"]) if a != b][:3]
                        ctx.violation(f"lines selected for -D{defs}: {got} != flat C conditional machine {spec['lines']}; "
                                      f"first differing nodes (implementation, reference): {json.dumps(diff)}", case)
            else:
                ctx.dist["cond_not_wf"] += 1
        # --- the same program as a C file, through the implementation
        if g_c is not None and got is not None:
            got_c = rows_lines(g_c["ok"]) if "ok" in g_c else "EXC:" + g_c["exc"]
            ctx.dist["cond_vs_c_twin"] += 1
            if got_c != got:
                ctx.violation(f"-D{defs}: Fortran file selects {got}, the same program as a C file selects {got_c}", dict(case, twin=twin))
            if thorough:
                gg = external_selected(["gcc", "-E", "-P", "-undef", "-x", "c"], twin, defs, r"\bint L(\d+);")
                if gg is not None:
                    ctx.dist["cond_vs_gcc"] += 1
                    code_lines = [x for x in got if re.match(r"int L\d+;", twin.split("\n")[x - 1])]
                    if gg != code_lines:
                        ctx.violation(f"-D{defs}: gcc -E keeps code lines {gg}, implementation {code_lines}", dict(case, twin=twin))
        # gfortran's traditional-mode cpp only recognises `#` in column 1: programs with an indented
        # directive are judged against the C semantics (flat machine, C twin, gcc) only
        if thorough and markers and got is not None and not re.search(r"^[ \t]+#", text, flags=re.M):
            r = subprocess.run(["gfortran", "-cpp", "-E", "-P"] + [f"-D{d}" for d in defs] + [fpath],
                               capture_output=True, text=True)
            if r.returncode == 0 and not r.stderr.strip():
                ctx.dist["cond_vs_gfortran"] += 1
                alive = sorted(markers[m] for m in set(re.findall(r"^\s*(m\d+) =", r.stdout, flags=re.M)) if m in markers)
                mine = sorted(l for l in markers.values() if l in got)
                if alive != mine:
                    ctx.violation(f"-D{defs}: gfortran -cpp -E keeps marker statements at lines {alive}, implementation {mine}", case)


def gen_include_case(rng):
    body = ["! don't count this comment", "#define A 1", "x = 'it''s' // \"&\" ! c", "", "!$omp declare", "#ifdef B", "y = 1 &",
            "  ! c", "  & + 2", "#endif"]
    depth = rng.choice([1, 2, 2, 3])
    names = [f"part{k}" + rng.choice([".h", ".inc", ".hpp", ".fi", ".hh", ".f90"]) for k in range(depth)]
    texts = {}
    for k, name in enumerate(names):
        lines = list(body)
        if k > 0:
            lines[1] = f"#define LVL{k} 1"
        if k + 1 < depth:
            lines.insert(rng.choice([0, 1, 5, len(lines)]), f'#include "{names[k + 1]}"')
        texts[name] = "\n".join(lines) + "\n"
    main = f'#include "ext/{names[0]}"\n#ifdef A\nm1 = 1\n#else\nm2 = 2\n#endif\n'
    return {"main": main, "includes": texts, "chain": names, "ext": rng.choice([".f90", ".F90"]), "origin": "include"}


def check_include(ctx, drv, scratch, case=None):
    """a file reached by #include from a Fortran source — directly or through a chain of includes — is read as
    free-form Fortran whatever the extensions of the files on the way; its #define selects lines of the includer"""
    case = case or gen_include_case(ctx.rng)
    names, texts, main, ext = case["chain"], case["includes"], case["main"], case["ext"]
    sub = os.path.join(scratch, "incl")
    os.makedirs(os.path.join(sub, "ext"), exist_ok=True)
    for name in names:
        with open(os.path.join(sub, "ext", name), "w") as f:
            f.write(texts[name])
    mpath = os.path.join(sub, "main" + ext)
    with open(mpath, "w") as f:
        f.write(main)
    from codebasin import CodeBase, finder
    from codebasin.preprocessor import FileNode

    out = {}
    ctx.count(key=f"include-chain-depth={len(names)}")
    try:
        cb = CodeBase(sub, exclude_patterns=["ext/*"])
        cfg = {"P": [{"file": mpath, "defines": ["B"], "include_paths": [], "include_files": []}]}
        st = finder.find(sub, cb, cfg, summarize_only=False)
        got = {}
        for name in names:
            tree = st.get_tree(os.path.join(sub, "ext", name))
            got[name] = [x for n in tree.walk() if not isinstance(n, FileNode) for x in n.lines]
        sel = lines_of_state(st, mpath)
    except Exception as e:  # noqa
        ctx.violation(f"include scenario raises {type(e).__name__}: {e}", case)
        return {"exc": f"{type(e).__name__}: {e}"}
    out["implementation"] = {"counted": got, "selected_lines_of_main": sel}
    out["reference"] = {}
    for name in names:
        rep = drv.ask({"op": "fortran", "text": texts[name]}) if drv is not None else None
        want = rep["spec"] if rep and rep["wf"] else twin_spec(texts[name])
        out["reference"][name] = want
        if got[name] != want:
            ctx.violation(f"{name} (level {names.index(name) + 1} of the include chain {names} below a Fortran source): counted {got[name]}, "
                          f"free-form reference {want}", case)
            break
    if sel != [1, 2, 3, 4, 6]:
        ctx.violation(f"#define in the included file does not select lines of the includer as in C: {sel}", case)
    return out


# --------------------------------------------------------------------------
def run(ctx, drv):
    ctx.rule = (
        "texts over {a, blank, !, &, ', \", $, #, newline}: exhaustive up to length 5 (quick, plus 1 in 8 of length 6) / 6 (thorough), plus texts of "
        "length 7 over {a, blank, &, !, ', $, newline} sampled 1 in 4 (thorough); grammar-generated free-form programs (statements, character "
        "literals with doubled quotes and embedded ! & // # $, trailing and full-line comments, sentinels, & continuations "
        "with/without leading &, continuation inside literals, interleaved blank/comment/sentinel lines, #if/#ifdef/#ifndef/"
        "#elif/#else/#endif/#define/#undef) and 1-3 character mutations of them; every printable ASCII character and tab placed in 23 syntactic positions (after `!`, inside a sentinel prefix, in literals, at the start of continuation lines, after `&`, …).  Non-trivial = distinct well-formed text in "
        "which at least one line is counted and at least one non-blank line is not counted; for conditional selection "
        "(grammar programs of nesting depth <= 3, every other one with continued statements whose continuation lines are interleaved "
        "with #if/#elif/#else/#endif/#define/#undef, each under all 27 define sets over A, B, C in {undefined, 1, 2}, one platform per set): "
        "distinct (program, define set) accepted by the flat C machine for which some but not all code nodes are selected."
    )
    ctx.assumptions += [
        "texts are ASCII, `\\n`-terminated lines (Python universal-newline decoding and Unicode `isalpha`/`isspace` are not modelled)",
        "WF (reference accepts): no backslash, no `/*` on a directive line, `&` only as last non-blank (optionally followed by a "
        "comment), character contexts closed on the line or continued with `&` … leading `&`, no directive inside a continued "
        "statement; fixed-form extensions (.f, .F, .ftn, …) are outside the property (the code refuses them)",
        "physical extents (start_line/end_line) of nodes are not part of C17",
    ]
    with FastScratch() as d:
        scratch = str(d)
        impl = Impl(scratch)
        # --- corpus first
        for f in sorted((core.VERIF / "corpus" / "C17").glob("*.json")):
            c = json.loads(f.read_text())
            if "defs" in c:
                with FastScratch() as d2:
                    check_cond(ctx, drv, c["text"], str(d2), False)
            else:
                check_text(ctx, drv, impl, c["text"], "corpus:" + f.name, c.get("ext", ".f90"))
        # --- the recorded finding's witnesses
        check_text(ctx, drv, impl, "x = 'a&\n& &\n&b'\n", "witness")
        check_text(ctx, drv, impl, "x = 'a&\n   & &\n&b'\n", "witness")
        # the repaired F-C17-2 (a continuation line whose `#` opens the text of a statement that began with lone `&` lines) and its neighbours
        for t in ["x = 1\n&\n&#define A\ny = 2\n", "&\n\n ! c\n& &\n  & #undef A &\n  & 1\nz = 3\n", "x = &\n&#define A\ny = 2\n",
                  "&\n&x = 1\n#define A\n", "& ! c\n  & !$omp x\n  & #3\n"]:
            check_text(ctx, drv, impl, t, "witness")
        # --- both free-form extensions behave alike; fixed form is refused
        for t in ["x = 1 ! c\n!$omp do\n! c\ny = 'a!b' // &\n  & 'c'\n#ifdef A\nz = 2\n#endif\n", "a &\n\n ! c\n &b\n"]:
            for ext in (".f90", ".F90"):
                check_text(ctx, drv, impl, t, "ext" + ext, ext)
        for ext in (".f", ".F", ".ftn", ".FOR", ".fpp"):
            r = impl.parse("      x = 1\nc comment\n", ext)
            ctx.count(key="fixed-form-refused")
            if r.get("exc") != "RuntimeError":
                ctx.notes.append(f"fixed-form extension {ext} is no longer refused: {r}")
        # --- every printable ASCII character (and tab) in every syntactic position that matters
        chars = [chr(i) for i in range(32, 127)] + ["\t"]
        templates = ["!{c}$ x", "!a{c}$", "!{c}a$", "x = 1 !{c}$", "x = 1 ! {c}", "a &\n {c} b", "a &\n{c}b", "a &\n !{c}$\n b",
                     "'{c}'", "\"{c}\"", "'a&\n&{c}'", "'a&\n {c}&b'", "x {c} y", "{c}", " {c}", "{c}if 1\n#endif", "a & {c}", "a &{c}",
                     "'a& {c}'", "x = 'a' {c} 'b'", "{c}{c}", "!${c}", "&{c}"]
        check_many(ctx, drv, impl, ((t.replace("{c}", c) + nl, "ascii-classes", ".f90", False)
                                    for c in chars for t in templates for nl in ("\n",)))
        # --- exhaustive small texts
        maxlen = 6 if (ctx.thorough() or ctx.budget_scale > 1) else 5
        for L in range(1, maxlen + 1):
            check_many(ctx, drv, impl, (("".join(tup), f"exhaustive{L}", ".F90" if (L % 2) else ".f90", False)
                                        for tup in itertools.product(ALPHABET, repeat=L)))
        ctx.exhaustive = True
        if maxlen < 6:
            # quick tier: every 8th text of length 6 (offset from the seed)
            off6 = ctx.seed % 8
            check_many(ctx, drv, impl, (("".join(tup), "sampled6", ".f90", False)
                                        for i, tup in enumerate(itertools.product(ALPHABET, repeat=6)) if i % 8 == off6))
        if ctx.thorough():
            # every 4th text of length 7 over a 7-letter alphabet (offset from the seed)
            off = ctx.seed % 4
            check_many(ctx, drv, impl, (("".join(tup), "sampled7r", ".f90", False)
                                        for i, tup in enumerate(itertools.product("a &!'$\n", repeat=7)) if i % 4 == off))

        # --- grammar
        def grammar_items():
            for i in range(ctx.n(8000, 60000)):
                t = g_program(ctx.rng, depth=ctx.rng.choice([0, 1, 2]), size=ctx.rng.randint(2, 10))
                yield (t, "grammar", ctx.rng.choice([".f90", ".F90"]), True)
                if i % 2 == 0:
                    yield (mutate_text(ctx.rng, t), "grammar-mutated", ".f90", False)

        check_many(ctx, drv, impl, grammar_items())

        # --- random longer texts over the small alphabet (+ backslash, slash, star, tab)
        def random_items():
            for i in range(ctx.n(12000, 100000)):
                L = ctx.rng.randint(6, 14)
                yield ("".join(ctx.rng.choice("a  !&&''\"$#\n\n" + ("\\/*\t" if i % 4 == 0 else "")) for _ in range(L)),
                       "random", ".f90", False)

        check_many(ctx, drv, impl, random_items())
        # --- conditional selection (own directories: the code base is the directory)
        cdir = os.path.join(scratch, "cond")
        os.makedirs(cdir)
        n_ext = ctx.n(0, 160)       # programs additionally judged by gcc -E / gfortran -cpp -E (one process per define set)
        for i in range(ctx.n(400, 1600)):
            # every other program has continued statements interleaved with directives
            t = g_program(ctx.rng, depth=ctx.rng.choice([1, 2, 3]), size=ctx.rng.randint(4, 14), split=0.25 if i % 2 else 0.0)
            check_cond(ctx, drv, t, cdir, i < n_ext, origin="cond-split" if i % 2 else "cond")
        idir = os.path.join(scratch, "inc")
        os.makedirs(idir)
        for i in range(ctx.n(12, 60)):
            check_include(ctx, drv, idir)


def table_search(ctx, drv):
    """texts aimed at the cells where the tables regenerated from the running `fortran_cleaner` /
    `c_cleaner(directives_only=True)` differ from the Lean model's cells (harness/props/clean_diff.py)"""
    from harness.props import clean_diff

    if drv is None:
        return 0
    sus = clean_diff.f_suspects(drv)
    if sus["error"]:
        ctx.notes.append("search: the transition table cannot be regenerated: " + sus["error"][:300])
        return loop_search(ctx, drv)
    if sus["cells"]:
        ctx.notes.append(f"search: code and model differ in {len(sus['cells'])}{'+' if len(sus['cells']) >= 40 else ''} "
                         "table cell(s), e.g. " + " | ".join(sus["cells"][:4]))
        ctx.extra["table_diff_cells"] = sus["cells"]
    n = [0]

    def items():
        for t in clean_diff.f_biased_texts(sus):
            if len(ctx.violations) >= 5:
                return
            n[0] += 1
            yield (t, "search-table-cells", ".f90", False)

    if sus["targets"] or sus["dtargets"]:
        with FastScratch() as d:
            check_many(ctx, drv, Impl(str(d)), items(), chunk=2000)
        ctx.notes.append(f"search: {n[0]} texts aimed at {len(sus['targets'])} differing line(s) / {len(sus['dtargets'])} C-pass stack(s)")
    return n[0] + loop_search(ctx, drv)


def loop_search(ctx, drv):
    """texts aimed at the iterations of `fortran_file_source` that differ from the model's `fStep` (regenerated loop
    table against driver op `floop_cells`, harness/props/clean_diff.py)"""
    from harness.props import clean_diff

    if ctx.violations:
        return 0
    sus = clean_diff.f_loop_suspects(drv)
    if sus["error"]:
        ctx.notes.append("search: the loop of fortran_file_source cannot be tabulated: " + sus["error"][:300])
    if sus["cells"]:
        ctx.notes.append(f"search: the loop and its model differ in {len(sus['cells'])}{'+' if len(sus['cells']) >= 40 else ''} "
                         "iteration(s), e.g. " + " | ".join(sus["cells"][:3]))
        ctx.extra["loop_diff_cells"] = sus["cells"]
    if not sus["targets"]:
        return 0
    n = [0]

    def items():
        for t in clean_diff.f_loop_texts(sus):
            if len(ctx.violations) >= 5:
                return
            n[0] += 1
            yield (t, "search-loop-cells", ".f90", False)

    with FastScratch() as d:
        check_many(ctx, drv, Impl(str(d)), items(), chunk=2000)
    ctx.notes.append(f"search: {n[0]} texts aimed at {len(sus['targets'])} differing loop iteration(s)")
    return n[0]


def search(ctx, drv):
    table_search(ctx, drv)
    if ctx.violations:
        return
    run(ctx, drv)


def replay(ctx, drv, case):
    with FastScratch() as d:
        impl = Impl(str(d))
        out = {}
        if "defs" in case:
            fpath = os.path.join(str(d), "prog" + case.get("ext", ".f90"))
            open(fpath, "w").write(case["text"])
            try:
                st = impl_attribution(fpath, str(d), case["defs"])
                out["implementation"] = lines_of_state(st, fpath)
            except Exception as e:  # noqa
                out["implementation"] = f"EXC:{type(e).__name__}: {e}"
            out["implementation_rows"] = impl_rows(fpath, str(d), [case["defs"]])[0]
            if drv is not None:
                r = drv.ask({"op": "fortran_cond", "text": case["text"], "defs": case["defs"]})
                out["model"] = r.get("model", r)
                out["spec"] = r.get("spec")
                out["wf"] = r.get("wf")
            return out
        if case.get("origin") == "include" and "chain" in case:
            core.import_codebasin()
            c2 = core.Ctx(ctx.prop, "quick", 0)
            r = check_include(c2, drv, str(d), case)
            r["violations"] = [w for w, _ in c2.violations]
            return r
        if "text" not in case:
            return {"note": "scenario case", "case": case}
        out["implementation"] = {"FileParser": impl.parse(case["text"], case.get("ext", ".f90")),
                                 "fortran_file_source": impl.source(case["text"])}
        out["twin_reference"] = twin_spec(case["text"])
        if drv is not None:
            r = drv.ask({"op": "fortran", "text": case["text"]})
            out["model"] = r["model"]
            out["spec"] = {"wf": r["wf"], "counted": r["spec"], "k": r["k"]}
        return out
