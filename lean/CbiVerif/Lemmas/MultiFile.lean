import CbiVerif.Model.MultiFile
import CbiVerif.Props.C01
/-! Helper lemmas for C04/C18 about the generic multi-file visitor:
* `visit_sim`: two runs of the associator over the same tree with related semantics stay related
  (used for invariants — relate a run with itself — and for erasing the memo);
* `sem_sim`: the same across files, by induction on the include fuel;
* `sem_eq_semRef`: tree visitor = flat conditional-stack machine across files. -/
namespace CbiVerif.MF
open CbiVerif.Cond

variable {W W' : Type}

/-- relation between two associator states: related worlds, same `branch_taken`, same attribution -/
structure SRel (R : W → W' → Prop) (st : AState W) (st' : AState W') : Prop where
  env : R st.σ st'.σ
  tk : st.taken = st'.taken
  out : st.out = st'.out
  cr : st.crash = st'.crash

/-- two `Sem`s are related by `R` -/
structure SemRel (R : W → W' → Prop) (M : Sem W) (M' : Sem W') : Prop where
  evalIf : ∀ w w' p, R w w' → (M.evalIf w p).1 = (M'.evalIf w' p).1 ∧ R (M.evalIf w p).2 (M'.evalIf w' p).2
  exec : ∀ w w' p, R w w' → R (M.exec w p) (M'.exec w' p)

mutual
theorem visit_sim (R : W → W' → Prop) (M : Sem W) (M' : Sem W') (hM : SemRel R M M') :
    ∀ (t : Tree) (st : AState W) (st' : AState W'), SRel R st st' → SRel R (visit M st t) (visit M' st' t)
  | .node l kids, st, st', h => by
    obtain ⟨he, ht, ho, hc⟩ := h
    cases hk : l.kind with
    | code => simp only [visit, hk]; exact ⟨he, ht, by simp [ho], hc⟩
    | other => simp only [visit, hk]; exact ⟨hM.exec _ _ _ he, ht, by simp [ho], hc⟩
    | endk =>
      simp only [visit, hk]
      rw [← ht]
      cases htk : st.taken with
      | nil => exact ⟨he, by simp [← ht, htk], by simp [ho], rfl⟩
      | cons t ts => exact ⟨he, rfl, by simp [ho], hc⟩
    | ifk =>
      simp only [visit, hk]
      obtain ⟨h1, h2⟩ := hM.evalIf st.σ st'.σ l.pay he
      rw [← h1]
      have hs : SRel R { st with σ := (M.evalIf st.σ l.pay).2, taken := (M.evalIf st.σ l.pay).1 :: st.taken, out := st.out ++ [l.id] }
          { st' with σ := (M'.evalIf st'.σ l.pay).2, taken := (M.evalIf st.σ l.pay).1 :: st'.taken, out := st'.out ++ [l.id] } :=
        ⟨h2, by simp [ht], by simp [ho], hc⟩
      cases hb : (M.evalIf st.σ l.pay).1 with
      | true => simp only [if_true]; rw [hb] at hs; exact visitList_sim R M M' hM kids _ _ hs
      | false => simp only [Bool.false_eq_true, if_false]; rw [hb] at hs; exact hs
    | elifk =>
      simp only [visit, hk]
      rw [← ht]
      cases htk : st.taken with
      | nil => exact ⟨he, by simp [← ht, htk], by simp [ho], rfl⟩
      | cons t ts =>
        simp only []
        cases t with
        | true => simp only [if_true]; exact ⟨he, by simp [← ht, htk], by simp [ho], hc⟩
        | false =>
          simp only [Bool.false_eq_true, if_false]
          obtain ⟨h1, h2⟩ := hM.evalIf st.σ st'.σ l.pay he
          rw [← h1]
          have hs : SRel R { st with σ := (M.evalIf st.σ l.pay).2, taken := (M.evalIf st.σ l.pay).1 :: ts, out := st.out ++ [l.id] }
              { st' with σ := (M'.evalIf st'.σ l.pay).2, taken := (M.evalIf st.σ l.pay).1 :: ts, out := st'.out ++ [l.id] } :=
            ⟨h2, rfl, by simp [ho], hc⟩
          cases hb : (M.evalIf st.σ l.pay).1 with
          | true => simp only [if_true]; rw [hb] at hs; exact visitList_sim R M M' hM kids _ _ hs
          | false => simp only [Bool.false_eq_true, if_false]; rw [hb] at hs; exact hs
    | elsek =>
      simp only [visit, hk]
      rw [← ht]
      cases htk : st.taken with
      | nil => exact ⟨he, by simp [← ht, htk], by simp [ho], rfl⟩
      | cons t ts =>
        simp only []
        cases t with
        | true => simp only [if_true]; exact ⟨he, by simp [← ht, htk], by simp [ho], hc⟩
        | false =>
          simp only [Bool.false_eq_true, if_false]
          exact visitList_sim R M M' hM kids _ _ ⟨he, rfl, by simp [ho], hc⟩
theorem visitList_sim (R : W → W' → Prop) (M : Sem W) (M' : Sem W') (hM : SemRel R M M') :
    ∀ (ts : List Tree) (st : AState W) (st' : AState W'), SRel R st st' → SRel R (visitList M st ts) (visitList M' st' ts)
  | [], st, st', h => by simpa [visitList] using h
  | t :: ts, st, st', h => by
    simp only [visitList]
    exact visitList_sim R M M' hM ts _ _ (visit_sim R M M' hM t st st' h)
end

end CbiVerif.MF

namespace CbiVerif.MF
open CbiVerif.Cond
variable {W W' : Type}

/-- two per-directive semantics are related by `R` -/
structure OpsRel (R : W → W' → Prop) (F : FileOps W) (F' : FileOps W') : Prop where
  evalIf : ∀ file w w' i, R w w' →
    (F.evalIf file w i).1 = (F'.evalIf file w' i).1 ∧ R (F.evalIf file w i).2 (F'.evalIf file w' i).2
  enter : ∀ file w w' i, R w w' →
    (F.enter file w i).1 = (F'.enter file w' i).1 ∧ R (F.enter file w i).2 (F'.enter file w' i).2
  labels : ∀ file, F.labels file = F'.labels file
  record : ∀ w w' file out, R w w' → R (F.record w file out) (F'.record w' file out)
  noFuel : ∀ w w', R w w' → R (F.noFuel w) (F'.noFuel w')
  crash : ∀ w w', R w w' → R (F.crash w) (F'.crash w')

theorem assocWith_sim (R : W → W' → Prop) (F : FileOps W) (F' : FileOps W') (h : OpsRel R F F')
    (M : Sem W) (M' : Sem W') (hM : SemRel R M M') (file : String) (w : W) (w' : W') (hw : R w w') :
    R (assocWith M F file w) (assocWith M' F' file w') := by
  unfold assocWith model
  rw [← h.labels file]
  cases build (F.labels file) with
  | none => exact h.crash _ _ hw
  | some ts =>
    have hs := visitList_sim R M M' hM ts { σ := w } { σ := w' } ⟨hw, rfl, rfl, rfl⟩
    simp only [Option.map_some]
    rw [← hs.out, ← hs.cr]
    cases (visitList M { σ := w } ts).crash with
    | true => exact h.record _ _ _ _ (h.crash _ _ hs.env)
    | false => exact h.record _ _ _ _ hs.env

/-- related per-directive semantics give related associators at every include depth -/
theorem sem_sim (R : W → W' → Prop) (F : FileOps W) (F' : FileOps W') (h : OpsRel R F F') :
    ∀ (n : Nat) (file : String), SemRel R (sem F n file) (sem F' n file)
  | 0, file => by
    refine ⟨fun w w' p hw => h.evalIf file w w' p hw, fun w w' p hw => ?_⟩
    obtain ⟨h1, h2⟩ := h.enter file w w' p hw
    simp only [sem]
    rw [← h1]
    cases F.enter file w p |>.1 with
    | none => exact h2
    | some inc => exact h.noFuel _ _ h2
  | n + 1, file => by
    refine ⟨fun w w' p hw => h.evalIf file w w' p hw, fun w w' p hw => ?_⟩
    obtain ⟨h1, h2⟩ := h.enter file w w' p hw
    simp only [sem]
    rw [← h1]
    cases F.enter file w p |>.1 with
    | none => exact h2
    | some inc => exact assocWith_sim R F F' h _ _ (sem_sim R F F' h n inc) inc _ _ h2

theorem assocFile_sim (R : W → W' → Prop) (F : FileOps W) (F' : FileOps W') (h : OpsRel R F F')
    (n : Nat) (file : String) (w : W) (w' : W') (hw : R w w') :
    R (assocFile F n file w) (assocFile F' n file w') :=
  assocWith_sim R F F' h _ _ (sem_sim R F F' h n file) file w w' hw

/-- invariants: a property of worlds kept by every per-directive operation is kept by a whole run -/
structure OpsInv (P : W → Prop) (F : FileOps W) : Prop where
  evalIf : ∀ file w i, P w → P (F.evalIf file w i).2
  enter : ∀ file w i, P w → P (F.enter file w i).2
  record : ∀ w file out, P w → P (F.record w file out)
  noFuel : ∀ w, P w → P (F.noFuel w)
  crash : ∀ w, P w → P (F.crash w)

theorem assocFile_inv (P : W → Prop) (F : FileOps W) (h : OpsInv P F) (n : Nat) (file : String) (w : W) (hw : P w) :
    P (assocFile F n file w) := by
  have := assocFile_sim (fun a b => a = b ∧ P a) F F
    ⟨fun f a b i hab => by obtain ⟨rfl, hp⟩ := hab; exact ⟨rfl, rfl, h.evalIf f a i hp⟩,
     fun f a b i hab => by obtain ⟨rfl, hp⟩ := hab; exact ⟨rfl, rfl, h.enter f a i hp⟩,
     fun _ => rfl,
     fun a b f o hab => by obtain ⟨rfl, hp⟩ := hab; exact ⟨rfl, h.record a f o hp⟩,
     fun a b hab => by obtain ⟨rfl, hp⟩ := hab; exact ⟨rfl, h.noFuel a hp⟩,
     fun a b hab => by obtain ⟨rfl, hp⟩ := hab; exact ⟨rfl, h.crash a hp⟩⟩ n file w w ⟨rfl, hw⟩
  exact this.2

/-! ## tree visitor = flat machine, across files -/

/-- every file is a structured (well-nested) program -/
def WellNested (F : FileOps W) : Prop := ∀ file, ∃ b : Block, F.labels file = b.lines

theorem assocWith_eq_ref (F : FileOps W) (hwf : WellNested F) (M : Sem W) (file : String) (w : W) :
    assocWith M F file w = runFileRef' M F file w := by
  obtain ⟨b, hb⟩ := hwf file
  unfold assocWith runFileRef'
  rw [hb]
  obtain ⟨a, hm, ho, hs, hc, _, hwn⟩ := CbiVerif.C01.main M w b
  have hbad : (reference M w b.lines).bad = false := by
    simp only [RState.wellNested, Bool.and_eq_true, Bool.not_eq_true'] at hwn
    exact hwn.1
  simp only [hm, hc, hbad, Bool.false_eq_true, if_false, ho, hs]

theorem sem_eq_semRef (F : FileOps W) (hwf : WellNested F) : ∀ (n : Nat) (file : String), sem F n file = semRef F n file
  | 0, file => rfl
  | n + 1, file => by
    simp only [sem, semRef]
    congr 1
    funext w i
    cases (F.enter file w i).1 with
    | none => rfl
    | some inc =>
      simp only []
      rw [assocWith_eq_ref F hwf, sem_eq_semRef F hwf n inc]

theorem assocFile_eq_ref (F : FileOps W) (hwf : WellNested F) (n : Nat) (file : String) (w : W) :
    assocFile F n file w = runFileRef F n file w := by
  unfold assocFile runFileRef
  rw [assocWith_eq_ref F hwf, sem_eq_semRef F hwf n file]

end CbiVerif.MF
