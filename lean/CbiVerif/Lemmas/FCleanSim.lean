import CbiVerif.Lemmas.FCleanTable
/-!
Per-dispatch simulation: the executed character-level
`Fortran.step1`/`step`/`endLine`/`procLine` are simulated by the finite
abstraction, hence by the reference scanner.
-/
namespace CbiVerif.Fortran
open Tbl

/-! ## abstraction of the character-level cleaner state -/

def hasWs (l : List Char) : Bool := l.any isWs
def hasNonWs (l : List Char) : Bool := l.any fun c => !isWs c

@[simp] theorem hasWs_nil : hasWs [] = false := rfl
@[simp] theorem hasNonWs_nil : hasNonWs [] = false := rfl
@[simp] theorem hasWs_append (a b : List Char) : hasWs (a ++ b) = (hasWs a || hasWs b) := by simp [hasWs]
@[simp] theorem hasNonWs_append (a b : List Char) : hasNonWs (a ++ b) = (hasNonWs a || hasNonWs b) := by
  simp [hasNonWs]
@[simp] theorem hasWs_single (c : Char) : hasWs [c] = isWs c := by simp [hasWs]
@[simp] theorem hasNonWs_single (c : Char) : hasNonWs [c] = !isWs c := by simp [hasNonWs]

def absF (s : FSt) : CSt := ⟨s.stack, s.scan, hasWs s.vc⟩

/-- invariant of the carried buffers and of the stack shape: `verify_continue` is empty
unless a `&` is being verified, and then holds a non-blank; `found` holds no blank;
`VERIFY_CONTINUE` only occurs on top of the stack -/
structure Inv (s : FSt) : Prop where
  vcEmpty : s.stack.head? ≠ some .verify → s.vc = []
  vcAmp : s.stack.head? = some .verify → hasNonWs s.vc = true
  foundNoWs : hasWs s.found = false
  below : ∀ m ∈ s.stack.tail, m ≠ .verify

def kEmit : Emit → KEmit | .sp => .sp | .ns c => .ns (cls c)
def Emit.visible (e : Emit) : Bool := (kEmit e).visible
def Emit.litWs (e : Emit) : Bool := (kEmit e).litWs
def anyVis (es : List Emit) : Bool := es.any Emit.visible
def anyLit (es : List Emit) : Bool := es.any Emit.litWs

theorem vis_ns (c : Char) : Emit.visible (.ns c) = !isWs c := by
  simp only [Emit.visible, kEmit, isWs]
  cases cls c <;> rfl

theorem lit_ns (c : Char) : Emit.litWs (.ns c) = isWs c := by
  simp only [Emit.litWs, kEmit, isWs]
  cases cls c <;> rfl

@[simp] theorem anyVis_nil : anyVis [] = false := rfl
@[simp] theorem anyLit_nil : anyLit [] = false := rfl
@[simp] theorem anyVis_cons (e : Emit) (es : List Emit) : anyVis (e :: es) = (e.visible || anyVis es) := rfl
@[simp] theorem anyLit_cons (e : Emit) (es : List Emit) : anyLit (e :: es) = (e.litWs || anyLit es) := rfl
@[simp] theorem anyVis_append (a b : List Emit) : anyVis (a ++ b) = (anyVis a || anyVis b) := by simp [anyVis]
@[simp] theorem anyLit_append (a b : List Emit) : anyLit (a ++ b) = (anyLit a || anyLit b) := by simp [anyLit]
@[simp] theorem vis_sp : Emit.visible .sp = false := rfl
@[simp] theorem lit_sp : Emit.litWs .sp = false := rfl

theorem anyVis_map_ns (l : List Char) : anyVis (l.map .ns) = hasNonWs l := by
  induction l with
  | nil => rfl
  | cons a l ih =>
    simp only [List.map_cons, anyVis_cons, vis_ns, ih]
    simp [hasNonWs]

theorem anyLit_map_ns (l : List Char) : anyLit (l.map .ns) = hasWs l := by
  induction l with
  | nil => rfl
  | cons a l ih =>
    simp only [List.map_cons, anyLit_cons, lit_ns, ih]
    simp [hasWs]

theorem init_inv : Inv {} := ⟨fun _ => rfl, by simp, rfl, by simp⟩

theorem isWs_of_cls {c : Char} {k : Cls} (h : cls c = k) : isWs c = (k == .ws) := by
  simp [isWs, h]

theorem head_ne_verify (r : List Mode) (h : ∀ m ∈ r, m ≠ Mode.verify) : r.head? ≠ some .verify := by
  cases r with
  | nil => simp
  | cons a r => intro h'; simp at h'; exact h a (by simp) h'

/-- the statement of the per-dispatch simulation -/
def Sim1 (s : FSt) (c : Char) : Prop :=
    absF (step1 s c).1 = (Tbl.step1 (absF s) (cls c)).1 ∧
    (step1 s c).2.2 = (Tbl.step1 (absF s) (cls c)).2.2 ∧
    anyVis (step1 s c).2.1 = anyVisible (Tbl.step1 (absF s) (cls c)).2.1 ∧
    anyLit (step1 s c).2.1 = anyLitWs (Tbl.step1 (absF s) (cls c)).2.1 ∧
    Inv (step1 s c).1

set_option linter.unusedSimpArgs false

set_option maxHeartbeats 1000000 in
theorem sim1_verify (r : List Mode) (vc found : List Char) (c : Char) (h : Inv ⟨.verify :: r, .run, vc, found⟩) :
    Sim1 ⟨.verify :: r, .run, vc, found⟩ c := by
  obtain ⟨h1, h2, h3, h4⟩ := h
  simp only [List.tail_cons] at h1 h2 h3 h4
  have hw := @isWs_of_cls c
  generalize hk : cls c = k at hw
  have hw := hw rfl
  have hr := head_ne_verify r h4
  have hr2 : ∀ x ∈ r.tail, x ≠ Mode.verify := fun x hx => h4 x (List.mem_of_mem_tail hx)
  unfold Sim1
  by_cases hrt : r.head? = some Mode.top <;> cases hv : hasWs vc <;> cases k <;>
    (refine ⟨?_, ?_, ?_, ?_, ⟨?_, ?_, ?_, ?_⟩⟩ <;>
      simp_all [step1, Tbl.step1, absF, anyVisible, anyLitWs, KEmit.visible, KEmit.litWs, anyVis_map_ns, anyLit_map_ns])

set_option maxHeartbeats 2000000 in
theorem sim1_run (m : Mode) (hm : m ≠ .verify) (r : List Mode) (vc found : List Char) (c : Char)
    (h : Inv ⟨m :: r, .run, vc, found⟩) : Sim1 ⟨m :: r, .run, vc, found⟩ c := by
  obtain ⟨h1, h2, h3, h4⟩ := h
  simp only [List.tail_cons] at h1 h2 h3 h4
  have hw := @isWs_of_cls c
  generalize hk : cls c = k at hw
  have hw := hw rfl
  have hr := head_ne_verify r h4
  have hr2 : ∀ x ∈ r.tail, x ≠ Mode.verify := fun x hx => h4 x (List.mem_of_mem_tail hx)
  unfold Sim1
  cases m <;> cases k <;>
    (refine ⟨?_, ?_, ?_, ?_, ⟨?_, ?_, ?_, ?_⟩⟩ <;>
      simp_all [step1, Tbl.step1, absF, anyVisible, anyLitWs, KEmit.visible, KEmit.litWs, anyVis_map_ns, anyLit_map_ns, vis_ns, lit_ns])

set_option maxHeartbeats 1000000 in
theorem sim1_scan (st : List Mode) (sc : Scan) (hs : sc ≠ .run) (vc found : List Char) (c : Char)
    (h : Inv ⟨st, sc, vc, found⟩) : Sim1 ⟨st, sc, vc, found⟩ c := by
  obtain ⟨h1, h2, h3, h4⟩ := h
  simp only at h1 h2 h3 h4
  have hw := @isWs_of_cls c
  generalize hk : cls c = k at hw
  have hw := hw rfl
  unfold Sim1
  cases sc <;> cases k <;>
    (refine ⟨?_, ?_, ?_, ?_, ⟨?_, ?_, ?_, ?_⟩⟩ <;>
      simp_all [step1, Tbl.step1, absF, anyVisible, anyLitWs, KEmit.visible, KEmit.litWs, anyVis_map_ns, anyLit_map_ns, vis_ns, lit_ns])

theorem step1_sim (s : FSt) (c : Char) (h : Inv s) : Sim1 s c := by
  obtain ⟨st, sc, vc, found⟩ := s
  by_cases hs : sc = .run
  · subst hs
    cases st with
    | nil =>
      obtain ⟨h1, h2, h3, h4⟩ := h
      refine ⟨?_, ?_, ?_, ?_, ⟨?_, ?_, ?_, ?_⟩⟩ <;> simp_all [step1, Tbl.step1, absF, anyVisible, anyLitWs]
    | cons m r =>
      by_cases hm : m = .verify
      · subst hm; exact sim1_verify r vc found c h
      · exact sim1_run m hm r vc found c h
  · exact sim1_scan st sc hs vc found c h


end CbiVerif.Fortran
