"""Pattern-focused generator and oracles for C09's gitignore semantics.

Small pattern lists built from a small alphabet of atoms x all relative paths of depth <= 3 over a few names.
Three readings of every (list, path):
  * the Lean reference `GitIgnore.ignoredStr` (driver op `gitignore`),
  * `pathspec.GitIgnoreSpec.from_lines(list).match_file(Path(rel))` — the call `CodeBase.__contains__` makes,
  * `git check-ignore --no-index --stdin -z`: ONE git process for all lists — list number i is written to
    `<work tree>/p<i>/.gitignore` and the paths are queried as `p<i>/<rel>` (a `.gitignore` in a directory is read
    relative to that directory; paths that do not exist are treated by git as files below directories).
"""
from __future__ import annotations

import itertools
import os
import re
import subprocess
import warnings
from pathlib import Path

ATOMS = ["a", "b", ".c", "*", "**", "?", "/", "!", "[ab]", "[!a]", "\\", " ", "#", "a.c", "[a-b]", "[^b]", "-", "]",
         "[", "***", "[[:alpha:]]", "ab", "\\*", "\\ ", "**/", "/**", "*.c", "[]a]", "[a\\]]", "[[:digit:][:lower:]]", "[b-]"]
NAMES = ["a", "b", "ab", "a.c", "b.c"]
PATHS = ["/".join(c) for n in (1, 2, 3) for c in itertools.product(NAMES, repeat=n)]

# the real tree used for `path in CodeBase(root, exclude_patterns=list)`: every file has a recognised extension
REAL_DIRS1 = ["a", "b", "ab", "a.c"]
REAL_FILES = (["b.c"] + [f"{d}/{f}" for d in REAL_DIRS1 for f in ("a.c", "b.c")]
              + [f"{d}/{e}/{f}" for d in REAL_DIRS1 for e in ("a", "b") for f in ("a.c", "b.c")])
REAL_DIRS = REAL_DIRS1 + [f"{d}/{e}" for d in REAL_DIRS1 for e in ("a", "b")]


def not_generated(p):
    """patterns outside the generated language: a quoted '/' and a '/' inside a bracket expression"""
    return "\\/" in p or re.search(r"\[[^\]]*/", p) is not None


def exhaustive(maxlen, atoms=None):
    atoms = ATOMS[:14] if atoms is None else atoms
    out = set()
    for n in range(1, maxlen + 1):
        for c in itertools.product(atoms, repeat=n):
            out.add("".join(c))
    return sorted(p for p in out if not not_generated(p))


def random_lists(rng, n):
    out = []
    while len(out) < n:
        k = rng.choice([1, 1, 2, 2, 3])
        l = ["".join(rng.choice(ATOMS) for _ in range(rng.randint(1, 5))) for _ in range(k)]
        if rng.random() < 0.3:
            # a negation of something that occurs before it / an exclusion of a directory followed by a re-inclusion
            base = rng.choice(["a", "b", "*.c", "a.c", "/a", "a/", "ab/", "*", "a/*", "/*", "**/a", "a/**"])
            l = [base] + l[:1] + ["!" + rng.choice(["a", "b", "a.c", "b.c", "*.c", "a/", "/a/b", "a/b.c", "*/", "ab/", "**/b.c"])]
        if any(not_generated(p) for p in l):
            continue
        out.append(l)
    return out


# a run of two or more asterisks that directly follows a literal prefix and precedes a '/': git matches the literal
# prefix first and then hands the REST of the pattern to wildmatch, which takes the run for a leading `**/`
# (`a**/b` ignores `ab` and `a/x/y/b`); the documentation says such asterisks are regular ones, and so does the spec
GIT_PREFIX_QUIRK = re.compile(r"^!?/?[^*?\[\\]*[^*?\[\\/]\*\*+(/.|$)")


def git_prefix_quirk(lines):
    return any(GIT_PREFIX_QUIRK.search(l) and "/" in l.rstrip(" ")[:-1] for l in lines)


def git_batch(git, work, lists, paths):
    """set of (i, rel) that git ignores; `work` is an empty directory, `git` a fstree.GitOracle"""
    for i, l in enumerate(lists):
        d = os.path.join(work, f"p{i}")
        os.makedirs(d, exist_ok=True)
        with open(os.path.join(d, ".gitignore"), "w", encoding="utf-8") as f:
            f.write("".join(p + "\n" for p in l))
    excl = os.path.join(git.gitdir, "info", "exclude")
    os.makedirs(os.path.dirname(excl), exist_ok=True)
    open(excl, "w").close()
    inp = b"".join(os.fsencode(f"p{i}/{q}") + b"\0" for i in range(len(lists)) for q in paths)
    r = subprocess.run(["git", "--git-dir", git.gitdir, "--work-tree", work, "check-ignore", "--no-index", "--stdin", "-z"],
                       input=inp, capture_output=True, env=git.env, cwd=work)
    git.calls += 1
    if r.returncode not in (0, 1):
        raise RuntimeError("git check-ignore failed: " + r.stderr.decode(errors="replace")[:300])
    out = set()
    for x in r.stdout.split(b"\0"):
        if x:
            s = os.fsdecode(x)
            j = s.index("/")
            out.add((int(s[1:j]), s[j + 1:]))
    return out


def lean_batch(drv, lists, paths, isdir=False):
    rep = drv.ask({"op": "gitignore", "cases": [{"patterns": l, "paths": [{"p": q, "d": isdir} for q in paths]} for l in lists]})
    return rep


def lean_ign(drv, pats, rel, isdir=False):
    return drv.ask({"op": "gitignore", "cases": [{"patterns": list(pats), "paths": [{"p": rel, "d": isdir}]}]})[0][0]


def pathspec_spec(lines):
    """the object CodeBase.__contains__ builds, or 'EXC:<type>'"""
    import pathspec

    try:
        with warnings.catch_warnings():
            warnings.simplefilter("ignore")
            return pathspec.GitIgnoreSpec.from_lines(list(lines))
    except Exception as e:  # noqa
        return "EXC:" + type(e).__name__


def pathspec_as_cbi(spec, rel):
    return bool(spec.match_file(Path(rel)))


def ill_formed(drv, lines):
    """lines that are not well-formed patterns: malformed glob (unclosed '[', unknown class, lone trailing backslash)
    or nothing but a '!'"""
    pr = drv.ask({"op": "gitignore_parse", "patterns": list(lines)})
    return [l for l, r in zip(lines, pr) if r is not None and (not r["wellformed"] or l.rstrip(" ") == "!")]


POSIX_CLASS = re.compile(r"\[[^\]]*\[:[a-z]*:\]|\[[^\]]*\\")  # `[..[:name:]..]`, or a backslash inside a bracket expression
NEG_BRACKET = re.compile(r"\[[!^]")


def classify(drv, lines, rel, spec_says, pathspec_says):
    """Recorded class of a pathspec-vs-reference disagreement about `rel` (a file), decided on a 1-minimal sub-list
    (minimised against the Lean reference).  Returns (class id | None, info)."""

    def ps(ls):
        s = pathspec_spec(ls)
        return s if isinstance(s, str) else pathspec_as_cbi(s, rel)

    cur = list(lines)
    i = 0
    while i < len(cur):
        t = cur[:i] + cur[i + 1:]
        if ps(t) != lean_ign(drv, t, rel):
            cur = t
        else:
            i += 1
    g, p = lean_ign(drv, cur, rel), ps(cur)
    info = {"core": cur, "spec": g, "pathspec": p, "path": rel}
    if isinstance(p, str):
        if ill_formed(drv, cur):
            return "ILLFORMED", info
        if any(re.search(r"\\ +$", l) and not l.endswith("\\ ") for l in cur):
            return "F-C09-GI-E", info
        if any(l[:1] in (" ", "\t") and l.strip() for l in cur):
            return "F-C09-GI-B", info  # the leading blank is stripped and what remains is rejected
        if any(POSIX_CLASS.search(l) for l in cur):
            return "F-C09-GI-H", info  # the class name ends up in a malformed regular expression
        return None, info
    if any(l[:1] in (" ", "\t") and l.strip() for l in cur):
        return "F-C09-GI-B", info
    if any(ord(ch) > 127 for ch in rel) and any(("?" in l or "[" in l) for l in cur):
        return "F-C09-GI-C", info
    if any(POSIX_CLASS.search(l) for l in cur):
        return "F-C09-GI-H", info
    if any(re.search(r"\*\*/ *$", l) for l in cur):
        return "F-C09-GI-I", info
    if any("***" in l for l in cur):
        return "F-C09-GI-G", info
    if p and not g and "/" in rel and any(NEG_BRACKET.search(l) for l in cur):
        return "F-C09-GI-F", info
    if g and not p and any(l.startswith("!") for l in cur):
        parts = rel.split("/")
        anc = ["/".join(parts[:k]) for k in range(1, len(parts))]
        if any(lean_ign(drv, cur, a, True) for a in anc):
            return "F-C09-GI-A", info
        for l in cur:
            if l.startswith("!") and any(lean_ign(drv, [l[1:]], a, True) for a in anc):
                return "F-C09-GI-D", info
    return None, info
