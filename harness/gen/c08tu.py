"""Generator of small code bases for C08, stream `tu`: state that a translation unit can leave behind
OUTSIDE the macro table of its own `Platform` object.

The main stream (`c08gen.gen_main`) varies what one command defines / undefines / includes; every
command there is written the way CMake writes it (absolute `directory` = analysis root, every
`#pragma once` unconditional on the first line, no predefined dynamic macro).  This stream adds the
three shapes in which "nothing ... marked include-once or cached while one compile command is
processed influences another" can fail although every command taken alone is analysed correctly:

* `dirs`    - compilation databases that MIX entries with and without `"directory"`; the directories
              are the root, sub-directories (relative to the root or absolute), the `file` and the
              `-I` / `-isystem` paths are spelled relative to the entry's directory (or absolute),
              the same spelling (`main.c`, `inc/cfg.h`) exists below several directories with different
              contents.  What a relative path of one entry means must not depend on its neighbours.
* `once`    - headers whose `#pragma once` sits under a conditional (`#ifdef T0_ONCE`, `#if !A`, in an
              `#else` branch, ...), included SEVERAL times on purpose (X-macro style: other `WANT_*`
              switches before each inclusion) by translation units in which the condition is true and
              by others in which it is false.  "Is include-once" is a fact about one translation unit.
* `counter` - `#if` / `#elif` directives that test `__COUNTER__` (directly and through an object-like
              macro) in headers and sources of >= 2 translation units.  Only the composition is judged
              (full run == union of fresh single-command runs == any order == projection): on a tree
              without `__COUNTER__` support the identifier is undefined (0) in every translation unit,
              with support every translation unit starts again at 0 - in both cases the commands
              compose.  No `__LINE__` / `__FILE__` / `__DATE__`.

A command of a description may carry three spellings understood by `c08gen.db_entry`:
`"directory": None` (the entry has no `directory` key), `"directory": "<relative>"` (kept literally),
and the prefix `$ROOT` in `directory` / `file` / arguments (replaced by the absolute analysis root).
All randomness comes from `rng`.
"""
from __future__ import annotations

import os

from harness.gen import codebase as cbgen

NAMES = cbgen.NAMES
PLATFORM_NAMES = cbgen.PLATFORM_NAMES

WORKDIRS = ["", "sub", "sub2/deep", "bld"]


def _rel(path, start):
    return os.path.relpath(path or ".", start or ".")


def _once_cond(rng, k):
    """(condition text, branch in which the pragma sits: 'then' | 'else', macro the commands toggle)"""
    m = rng.choice([f"T{k}_ONCE", f"T{k}_ONCE"] + NAMES)
    shape = rng.randrange(6)
    if shape == 0:
        return f"#ifdef {m}", "then", m
    if shape == 1:
        return f"#if defined({m})", "then", m
    if shape == 2:
        return f"#ifndef {m}", "else", m
    if shape == 3:
        return f"#if {m}", "then", m
    if shape == 4:
        return f"#if !defined({m}) || 0", "else", m
    return f"#if defined({m}) && {m} >= 0", "then", m


def _counter_cond(rng):
    return rng.choice([
        "__COUNTER__ == 0", "__COUNTER__ == 0", "__COUNTER__ < 1", "__COUNTER__ <= 1", "!__COUNTER__",
        "__COUNTER__ != 0", "__COUNTER__ > 1", "__COUNTER__ + 1 == 1", "NEXT_ID == 0", "NEXT_ID < 2",
        "(__COUNTER__ == 0) && !defined(NEVER)", "__COUNTER__ == 1",
    ])


class GenTU:
    def __init__(self, rng, force=None):
        self.rng = rng
        self.texts = {}
        self.features = set()
        self._ncmd = {}
        r = rng.random
        self.dirs = force == "dirs" or (force is None and r() < 0.5) or (force is not None and r() < 0.25)
        self.once = force == "once" or (force is None and r() < 0.6) or (force is not None and r() < 0.25)
        self.counter = force == "counter" or (force is None and r() < 0.6) or (force is not None and r() < 0.25)
        if not (self.dirs or self.once or self.counter):
            self.once = True

    # ------------------------------------------------------------------ headers
    def table_header(self, k):
        """X-macro table with a conditional #pragma once"""
        rng = self.rng
        line, branch, mac = _once_cond(rng, k)
        top = [line]
        if branch == "then":
            top += ["#pragma once"]
            if rng.random() < 0.3:
                top += ["#else", f"int t{k}_multi;"]
        else:
            top += [f"int t{k}_multi;", "#else", "#pragma once"]
        top += ["#endif"]
        body = []
        for w in ("A", "B", "C"):
            body += [f"#ifdef WANT_{w}", f"int t{k}_{w.lower()};"]
            if rng.random() < 0.3:
                body += [f"#define T{k}_{w} 1"]
            body += ["#endif"]
        body += [f"#if defined(WANT_A) && defined(WANT_B)", f"int t{k}_ab;", "#endif"]
        if rng.random() < 0.5:
            n = rng.choice(NAMES)
            body += [f"#if {n} > 0", f"int t{k}_{n.lower()}_pos;", "#else", f"int t{k}_{n.lower()}_nonpos;", "#endif"]
        if self.counter and rng.random() < 0.4:
            body += [f"#if {_counter_cond(rng)}", f"int t{k}_first;", "#else", f"int t{k}_later;", "#endif"]
        if rng.random() < 0.35:
            # the pragma in the middle of the file
            text = body[:3] + top + body[3:]
        else:
            text = top + body
        self.features.add("conditional-pragma-once")
        return text, mac

    def ids_header(self):
        rng = self.rng
        b = []
        if rng.random() < 0.5:
            b += ["#define NEXT_ID __COUNTER__"]
            self.features.add("__COUNTER__-through-macro")
        b += [f"#if {_counter_cond(rng)}", "#define IDS_START_AT_ZERO 1", "int ids_fresh;"]
        if rng.random() < 0.5:
            b += [f"#elif {_counter_cond(rng)}", "int ids_second;"]
        b += ["#else", "int ids_offset;", "#endif"]
        self.features.add("__COUNTER__")
        return b

    # ------------------------------------------------------------------ build
    def build(self):
        rng = self.rng
        # ---- working directories and their private include directories
        wds = [""]
        if self.dirs:
            wds += rng.sample(WORKDIRS[1:], rng.randint(1, 2))
            self.features.add("sub-directory-commands")
        widths = rng.sample([2, 4, 8, 16, 32], len(wds))
        for w, k in zip(wds, widths):
            tag = (w.replace("/", "_") or "root")
            self.texts[os.path.join("cb", w, "inc", "cfg.h")] = (
                rng.choice([["#pragma once"], [], [f"#ifndef CFG_{tag.upper()}", f"#define CFG_{tag.upper()}"]])
                + [f"#define WIDTH {k}", f"int cfg_{tag};"])
            t = self.texts[os.path.join("cb", w, "inc", "cfg.h")]
            if t[0].startswith("#ifndef"):
                t.append("#endif")
        # ---- shared headers
        tables = []
        if self.once:
            for k in range(rng.randint(1, 2)):
                text, mac = self.table_header(k)
                self.texts[f"cb/common/t{k}.h"] = text
                tables.append((f"cb/common/t{k}.h", mac, k))
        if self.counter:
            self.texts["cb/common/ids.h"] = self.ids_header()
        # ---- sources: one `main.c` per working directory (same spelling, other contents) and some uN.c
        sources = []  # (path below cb, working directory it is compiled in)
        for w in wds:
            if w == "" or rng.random() < 0.8:
                sources.append((os.path.join(w, "main.c"), w))
        for i in range(rng.randint(1, 3)):
            w = rng.choice(wds)
            d = rng.choice([w, os.path.join(w, "src")])
            sources.append((os.path.join(d, f"u{i}.{rng.choice(['c', 'cpp'])}"), w))
        if self.dirs and not any(w for _, w in sources):
            sources.append((os.path.join(wds[1], "main.c"), wds[1]))
        for si, (s, w) in enumerate(sources):
            sdir = os.path.dirname(s)
            b = [f"int s{si}_top;"]
            if self.dirs or rng.random() < 0.5:
                b += [rng.choice(["#include <cfg.h>", '#include "cfg.h"'])]
                b += ["#if WIDTH == %d" % rng.choice(widths), f"int s{si}_w_eq;", "#elif defined(WIDTH)", f"int s{si}_w_other;",
                      "#else", f"int s{si}_w_none;", "#endif"]
            if self.counter:
                if rng.random() < 0.8:
                    b += [f'#include "{_rel("common/ids.h", sdir)}"',
                          "#ifdef IDS_START_AT_ZERO", f"int s{si}_dense;", "#else", f"int s{si}_sparse;", "#endif"]
                for _ in range(rng.randint(0, 2)):
                    b += [f"#if {_counter_cond(rng)}", f"int s{si}_c{rng.randint(0, 9)};"]
                    if rng.random() < 0.5:
                        b += [f"#elif {_counter_cond(rng)}", f"int s{si}_d{rng.randint(0, 9)};"]
                    if rng.random() < 0.5:
                        b += ["#else", f"int s{si}_e{rng.randint(0, 9)};"]
                    b += ["#endif"]
                    self.features.add("__COUNTER__")
            for (h, mac, k) in tables:
                if rng.random() < 0.15:
                    continue
                inc = f'#include "{_rel(os.path.relpath(h, "cb"), sdir)}"'
                if rng.random() < 0.25:
                    b += [rng.choice([f"#define {mac} 1", f"#undef {mac}"])]  # the unit decides by itself
                wants = rng.sample(["A", "B", "C"], rng.randint(2, 3))
                prev = None
                for wi, want in enumerate(wants):
                    if prev and rng.random() < 0.7:
                        b += [f"#undef WANT_{prev}"]
                    b += [f"#define WANT_{want}", inc]
                    prev = want
                self.features.add("deliberate-multiple-inclusion")
                b += [f"#ifdef T{k}_{rng.choice(['A', 'B', 'C'])}", f"int s{si}_t{k}_seen;", "#endif"]
                for want in wants:
                    if rng.random() < 0.5:
                        b += [f"#undef WANT_{want}"]
            b += [f"int s{si}_bottom;"]
            self.texts[os.path.join("cb", s)] = b
        if rng.random() < 0.4:
            self.texts["cb/unused.c"] = ["int unused;"]
        # ---- platforms / commands
        nplat = rng.randint(1, 3)
        platforms = {}
        for pi in range(nplat):
            cmds = []
            pool = sources[:]
            rng.shuffle(pool)
            for (s, w) in pool[: rng.randint(2 if nplat == 1 else 1, min(4, len(pool)))]:
                cmds.append(self.command(s, w, tables))
            if nplat == 1 and len(cmds) < 2:
                cmds.append(self.command(*pool[0], tables))
            if self.dirs and rng.random() < 0.85:
                # the shape a merged / hand-edited database has: a command run in a sub-directory (entry with
                # `directory`) next to a command run in the root whose entry has no `directory` at all and
                # spells its file and search directory relative to the root
                sub_srcs = [x for x in sources if x[1] != ""]
                root_srcs = [x for x in sources if x[1] == ""]
                pair = [self.command(*rng.choice(sub_srcs), tables), self.command(*rng.choice(root_srcs), tables, mode="omit", rel=True)]
                rng.shuffle(pair)
                at = rng.randint(0, len(cmds))
                cmds[at:at] = pair
                cmds = cmds[:5]
            platforms[PLATFORM_NAMES[pi]] = cmds
        return dict(texts={p: "\n".join(b) + "\n" for p, b in self.texts.items()}, platforms=platforms,
                    cbiconfig=None, features=sorted(self.features), stream="tu")

    def command(self, s, w, tables, mode=None, rel=False):
        """compile cb/<s> with working directory cb/<w>"""
        rng = self.rng
        defs = []
        macs = sorted({mac for (_, mac, _) in tables})
        for mac in macs:
            # mostly alternating over the commands of the run, so that a run holds translation units of both kinds
            self._ncmd[mac] = self._ncmd.get(mac, rng.randrange(2)) + 1
            on = self._ncmd[mac] % 2 == 0 if rng.random() < 0.8 else rng.random() < 0.5
            if on:
                defs.append(rng.choice([f"-D{mac}", f"-D{mac}=1", f"-D{mac}=1", f"-D{mac}=2", f"-D{mac}=0"]))
        for n in NAMES:
            if rng.random() < 0.3 and n not in macs:
                defs.append(f"-D{n}={rng.randint(0, 2)}")
        cmd = {}
        # ---- how the working directory is written
        if mode is not None:
            pass
        elif w == "":
            r = rng.random()
            if not self.dirs:
                mode = "root-abs" if r < 0.7 else "omit"
            else:
                mode = "omit" if r < 0.6 else ("root-abs" if r < 0.8 else "root-dot")
        else:
            mode = "rel" if rng.random() < 0.5 else "abs"
        if mode == "omit":
            cmd["directory"] = None
            self.features.add("entry-without-directory")
        elif mode == "root-dot":
            cmd["directory"] = "."
        elif mode == "rel":
            cmd["directory"] = w
            self.features.add("relative-directory")
        elif mode == "abs":
            cmd["directory"] = "$ROOT/" + w
        # (mode root-abs: no key here, c08gen.db_entry writes the absolute root as before)
        # ---- file and include directories, relative to the working directory or absolute
        f = _rel(s, w) if (rng.random() < 0.85 or rel) else "$ROOT/" + s
        idir = _rel(os.path.join(w, "inc"), w) if (rng.random() < 0.85 or rel) else "$ROOT/" + os.path.join(w, "inc")
        flag = rng.choice(["-I", "-I", "-isystem"])
        incs = [flag, idir] if (flag == "-isystem" or rng.random() < 0.6) else [f"-I{idir}"]
        if rng.random() < 0.15:
            incs = []  # no search directory: <cfg.h> is not found, "cfg.h" only next to nothing
        cmd.update(file=f, arguments=[rng.choice(["gcc", "clang", "g++"])] + defs + incs + ["-c", f])
        return cmd


def gen_tu(rng, force=None):
    return GenTU(rng, force).build()


def shape(desc):
    """what a description of this stream is able to show (keys for the evidence)"""
    out = []
    for p, cmds in desc["platforms"].items():
        seen_sub = False
        for c in cmds:
            d = c.get("directory", "$ROOT")
            if d is None and seen_sub:
                out.append("no-directory entry after a sub-directory entry (database order)")
            if d not in (None, "$ROOT", "."):
                seen_sub = True
    kinds = {("omit" if c.get("directory", "$ROOT") is None else "given") for cs in desc["platforms"].values() for c in cs}
    if len(kinds) == 2:
        out.append("database mixes entries with and without directory")
    return sorted(set(out))
