import CbiVerif.Lemmas.MacroObjTop
import CbiVerif.Lemmas.MacroBackstop
import CbiVerif.Lemmas.MacroDefined
import CbiVerif.Lemmas.MacroDefine
import CbiVerif.Lemmas.MacroObjSpec
import CbiVerif.Lemmas.MacroPlainCheck
import CbiVerif.Spec.Prosser
/-! # C03 — macro definition and expansion conform to the C standard

Model `M` = `CbiVerif.MX.cbiExpand` (the step machine the driver executes), spec `S` = `CbiVerif.Spec.Prosser.prosser`.

* `Full` — the full-strength statement (kept visible; it is **false** for the code as it is: `full_fails`, witnesses
  `D9_witness` … `D37_witness`, each replayed on the real code by the harness);
* `object_like_partial` (model = recursive reference `E`), `object_like_conforms_partial` (model = `Spec.Prosser` itself on
  object-like tables without `##`/`None`/`defined`), `terminates_objlike_partial`, `no_backstop_objlike` — proved part of
  `Full`/termination;
* `backstop` — every table: never more than `max_level` nested streams; `backstop_result` — what the backstop returns;
* `defined_operator_plain/_paren`, `defined_never_expands` — every table;
* `cmdline_define_equiv_*` — `-DNAME`, `-DNAME=v`, `-D'NAME(args)=v'` ≡ the `#define` line (token lists).

Not proved (covered by correspondence + Prosser spec + gcc oracle only): function-like expansion (`funlike_simple_partial`
of the design is NOT delivered), `#`, `##`; termination for tables with function-like macros (the model is total by fuel,
the real code is observed under a time limit). -/
namespace CbiVerif.C03
open CbiVerif.PP CbiVerif.MX

/-! ## the full statement -/

/-- **C03 at full strength**: whenever the specification (Prosser's algorithm = ISO C 6.10.3) assigns a token sequence to
    (command-line definitions, `#define` lines, text), the model of CBI's expander returns the same spellings. -/
def Full : Prop :=
  ∀ (cmd defs : List String) (text : String) (out : List CbiVerif.Spec.Prosser.T),
    CbiVerif.Spec.Prosser.prosser (cmd.map CbiVerif.Spec.Prosser.cmdlineToDefine ++ defs) text = .ok out →
    expandText cmd defs text = .ok (out.map (·.text))

/-- the nesting limit the code documents ("cpp has been implemented to handle 200") -/
theorem maxLevel_documented : CbiVerif.Gen.maxLevel = 200 := by decide

/-! ## object-like tables (any size, self- and mutually recursive definitions included) -/

/-- **object-like fragment of `Full`** (model side): for every table of object-like macros (`TblOK`: no parameters, keyed by
    their own name, no `defined` in bodies) with `|tbl| + 2 < max_level` and every text without `defined`, the stack machine
    returns exactly the recursive hide-set expansion `E` with nesting budget `|tbl| + 1` — no error, no backstop, fuel not
    exhausted. -/
theorem object_like_partial (tbl : Table) (ts : List Tok) (hT : TblOK tbl) (hnd : NoDef ts)
    (hsz : tbl.length + 2 < CbiVerif.Gen.maxLevel) :
    cbiExpand tbl ts = .ok (E tbl (tbl.length + 1) ["None"] ts) := by
  unfold cbiExpand
  exact expandWith_obj realCfg rfl tbl hT ts hnd hsz (fuelFor tbl ts) (by unfold fuelFor; omega)

/-- the hypotheses are satisfiable by a self- and mutually-recursive table; the result is the C standard's -/
example :
    let tbl : Table := [("AA", ⟨"AA", none, false, false, [], [⟨.ident, "BB", false, true⟩]⟩),
                        ("BB", ⟨"BB", none, false, false, [], [⟨.ident, "AA", false, true⟩, ⟨.ident, "CC", true, true⟩]⟩),
                        ("CC", ⟨"CC", none, false, false, [], [⟨.ident, "AA", false, true⟩, ⟨.ident, "CC", true, true⟩]⟩)]
    TblOK tbl ∧ NoDef [⟨.ident, "AA", false, true⟩] ∧ tbl.length + 2 < CbiVerif.Gen.maxLevel ∧
      (match cbiExpand tbl [⟨.ident, "AA", false, true⟩] with | .ok r => r.map (·.text) | _ => []) = ["AA", "AA", "CC"] := by
  refine ⟨tblOK_of_check _ (by decide +kernel), noDef_of_check _ (by decide +kernel), by decide, by decide +kernel⟩

/-- **object-like fragment of `Full`, against the specification itself**: for every table of object-like macros whose
    replacement lists contain no `##`, no `defined` and no identifier `None` (finding D35), every such text, `|tbl| + 2 <
    max_level`, and as long as the specification's own fuel covers the expansion, the model of CBI's expander and Prosser's
    hide-set algorithm (`Spec.Prosser.expand`) produce the same spellings — self- and mutually recursive definitions included. -/
theorem object_like_conforms_partial (tbl : Table) (ts : List Tok) (hT : PlainTbl tbl) (hts : ∀ t ∈ ts, PlainTok t) (hnd : NoDef ts)
    (hsz : tbl.length + 2 < CbiVerif.Gen.maxLevel)
    (hfuel : ts.length * Cb (bodyMax tbl) (tbl.length + 1) < CbiVerif.Spec.Prosser.defaultFuel) :
    ∃ r out, cbiExpand tbl ts = .ok r ∧
      CbiVerif.Spec.Prosser.prosserToks (specTable tbl) (ts.map (toSpec [])) = .ok out ∧
      r.map spellTok = out.map (·.text) := by
  obtain ⟨out, ho, he⟩ := E_eq_prosser tbl hT ts hts hfuel
  exact ⟨_, out, object_like_partial tbl ts hT.ok hnd hsz, ho, he.symm⟩

/-- the hypotheses hold for the C standard's own example of mutual recursion (C11 6.10.3.4) -/
example :
    let tbl : Table := [("AA", ⟨"AA", none, false, false, [], [⟨.ident, "BB", false, true⟩]⟩),
                        ("BB", ⟨"BB", none, false, false, [], [⟨.ident, "AA", false, true⟩, ⟨.ident, "CC", true, true⟩]⟩),
                        ("CC", ⟨"CC", none, false, false, [], [⟨.ident, "AA", false, true⟩, ⟨.ident, "CC", true, true⟩]⟩)]
    let ts : List Tok := [⟨.ident, "AA", false, true⟩]
    plainTblb tbl = true ∧ ts.all plainTokb = true ∧ ts.length * Cb (bodyMax tbl) (tbl.length + 1) < CbiVerif.Spec.Prosser.defaultFuel := by
  decide +kernel

/-- **termination (object-like)**: the fuel `fuelFor tbl ts` granted by `cbiExpand` suffices -/
theorem terminates_objlike_partial (tbl : Table) (ts : List Tok) (hT : TblOK tbl) (hnd : NoDef ts)
    (hsz : tbl.length + 2 < CbiVerif.Gen.maxLevel) : cbiExpand tbl ts ≠ .fuel := by
  rw [object_like_partial tbl ts hT hnd hsz]; exact fun h => XR.noConfusion h

/-- **no backstop (object-like)**: the run with nesting limit `|tbl| + 3` gives the same result as the real limit: the
    200-level backstop plays no role for object-like tables with `|tbl| + 2 < max_level` -/
theorem no_backstop_objlike (tbl : Table) (ts : List Tok) (hT : TblOK tbl) (hnd : NoDef ts)
    (hsz : tbl.length + 2 < CbiVerif.Gen.maxLevel) :
    cbiExpand tbl ts = expandWith { lim := tbl.length + 3, adv := false } tbl (fuelFor tbl ts) ts := by
  rw [object_like_partial tbl ts hT hnd hsz]
  exact (expandWith_obj { lim := tbl.length + 3, adv := false } rfl tbl hT ts hnd (by simp) (fuelFor tbl ts)
    (by unfold fuelFor; omega)).symm

/-! ## every table: the backstop -/

/-- **backstop**: for *every* table (function-like macros, `#`, `##`, recursion of any kind) and every text, no state
    reachable by the loop has more than `max_level` nested token streams -/
theorem backstop (tbl : Table) (ts : List Tok) (k : Nat) (s : MS)
    (h : runK realCfg tbl k (initState ts) = some s) : s.stack.length ≤ CbiVerif.Gen.maxLevel := by
  have h0 : (initState ts).stack.length ≤ realCfg.lim := by
    simp only [initState, List.length_cons, List.length_nil, realCfg]; rw [maxLevel_documented]; omega
  exact runK_inv realCfg tbl k _ s h0 h

/-- **what the backstop returns** (finding D12): when an enabled object-like macro name is met while `max_level - 1` streams
    are already nested (no suspended argument pre-expansion), the whole expansion is replaced by the single token `0` -/
theorem backstop_result (c : Cfg) (tbl : Table) (P R : List (Option Tok)) (t : Tok) (m : Macro) (pr : Bool) (S : List MX.Helper)
    (D : List String) (n : Nat)
    (hk : t.kind = .ident) (hd : t.text ≠ "defined") (he : t.expandable = true) (hD : D.contains t.text = false)
    (hm : tbl.get t.text = some m) (ho : m.args = none) (hdeep : S.length + 2 ≥ c.lim) :
    run c tbl (n + 2) ⟨⟨P ++ some t :: R, P.length, pr⟩ :: S, D, [], none⟩ = .ok [zeroTok] := by
  have hnl : ¬ (P.length ≥ (P ++ some t :: R).length) := by simp
  have hk' : (t.kind != TKind.ident) = false := by simp [hk]
  have hd' : (t.text == "defined") = false := by simpa using hd
  have h1 : step c tbl ⟨⟨P ++ some t :: R, P.length, pr⟩ :: S, D, [], none⟩ = .cont (overflowState []) := by
    simp only [step, hnl, if_false, getElem?_mid, hk', Bool.false_eq_true, hd', he, Bool.not_true, hD, Bool.or_self, hm, ho,
      hdeep, if_true]
  have h2 : step c tbl (overflowState []) = .done [zeroTok] := by simp [step, overflowState]
  have e : n + 2 = (n + 1) + 1 := by omega
  rw [e]; simp only [run, h1, h2]

example : ∃ (c : Cfg) (tbl : Table) (t : Tok) (m : Macro) (S : List MX.Helper),
    t.kind = .ident ∧ t.text ≠ "defined" ∧ t.expandable = true ∧ tbl.get t.text = some m ∧ m.args = none ∧ S.length + 2 ≥ c.lim :=
  ⟨⟨2, false⟩, [("A", ⟨"A", none, false, false, [], []⟩)], ⟨.ident, "A", false, true⟩, ⟨"A", none, false, false, [], []⟩, [],
    rfl, by decide, rfl, rfl, rfl, by decide⟩

/-! ## `defined` -/

/-- **`defined X`**: for every table, every context (prefix, rest of the stream, lower streams, disabled names, suspended
    calls) one iteration replaces the two tokens by the number `1`/`0` read from the table and moves past it: `X` is consumed,
    never looked up for expansion -/
theorem defined_operator_plain (c : Cfg) (tbl : Table) (P R : List (Option Tok)) (S : List MX.Helper) (D : List String) (F : List Frame)
    (pr : Bool) (dt x : Tok) (hd : dt.kind = .ident) (hdt : dt.text = "defined") (hx : x.kind = .ident) (hxp : x.text ≠ "(") :
    step c tbl ⟨⟨P ++ some dt :: some x :: R, P.length, pr⟩ :: S, D, F, none⟩
      = .cont ⟨⟨P ++ none :: some (numTok (if (tbl.get x.text).isSome then "1" else "0") x.pw) :: R, P.length + 2, pr⟩ :: S, D, F, none⟩ :=
  step_defined_plain c tbl P R S D F pr dt x hd hdt hx hxp

/-- **`defined ( X )`** -/
theorem defined_operator_paren (c : Cfg) (tbl : Table) (P R : List (Option Tok)) (S : List MX.Helper) (D : List String) (F : List Frame)
    (pr : Bool) (dt lp x rp : Tok) (hd : dt.kind = .ident) (hdt : dt.text = "defined") (hlp : lp.text = "(") (hx : x.kind = .ident)
    (hrp : rp.text = ")") :
    step c tbl ⟨⟨P ++ some dt :: some lp :: some x :: some rp :: R, P.length, pr⟩ :: S, D, F, none⟩
      = .cont ⟨⟨P ++ none :: none :: none :: some (numTok (if (tbl.get x.text).isSome then "1" else "0") x.pw) :: R, P.length + 4, pr⟩ :: S, D, F, none⟩ :=
  step_defined_paren c tbl P R S D F pr dt lp x rp hd hdt hlp hx hrp

/-- top-level corollary: `#if defined X` never expands `X`, whatever `X` is defined as (object-like, function-like,
    recursive, …): the result is the single number token -/
theorem defined_never_expands (tbl : Table) (dt x : Tok) (hd : dt.kind = .ident) (hdt : dt.text = "defined") (hx : x.kind = .ident)
    (hxp : x.text ≠ "(") :
    cbiExpand tbl [dt, x] = .ok [numTok (if (tbl.get x.text).isSome then "1" else "0") x.pw] := by
  have h1 := defined_operator_plain realCfg tbl [] [] [] ["None"] [] false dt x hd hdt hx hxp
  simp only [List.nil_append, List.length_nil, Nat.zero_add] at h1
  have h2 : step realCfg tbl ⟨[⟨[none, some (numTok (if (tbl.get x.text).isSome then "1" else "0") x.pw)], 2, false⟩], ["None"], [], none⟩
      = .cont ⟨[], [], [], some [numTok (if (tbl.get x.text).isSome then "1" else "0") x.pw]⟩ := by
    simp [step, eopState, MX.filterSome]
  have h3 : step realCfg tbl ⟨[], [], [], some [numTok (if (tbl.get x.text).isSome then "1" else "0") x.pw]⟩
      = .done [numTok (if (tbl.get x.text).isSome then "1" else "0") x.pw] := by simp [step]
  have hl : realCfg.lim ≠ 0 := by simp only [realCfg]; rw [maxLevel_documented]; decide
  unfold cbiExpand expandWith
  simp only [hl, if_false, List.isEmpty_cons, Bool.false_eq_true]
  have h3steps : run realCfg tbl 3 (initState [dt, x]) = .ok [numTok (if (tbl.get x.text).isSome then "1" else "0") x.pw] := by
    simp only [run, initState, List.map_cons, List.map_nil, h1, h2, h3]
  exact run_mono_fuel realCfg tbl 3 _ _ h3steps _ (by unfold fuelFor; omega)

example : ∃ dt x : Tok, dt.kind = .ident ∧ dt.text = "defined" ∧ x.kind = .ident ∧ x.text ≠ "(" :=
  ⟨⟨.ident, "defined", false, true⟩, ⟨.ident, "X", true, true⟩, rfl, rfl, rfl, by decide⟩

/-! ## command-line definitions ≡ `#define` lines (token lists; both go through `macroDefinition` and `makeMacro`) -/

/-- `-DNAME` ≡ `#define NAME 1` -/
theorem cmdline_define_equiv_flag (nm : Tok) (hn : nm.kind = .ident) (w w' : Bool) :
    macroFromDefinitionToks [nm] = defineFromToks [hashTok, defineTok, { nm with pw := w }, { oneTok with pw := w' }] := by
  have hn' : ({ nm with pw := w } : Tok).kind = .ident := hn
  rw [defineFromToks_eq, macroDefinition_obj _ _ _ hn' (by simp [oneTok])]
  simp only [macroFromDefinitionToks, macroDefinition_single nm hn]
  exact (makeMacro_pw nm.text none oneTok [] w').symm

/-- `-DNAME=` ≡ `#define NAME` (empty replacement list) -/
theorem cmdline_define_equiv_empty (nm : Tok) (hn : nm.kind = .ident) (w : Bool) :
    macroFromDefinitionToks [nm, eqTok] = defineFromToks [hashTok, defineTok, { nm with pw := w }] := by
  have hn' : ({ nm with pw := w } : Tok).kind = .ident := hn
  rw [defineFromToks_eq, macroDefinition_single _ hn']
  have h := macroDefinition_obj nm eqTok [] hn (by simp [eqTok])
  simp only [macroFromDefinitionToks, h]
  simp [eqTok]

/-- `-DNAME=v` ≡ `#define NAME v` for every non-empty token list `v` (white space before `v` is irrelevant) -/
theorem cmdline_define_equiv_value (nm b : Tok) (bs : List Tok) (hn : nm.kind = .ident) (w : Bool) :
    macroFromDefinitionToks (nm :: eqTok :: b :: bs)
      = defineFromToks (hashTok :: defineTok :: { nm with pw := w } :: { b with pw := true } :: bs) := by
  have hn' : ({ nm with pw := w } : Tok).kind = .ident := hn
  rw [defineFromToks_eq, macroDefinition_obj _ _ _ hn' (by simp)]
  simp only [macroFromDefinitionToks, macroDefinition_obj nm eqTok (b :: bs) hn (by simp [eqTok])]
  simp only [eqTok, beq_self_eq_true, Bool.and_self, if_true]
  exact (makeMacro_pw nm.text none b bs true).symm

/-- `-D'NAME(args)=v'` ≡ `#define NAME(args) v`: `A` = the tokens between the parentheses, accepted by the parameter-list
    parser as `args` whatever follows the closing parenthesis -/
theorem cmdline_define_equiv_function (nm b : Tok) (A bs : List Tok) (args : List String) (hn : nm.kind = .ident) (w : Bool)
    (hA : ∀ r, parseArgList (A ++ rparenTok :: r) = (args, rparenTok :: r)) :
    macroFromDefinitionToks (nm :: lparenTok :: (A ++ rparenTok :: eqTok :: b :: bs))
      = defineFromToks (hashTok :: defineTok :: { nm with pw := w } :: lparenTok :: (A ++ rparenTok :: { b with pw := true } :: bs)) := by
  have hn' : ({ nm with pw := w } : Tok).kind = .ident := hn
  rw [defineFromToks_eq, macroDefinition_fun _ A args _ hn' (hA _)]
  simp only [macroFromDefinitionToks, macroDefinition_fun nm A args _ hn (hA _)]
  simp only [eqTok, beq_self_eq_true, Bool.and_self, if_true]
  exact (makeMacro_pw nm.text (some args) b bs true).symm

/-- `-D'NAME(args)'` ≡ `#define NAME(args) 1` -/
theorem cmdline_define_equiv_function_flag (nm : Tok) (A : List Tok) (args : List String) (hn : nm.kind = .ident) (w w' : Bool)
    (hA : ∀ r, parseArgList (A ++ rparenTok :: r) = (args, rparenTok :: r)) :
    macroFromDefinitionToks (nm :: lparenTok :: (A ++ [rparenTok]))
      = defineFromToks (hashTok :: defineTok :: { nm with pw := w } :: lparenTok :: (A ++ [rparenTok, { oneTok with pw := w' }])) := by
  have hn' : ({ nm with pw := w } : Tok).kind = .ident := hn
  have e : A ++ [rparenTok, { oneTok with pw := w' }] = A ++ rparenTok :: [{ oneTok with pw := w' }] := by simp
  rw [defineFromToks_eq, e, macroDefinition_fun _ A args _ hn' (hA _)]
  simp only [macroFromDefinitionToks, macroDefinition_fun nm A args _ hn (hA _)]
  exact (makeMacro_pw nm.text (some args) oneTok [] w').symm

/-- the parameter-list hypothesis holds, e.g., for `x, y` -/
example : ∀ r, parseArgList ([⟨.ident, "x", false, true⟩, ⟨.punct, ",", false, true⟩, ⟨.ident, "y", true, true⟩] ++ rparenTok :: r)
    = (["x", "y"], rparenTok :: r) := by
  have e1 : ("x".endsWith "...") = false := by decide +kernel
  have e2 : ("y".endsWith "...") = false := by decide +kernel
  intro r
  rcases r with _ | ⟨b, _ | ⟨c, r⟩⟩ <;> simp [parseArgList, parseArg, parseArgList.go, rparenTok, e1, e2]

/-- on concrete texts (lexer included): the three forms of the property text -/
example : (defineCmdline "NAME").toOption.map (·.replacement) = (defineLine "#define NAME 1").toOption.map (·.replacement) := by
  decide +kernel
example : (defineCmdline "F(x,y)=x+y*2").toOption.map (fun m => (m.name, m.args, m.needsExp, m.replacement))
    = (defineLine "#define F(x,y) x+y*2").toOption.map (fun m => (m.name, m.args, m.needsExp, m.replacement)) := by
  decide +kernel

/-! ## witnesses of the recorded findings: model ≠ spec on concrete inputs (each is replayed on the real code) -/

open CbiVerif.Spec.Prosser in
/-- spellings the specification assigns (`none` = outside well-formedness) -/
def specText (defs : List String) (text : String) : Option (List String) :=
  match prosser defs text with
  | .ok out => some (out.map (·.text))
  | .error _ => none

/-- D9: an empty argument as right operand of `##` → IndexError (conforming: `x`) -/
theorem D9_witness : expandText [] ["CAT(a,b) a##b"] "CAT(x,)" = .error .index ∧ specText ["CAT(a,b) a##b"] "CAT(x,)" = some ["x"] := by
  decide +kernel

/-- D10: `#` keeps a leading blank and drops the quotes of character constants -/
theorem D10_witness : expandText [] ["STR(x) #x"] "STR( a ) STR('a')" = .ok ["\" a\"", "\"a\""] ∧
    specText ["STR(x) #x"] "STR( a ) STR('a')" = some ["\"a\"", "\"'a'\""] := by
  decide +kernel

/-- D11: `f(a) a*g`, `g(a) f(a)`: `f(2)(9)` expands to nothing (conforming: `2*9*g`) -/
theorem D11_witness : expandText [] ["f(a) a*g", "g(a) f(a)"] "f(2)(9)" = .ok [] ∧
    specText ["f(a) a*g", "g(a) f(a)"] "f(2)(9)" = some ["2", "*", "9", "*", "g"] := by
  decide +kernel

/-- D11 is the `splice` position: with `adv := true` (what `splice`'s docstring says) the same machine is conforming here -/
theorem D11_cause :
    (match buildTable [] ["f(a) a*g", "g(a) f(a)"] with
     | .ok tbl => (match expandWith { lim := CbiVerif.Gen.maxLevel, adv := true } tbl 1000 (tokenize "f(2)(9)") with
        | .ok r => some (r.map spellTok) | _ => none)
     | .error _ => none) = some ["2", "*", "9", "*", "g"] := by
  decide +kernel

/-- D35: a macro named `None` is never expanded, for **every** table (found by the proof of `object_like_partial`:
    `expand` starts with the disabled-name list `[str(None)]`) -/
theorem D35_None_never_expands (tbl : Table) (t : Tok) (hk : t.kind = .ident) (ht : t.text = "None") :
    cbiExpand tbl [t] = .ok [paint t] := by
  have hk' : (t.kind != TKind.ident) = false := by simp [hk]
  have h1 : step realCfg tbl (initState [t]) = .cont ⟨[⟨[some (paint t)], 1, false⟩], ["None"], [], none⟩ := by
    simp [step, initState, hk', ht]
  have h2 : step realCfg tbl ⟨[⟨[some (paint t)], 1, false⟩], ["None"], [], none⟩ = .cont ⟨[], [], [], some [paint t]⟩ := by
    simp [step, eopState, MX.filterSome]
  have h3 : step realCfg tbl ⟨[], [], [], some [paint t]⟩ = .done [paint t] := by simp [step]
  have hl : realCfg.lim ≠ 0 := by simp only [realCfg]; rw [maxLevel_documented]; decide
  unfold cbiExpand expandWith
  simp only [hl, if_false, List.isEmpty_cons, Bool.false_eq_true]
  have h3steps : run realCfg tbl 3 (initState [t]) = .ok [paint t] := by
    simp only [run, h1, h2, h3]
  exact run_mono_fuel realCfg tbl 3 _ _ h3steps _ (by unfold fuelFor; omega)

theorem D35_witness : expandText ["None=1"] [] "None" = .ok ["None"] ∧ specText ["None 1"] "None" = some ["1"] := by
  decide +kernel

/-- D36: a variadic macro that does not name its variadic parameter → IndexError -/
theorem D36_witness : expandText [] ["V(...) 1"] "V(2)" = .error .index ∧ specText ["V(...) 1"] "V(2)" = some ["1"] := by
  decide +kernel

/-- D37: a string literal whose content is a parameter name is substituted -/
theorem D37_witness : expandText [] ["F(x) \"x\" x"] "F(1)" = .ok ["1", "1"] ∧ specText ["F(x) \"x\" x"] "F(1)" = some ["\"x\"", "1"] := by
  decide +kernel

/-- D12 on a small instance of the same machine: with nesting limit 3 the chain `A → B → C → 7` is cut to `0`
    (the harness replays the 200-level instance on the real code; `backstop_result` is the general statement) -/
theorem D12_witness_small :
    (match buildTable [] ["A B", "B C", "C 7"] with
     | .ok tbl => (match expandWith { lim := 3, adv := false } tbl 1000 (tokenize "A") with
        | .ok r => some (r.map spellTok) | _ => none)
     | .error _ => none) = some ["0"] ∧ specText ["A B", "B C", "C 7"] "A" = some ["7"] := by
  decide +kernel

/-- the full statement does not hold for the code as it is (D11 is a counterexample) -/
theorem full_fails : ¬ Full := by
  intro h
  have hs := D11_witness.2
  have hm := D11_witness.1
  unfold specText at hs
  cases hp : CbiVerif.Spec.Prosser.prosser ["f(a) a*g", "g(a) f(a)"] "f(2)(9)" with
  | error e => simp [hp] at hs
  | ok out =>
    simp only [hp, Option.some.injEq] at hs
    have := h [] ["f(a) a*g", "g(a) f(a)"] "f(2)(9)" out (by simpa using hp)
    rw [hm, hs] at this
    exact absurd this (by decide)

end CbiVerif.C03
