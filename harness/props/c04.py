"""C04 — #include resolution and attribution across files follow compiler rules.

Implementation: codebasin.finder.find via config.load_database on a generated compile_commands.json
                (so -I / -isystem / -include go through the real argument parser), with
                Platform.find_include_file observed by harness-side interposition.
Model (Lean):   CbiVerif.Inc.find (driver op `findinc`), CbiVerif.IncMemo (ops `incmemo`, `incargv`)
                — the definitions the theorems of Props/C04.lean are about.
Spec oracles:   (1) the compiler's search rule evaluated in Python on the generated tree + flags, per look-up;
                (2) an independent reference preprocessor for the generated directive language (surviving
                    marker lines per translation unit); (3) `gcc -E` run from the entry's directory.
"""
from __future__ import annotations

import itertools
import json
import time
import os
import posixpath

from harness import core
from harness.gen import inctree as G

GCC_EVERY_QUICK = 5   # quick tier: gcc on every 5th tree; thorough: on every tree


def rel(root, p):
    return None if p is None else os.path.relpath(p, root).replace(os.sep, "/")


def d33_case(case):
    """narrow classifier of D33: some -include name resolves differently when searched from the compiler's
    working directory first (gcc) than from the source file's directory first (CBI)."""
    desc = case["desc"]
    for k, e in enumerate(desc["entries"]):
        if not e["forced"]:
            continue
        a = [x for x in G.ref_run(desc, k, "cwd")["lookups"] if x[3] == "forced"]
        b = [x for x in G.ref_run(desc, k, "src")["lookups"] if x[3] == "forced"]
        if a != b:
            return True
    return False


def both_kinds_case(case):
    """narrow classifier of F-C04-2: some command line names one directory (symlinks resolved) both with -I and with -isystem"""
    desc = case["desc"]
    real = {l: t for l, t in desc["links"]}
    for e in desc["entries"]:
        sysids = {real.get(d, d) for k, d in e["flags"] if k == "isystem"}
        if any(k in ("I", "Ij") and real.get(d, d) in sysids for k, d in e["flags"]):
            return True
    return False


def check_tree(ctx, drv, desc, origin, use_gcc, expect=None):
    """one generated tree through implementation, model and the spec oracles."""
    case = {"desc": desc, "origin": origin}
    classifiers = [("D33", d33_case), ("F-C04-2", both_kinds_case)]
    out = {"origin": origin}
    with core.Scratch() as d:
        root = os.path.realpath(str(d))
        db = G.write_tree(root, desc)
        dbs = G.write_dbs(root, desc, db)
        real = G.run_real(root, dbs)
        nent = len(desc["entries"])
        refs = []
        for k in range(nent):
            try:
                refs.append(G.ref_run(desc, k, "cwd"))
            except RecursionError:
                refs.append(None)
        wf = all(r is not None and not r["missing"] for r in refs)
        out["wf"] = wf
        # ---- distribution / non-triviality
        nforms = sum(len(r["lookups"]) for r in refs if r)
        multi = sum(r["multi"] for r in refs if r)
        onces = sum(r["once_skips"] for r in refs if r)
        depth = max([r["depth"] for r in refs if r] + [0])
        ctx.count(key=f"entries={nent}")
        ctx.dist[f"depth={min(depth, 5)}"] += 1
        ctx.dist["lookups_total"] += nforms
        ctx.dist["lookups_with_several_existing_candidates"] += multi
        ctx.dist["once_skips"] += onces
        ctx.dist["forced"] += sum(1 for e in desc["entries"] if e["forced"])
        ctx.dist["symlinked_dir"] += 1 if desc["links"] else 0
        ctx.dist["both_I_and_isystem"] += sum(1 for e in desc["entries"]
                                              if {"isystem"} <= {k for k, _ in e["flags"]} and {k for k, _ in e["flags"]} & {"I", "Ij"})
        if not wf:
            ctx.dist["not_wf(missing header)"] += 1
        if wf and multi > 0:
            ctx.nontrivial.add(json.dumps(desc, sort_keys=True))
        ctx.sample({"entries": [e["argv"] for e in desc["entries"]], "files": sorted(desc["files"]), "links": desc["links"]}, cap=4)
        if "exc" in real:
            out["implementation"] = real["exc"]
            if wf:
                ctx.classify(case, f"analysis of a well-formed tree raises {real['exc']}", classifiers)
            return out
        # ---- (a) the list handed to the resolver: all -I, then all -isystem
        for k, e in enumerate(desc["entries"]):
            want = [os.path.normpath(os.path.join(root, x)) for x in G.search_dirs(e["flags"], desc["links"])]
            got = real["cfg"][f"p{k}"][0]["include_paths"] if real["cfg"][f"p{k}"] else None
            if got != want:
                ctx.classify(case, f"include directories handed to the preprocessor for {e['argv']} are {[rel(root, g) for g in got or []]}, "
                              f"a compiler searches {G.search_dirs(e['flags'], desc['links'])}", classifiers)
            if drv is not None:
                fl = [["I" if kd in ("I", "Ij") else "isystem", x] for kd, x in e["flags"]]
                # interleave the other options as "other"
                m = drv.ask({"op": "incargv", "argv": fl + [["other", "-O2"]]})
                if [os.path.normpath(os.path.join(root, x)) for x in m["model"]] != got:
                    ctx.corr_break("incargv", case, [rel(root, g) for g in got or []], m["model"])
        # ---- (b) every look-up the real code performed against the compiler's rule
        t = G.Tree(desc)
        bad_lookup = None
        for pname, name, this_path, sysinc, res in real["lookups"]:
            k = int(pname[1:])
            e = desc["entries"][k]
            dirs = G.search_dirs(e["flags"], desc["links"])
            here = rel(root, this_path)
            here = "" if here == "." else here
            want = t.resolve(name, here, not sysinc, dirs)
            got = rel(root, res)
            if (None if want is None else t.real(want)) != (None if got is None else t.real(got)):
                bad_lookup = f"platform {pname}: {'<' if sysinc else chr(34)}{name}{'>' if sysinc else chr(34)} included from {here or '.'}/ " \
                             f"with search directories {dirs} resolved to {got}, the compiler's rule gives {want}"
                break
        if bad_lookup:
            ctx.classify(case, bad_lookup, classifiers)
        # ---- (b') the include directives evaluated, in order, against the reference preprocessor
        if wf:
            for k in range(nent):
                got = [(rel(root, f), ln) for pn, f, ln in real["visits"] if pn == f"p{k}"]
                want = [(f, ln) for f, ln, _, form, _ in refs[k]["lookups"] if form != "forced"]
                if got != want:
                    i = next((j for j, (a, b) in enumerate(zip(got, want)) if a != b), min(len(got), len(want)))
                    ctx.classify(case, f"entry {k}: include directives evaluated by the implementation differ from the ones a compiler "
                                       f"processes at position {i}: implementation {got[i:i + 3]}, compiler {want[i:i + 3]}", classifiers)
                    break
        # ---- (c) attribution against the reference preprocessor (and gcc)
        impl_marks = {}
        for k in range(nent):
            impl_marks[k] = set()
        for f, rows in real["ok"].items():
            rf = rel(root, f)
            for kind, lines, plats in rows:
                if kind != "code":
                    continue
                for ln in lines:
                    if rf in desc["files"] and desc["files"][rf][ln - 1].strip().startswith("int m"):
                        for p in plats:
                            impl_marks[int(p[1:])].add((rf, ln))
        out["implementation"] = {k: sorted(G.marker_ids(desc, v)) for k, v in impl_marks.items()}
        out["reference"] = {}
        if wf:
            for k in range(nent):
                want = G.marker_ids(desc, refs[k]["markers"])
                got = G.marker_ids(desc, impl_marks[k])
                out["reference"][k] = sorted(want)
                if want != got:
                    ctx.classify(case, f"entry {k} ({' '.join(desc['entries'][k]['argv'])}): lines attributed by the implementation but not "
                                       f"compiled: m{sorted(got - want)}; compiled but not attributed: m{sorted(want - got)}", classifiers)
                if use_gcc:
                    g = G.gcc_markers(root, desc, k)
                    ctx.dist["gcc_runs"] += 1
                    if g is None:
                        ctx.dist["gcc_diagnostic"] += 1
                        ctx.notes.append(f"gcc issues a diagnostic on a tree the reference accepts: {origin}") if len(ctx.notes) < 5 else None
                    else:
                        out.setdefault("gcc", {})[k] = sorted(g)
                        if g != want and len(ctx.notes) < 5:
                            ctx.notes.append(f"reference preprocessor != gcc on {origin} entry {k}: {sorted(g ^ want)}")
                            ctx.dist["reference_vs_gcc_diff"] += 1
                        if g != got:
                            ctx.classify(case, f"entry {k}: gcc -E keeps m{sorted(g - got)} that are not attributed and drops "
                                               f"m{sorted(got - g)} that are", classifiers)
        # ---- (d) correspondence with the Lean model
        if drv is not None:
            m = drv.ask(G.model_request(root, real, desc["links"]))
            if "ok" not in m:
                ctx.corr_break("findinc", case, "ok", m)
                out["model"] = m
            else:
                mm = {f: [[k, l, sorted(ps)] for k, l, ps in rows] for f, rows in m["ok"].items()}
                rr = real["ok"]
                if mm != rr:
                    f = next(f for f in set(mm) | set(rr) if mm.get(f) != rr.get(f))
                    ctx.corr_break("findinc", case, {rel(root, f): rr.get(f)}, {rel(root, f): mm.get(f)})
                out["model"] = {rel(root, f): [[k, l, ps] for k, l, ps in rows if k == "code"] for f, rows in mm.items()}
                mv = [[f, ln] for _, f, ln, _, _ in m["visits"] if ln != 0]   # line 0 = forced includes (ghost log only)
                rv = [[f, ln] for _, f, ln in real["visits"]]
                if mv != rv:
                    ctx.corr_break("findinc.visits", case, [[rel(root, f), l] for f, l in rv][:12], [[rel(root, f), l] for f, l in mv][:12])
                out["model_wf"], out["model_equals_lean_spec"] = m.get("wf"), m.get("spec_agrees")
                ctx.dist["lean_wf_hypothesis_holds"] += 1 if m.get("wf") else 0
                if wf and not m.get("wf"):
                    ctx.notes.append(f"Lean well-nestedness check fails on a generated tree: {origin}") if len(ctx.notes) < 8 else None
                if m.get("wf") and not m.get("spec_agrees"):
                    # contradicts the theorem include_semantics_find_checked: the driver is not running what was proved
                    ctx.corr_break("findinc: model != Lean reference although wf", case, "theorem", m.get("spec_agrees"))
                # the engine tie (Props/C04Engines.lean): the engine of ops c08find / c10find on the same request
                eq = dict(G.model_request(root, real, desc["links"]), op="engines")
                em = drv.ask(eq)
                if "eng_ok" not in em:
                    ctx.corr_break("engines", case, "reply", em)
                else:
                    ctx.dist["engines_requests"] += 1
                    ctx.dist["engines_side_condition_EngOK"] += 1 if em["eng_ok"] else 0
                    for k2 in ("no_links", "cfam", "no_forced", "both_ok", "agree"):
                        ctx.dist[f"engines_{k2}"] += 1 if em[k2] else 0
                    if em["eng_ok"] and em["both_ok"]:
                        ctx.dist["engines_theorem_applies"] += 1
                        ctx.dist["engines_triples_compared"] += em["x_triples"]
                        if not em["agree"]:
                            # contradicts C04.engines_agree_checked: the driver is not running what was proved
                            ctx.corr_break("engines: Exclude engine != Inc.find although EngOK and both runs succeed", case,
                                           "theorem", em)
                    elif em["both_ok"]:
                        ctx.dist["engines_agree_outside_side_condition"] += 1 if em["agree"] else 0
                        if not em["agree"]:
                            # measured, not an alarm: `Exclude.sem` has no symbolic links (its file system is a map from real paths)
                            ctx.dist["engines_differ_with_links" if not em["no_links"] else "engines_differ_without_links"] += 1
                    out["engines"] = {k2: em[k2] for k2 in ("eng_ok", "both_ok", "agree", "x_triples", "i_triples", "x_exc", "i_exc")}
                    # ... with `-include` files (Props/C04EnginesForced.lean): asked only where the request has one
                    # (without, `EngOKF` = `EngOK` and the block above has already compared the two runs)
                    if not em["no_forced"]:
                        ef = drv.ask(dict(eq, op="engines_f"))
                        if "eng_okf" not in ef:
                            ctx.corr_break("engines_f", case, "reply", ef)
                        else:
                            ctx.dist["engines_f_requests_with_forced_includes"] += 1
                            ctx.dist["engines_f_forced_includes"] += ef["n_forced"]
                            ctx.dist["engines_f_side_condition_EngOKF"] += 1 if ef["eng_okf"] else 0
                            for k2 in ("all_c", "both_ok", "agree"):
                                ctx.dist[f"engines_f_{k2}"] += 1 if ef[k2] else 0
                            if ef["eng_ok"] or not ef["has_forced"] or ef["both_ok"] != em["both_ok"] or ef["agree"] != em["agree"]:
                                ctx.corr_break("engines_f: reply inconsistent with op engines on the same request", case, em, ef)
                            if ef["eng_okf"] and ef["both_ok"]:
                                ctx.dist["engines_f_theorem_applies"] += 1
                                ctx.dist["engines_f_triples_compared"] += ef["x_triples"]
                                if not ef["agree"]:
                                    # contradicts C04.engines_agree_forced_checked: the driver is not running what was proved
                                    ctx.corr_break("engines_f: Exclude engine != Inc.find although EngOKF and both runs succeed",
                                                   case, "theorem", ef)
                            elif ef["both_ok"]:
                                ctx.dist["engines_f_agree_outside_side_condition"] += 1 if ef["agree"] else 0
                            elif ef["eng_okf"]:
                                ctx.dist["engines_f_EngOKF_but_a_run_failed"] += 1
                            out["engines_f"] = {k2: ef[k2] for k2 in ("eng_okf", "both_ok", "agree", "x_triples", "n_forced")}
                # the memo: the observed history of look-ups through the memo model and the memo-free rule
                for k, e in enumerate(desc["entries"]):
                    hist = [x for x in real["lookups"] if x[0] == f"p{k}"]
                    if not hist:
                        continue
                    existing = sorted(os.path.join(root, p) for p in desc["files"]) + \
                        sorted(os.path.join(root, l, os.path.relpath(p, tg)) for l, tg in desc["links"] for p in desc["files"] if p.startswith(tg + "/"))
                    fl = [["I" if kd in ("I", "Ij") else "isystem", os.path.join(root, x)] for kd, x in e["flags"]]
                    mm2 = drv.ask({"op": "incmemo", "existing": existing, "argv": fl,
                                   "queries": [[n, tp, s] for _, n, tp, s, _ in hist]})
                    obs = [r for *_, r in hist]
                    ctx.dist["memo_histories"] += 1
                    ctx.dist["memo_hits"] += len(hist) - len({(n, None if s else tp) for _, n, tp, s, _ in hist})
                    if mm2["model"] != obs:
                        ctx.corr_break("incmemo", case, [rel(root, x) for x in obs], mm2["model"])
                    if mm2["spec"] != obs:
                        ctx.classify(case, f"history of look-ups of entry {k}: implementation {[rel(root, x) for x in obs]} but the "
                                           f"memo-free rule gives {[rel(root, x) for x in mm2['spec']]}", classifiers)
    return out


def flag_orders(ctx, drv):
    """all orders of a fixed set of flags on one tree in which the order decides the outcome"""
    files = {
        "src/main.c": ['#include "x.h"', "#include <x.h>", '#include "y.h"', "#include <y.h>", "int m1;"],
        "src/x.h": ["int m2;"], "inc1/x.h": ["int m3;"], "inc2/x.h": ["int m4;"], "sys1/x.h": ["int m5;"],
        "inc2/y.h": ["int m6;"], "sys1/y.h": ["int m7;"], "sys2/y.h": ["int m8;"], "inc1/z.h": ["int m9;"],
    }
    base = [["I", "inc1"], ["I", "inc2"], ["isystem", "sys1"], ["isystem", "sys2"]]
    n = 0
    for r in (2, 3, 4):
        for sub in itertools.combinations(base, r):
            for perm in itertools.permutations(sub):
                e = {"file": "src/main.c", "directory": ".", "flags": [list(x) for x in perm], "defines": [], "forced": []}
                e["argv"] = G.argv_of(e, ctx.rng)
                desc = {"files": files, "links": [], "entries": [e]}
                check_tree(ctx, drv, desc, f"flag-orders:{n}", use_gcc=ctx.thorough() and n % 4 == 0)
                n += 1
    return n


def d33_stream(ctx, drv):
    """separate stream: forced-include placements on which the two readings differ (re-confirms D33)"""
    for i in range(min(ctx.n(12, 60), 60)):
        g = G.Gen(ctx.rng, forced=True, d33=True)
        desc = g.tree()
        for e in desc["entries"]:
            if not e["forced"]:
                e["forced"] = g.forced_headers(desc["files"], e["flags"], e["file"])
                e["argv"] = G.argv_of(e, ctx.rng)
        check_tree(ctx, drv, desc, f"d33:{i}", use_gcc=ctx.thorough())


def both_kinds_stream(ctx, drv):
    """separate stream: a directory given both with -I and -isystem (re-confirms F-C04-2)"""
    files = {"src/main.c": ["#include <x.h>", '#include "x.h"', "int m1;"], "sys1/x.h": ["int m2;"], "inc1/x.h": ["int m3;"],
             "inc2/x.h": ["int m4;"]}
    variants = [([["I", "sys1"], ["I", "inc1"], ["isystem", "sys1"]], []),
                ([["isystem", "sys1"], ["Ij", "sys1"], ["I", "inc2"]], []),
                ([["I", "lnk_sys1"], ["I", "inc1"], ["isystem", "sys1"]], [["lnk_sys1", "sys1"]]),
                ([["I", "inc1"], ["I", "sys1"], ["isystem", "sys1"], ["isystem", "inc2"]], [])]   # order-insensitive: both readings agree
    for k, (flags, links) in enumerate(variants):
        e = {"file": "src/main.c", "directory": ".", "flags": flags, "defines": [], "forced": []}
        e["argv"] = G.argv_of(e, ctx.rng)
        check_tree(ctx, drv, {"files": files, "links": links, "entries": [e]}, f"both-kinds:{k}", use_gcc=True)


def forced_once_stream(ctx, drv):
    """a once-header named twice by -include, and named by -include and included again (fixed cases)"""
    hdr = ["#pragma once", "int m2;", "#ifdef SEEN", "int m3;", "#endif", "#define SEEN 1"]
    for nm, main, forced in (("twice", ["int m1;"], ["forced0.h", "forced0.h"]),
                             ("again", ["int m1;", "#include <forced0.h>", '#include "forced0.h"', "int m4;"], ["forced0.h"]),
                             ("unguarded-twice", ["int m1;"], ["plain.h", "plain.h"])):
        files = {"src/main.c": main, "inc1/forced0.h": hdr, "inc1/plain.h": hdr[1:]}
        e = {"file": "src/main.c", "directory": ".", "flags": [["I", "inc1"]], "defines": [], "forced": forced}
        e["argv"] = ["gcc", "-I", "inc1"] + [x for f in forced for x in ("-include", f)] + ["-c", "src/main.c"]
        check_tree(ctx, drv, {"files": files, "links": [], "entries": [e]}, "forced-once:" + nm, use_gcc=True)
    # order of the -include files (C04.forced_in_order; the second header reads a macro the first defines, and the other way round)
    fa, fb = ["#define FA 1", "#ifdef FB", "int a1;", "#else", "int a2;", "#endif"], ["#define FB 1", "#ifdef FA", "int b1;", "#else", "int b2;", "#endif"]
    for nm, forced in (("order-ab", ["fa.h", "fb.h"]), ("order-ba", ["fb.h", "fa.h"]), ("order-aba", ["fa.h", "fb.h", "fa.h"])):
        files = {"src/main.c": ["int m1;", "#if defined(FA) && defined(FB)", "int m3;", "#endif"], "inc1/fa.h": fa, "inc1/fb.h": fb}
        e = {"file": "src/main.c", "directory": ".", "flags": [["I", "inc1"]], "defines": [], "forced": forced}
        e["argv"] = ["gcc", "-I", "inc1"] + [x for f in forced for x in ("-include", f)] + ["-c", "src/main.c"]
        check_tree(ctx, drv, {"files": files, "links": [], "entries": [e]}, "forced-" + nm, use_gcc=True)


def run(ctx, drv, cap=None):
    core.import_codebasin()
    t_run = time.time()
    limit = cap if cap is not None else (520 if ctx.thorough() else 70)
    ctx.rule = ("inputs = generated source trees (6 directories; up to 5 header names, each present beside the includer and/or in "
                "several -I/-isystem directories; quote, angle, computed and path-qualified includes nested up to depth 5; "
                "guarded / #pragma once / unguarded headers that define, undefine and test macros; 1-2 translation units, "
                "each with its own random order of -I / -Idir / -isystem flags, -D and -include options, optionally a "
                "symlinked include directory; twin commands that search the same directories in another order; headers also at the top of the tree; "
                "partially guarded headers (#else on the guard, text after its #endif); a header that includes itself for a second pass) "
                "plus all 60 orders of 2-4 flags on a fixed order-sensitive tree. "
                "Non-trivial = well-formed tree (every reached include resolves) in which at least one reached include has "
                "two or more distinct existing candidates, i.e. the search order decides the outcome.")
    ctx.assumptions += [
        "well-formed = every include reached by the reference preprocessor resolves (missing headers are C18's subject)",
        "in the main streams no directory is named by both -I and -isystem; that case (gcc ignores the -I occurrence) is the "
        "separate F-C04-2 stream",
        "forced-include headers are placed in -I/-isystem directories only, where 'search the source file's directory first' "
        "(CBI) and 'search the working directory first' (gcc) agree; the divergent placements are the separate D33 stream",
        "the reference preprocessor covers the generated directive language only; gcc -E validates it "
        "(every tree in the thorough tier, every %d-th in the quick tier)" % GCC_EVERY_QUICK,
        "include nesting deeper than the Python recursion limit is not explored",
    ]
    for f in sorted((core.VERIF / "corpus" / "C04").glob("*.json")):
        c = json.loads(f.read_text())
        check_tree(ctx, drv, c["desc"], "corpus:" + f.name, use_gcc=True)
    flag_orders(ctx, drv)
    ctx.exhaustive = False
    n = ctx.n(700, 2600)
    for i in range(n):
        if time.time() - t_run > limit:
            ctx.notes.append(f"time budget reached after {i} random trees")
            break
        g = G.Gen(ctx.rng, sym=(i % 4 == 3), forced=True)
        desc = g.tree()
        check_tree(ctx, drv, desc, f"random:{i}", use_gcc=ctx.thorough() or i % GCC_EVERY_QUICK == 0)
    forced_once_stream(ctx, drv)
    both_kinds_stream(ctx, drv)
    if time.time() - t_run < limit + 20:
        d33_stream(ctx, drv)


def search(ctx, drv):
    # failing-input search: same generators, 8x budget, hard wall-clock cap
    run(ctx, drv, cap=130)


def replay(ctx, drv, case):
    core.import_codebasin()
    c2 = core.Ctx(ctx.prop, "thorough", 0)
    out = check_tree(c2, drv, case["desc"], "replay", use_gcc=True)
    out["violations"] = [w for w, _ in c2.violations]
    out["known_findings"] = sorted(c2.known_seen)
    out["correspondence_breaks"] = c2.corr_breaks[:2]
    return out
