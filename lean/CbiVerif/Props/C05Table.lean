import CbiVerif.Lemmas.CCleanRegen
/-!
# C05 — the `c_cleaner` model is the machine tabulated from the running code

`Generated/CCleanTable.lean` is rewritten on every run from the checkout's `c_cleaner.process`,
`logical_newline`, `c_file_source` and `one_space_line` (by execution on every cell, see
`tools/gen/cleaner.py`).  The theorems below are re-checked against that file on every run: a change of
the code's behaviour in any cell makes one of them fail to build.  Together with `table_closed` they say
that on every stack the cleaner can reach, `CClean.step` / `CClean.logicalNewline` — the functions the
unbounded theorems of `Props/C05.lean` are about — *are* the tabulated transition function.
-/
namespace CbiVerif.C05
open CbiVerif.CClean CbiVerif.CClean.Regen CbiVerif.CText

/-- **C05.step_table_agrees.**  For every stack `c_cleaner` can reach (each is a row of the regenerated
    table), both buffer categories and all nine model classes: one character through the model's `step`
    (put-back included) gives exactly the successor stack and the buffer effects that the real
    `process()` produced when it was executed on that cell (a raised exception = the model's `err`). -/
theorem step_table_agrees : ∀ row ∈ Gen.CCleanTable.step, ∀ (b : Bool) (k : Cls),
    encode (decode row.1) = row.1 ∧
    lookup row.2 b k = some (entryOf k (step (decode row.1) b k)) := by
  intro row hrow b k
  have h := List.all_eq_true.mp stepRows_ok row hrow
  simp only [rowOK, Bool.and_eq_true, beq_iff_eq, List.all_eq_true] at h
  exact ⟨h.1, h.2 b (by cases b <;> simp) k (mem_allCls k)⟩

/-- **C05.newline_table_agrees.**  The same for `logical_newline` on every reachable stack. -/
theorem newline_table_agrees : ∀ row ∈ Gen.CCleanTable.newline,
    encode (decode row.1) = row.1 ∧ row.2 = entryOf .other (logicalNewline (decode row.1)) := by
  intro row hrow
  have h := List.all_eq_true.mp newlineRows_ok row hrow
  simpa only [nlRowOK, Bool.and_eq_true, beq_iff_eq] using h

/-- **C05.classes_agree.**  The character partition is the regenerated one: all 128 ASCII characters
    (and the probed non-ASCII blanks and letters) are listed, and the model's `classify` puts each into the
    class in which the running code's behaviour puts it (`process()` itself does not separate the blank from
    the other white space; `one_space_line.category/join` do, see `buffer_table_agrees`); the code has nine
    states and eight behaviour classes whose smallest members are NUL, TAB, `"`, `#`, `'`, `*`, `/`, `\`. -/
theorem classes_agree :
    (∀ p ∈ Gen.CCleanTable.charClass, clsIdx (classify (Char.ofNat p.1)) = p.2) ∧
    (Gen.CCleanTable.charClass.take 128).map (·.1) = List.range 128 ∧
    Gen.CCleanTable.stateNames.length = 9 ∧ Gen.CCleanTable.classReps = [0, 9, 34, 35, 39, 42, 47, 92] := by
  refine ⟨?_, ascii_listed, shape_ok⟩
  intro p hp
  have h := List.all_eq_true.mp classes_ok p hp
  simpa only [classOK, beq_iff_eq] using h

/-- **C05.table_closed.**  The table starts at `[TOPLEVEL]` and every successor stack (after a character or
    after `logical_newline`) that is not an exception is again a row: no run of the cleaner leaves the table. -/
theorem table_closed :
    [0] ∈ keys ∧ Gen.CCleanTable.newline.map (·.1) = keys ∧
    (∀ row ∈ Gen.CCleanTable.step, ∀ es ∈ row.2, ∀ e ∈ es, e.1 = true ∨ e.2.1 ∈ keys) ∧
    (∀ row ∈ Gen.CCleanTable.newline, row.2.1 = true ∨ row.2.2.1 ∈ keys) := by
  have h := closed_ok
  simp only [closedOK, Bool.and_eq_true, List.contains_iff_mem, beq_iff_eq, List.all_eq_true, Bool.or_eq_true] at h
  exact ⟨h.1.1.1, h.1.1.2, h.1.2, h.2⟩

/-- **C05.line_table_agrees.**  The per-line code of `c_file_source` around the cleaner — continuation
    detection (`toPLine`), `process`, when `logical_newline` is called, the BLANK test that decides whether
    the physical line is counted, and whether the logical line ends (`procLine`) — executed on one physical
    line (nothing / one character of every class / the same followed by a backslash) from every reachable
    stack, gives what the model gives: stack afterwards, counted, logical line ended, text of the buffer. -/
theorem line_table_agrees :
    Gen.CCleanTable.lines.map (·.1) = keys ∧
    ∀ row ∈ Gen.CCleanTable.lines, ∀ p ∈ row.2, p.2 = lineObs (decode row.1) (chars p.1) := by
  have hs := lineShape_ok
  simp only [lineShapeOK, Bool.and_eq_true, beq_iff_eq] at hs
  refine ⟨hs.1, ?_⟩
  intro row hrow p hp
  have h := List.all_eq_true.mp lineRows_ok row hrow
  simp only [lineRowOK, Bool.and_eq_true, beq_iff_eq, List.all_eq_true] at h
  exact h.2 p hp

/-- **C05.buffer_table_agrees.**  `one_space_line.category` on every part list of length ≤ 3 over
    {blank, TAB, `#`, `x`} and `one_space_line.join` on small operands, executed, equal `catOf` / `Buf.join`. -/
theorem buffer_table_agrees :
    (∀ p ∈ Gen.CCleanTable.category, catCode (catOf ((chars p.1).map classify)) = p.2) ∧
    (∀ p ∈ Gen.CCleanTable.join,
      (Buf.join ⟨(chars p.1).map pchar, p.2.1⟩ ⟨(chars p.2.2.1).map pchar, p.2.2.2.1⟩).text.map Char.toNat = p.2.2.2.2.1 ∧
      (Buf.join ⟨(chars p.1).map pchar, p.2.1⟩ ⟨(chars p.2.2.1).map pchar, p.2.2.2.1⟩).trailing = p.2.2.2.2.2) := by
  constructor
  · intro p hp
    have h := List.all_eq_true.mp catRows_ok p hp
    simpa only [catRowOK, beq_iff_eq] using h
  · intro p hp
    have h := List.all_eq_true.mp joinRows_ok p hp
    simpa only [joinRowOK, Bool.and_eq_true, beq_iff_eq] using h

/-! non-vacuity: the table has the 28 reachable stacks, 8 classes; e.g. the row of `[FOUND_SLASH, TOPLEVEL]` -/
example : Gen.CCleanTable.step.length = 28 ∧ keys.contains [4, 0] = true ∧
    decode [4, 0] = [.slash, .top] := by decide

end CbiVerif.C05
