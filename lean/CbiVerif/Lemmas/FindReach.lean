import CbiVerif.Model.ReachInc
import CbiVerif.Lemmas.FindInc
/-! Helper lemmas for C13 (`Props/C13Closure.lean`): every attribution made by the multi-file model of `finder.find`
is to a file reached from an entry of the platform.

* generic part (`MF`): an invariant `P` of worlds that may assume a static property `Q` of the file being
  processed, where every file entered from a `Q`-file is a `Q`-file (`OpsInvQ`, `assocFile_invQ`);
* concrete part (`Inc`): `P` = "the memo is sound, the platform's name and search directories are those of the entry,
  every attribution so far is justified", `Q` = `ReachE` of the entry. -/
namespace CbiVerif.MF
open CbiVerif.Cond
variable {W : Type}

/-- per-directive operations keep `P` when run in a file satisfying `Q`, and only enter files satisfying `Q` -/
structure OpsInvQ (P : W → Prop) (Q : String → Prop) (F : FileOps W) : Prop where
  evalIf : ∀ file w i, P w → P (F.evalIf file w i).2
  enter : ∀ file w i, Q file → P w → P (F.enter file w i).2 ∧ ∀ inc, (F.enter file w i).1 = some inc → Q inc
  record : ∀ w file out, Q file → P w → P (F.record w file out)
  noFuel : ∀ w, P w → P (F.noFuel w)
  crash : ∀ w, P w → P (F.crash w)

theorem assocWith_invQ (P : W → Prop) (Q : String → Prop) (F : FileOps W) (h : OpsInvQ P Q F) (M : Sem W)
    (hM : SemRel (fun a b => a = b ∧ P a) M M) (file : String) (hq : Q file) (w : W) (hw : P w) :
    P (assocWith M F file w) := by
  unfold assocWith model
  cases build (F.labels file) with
  | none => exact h.crash _ hw
  | some ts =>
    have hs := visitList_sim (fun a b => a = b ∧ P a) M M hM ts { σ := w } { σ := w } ⟨⟨rfl, hw⟩, rfl, rfl, rfl⟩
    simp only [Option.map_some]
    cases (visitList M { σ := w } ts).crash with
    | true => exact h.record _ _ _ hq (h.crash _ hs.env.2)
    | false => exact h.record _ _ _ hq hs.env.2

theorem sem_invQ (P : W → Prop) (Q : String → Prop) (F : FileOps W) (h : OpsInvQ P Q F) :
    ∀ (n : Nat) (file : String), Q file → SemRel (fun a b => a = b ∧ P a) (sem F n file) (sem F n file)
  | 0, file, hq => by
    refine ⟨fun w w' p hw => ?_, fun w w' p hw => ?_⟩
    · obtain ⟨rfl, hp⟩ := hw; exact ⟨rfl, rfl, h.evalIf file w p hp⟩
    · obtain ⟨rfl, hp⟩ := hw
      refine ⟨rfl, ?_⟩
      obtain ⟨h1, _⟩ := h.enter file w p hq hp
      simp only [sem]
      cases (F.enter file w p).1 with
      | none => exact h1
      | some inc => exact h.noFuel _ h1
  | n + 1, file, hq => by
    refine ⟨fun w w' p hw => ?_, fun w w' p hw => ?_⟩
    · obtain ⟨rfl, hp⟩ := hw; exact ⟨rfl, rfl, h.evalIf file w p hp⟩
    · obtain ⟨rfl, hp⟩ := hw
      refine ⟨rfl, ?_⟩
      obtain ⟨h1, h2⟩ := h.enter file w p hq hp
      simp only [sem]
      cases he : (F.enter file w p).1 with
      | none => exact h1
      | some inc =>
        exact assocWith_invQ P Q F h _ (sem_invQ P Q F h n inc (h2 inc he)) inc (h2 inc he) _ h1

/-- a run of the associator on a `Q`-file keeps `P`, at every include depth -/
theorem assocFile_invQ (P : W → Prop) (Q : String → Prop) (F : FileOps W) (h : OpsInvQ P Q F) (n : Nat)
    (file : String) (hq : Q file) (w : W) (hw : P w) : P (assocFile F n file w) :=
  assocWith_invQ P Q F h _ (sem_invQ P Q F h n file hq) file hq w hw

end CbiVerif.MF

namespace CbiVerif.Inc
open CbiVerif.PP CbiVerif.Cond CbiVerif.MF CbiVerif.IncludeSearch

theorem foldl_inv_mem {α β : Type} (P : α → Prop) (f : α → β → α) (l : List β)
    (h : ∀ a x, x ∈ l → P a → P (f a x)) (a : α) (ha : P a) : P (l.foldl f a) := by
  induction l generalizing a with
  | nil => exact ha
  | cons x l ih =>
    exact ih (fun a y hy hp => h a y (List.mem_cons_of_mem _ hy) hp) _ (h a x (by simp) ha)

theorem includes_of_check (fs : FS) (pfs : ParsedFS) (incs : List String) (f : String) (idx : Nat) (g : String)
    (h : includesB fs pfs incs f idx g = true) : Includes fs pfs incs f g := by
  unfold includesB at h
  split at h
  · rename_i n hn
    simp only [Bool.and_eq_true, decide_eq_true_eq] at h
    obtain ⟨hk, h2⟩ := h
    split at h2
    · rename_i ps hps
      cases hr : IncMemo.resolveM fs.env incs ⟨ps.1, dirnameK f, ps.2⟩ with
      | none => rw [hr] at h2; simp at h2
      | some inc =>
        rw [hr] at h2
        simp only [Option.map_some, beq_iff_eq, Option.some.injEq] at h2
        exact ⟨idx, n, [], ps.1, ps.2, inc, hn, hk, hps, hr, h2.symm⟩
    · cases h2
  · cases h

/-! ## justified attributions -/

/-- every platform recorded at a node of a file `f` is justified by `A f p` -/
def Good (A : String → String → Prop) (s : PState) : Prop := ∀ a ∈ s.assoc, ∀ p ∈ a.2, A a.1.1 p

theorem addAssoc_good (A : String → String → Prop) (s : PState) (f : String) (i : Nat) (p : String)
    (hs : Good A s) (ha : A f p) : Good A (s.addAssoc f i p) := by
  unfold PState.addAssoc
  split
  · split
    · exact hs
    · intro a hmem q hq
      simp only [List.mem_map] at hmem
      obtain ⟨e, he, rfl⟩ := hmem
      by_cases hk : (e.1 == (f, i)) = true
      · have he1 : e.1 = (f, i) := by simpa using hk
        simp only [hk, if_true] at hq ⊢
        rcases List.mem_append.mp hq with hq | hq
        · exact hs e he q hq
        · simp only [List.mem_singleton] at hq
          subst hq; rw [he1]; exact ha
      · simp only [hk, Bool.false_eq_true, if_false] at hq ⊢
        exact hs e he q hq
  · intro a hmem q hq
    simp only [List.mem_append, List.mem_singleton] at hmem
    rcases hmem with hm | rfl
    · exact hs a hm q hq
    · simp only [List.mem_singleton] at hq
      subst hq; exact ha

theorem foldl_addAssoc_good (A : String → String → Prop) (out : List Nat) (s : PState) (f p : String)
    (hs : Good A s) (ha : A f p) : Good A (out.foldl (fun s i => s.addAssoc f i p) s) := by
  induction out generalizing s with
  | nil => exact hs
  | cons i out ih => exact ih _ (addAssoc_good A s f i p hs ha)

theorem insertFile_good (A : String → String → Prop) (s : PState) (pfs : ParsedFS) (f : String) (hs : Good A s) :
    Good A (s.insertFile pfs f) := by
  intro a ha
  rw [(insertFile_frame s pfs f).2.2] at ha
  exact hs a ha

/-! ## the invariant of one entry's run -/

structure RInv (fs : FS) (A : String → String → Prop) (pname : String) (incs : List String) (w : World) : Prop where
  sound : IncMemo.Sound IncMemo.Query.key (IncMemo.resolveM fs.env incs) w.plat.memo
  name : w.plat.name = pname
  incs : w.plat.incPaths = incs
  good : Good A w.st

theorem RInv.setErr {fs : FS} {A : String → String → Prop} {pname : String} {incs : List String} {w : World}
    (h : RInv fs A pname incs w) (e : Err) : RInv fs A pname incs (w.setErr e) :=
  ⟨h.sound, h.name, h.incs, h.good⟩

/-- an include directive: the invariant is kept, and a file that is entered is one the directive resolves to -/
theorem includeStep_reach (fs : FS) (pfs : ParsedFS) (A : String → String → Prop) (pname : String) (incs : List String)
    (file : String) (w : World) (idx : Nat) (n : PNode) (h : RInv fs A pname incs w) :
    RInv fs A pname incs (includeStep true fs pfs file w idx n).2 ∧
    ∀ g, (includeStep true fs pfs file w idx n).1 = some g →
      ∃ name sys inc, includeTarget w.plat.tbl n.toks = .ok (name, sys) ∧
        IncMemo.resolveM fs.env incs ⟨name, dirnameK file, sys⟩ = some inc ∧ g = fs.realpath inc := by
  have hi := h.incs
  subst hi
  unfold includeStep
  split
  · exact ⟨h.setErr _, by intro g hg; simp at hg⟩
  · rename_i ps hps
    obtain ⟨h1, h2⟩ := lookupWith_true_spec fs w.plat.incPaths w.plat.memo ⟨ps.1, dirnameK file, ps.2⟩ h.sound
    simp only []
    split
    · exact ⟨⟨h2, h.name, h.incs, h.good⟩, by intro g hg; simp at hg⟩
    · rename_i inc hsome
      rw [h1] at hsome
      split
      · exact ⟨⟨h2, h.name, h.incs, h.good⟩, by intro g hg; simp at hg⟩
      · have hgood : Good A (PState.insertFile ({ w.st with visits := w.st.visits ++
            [(⟨file, idx, n.lines.headD 0, ps.1, ps.2, w.plat.incPaths,
              IncMemo.resolveM fs.env w.plat.incPaths ⟨ps.1, dirnameK file, ps.2⟩⟩ : Visit)] }) pfs (fs.realpath inc)) :=
          insertFile_good A _ pfs _ h.good
        split
        · exact ⟨⟨h2, h.name, h.incs, hgood⟩, by intro g hg; simp at hg⟩
        · refine ⟨⟨h2, h.name, h.incs, hgood⟩, ?_⟩
          intro g hg
          simp only [Option.some.injEq] at hg
          exact ⟨ps.1, ps.2, inc, by rw [hps], hsome, hg.symm⟩

theorem enter_reach (fs : FS) (pfs : ParsedFS) (A : String → String → Prop) (pname : String) (incs : List String)
    (file : String) (w : World) (idx : Nat) (h : RInv fs A pname incs w) :
    RInv fs A pname incs (enter true fs pfs file w idx).2 ∧
    ∀ g, (enter true fs pfs file w idx).1 = some g → Includes fs pfs incs file g := by
  unfold enter
  split
  · exact ⟨h, by intro g hg; simp at hg⟩
  · split
    · exact ⟨h, by intro g hg; simp at hg⟩
    · rename_i n hn
      split
      · split
        · split
          · exact ⟨⟨h.sound, h.name, h.incs, h.good⟩, by intro g hg; simp at hg⟩
          · exact ⟨h, by intro g hg; simp at hg⟩
        · exact ⟨h, by intro g hg; simp at hg⟩
      · split
        · split
          · exact ⟨h, by intro g hg; simp at hg⟩
          · exact ⟨⟨h.sound, h.name, h.incs, h.good⟩, by intro g hg; simp at hg⟩
        · exact ⟨h.setErr _, by intro g hg; simp at hg⟩
      · exact ⟨⟨h.sound, h.name, h.incs, h.good⟩, by intro g hg; simp at hg⟩
      · rename_i hk
        obtain ⟨a, b⟩ := includeStep_reach fs pfs A pname incs file w idx n h
        refine ⟨a, ?_⟩
        intro g hg
        obtain ⟨name, sys, inc, h1, h2, h3⟩ := b g hg
        exact ⟨idx, n, w.plat.tbl, name, sys, inc, hn, hk, h1, h2, h3⟩
      · exact ⟨h, by intro g hg; simp at hg⟩

/-- the per-directive operations of the model keep `RInv` inside files satisfying `Q`, when `Q` is closed under the
include relation and justifies an attribution to the platform -/
theorem ops_reach (fs : FS) (pfs : ParsedFS) (A : String → String → Prop) (pname : String) (incs : List String)
    (Q : String → Prop) (hQ : ∀ f g, Q f → Includes fs pfs incs f g → Q g) (hA : ∀ f, Q f → A f pname) :
    OpsInvQ (RInv fs A pname incs) Q (ops fs pfs) where
  evalIf file w i hw := by
    simp only [ops, opsWith]
    split
    · rcases evalCondW_cases w _ with h | ⟨e, h⟩ <;> rw [h]
      · exact hw
      · exact hw.setErr e
    · exact hw
  enter file w i hq hw := by
    obtain ⟨a, b⟩ := enter_reach fs pfs A pname incs file w i hw
    exact ⟨a, fun g hg => hQ file g hq (b g hg)⟩
  record w file out hq hw := by
    simp only [ops, opsWith]
    refine ⟨hw.sound, hw.name, hw.incs, ?_⟩
    exact foldl_addAssoc_good A out w.st file w.plat.name hw.good (by rw [hw.name]; exact hA file hq)
  noFuel w hw := hw.setErr _
  crash w hw := hw.setErr _

/-- one `-include` name -/
theorem forced_reach (fs : FS) (pfs : ParsedFS) (A : String → String → Prop) (pname : String) (incs : List String)
    (Q : String → Prop) (hQ : ∀ f g, Q f → Includes fs pfs incs f g → Q g) (hA : ∀ f, Q f → A f pname)
    (fuel : Nat) (src : String) (w : World) (inc : String)
    (hroot : ∀ r, IncMemo.resolveM fs.env incs ⟨inc, dirnameK src, false⟩ = some r → Q (fs.realpath r))
    (h : RInv fs A pname incs w) :
    RInv fs A pname incs (forcedWith true (assocFile (ops fs pfs) fuel) fs pfs src w inc) := by
  have hi := h.incs
  subst hi
  unfold forcedWith
  split
  · exact h
  · obtain ⟨h1, h2⟩ := lookupWith_true_spec fs w.plat.incPaths w.plat.memo ⟨inc, dirnameK src, false⟩ h.sound
    simp only []
    split
    · exact ⟨h2, h.name, h.incs, h.good⟩
    · rename_i f hsome
      rw [h1] at hsome
      split
      · exact ⟨h2, h.name, h.incs, h.good⟩
      · have hgood : Good A (PState.insertFile ({ w.st with visits := w.st.visits ++
            [(⟨src, 0, 0, inc, false, w.plat.incPaths,
              IncMemo.resolveM fs.env w.plat.incPaths ⟨inc, dirnameK src, false⟩⟩ : Visit)] }) pfs (fs.realpath f)) :=
          insertFile_good A _ pfs _ h.good
        split
        · exact ⟨h2, h.name, h.incs, hgood⟩
        · exact assocFile_invQ (RInv fs A pname w.plat.incPaths) Q (ops fs pfs) (ops_reach fs pfs A pname w.plat.incPaths Q hQ hA) fuel _
            (hroot f hsome) _ ⟨h2, h.name, h.incs, hgood⟩

theorem reachE_step (fs : FS) (pfs : ParsedFS) (e : Entry) (f g : String) (hf : ReachE fs pfs e f)
    (hg : Includes fs pfs e.includePaths f g) : ReachE fs pfs e g := by
  obtain ⟨root, hr, hreach⟩ := hf
  exact ⟨root, hr, .step hreach hg⟩

/-- one database entry of platform `pname` -/
theorem runEntry_good (fs : FS) (pfs : ParsedFS) (A : String → String → Prop) (fuel : Nat) (pname : String)
    (st : PState) (e : Entry) (hA : ∀ f, ReachE fs pfs e f → A f pname) (h : Good A st) :
    Good A (runEntryWith true (assocFile (ops fs pfs) fuel) fs pfs pname st e) := by
  unfold runEntryWith
  split
  · exact h
  · split
    · exact h
    · rename_i tbl _
      have hops := ops_reach fs pfs A pname e.includePaths (ReachE fs pfs e) (reachE_step fs pfs e) hA
      have h0 : RInv fs A pname e.includePaths { st := st, plat := { name := pname, tbl := tbl, incPaths := e.includePaths } } :=
        ⟨IncMemo.sound_nil _ _, rfl, rfl, h⟩
      have h1 := foldl_inv_mem (RInv fs A pname e.includePaths) (forcedWith true (assocFile (ops fs pfs) fuel) fs pfs e.file)
        e.includeFiles (fun a x hx ha => forced_reach fs pfs A pname e.includePaths (ReachE fs pfs e)
          (reachE_step fs pfs e) hA fuel e.file a x
          (fun r hr => ⟨fs.realpath r, .inr ⟨x, hx, r, hr, rfl⟩, .self⟩) ha) _ h0
      simp only []
      split
      · exact h1.good
      · exact (assocFile_invQ (RInv fs A pname e.includePaths) (ReachE fs pfs e) (ops fs pfs) hops fuel _
          ⟨fs.realpath e.file, .inl rfl, .self⟩ _ h1).good

/-- what justifies an attribution of `f` to `p` in an analysis of `config` -/
def Justified (fs : FS) (pfs : ParsedFS) (config : List (String × List Entry)) (f p : String) : Prop :=
  ∃ pe ∈ config, pe.1 = p ∧ ∃ e ∈ pe.2, ReachE fs pfs e f

/-- the whole analysis: every attribution is justified -/
theorem find_good (fs : FS) (codebase : List String) (config : List (String × List Entry)) (fuel : Nat) :
    Good (Justified fs (parseAll fs) config) (find fs codebase config fuel) := by
  unfold find findWith
  simp only []
  apply foldl_inv_mem (Good (Justified fs (parseAll fs) config))
  · intro st pe hpe hst
    apply foldl_inv_mem (Good (Justified fs (parseAll fs) config))
    · intro a e he ha
      exact runEntry_good fs (parseAll fs) _ fuel pe.1 a e (fun f hf => ⟨pe, hpe, rfl, e, he, hf⟩) ha
    · exact hst
  · apply foldl_inv (Good (Justified fs (parseAll fs) config))
    · intro s f hs
      exact insertFile_good _ s (parseAll fs) _ hs
    · intro a ha; simp at ha

end CbiVerif.Inc
