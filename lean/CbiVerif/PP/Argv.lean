/-! Model of the argparse subset used by config.ArgumentParser.parse_args (CPython 3.12), with the
    drafted repairs D14 (separate -isystem list), D20 (nargs='?') applied. -/
namespace CbiVerif.Argv

def sdrop (s : String) (n : Nat) : String := String.ofList (s.toList.drop n)
def stake (s : String) (n : Nat) : String := String.ofList (s.toList.take n)

inductive Nargs | one | opt | zero deriving DecidableEq, Repr, Inhabited

inductive Act
  | append (dest : String)
  | ignore
  | appendConst (dest : String) (const : String)
  | storeSplit (sep : String) (prefix_ : String) (flag0 : String)      -- dest = passes, format = prefix ++ "$value"
  | extendMatch (prefix_ : String) (flag0 : String) (override : Bool)   -- dest = passes; regex results supplied by the harness
deriving Repr, Inhabited

structure Opt where
  flags : List String
  nargs : Nargs
  act : Act
deriving Repr, Inhabited

def baseTable : List Opt := [
  ⟨["-D"], .one, .append "defines"⟩,
  ⟨["-I"], .one, .append "include_paths"⟩,
  ⟨["-isystem"], .one, .append "system_include_paths"⟩,
  ⟨["-include"], .one, .append "include_files"⟩,
  ⟨["-O"], .opt, .ignore⟩, ⟨["-o"], .one, .ignore⟩, ⟨["-g"], .opt, .ignore⟩, ⟨["-c"], .opt, .ignore⟩]

def optionStrings (t : List Opt) : List (String × Opt) := t.flatMap fun o => o.flags.map fun f => (f, o)
def lookup (t : List Opt) (s : String) : Option Opt := ((optionStrings t).find? (·.1 == s)).map (·.2)

inductive Cls
  | positional
  | unknown
  | opt (ostr : String) (o : Opt) (explicit : Option String)
  | ambiguous
deriving Repr, Inhabited

def isNegNumber (s : String) : Bool :=
  match s.toList with
  | '-' :: rest =>
    let (intp, frac) := rest.span Char.isDigit
    (!intp.isEmpty && frac.isEmpty) ||
    (match frac with | '.' :: d => !d.isEmpty && d.all Char.isDigit | _ => false)
  | _ => false

/-- _parse_optional -/
def classify (t : List Opt) (a : String) : Cls :=
  if a.isEmpty || a.front != '-' then .positional
  else match lookup t a with
  | some o => .opt a o none
  | none =>
    if a.length == 1 then .positional
    else
      let eqSplit : Option Cls :=
        match a.splitOn "=" with
        | l :: r1 :: rs => (lookup t l).map fun o => .opt l o (some ("=".intercalate (r1 :: rs)))
        | _ => none
      match eqSplit with
      | some c => c
      | none =>
        let tuples : List Cls :=
          if a.toList[1]! == '-' then []
          else (optionStrings t).filterMap fun (os, o) =>
            if os == stake a 2 then some (.opt os o (some (sdrop a 2)))
            else if os.startsWith a then some (.opt os o none) else none
        match tuples with
        | _ :: _ :: _ => .ambiguous
        | [c] => c
        | [] =>
          if isNegNumber a then .positional
          else if a.contains ' ' then .positional
          else .unknown

structure NS where
  lists : List (String × List String) := []     -- defines, include_paths, system_include_paths, include_files, modes, passes
  passesByFlag : List (String × List String) := []   -- namespace._passes
deriving Repr, Inhabited

def NS.get (n : NS) (k : String) : List String := ((n.lists.find? (·.1 == k)).map (·.2)).getD []
def NS.append (n : NS) (k v : String) : NS :=
  if (n.lists.find? (·.1 == k)).isSome then { n with lists := n.lists.map fun e => if e.1 == k then (k, e.2 ++ [v]) else e }
  else { n with lists := n.lists ++ [(k, [v])] }
def NS.setPasses (n : NS) (flag : String) (vs : List String) : NS :=
  if (n.passesByFlag.find? (·.1 == flag)).isSome then { n with passesByFlag := n.passesByFlag.map fun e => if e.1 == flag then (flag, vs) else e }
  else { n with passesByFlag := n.passesByFlag ++ [(flag, vs)] }

inductive PErr | argumentError (msg : String) | systemExit deriving Repr, DecidableEq

structure PState where
  ns : NS
  extras : List String := []
  fileLeft : Bool := true
  overrideUsed : List String := []      -- extend_match actions whose `override` has been consumed

/-- take_action -/
def takeAction (st : PState) (ostr : String) (o : Opt) (vals : List String) (matches_ : String → String → List String) : PState :=
  match o.act with
  | .ignore => st
  | .append d => match vals with | v :: _ => { st with ns := st.ns.append d v } | [] => st
  | .appendConst d c => { st with ns := st.ns.append d c }
  | .storeSplit sep pre _ =>
    match vals with
    | v :: _ => { st with ns := st.ns.setPasses ostr ((v.splitOn sep).map (pre ++ ·)) }
    | [] => st
  | .extendMatch pre flag0 override =>
    match vals with
    | v :: _ =>
      let ms := (matches_ flag0 v).map (pre ++ ·)
      let cur := ((st.ns.passesByFlag.find? (·.1 == flag0)).map (·.2)).getD []
      if override && !st.overrideUsed.contains flag0 then
        { st with ns := st.ns.setPasses flag0 ms, overrideUsed := st.overrideUsed ++ [flag0] }
      else { st with ns := st.ns.setPasses flag0 (cur ++ ms) }
    | [] => st

/-- parse_known_args for this parser shape -/
def parseKnown (t : List Opt) (ns0 : NS) (argv : List String) (matches_ : String → String → List String) :
    Except PErr (NS × List String) := do
  let args := argv.toArray
  let n := args.size
  -- classification pass
  let mut cls : Array (Option Cls) := Array.replicate n none
  let mut pat : Array Char := Array.replicate n 'A'
  let mut seenDD := false
  for i in [0:n] do
    let a := args[i]!
    if seenDD then pat := pat.set! i 'A'
    else if a == "--" then pat := pat.set! i '-'; seenDD := true
    else
      match classify t a with
      | .positional => pat := pat.set! i 'A'
      | .ambiguous => throw .systemExit
      | c => cls := cls.set! i (some c); pat := pat.set! i 'O'
  let optIdx := (List.range n).filter fun i => (cls[i]!).isSome
  let maxO : Int := match optIdx.getLast? with | some m => m | none => -1
  let mut st : PState := { ns := ns0 }
  let mut i := 0
  let mut fuel := 4 * n + 8
  let consumePositionals (st : PState) (i : Nat) : PState × Nat :=
    if !st.fileLeft then (st, i) else
      let rec run (j : Nat) (fuel : Nat) : Nat :=
        match fuel with
        | 0 => j
        | fuel + 1 => if j < n && (pat[j]! == 'A' || pat[j]! == '-') then run (j + 1) fuel else j
      ({ st with fileLeft := false }, run i (n + 1))
  while (i : Int) ≤ maxO && fuel > 0 do
    fuel := fuel - 1
    let nxt := (optIdx.find? (· ≥ i)).getD n
    if i != nxt then
      let (st2, e) := consumePositionals st i
      st := st2
      if e > i then i := e; continue
    if (cls[i]!).isNone then
      st := { st with extras := st.extras ++ (args.toList.drop i).take (nxt - i) }
      i := nxt
    match cls[i]! with
    | some (.opt ostr o explicit) =>
      -- consume_optional
      let mut o := o
      let mut ostr := ostr
      let mut exp := explicit
      let mut done := false
      let mut inner := 64
      while !done && inner > 0 do
        inner := inner - 1
        match exp with
        | some e =>
          if o.nargs == .zero && e != "" && !(ostr.toList[1]! == '-') then
            st := takeAction st ostr o [] matches_
            let no := "-" ++ (stake e 1)
            match lookup t no with
            | some o2 => o := o2; ostr := no; exp := if e.length > 1 then some (sdrop e 1) else none
            | none => throw (.argumentError "ignored explicit argument")
          else if o.nargs == .one || o.nargs == .opt then
            st := takeAction st ostr o [e] matches_
            i := i + 1; done := true
          else throw (.argumentError "ignored explicit argument")
        | none =>
          match o.nargs with
          | .zero => st := takeAction st ostr o [] matches_; i := i + 1; done := true
          | .one =>
            if i + 1 < n && pat[i + 1]! == 'A' then
              st := takeAction st ostr o [args[i + 1]!] matches_; i := i + 2; done := true
            else throw (.argumentError "expected one argument")
          | .opt =>
            if i + 1 < n && pat[i + 1]! == 'A' then
              st := takeAction st ostr o [args[i + 1]!] matches_; i := i + 2; done := true
            else
              st := takeAction st ostr o [] matches_; i := i + 1; done := true
    | some .unknown => st := { st with extras := st.extras ++ [args[i]!] }; i := i + 1
    | _ => i := i + 1
  let (st3, stop) := consumePositionals st i
  return (st3.ns, st3.extras ++ args.toList.drop stop)

end CbiVerif.Argv
