import CbiVerif.Lemmas.Metrics
import CbiVerif.Lemmas.C06
import CbiVerif.Lemmas.C14Compose
import CbiVerif.Model.C14Metrics
import CbiVerif.Spec.C06
/-!
Helper lemmas for `Props/C14Metrics.lean`, part 2 (exact values): every count the metrics of `Model/Metrics.lean` are made of is a
weighted sum `wsum sm w`; a dict with distinct keys whose rows are the numbers of lines of an attribution `L` carrying exactly that
key has the same weighted sums as `L` read line by line (`lineSetmap L`), hence — all rows positive — the same metrics.
-/
namespace CbiVerif.C14C
open CbiVerif.SM CbiVerif.C06C CbiVerif.Metrics

theorem wsum_lineSetmap (w : Key → Bool) (L : List (Nat × Key)) : wsum (lineSetmap L) w = L.countP fun y => w y.2 := by
  induction L with
  | nil => rfl
  | cons y L ih =>
    unfold lineSetmap at ih ⊢
    rw [List.map_cons, wsum_cons, ih, List.countP_cons]
    cases w y.2 <;> simp <;> omega

theorem countP_split_key (w : Key → Bool) (k : Key) (L : List (Nat × Key)) :
    (if w k then L.countP (fun y => y.2 = k) else 0) + L.countP (fun y => w y.2 && !decide (y.2 = k))
      = L.countP fun y => w y.2 := by
  induction L with
  | nil => simp
  | cons y L ih =>
    simp only [List.countP_cons]
    rw [← ih]
    by_cases hy : y.2 = k
    · subst hy
      cases hw : w y.2 <;> simp [hw] <;> omega
    · cases hw : w k <;> cases hwy : w y.2 <;> simp [hy, hw, hwy] <;> omega

/-- a dict with distinct keys whose row of `k` is the number of lines of `L` carrying `k`, for every `k`, has the weighted sums of `L` -/
theorem wsum_eq_countP (w : Key → Bool) : ∀ (sm : SM.Setmap) (L : List (Nat × Key)), (keys sm).Nodup →
    (∀ k, SM.get sm k = L.countP fun y => y.2 = k) → wsum sm w = L.countP fun y => w y.2
  | [], L, _, h => by
    have : L = [] := by
      cases L with
      | nil => rfl
      | cons y L => have := h y.2; simp [SM.get, List.countP_cons] at this
    subst this; rfl
  | e :: rest, L, hnd, h => by
    have hnd2 : (e.1 :: keys rest).Nodup := hnd
    have hnd' : (keys rest).Nodup := (List.nodup_cons.mp hnd2).2
    have hnot : e.1 ∉ keys rest := (List.nodup_cons.mp hnd2).1
    have h0 : SM.get rest e.1 = 0 := get_of_not_mem rest e.1 hnot
    have he : e.2 = L.countP (fun y => y.2 = e.1) := by
      have := h e.1
      simpa [SM.get, h0] using this
    have ih := wsum_eq_countP w rest (L.filter fun y => !decide (y.2 = e.1)) hnd' (by
      intro k
      rw [List.countP_filter]
      by_cases hk : e.1 = k
      · subst hk
        rw [h0]; symm
        apply List.countP_eq_zero.mpr
        intro y _; simp
      · have := h k
        simp only [SM.get, if_neg hk, Nat.zero_add] at this
        rw [this]
        apply List.countP_congr
        intro y _
        simp only [Bool.and_eq_true, decide_eq_true_eq, Bool.not_eq_true', decide_eq_false_iff_not]
        exact ⟨fun hy => ⟨hy, fun h' => hk (h'.symm.trans hy)⟩, fun hy => hy.1⟩)
    rw [wsum_cons, ih, he, List.countP_filter]
    exact countP_split_key w e.1 L

/-! ## two setmaps with the same weighted sums have the same metrics -/

/-- same weighted sums -/
def WEq (sm sm' : SM.Setmap) : Prop := ∀ w : Key → Bool, wsum sm w = wsum sm' w

section weq
variable {sm sm' : SM.Setmap} (hW : WEq sm sm')
include hW

theorem total_weq : Metrics.total sm = Metrics.total sm' := by rw [total_eq_wsum, total_eq_wsum, hW]
theorem usedBy_weq (ps : List String) : usedBy sm ps = usedBy sm' ps := by rw [usedBy_eq_wsum, usedBy_eq_wsum, hW]
theorem unionCount_weq (p q : String) : unionCount sm p q = unionCount sm' p q := by
  rw [unionCount_eq_wsum, unionCount_eq_wsum, hW]
theorem xorCount_weq (p q : String) : xorCount sm p q = xorCount sm' p q := by
  rw [xorCount_eq_wsum, xorCount_eq_wsum, hW]
theorem interCount_weq (p q : String) : interCount sm p q = interCount sm' p q := by
  rw [interCount_eq_wsum, interCount_eq_wsum, hW]

theorem coverage0_weq (ps : List String) : coverage0 sm ps = coverage0 sm' ps := by
  unfold coverage0; rw [usedBy_weq hW, total_weq hW]

theorem distance0_weq (p q : String) : distance0 sm p q = distance0 sm' p q := by
  unfold distance0; rw [xorCount_weq hW, unionCount_weq hW]

theorem distance_weq (p q : String) : Metrics.distance sm p q = Metrics.distance sm' p q := by
  unfold Metrics.distance; rw [unionCount_weq hW, distance0_weq hW]

theorem pairsDefined_weq (l : List String) : pairsDefined sm l = pairsDefined sm' l := by
  induction l with
  | nil => rfl
  | cons a l ih => simp only [pairsDefined, ih, unionCount_weq hW]

theorem divergenceOn_weq (l : List String) : divergenceOn sm l = divergenceOn sm' l := by
  unfold divergenceOn
  rw [pairsDefined_weq hW, pairSum_congr (fun a b => distance0_weq hW a b) l]

theorem avgOn_weq (l : List String) : avgOn sm l = avgOn sm' l := by
  unfold avgOn
  rw [total_weq hW]
  have : (fun p => coverage0 sm [p]) = (fun p => coverage0 sm' [p]) := funext fun p => coverage0_weq hW [p]
  rw [this]

end weq

theorem wsum_pos_iff (sm : SM.Setmap) (hpos : ∀ e ∈ sm, 0 < e.2) (w : Key → Bool) :
    0 < wsum sm w ↔ ∃ e ∈ sm, w e.1 = true := by
  induction sm with
  | nil => simp
  | cons e sm ih =>
    rw [wsum_cons, List.exists_mem_cons_iff]
    have ih' := ih (fun e' he' => hpos e' (List.mem_cons_of_mem _ he'))
    have he := hpos e List.mem_cons_self
    cases hw : w e.1 with
    | true => simp only [if_true, true_or, iff_true]; omega
    | false => simp only [Bool.false_eq_true, if_false, false_or, Nat.zero_add]; exact ih'

/-- with all rows positive the platforms of the dict are determined by the weighted sums -/
theorem platformsOf_weq {sm sm' : SM.Setmap} (hW : WEq sm sm') (hpos : ∀ e ∈ sm, 0 < e.2) (hpos' : ∀ e ∈ sm', 0 < e.2) :
    (platformsOf sm).Perm (platformsOf sm') := by
  rw [List.perm_ext_iff_of_nodup (nodup_platformsOf _) (nodup_platformsOf _)]
  intro p
  have key : ∀ s : SM.Setmap, (∀ e ∈ s, 0 < e.2) → (p ∈ platformsOf s ↔ 0 < wsum s (fun k => k.contains p)) := by
    intro s hs
    rw [mem_platformsOf, wsum_pos_iff s hs]
    simp only [List.contains_iff_mem]
  rw [key sm hpos, key sm' hpos', hW]

theorem selected_weq {sm sm' : SM.Setmap} (hW : WEq sm sm') (hpos : ∀ e ∈ sm, 0 < e.2) (hpos' : ∀ e ∈ sm', 0 < e.2)
    (ps : List String) : (selected sm ps).Perm (selected sm' ps) := by
  unfold selected
  split
  · exact platformsOf_weq hW hpos hpos'
  · exact List.Perm.refl _

/-- the four metrics of two dicts with the same weighted sums and positive rows are equal -/
theorem metrics_weq {sm sm' : SM.Setmap} (hW : WEq sm sm') (hpos : ∀ e ∈ sm, 0 < e.2) (hpos' : ∀ e ∈ sm', 0 < e.2) :
    (∀ ps, Metrics.coverage sm ps = Metrics.coverage sm' ps) ∧
    (∀ ps, Metrics.averageCoverage sm ps = Metrics.averageCoverage sm' ps) ∧
    (∀ p q, Metrics.distance sm p q = Metrics.distance sm' p q) ∧
    Metrics.divergence sm = Metrics.divergence sm' := by
  refine ⟨fun ps => ?_, fun ps => ?_, distance_weq hW, ?_⟩
  · rw [coverage_eq, coverage_eq, total_weq hW, coverage0_weq hW,
      coverage0_set sm' (fun p => (selected_weq hW hpos hpos' ps).mem_iff)]
  · rw [averageCoverage_eq, averageCoverage_eq, avgOn_weq hW,
      avgOn_perm (List.Perm.refl sm') (selected_weq hW hpos hpos' ps)]
  · unfold Metrics.divergence
    rw [divergenceOn_weq hW, divergenceOn_perm' (List.Perm.refl sm') (platformsOf_weq hW hpos hpos')]

/-! ## the rows of `get_setmap` are positive when every node holds a line -/

theorem getSetmap_rows_pos (fs : List FileRec) (hwf : NodesWF fs) (hl : ∀ r ∈ fs, r.link = false)
    (hn : ∀ r ∈ fs, ∀ n ∈ r.nodes, 1 ≤ n.numLines)
    (hrow : ∀ k, SM.get (getSetmap fs) k = specCount fs k) : ∀ e ∈ getSetmap fs, 0 < e.2 := by
  intro e he
  obtain ⟨r, hr, n, hnr, hp⟩ := key_of_getSetmap fs e he
  have hget : SM.get (getSetmap fs) e.1 = e.2 := CbiVerif.FTm.get_of_mem _ (nodup_keys_getSetmap fs) e.1 e.2 he
  rw [← hget, hrow]
  unfold specCount
  rw [List.countP_pos_iff]
  have hlen : 0 < n.lines.length := by rw [← hwf r hr n hnr]; exact hn r hr n hnr
  obtain ⟨l, hlm⟩ := List.exists_mem_of_length_pos hlen
  refine ⟨(l, n.plats), ?_, by simp [hp]⟩
  unfold allLines lineAttr
  simp only [List.mem_flatMap, List.mem_filter, List.mem_map]
  exact ⟨r, ⟨hr, by simp [hl r hr]⟩, n, hnr, l, hlm, rfl⟩

theorem parses_unique {files : List SrcFile} {ps ps' : List Parsed}
    (h : List.Forall₂ (fun (f : SrcFile) (p : Parsed) => parseSrc f.text = .ok p) files ps)
    (h' : List.Forall₂ (fun (f : SrcFile) (p : Parsed) => parseSrc f.text = .ok p) files ps') : ps = ps' := by
  induction h generalizing ps' with
  | nil => cases h'; rfl
  | cons hp _ ih =>
    cases h' with
    | cons hp' ht' =>
      rw [ih ht']
      congr 1
      exact Except.ok.inj (hp.symm.trans hp')

theorem lineSetmap_pos (L : List (Nat × Key)) : ∀ e ∈ lineSetmap L, 0 < e.2 := by
  intro e he
  unfold lineSetmap at he
  obtain ⟨y, _, rfl⟩ := List.mem_map.mp he
  exact Nat.one_pos

end CbiVerif.C14C
