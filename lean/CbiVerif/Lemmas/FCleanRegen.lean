import CbiVerif.Model.FCleanCells
import CbiVerif.Generated.FCleanTable
import CbiVerif.Generated.CCleanTable
/-!
# The hand-written `fortran_cleaner` / directives-only `c_cleaner` models against the regenerated tables

Finite comparisons as `Bool` functions closed by kernel `decide`; `Props/C17Table.lean` holds the theorems.
-/
namespace CbiVerif.Fortran.Regen
open CbiVerif.Fortran

def lineRowOK (row : (List Nat × List Nat) × List (List Nat × Entry)) : Bool :=
  (startSt row.1).stack.map modeId == row.1.1 &&
  row.2.all fun p => p.2 == lineObs (startSt row.1) (chars p.1)

set_option maxRecDepth 100000 in
theorem lineRows_ok : Gen.FCleanTable.lines.all lineRowOK = true := by decide

/-- all lines of length ≤ 2 over the class representatives and the lines of length 3 that start with a
    silently consumed representative (`!`, `&`), for every start configuration; the first is the initial one -/
def linesOver (reps silent : List Nat) : List (List Nat) :=
  [[]] ++ reps.map (fun a => [a]) ++ reps.flatMap (fun a => reps.map fun b => [a, b]) ++
  silent.flatMap (fun a => reps.flatMap fun b => reps.map fun c => [a, b, c])

def shapeOK : Bool :=
  (Gen.FCleanTable.lines.head?.map (·.1)) == some ([0], []) &&
  Gen.FCleanTable.lines.all fun row => row.2.map (·.1) == linesOver Gen.FCleanTable.classReps Gen.FCleanTable.silentReps

set_option maxRecDepth 100000 in
theorem shape_ok : shapeOK = true := by decide

/-- the start configurations are closed: what `process` leaves behind is again a start configuration -/
def closedOK : Bool :=
  Gen.FCleanTable.lines.all fun row => row.2.all fun p =>
    p.2.1 || (Gen.FCleanTable.lines.map (·.1)).contains (p.2.2.1, p.2.2.2.1)

set_option maxRecDepth 100000 in
theorem closed_ok : closedOK = true := by decide

/-- the model covers ASCII, NEL and NBSP (`str.isalpha` of other letters is outside its `cls`) -/
def classOK (p : Nat × Nat) : Bool :=
  !(p.1 < 128 || p.1 == 133 || p.1 == 160) || clsIdx (cls (Char.ofNat p.1)) == p.2

theorem classes_ok : Gen.FCleanTable.charClass.all classOK = true := by decide

theorem ascii_listed : (Gen.FCleanTable.charClass.take 128).map (·.1) = List.range 128 := by decide

theorem reps_ok : Gen.FCleanTable.stateNames.length = 5 ∧ Gen.FCleanTable.classReps = [0, 9, 33, 34, 36, 38, 39, 65, 92] ∧
    Gen.FCleanTable.silentReps = [33, 38] := by decide

/-! ## the C pass: every ASCII character in every reachable cell -/

def classOfChar (n : Nat) : Option Nat := (Gen.CCleanTable.charClass[n]?).map (·.2)

def dRowOK (row : List Nat × List (List Gen.CCleanTable.Entry)) : Bool :=
  (row.1.map dModeOfId).map dModeId == row.1 &&
  [false, true].all fun b => (List.range 128).all fun n =>
    (classOfChar n).bind (fun i => (row.2[b.toNat]?).bind (·[i]?)) == some (dCell (row.1.map dModeOfId) b (Char.ofNat n))

set_option maxRecDepth 100000 in
theorem dRows_ok : Gen.CCleanTable.stepD.all dRowOK = true := by decide

def dNlRowOK (row : List Nat × Gen.CCleanTable.Entry) : Bool := row.2 == dNewlineCell (row.1.map dModeOfId)

theorem dNlRows_ok : Gen.CCleanTable.newlineD.all dNlRowOK = true := by decide

def dClosedOK : Bool :=
  let keys := Gen.CCleanTable.stepD.map (·.1)
  keys.contains [0] && Gen.CCleanTable.newlineD.map (·.1) == keys &&
  (Gen.CCleanTable.stepD.all fun row => row.2.all fun es => es.all fun e => e.1 || keys.contains e.2.1) &&
  (Gen.CCleanTable.newlineD.all fun row => row.2.1 || keys.contains row.2.2.1)

theorem dClosed_ok : dClosedOK = true := by decide

end CbiVerif.Fortran.Regen
