import Lean.Data.Json
import CbiVerif.Model.MacroExpand
import CbiVerif.Spec.Prosser
import CbiVerif.PP.Eval
/-! driver ops for C03: `c03` (model + spec + instrumentation for one (definitions, text)),
    `c03def` (one definition through the `#define` path and through the command-line path) -/
open Lean
namespace CbiVerif.Drv.C03
open CbiVerif.PP CbiVerif.MX

def kindName (k : TKind) : String := match k with
  | .num => "num" | .chr => "chr" | .str => "str" | .ident => "ident" | .op => "op" | .punct => "punct" | .unknown => "unknown"

def tokJ (t : Tok) : Json :=
  Json.mkObj [("k", kindName t.kind), ("t", t.text), ("w", t.pw), ("x", t.expandable)]

def errName (e : Err) : String := match e with
  | .runtime _ => "RuntimeError" | .parse _ => "ParseError" | .index => "IndexError" | .type_ => "AttributeError"
  | .overflow => "Overflow" | .other m => "Other:" ++ m

def xrJ (r : XR) : Json := match r with
  | .ok ts => Json.mkObj [("ok", Json.arr (ts.map tokJ).toArray)]
  | .error e => Json.mkObj [("exc", errName e)]
  | .fuel => Json.mkObj [("fuel", true)]

def macroJ (m : PP.Macro) : Json :=
  Json.mkObj [("name", m.name),
    ("args", match m.args with | none => Json.null | some a => Json.arr (a.map Json.str).toArray),
    ("variadic", m.variadic), ("has_strcat", m.hasStrcat),
    ("needs", Json.arr (m.needsExp.map Json.bool).toArray),
    ("repl", Json.arr (m.replacement.map tokJ).toArray)]

def specKind (k : CbiVerif.Spec.Prosser.K) : String := match k with
  | .id => "ident" | .num => "num" | .str => "str" | .chr => "chr" | .punct => "punct"

def specJ (r : Except CbiVerif.Spec.Prosser.Unspec (List CbiVerif.Spec.Prosser.T)) : Json := match r with
  | .ok ts => Json.mkObj [("ok", Json.arr (ts.map fun t => Json.mkObj [("k", specKind t.kind), ("t", t.text), ("w", t.ws)]).toArray)]
  | .error e => Json.mkObj [("unspec", toString (repr e))]

def oldJ (tbl : Table) (ts : List Tok) : Json :=
  match runExpand tbl ts with
  | .ok r => Json.mkObj [("ok", Json.arr (r.map tokJ).toArray)]
  | .error e => Json.mkObj [("exc", errName e)]
  | .sig s => Json.mkObj [("sig", s)]

/-- instrumentation (D11 classifier): at this state `expand` is about to collect the arguments of a call whose
    opening parenthesis `peek_tok` sees *below* an exhausted stream that still holds tokens, so that the popping
    `consume_tok` splices those tokens in front of the read position and consumes one of them instead -/
def misalignedAt (tbl : Table) (s : MS) : Bool :=
  match s.ret, s.stack with
  | none, top :: rest =>
    if top.eol then false else
    match top.toks[top.pos]? with
    | some (some t) =>
      if t.kind == .ident && t.text != "defined" && t.expandable && !s.noExp.contains t.text then
        match tbl.get t.text with
        | some m =>
          if m.args.isSome then
            let top' : MX.Helper := { top with toks := top.toks.set top.pos none, pos := top.pos + 1 }
            match peekDown (top' :: rest) with
            | some p =>
              if p.text == "(" then
                (match consume false top' rest s.noExp with
                 | .ok c _ _ _ => c != p || (top'.eol && !(MX.filterSome top'.toks).isEmpty)
                 | _ => true)
              else false
            | none => false
          else false
        | none => false
      else false
    | _ => false
  | _, _ => false

/-- (iterations, peak stack depth, some call was misaligned) of a run without nesting limit -/
def scan (tbl : Table) : Nat → MS → Nat → Nat → Bool → Nat × Nat × Bool
  | 0, _, n, pk, mis => (n, pk, mis)
  | f + 1, s, n, pk, mis =>
    let mis' := mis || misalignedAt tbl s
    match step { lim := 1000000000 } tbl s with
    | .cont s' => scan tbl f s' (n + 1) (max pk s'.stack.length) mis'
    | _ => (n + 1, pk, mis')

def handleC03 (j : Json) : Json :=
  let defs := ((j.getObjValAs? (Array String) "defs").toOption.getD #[]).toList
  let cmd := ((j.getObjValAs? (Array String) "cmd").toOption.getD #[]).toList
  let text := (j.getObjValAs? String "text").toOption.getD ""
  let wantOld := (j.getObjValAs? Bool "old").toOption.getD false
  let spec := CbiVerif.Spec.Prosser.prosser (cmd.map CbiVerif.Spec.Prosser.cmdlineToDefine ++ defs) text
  let ts := tokenize text
  match buildTable cmd defs with
  | .error e => Json.mkObj [("model", Json.mkObj [("defexc", errName e)]), ("spec", specJ spec)]
  | .ok tbl =>
    let r := cbiExpand tbl ts
    let ev : Json := match r with
      | .ok out => (match evaluate out with
        | .ok b => Json.mkObj [("ok", b)]
        | .error e => Json.mkObj [("exc", errName e)])
      | .error e => Json.mkObj [("exc", errName e)]
      | .fuel => Json.mkObj [("fuel", true)]
    -- instrumentation: the same step function without nesting limit
    let big := 1000000000
    let (steps, peak, mis) := if ts.isEmpty then (0, 0, false) else scan tbl 300000 (initState ts) 0 1 false
    let unl := expandWith { lim := big } tbl 300000 ts
    let fixedSplice := expandWith { lim := CbiVerif.Gen.maxLevel, adv := true } tbl 300000 ts
    Json.mkObj ([("model", xrJ r), ("eval", ev), ("spec", specJ spec),
      ("steps", steps), ("peak", peak), ("misaligned", mis), ("unlimited", xrJ unl), ("splice_advancing", xrJ fixedSplice), ("max_level", CbiVerif.Gen.maxLevel)]
      ++ (if wantOld then [("old", oldJ tbl ts)] else []))

/-- one definition: `{"define": "F(x) x"}` and/or `{"cmdline": "F(x)=x"}` -/
def handleDef (j : Json) : Json :=
  let one (r : Except Err PP.Macro) : Json := match r with
    | .ok m => Json.mkObj [("ok", macroJ m)]
    | .error e => Json.mkObj [("exc", errName e)]
  let d := (j.getObjValAs? String "define").toOption
  let c := (j.getObjValAs? String "cmdline").toOption
  Json.mkObj ((match d with
      | some s => [("define", one (defineLine ("#define " ++ s))),
                   ("spec_define", match CbiVerif.Spec.Prosser.parseDefine s with
                      | .ok _ => Json.str "ok" | .error e => Json.str (toString (repr e)))]
      | none => []) ++
    (match c with
      | some s => [("cmdline", one (defineCmdline s)), ("as_define", Json.str (CbiVerif.Spec.Prosser.cmdlineToDefine s))]
      | none => []))

def handlers : List (String × (Json → Json)) := [("c03", handleC03), ("c03def", handleDef)]

end CbiVerif.Drv.C03
