import CbiVerif.Props.C09

/-!
# C09 / C15 — overlapping code-base directories (repair of F-C09-NEST = F-C15-ROOTS)

`CodeBase.__iter__` walks of the listed (resolved) directories only `CB.walkRoots`: a directory that equals an
earlier one (listed twice, e.g. under its own name and through a symbolic link) or that lies inside another
listed one is skipped.  Property theorems only (helper lemmas: `Lemmas/WalkRoots.lean`, `Lemmas/CodeBase.lean`):
what is walked, that the walked directories never overlap and cover every listed one, that neither the order of
the list nor listing a directory again matters, and what the repair changed — repetitions, nothing else.
`C09.iter_exact`, `C09.iter_nodup` and `C15.counted_once` (no hypothesis on the list of directories any more)
are in `Props/C09.lean`, `Props/C15.lean`.
-/
namespace CbiVerif.C09
open CbiVerif.Path CbiVerif.FS CbiVerif.CB

/-! ## which of the listed directories are walked -/

/-- a directory is walked iff it is listed and no OTHER listed directory is a prefix of it -/
theorem walked_iff (roots : List Comps) (w : Comps) :
    w ∈ walkRoots roots ↔ w ∈ roots ∧ ∀ o ∈ roots, o <+: w → o = w := by
  rw [mem_walkRoots, insideAnother_false_iff]

/-- no directory is walked twice, and of two walked directories none lies inside the other -/
theorem walked_no_overlap (roots : List Comps) :
    (walkRoots roots).Nodup ∧ (walkRoots roots).Pairwise (fun a b => ¬ a <+: b ∧ ¬ b <+: a) :=
  ⟨walkRoots_nodup roots, walkRoots_pairwise roots⟩

/-- every listed directory is a walked one or lies inside a walked one -/
theorem walked_covers (roots : List Comps) (r : Comps) (hr : r ∈ roots) :
    ∃ w ∈ walkRoots roots, w <+: r :=
  exists_walkRoot' roots r hr

/-- the walked directories are the same, up to order, in whichever order the directories are listed;
so are the entries tested for membership -/
theorem walked_order_independent (fs : FS) (r₁ r₂ : List Comps) (h : r₁.Perm r₂) :
    (walkRoots r₁).Perm (walkRoots r₂) ∧ (candidates fs r₁).Perm (candidates fs r₂) :=
  ⟨walkRoots_perm r₁ r₂ h, candidates_perm fs r₁ r₂ h⟩

/-- listing a directory again (under any spelling: the list holds resolved paths), or listing a directory
inside one that is listed already, does not change what is walked -/
theorem relisting_irrelevant (roots : List Comps) (d : Comps) (h : ∃ o ∈ roots, o <+: d) :
    (walkRoots (roots ++ [d])).Perm (walkRoots roots) :=
  walkRoots_append_covered roots d h

/-- on a list without overlap every listed directory is walked, in the listed order -/
theorem walked_of_disjoint (roots : List Comps) (h : roots.Pairwise (fun a b => ¬ a <+: b ∧ ¬ b <+: a)) :
    walkRoots roots = roots :=
  walkRoots_of_disjoint roots h

/-! ## the enumeration and the order of the list -/

/-- `__contains__` consults the list of directories only through `accepted` (first listed directory around the
resolved path, exclude patterns relative to it) -/
theorem contains_congr (cfg : Cfg) (fs : FS) (n : Nat) (r₁ r₂ : List Comps) (cwd : Comps) (p : P)
    (hacc : ∀ c, accepted cfg r₁ c = accepted cfg r₂ c) :
    contains cfg fs n r₁ cwd p = contains cfg fs n r₂ cwd p := by
  unfold contains
  cases realpath fs n (start cwd p) p.comps with
  | ok r =>
    simp only
    cases stat fs n r with
    | none => rfl
    | some e => cases e <;> simp only [hacc]
  | enoent => rfl
  | enotdir => rfl
  | loop => rfl

/-- two orders of the same directories that give every path the same verdict (e.g. because no path lies in two
listed directories with different exclude verdicts) enumerate the same paths, each equally often -/
theorem iter_order_independent (cfg : Cfg) (fs : FS) (n : Nat) (r₁ r₂ l₁ l₂ : List Comps)
    (hp : r₁.Perm r₂) (hacc : ∀ c, accepted cfg r₁ c = accepted cfg r₂ c)
    (h₁ : iter cfg fs n r₁ = .ok l₁) (h₂ : iter cfg fs n r₂ = .ok l₂) : l₁.Perm l₂ := by
  rw [iter_ok cfg fs n r₁ l₁ h₁, iter_ok cfg fs n r₂ l₂ h₂]
  have hf : (fun x => isTrue (contains cfg fs n r₁ [] ⟨true, x⟩)) = (fun x => isTrue (contains cfg fs n r₂ [] ⟨true, x⟩)) := by
    funext x
    rw [contains_congr cfg fs n r₁ r₂ [] ⟨true, x⟩ hacc]
  rw [hf]
  exact (candidates_perm fs r₁ r₂ hp).filter _

/-- without exclude patterns the verdict does not depend on the order of the list … -/
theorem accepted_perm_of_no_excludes (cfg : Cfg) (hign : ∀ rel, cfg.ignored rel = false)
    (r₁ r₂ : List Comps) (hp : r₁.Perm r₂) (c : Comps) : accepted cfg r₁ c = accepted cfg r₂ c := by
  have key : ∀ (r : List Comps), accepted cfg r c = (recognised (name c) && r.any (fun d => isRelativeTo c d)) := by
    intro r
    unfold accepted
    cases hf : r.find? (fun d => isRelativeTo c d) with
    | none =>
      have : r.any (fun d => isRelativeTo c d) = false := by
        rw [List.any_eq_false]
        intro d hd
        have := List.find?_eq_none.mp hf d hd
        simpa using this
      simp [this]
    | some root =>
      have : r.any (fun d => isRelativeTo c d) = true :=
        List.any_eq_true.mpr ⟨root, List.mem_of_find?_eq_some hf, List.find?_some hf⟩
      simp [this, hign]
  rw [key r₁, key r₂, hp.any_eq]

/-- … so `list(CodeBase(d₁, …, dₖ))` is the same up to order for every order of `d₁ … dₖ` -/
theorem iter_order_independent_no_excludes (cfg : Cfg) (hign : ∀ rel, cfg.ignored rel = false)
    (fs : FS) (n : Nat) (r₁ r₂ l₁ l₂ : List Comps) (hp : r₁.Perm r₂)
    (h₁ : iter cfg fs n r₁ = .ok l₁) (h₂ : iter cfg fs n r₂ = .ok l₂) : l₁.Perm l₂ :=
  iter_order_independent cfg fs n r₁ r₂ l₁ l₂ hp (accepted_perm_of_no_excludes cfg hign r₁ r₂ hp) h₁ h₂

/-! ## what the repair changed -/

/-- the enumeration as it was before the repair (every listed directory walked in full) raises in the same
cases and, when it does not, yields the same paths — the repaired one yields each of them once -/
theorem repair_conservative (cfg : Cfg) (fs : FS) (n : Nat) (roots : List Comps) (hwf : wf fs = true) :
    ((∃ e, iter cfg fs n roots = .error e) ↔ (∃ e, iterUnrepaired cfg fs n roots = .error e)) ∧
    (∀ l, iter cfg fs n roots = .ok l →
        ∃ l', iterUnrepaired cfg fs n roots = .ok l' ∧ (∀ x, x ∈ l ↔ x ∈ l') ∧ l.Nodup) := by
  have hany : (candidates fs roots).any (fun x => isErr (contains cfg fs n roots [] ⟨true, x⟩))
      = (candidatesUnrepaired fs roots).any (fun x => isErr (contains cfg fs n roots [] ⟨true, x⟩)) := by
    rw [Bool.eq_iff_iff, List.any_eq_true, List.any_eq_true]
    constructor
    · rintro ⟨x, hx, he⟩; exact ⟨x, (mem_candidates_iff fs hwf roots x).mp hx, he⟩
    · rintro ⟨x, hx, he⟩; exact ⟨x, (mem_candidates_iff fs hwf roots x).mpr hx, he⟩
  constructor
  · unfold iter iterUnrepaired
    simp only [hany]
    cases (candidatesUnrepaired fs roots).any (fun x => isErr (contains cfg fs n roots [] ⟨true, x⟩)) with
    | true => simp
    | false => simp
  · intro l h
    have hl := iter_ok cfg fs n roots l h
    have hne : (candidates fs roots).any (fun x => isErr (contains cfg fs n roots [] ⟨true, x⟩)) = false := by
      unfold iter at h
      simp only at h
      cases hb : (candidates fs roots).any (fun x => isErr (contains cfg fs n roots [] ⟨true, x⟩)) with
      | true => rw [hb] at h; simp at h
      | false => rfl
    refine ⟨(candidatesUnrepaired fs roots).filter fun x => isTrue (contains cfg fs n roots [] ⟨true, x⟩), ?_, ?_, ?_⟩
    · unfold iterUnrepaired
      simp only [← hany, hne]
      rfl
    · intro x
      rw [hl, List.mem_filter, List.mem_filter, mem_candidates_iff fs hwf roots x]
    · exact iter_nodup cfg fs n roots l hwf h

/-- on a list of directories without overlap (the domain on which the enumeration was exact before) the
repair changes nothing at all -/
theorem repair_identity_on_disjoint (cfg : Cfg) (fs : FS) (n : Nat) (roots : List Comps)
    (h : roots.Pairwise (fun a b => ¬ a <+: b ∧ ¬ b <+: a)) :
    iter cfg fs n roots = iterUnrepaired cfg fs n roots := by
  unfold iter iterUnrepaired candidates candidatesUnrepaired
  rw [walkRoots_of_disjoint roots h]

/-! ## non-vacuity and witnesses (`exFS`, `exCfg` of `Props/C09.lean`: `/t/dl -> sub`) -/

/-- `CodeBase("sub", "..", "/out", "../dl")` made in `/t/sub` … -/
example : mkRoots exFS 20 ["t", "sub"] [⟨false, []⟩, ⟨false, [".."]⟩, ⟨true, ["out"]⟩, ⟨false, ["..", "dl"]⟩]
    = .ok [["t", "sub"], ["t"], ["out"], ["t", "sub"]] := by decide
/-- … walks `/t` and `/out` -/
example : walkRoots [["t", "sub"], ["t"], ["out"], ["t", "sub"]] = [["t"], ["out"]] := by decide
/-- hypothesis of `relisting_irrelevant` -/
example : ∃ o ∈ ([["t", "sub"], ["t"], ["out"]] : List Comps), o <+: ["t", "sub"] := ⟨["t"], by decide, by decide⟩
/-- hypotheses of `walked_of_disjoint` / `repair_identity_on_disjoint` -/
example : ([["t", "sub"], ["out"]] : List Comps).Pairwise (fun a b => ¬ a <+: b ∧ ¬ b <+: a) := by decide
/-- a sibling whose NAME has a listed directory's name as a string prefix is not inside it (components, not characters) -/
example : walkRoots [["t", "sub"], ["t", "subway"], ["t", "su"]] = [["t", "sub"], ["t", "subway"], ["t", "su"]] := by decide
/-- hypothesis `hacc` of `iter_order_independent` can fail: with `exCfg` (`sub/x.c` excluded) the verdict on
`/t/sub/x.c` depends on which of `/t`, `/t/sub` is listed first ("that directory" = the first listed one around the file) -/
example : accepted exCfg [["t"], ["t", "sub"]] ["t", "sub", "x.c"] = false ∧
    accepted exCfg [["t", "sub"], ["t"]] ["t", "sub", "x.c"] = true := by decide
/-- hypotheses of `iter_order_independent_no_excludes` -/
example : ([["t", "sub"], ["t"], ["out"]] : List Comps).Perm [["out"], ["t"], ["t", "sub"]] := by decide
example : iter { exCfg with ignored := fun _ => false } exFS 20 [["out"], ["t"], ["t", "sub"]]
    = .ok [["out", "o.c"], ["t", "a.c"], ["t", "sub", "b.h"], ["t", "la.c"], ["t", "lo.c"], ["t", "sub", "x.c"]] := by rfl

/-- the directory listed three times (once through the link `/t/dl`): before the repair every member below it came three times -/
theorem relisted_roots_witness :
    iterUnrepaired exCfg exFS 20 [["t", "sub"], ["t", "sub"], ["out"], ["t", "sub"]]
      = .ok [["t", "sub", "b.h"], ["t", "sub", "x.c"], ["t", "sub", "b.h"], ["t", "sub", "x.c"], ["out", "o.c"],
             ["t", "sub", "b.h"], ["t", "sub", "x.c"]] ∧
    iter exCfg exFS 20 [["t", "sub"], ["t", "sub"], ["out"], ["t", "sub"]]
      = .ok [["t", "sub", "b.h"], ["t", "sub", "x.c"], ["out", "o.c"]] := by
  exact ⟨rfl, rfl⟩

end CbiVerif.C09
